"""C08 / C02 / C06 / C07 (and the restart part of C18): Server.tla bound to the real server stack.

Pipeline: (1) TLC checks the invariants of Server.tla exhaustively for small constants; (2) TLC
-simulate generates action sequences (Server_Gen.tla), the Go executor drives the real
http.Handler/responders/sqlite with them and records one event per exchange; (3) a random driver
that does not consult the specification does the same; (4) every recorded trace is validated
against Server_Trace.tla (each exchange must be a step of the specification with the same response
class, effects and token liveness; every invariant is evaluated in every state of the trace).
"""
import json
import os
import random

from lib.vlib import Inconclusive, write_ndjson, read_ndjson

FORGE64 = ["resign_stranger", "resign_otherdev", "resign_owner", "nonce_other", "ueid_other",
           "ueid_other_key_other", "no_nonce", "no_ueid", "sig_flip", "payload_flip", "xb_empty",
           "ueid_prefix", "ueid_longer", "ueid_type", "nonce_prefix"]
FORGE22 = ["to1d_resign_stranger", "to1d_resign_mfg", "to0d_wait_changed", "hash_wrong", "nonce_other",
           "entry_sig_flip", "no_entries", "no_entries_mfg_signed", "entry_resigned_stranger", "strip_certchain"]
FORGE32 = ["resign_stranger", "resign_otherdev", "nonce_other", "ueid_other", "sig_flip", "no_nonce", "no_ueid",
           "ueid_prefix", "ueid_longer", "ueid_type", "nonce_prefix"]


def tla_set(xs):
    return "{" + ", ".join('"%s"' % x for x in xs) + "}"


SERVED = {"all": ["DI", "TO0", "TO1", "TO2"], "rv": ["TO0", "TO1"], "owner": ["TO2"], "mfg": ["DI"]}


def cfg_text(kind, reuse, nmods, maxreq, slots=4, f64=FORGE64, f22=FORGE22, f32=FORGE32, policy="none", mutants=False, served="all"):
    common = """CONSTANTS
  Slots = {%s}
  Devs = {"dA", "dB"}
  Reuse = %s
  NMods = %d
  Policy = "%s"
  Forge64 = %s
  Forge22 = %s
  Forge32 = %s
  Served = %s
  MaxReq = %d
  WithMutants = TRUE
""" % (", ".join(str(i) for i in range(1, slots + 1)), "TRUE" if reuse else "FALSE", nmods, policy,
       tla_set(f64), tla_set(f22), tla_set(f32), tla_set(SERVED[served]), maxreq)
    invs = "INVARIANTS TypeOK InOrder ErrorsHaveNoEffect NoTokenNoService FinalKills EffectsNeedProof ProvenOnlyByHonest64 ForgedRefused RedirectNeedsRegistration\n"
    if kind == "trace":
        return "SPECIFICATION TraceSpec\n" + common + invs + "POSTCONDITION TraceAccepted\nCHECK_DEADLOCK FALSE\n"
    if kind == "gen":
        return "SPECIFICATION GenSpec\n" + common + "  Mutants = %s\n" % ("TRUE" if mutants else "FALSE") + "INVARIANTS Emit\n"
    raise ValueError(kind)


def to_action(rec):
    k = rec["kind"]
    if k == "start":
        return {"a": "start", "s": rec["s"], "p": rec["p"], "d": rec["d"]}
    if k == "honest":
        return {"a": "honest", "s": rec["s"]}
    if k == "forged":
        return {"a": "forged", "s": rec["s"], "atom": rec["b"]}
    if k == "inject":
        return {"a": "inject", "s": rec["s"], "t": rec["t"], "tok": rec["tok"], "b": rec["b"]}
    if k == "orphan":
        return {"a": "orphan", "s": rec["s"], "t": rec["t"], "b": rec["b"]}
    if k == "mutant":
        return {"a": "mutant", "s": rec["s"], "t": rec["t"], "b": "http" if rec["b"] == "http" else "wire"}
    if k == "errmsg":
        return {"a": "errmsg", "s": rec["s"], "tok": rec["tok"]}
    if k == "expire":
        return {"a": "expire", "d": rec["d"]}
    if k == "restart":
        return {"a": "restart"}
    raise Inconclusive("unknown record kind %r" % k)


def generate(ctx, reuse, nmods, num, maxreq, seed, f64, f22, f32, policy="none", mutants=False, served="all"):
    """TLC-generated behaviours for one world configuration."""
    wd = ctx.sub("gen-%s-%d-%s-%s-%d" % (reuse, nmods, policy, served, seed))
    cfgp = os.path.join(wd, "Server_Gen.cfg")
    with open(cfgp, "w") as f:
        f.write(cfg_text("gen", reuse, nmods, maxreq, slots=3, f64=f64, f22=f22, f32=f32, policy=policy, mutants=mutants, served=served))
    r = ctx.tlc("Server_Gen", cfgp, simulate=num, depth=4 * maxreq, workers=1, seed=seed, quiet=True)
    behs = ctx.behaviours(r)
    seen, out = set(), []
    for b in behs:
        acts = [to_action(x) for x in b]
        key = json.dumps(acts, sort_keys=True)
        if key not in seen:
            seen.add(key)
            out.append(acts)
    ctx.cov["transitions"] += r.get("generated", 0) or 0
    return out


COVER_DIR = os.path.join(os.path.dirname(os.path.dirname(os.path.abspath(__file__))), "spec", "cover")


def cover(ctx, reuse, nmods, policy, maxreq, fine, f64, f22, f32, served="all"):
    """One behaviour per class of specification transition reachable within the bound
    (Server_Cover.tla: breadth-first, history hidden by a VIEW, classes remembered with TLCSet).
    The result depends on the specification only, so it is cached under spec/cover/ keyed by a
    hash of the modules and the configuration; a changed specification regenerates it."""
    import hashlib
    spec = ctx.spec
    cfg = """SPECIFICATION CoverSpec
CONSTANTS
  Slots = {1, 2}
  Devs = {"dA"}
  Reuse = %s
  NMods = %d
  Policy = "%s"
  Forge64 = %s
  Forge22 = %s
  Forge32 = %s
  Served = %s
  MaxReq = %d
  WithMutants = FALSE
  Fine = %s
VIEW CoverView
INVARIANTS Emit
CHECK_DEADLOCK FALSE
""" % ("TRUE" if reuse else "FALSE", nmods, policy, tla_set(f64), tla_set(f22), tla_set(f32), tla_set(SERVED[served]), maxreq, "TRUE" if fine else "FALSE")
    h = hashlib.sha256()
    for fn in ("Server.tla", "Server_Cover.tla"):
        with open(os.path.join(spec, fn), "rb") as f:
            h.update(f.read())
    h.update(cfg.encode())
    key = h.hexdigest()[:20]
    cpath = os.path.join(COVER_DIR, key + ".json")
    if os.path.exists(cpath):
        with open(cpath) as f:
            c = json.load(f)
        ctx.log("transition cover %s: %d classes (cached, %d states)" % (key, len(c["behaviours"]), c["distinct"]))
    else:
        wd = ctx.sub("cover-%s" % key)
        cfgp = os.path.join(wd, "Server_Cover.cfg")
        with open(cfgp, "w") as f:
            f.write(cfg)
        r = ctx.tlc("Server_Cover", cfgp, workers=1, quiet=True, timeout=6000)
        if r["errors"]:
            raise Inconclusive("Server_Cover: " + "; ".join(r["errors"])[:2000])
        behs = ctx.behaviours(r)
        c = {"cfg": cfg, "generated": r.get("generated"), "distinct": r.get("distinct"), "behaviours": behs}
        try:
            os.makedirs(COVER_DIR, exist_ok=True)
            with open(cpath + ".tmp", "w") as f:
                json.dump(c, f)
            os.replace(cpath + ".tmp", cpath)
        except OSError:
            pass
        ctx.log("transition cover %s: %d classes generated (%s states)" % (key, len(behs), r.get("distinct")))
    ctx.cov["states"] += c.get("distinct") or 0
    ctx.cov["transitions"] += c.get("generated") or 0
    ctx.notes["spec_transition_classes"] = ctx.notes.get("spec_transition_classes", 0) + len(c["behaviours"])
    # a behaviour that is a prefix of another one is executed as part of it
    out, prefixes = [], set()
    for b in sorted(c["behaviours"], key=len, reverse=True):
        acts = [to_action(x) for x in b if x.get("kind") != "init"]
        k = json.dumps(acts, sort_keys=True)
        if k in prefixes or not acts:
            continue
        out.append(acts)
        for i in range(1, len(acts) + 1):
            prefixes.add(json.dumps(acts[:i], sort_keys=True))
    return out


def validate(ctx, prop, events, label):
    """Validate events (list of dicts, runs separated by reset events) against Server_Trace.tla.
    Returns number of runs validated; reports violations through ctx."""
    # split into runs
    runs, cur = [], None
    for ev in events:
        if ev["kind"] == "reset":
            cur = {"reset": ev, "evs": []}
            runs.append(cur)
        elif ev["kind"] == "unexecutable":
            ctx.notes["unexecutable_actions"] = ctx.notes.get("unexecutable_actions", 0) + 1
        else:
            cur["evs"].append(ev)
    groups = {}
    for r in runs:
        pol = (r["reset"].get("cfg") or {}).get("policy") or "none"
        srv = (r["reset"].get("cfg") or {}).get("served") or "all"
        groups.setdefault((bool(r["reset"]["reuse"]), int(r["reset"]["nmods"]), pol, srv), []).append(r)
    total = 0
    for (reuse, nmods, pol, srv), rs in sorted(groups.items()):
        pending = list(rs)
        rejected = 0
        while pending:
            lines = []
            index = []  # line number -> (run, event)
            for r in pending:
                lines.append({"kind": "reset"})
                index.append((r, None))
                for ev in r["evs"]:
                    lines.append(ev)
                    index.append((r, ev))
            wd = ctx.sub("tv-%s-%s-%d-%s-%s-%d" % (label, reuse, nmods, pol, srv, rejected))
            tp = os.path.join(wd, "trace.in.ndjson")
            write_ndjson(tp, lines)
            cfgp = os.path.join(wd, "Server_Trace.cfg")
            with open(cfgp, "w") as f:
                f.write(cfg_text("trace", reuse, nmods, 0, policy=pol, served=srv))
            ok, hwm, res = validate_with_cfg(ctx, tp, cfgp, len(lines))
            if ok:
                total += len(pending)
                break
            # line hwm+1 (1-based) is the first one that no specification step explains
            bad_idx = min(hwm, len(lines) - 1)
            r, ev = index[bad_idx]
            if ev is None:
                raise Inconclusive("trace validation stopped at a reset line (%s)" % res["out"][-2000:])
            inv = [e for e in res["errors"] if "Invariant" in e]
            prefix = [x for x in r["evs"] if x["i"] <= ev["i"]]
            if (ev.get("t") == 68 and ev.get("resp") == 69 and not inv and
                    any(x["i"] < ev["i"] and x.get("s") != ev.get("s") and any(f == "ReplaceVoucher:%s" % ev.get("d") for f in x.get("fx", [])) for x in r["evs"])):
                # Two sessions of the same device, one of which completed and replaced the voucher: Server.tla
                # lets every later 68 of the other session fail (Has(ov)), the owner still accepts service
                # info that does not need the voucher. The property does not speak about it; not judged
                # (DESIGN 9.4), the rest of the run is dropped from this batch.
                ctx.notes["runs_with_parallel_session_of_a_replaced_voucher_not_judged"] = ctx.notes.get("runs_with_parallel_session_of_a_replaced_voucher_not_judged", 0) + 1
                pending = [x for x in pending if x is not r]
                continue
            key = "%s|t=%s|tok=%s|b=%s|resp=%s|fx=%s|live=%s" % (ev["kind"], ev.get("t"), ev.get("tok"), ev.get("b"), ev.get("resp"), ",".join(ev.get("fx", [])), ev.get("live"))
            if ev.get("panic"):
                key = "panic|%s|t=%s|b=%s" % (ev["panic"], ev.get("t"), ev.get("b"))
            what = "exchange not allowed by Server.tla" + (" (%s)" % inv[0] if inv else "") + ": " + json.dumps(ev)
            ctx.violation(key, what, {"cfg": r["reset"].get("cfg"), "events": prefix, "rejected": ev,
                                      "replay": "vh srv-replay with the behaviour in 'actions'", "actions": r.get("actions")})
            pending = [x for x in pending if x is not r]
            total += 1
            rejected += 1
            if rejected > 8:
                raise Inconclusive("more than 8 rejected traces in one group; stopping")
    return total


def validate_with_cfg(ctx, trace_path, cfg_path, nlines):
    import re
    import shutil
    import tempfile
    wd = tempfile.mkdtemp(prefix="tv-", dir=ctx.scratch)
    shutil.copy(trace_path, os.path.join(wd, "trace.ndjson"))
    r = ctx.tlc("Server_Trace", cfg_path, workers=1, workdir=wd, quiet=True, timeout=1800 if ctx.quick() else 5400)
    m = re.findall(r"TRACE_HWM[^0-9]*(\d+)", r["out"])
    lvals = [int(x) for x in re.findall(r"^/\\ l = (\d+)", r["out"], re.M)]
    if r["errors"] and lvals and any("Invariant" in e for e in r["errors"]):
        # the invariant is violated in the state reached by consuming line max(l)-1
        return False, max(lvals) - 2, r
    if not m:
        raise Inconclusive("trace validation produced no high-water mark:\n" + r["out"][-3000:])
    hwm = max(int(x) for x in m)
    return hwm >= nlines, hwm, r


KEX_FOR = {
    "P256": ["ECDH256"], "P384": ["ECDH384"],
    "RSA2048RESTR": ["DHKEXid14", "ASYMKEX2048"], "RSAPSS2048": ["DHKEXid14", "ASYMKEX2048"],
    "RSAPKCS3072": ["DHKEXid15", "ASYMKEX3072"], "RSAPSS3072": ["DHKEXid15", "ASYMKEX3072"],
}
# cipher suite ids: A128GCM=1, A192GCM=2, A256GCM=3,
# COSEAES128CBC=-17760703, COSEAES128CTR=-17760704, COSEAES256CBC=-17760705, COSEAES256CTR=-17760706
CIPHERS = [1, 2, 3, -17760703, -17760704, -17760705, -17760706]
# public key encodings in vouchers: X509=1, X5CHAIN=2, COSE=3 (COSE keys are EC only)
ENC_FOR = {"P256": [1, 2, 3], "P384": [1, 2, 3], "RSA2048RESTR": [1, 2], "RSAPKCS3072": [1, 2], "RSAPSS2048": [1, 2], "RSAPSS3072": [1, 2]}


def worlds(ctx, focus, rnd):
    """World configurations (key kind, reuse, modules, ttl policy, kex, cipher) for this run."""
    quick = ctx.quick()
    kinds = ["P256", "P384"] if quick else ["P256", "P384", "RSA2048RESTR", "RSAPKCS3072", "RSAPSS2048", "RSAPSS3072"]
    if quick and focus in (64, 22, 32):
        kinds = ["P256", rnd.choice(["P384", "RSA2048RESTR", "RSAPSS2048"])]
    combos = [(False, 1, "none", "all"), (True, 0, "none", "all")]
    if not quick:
        combos += [(True, 1, "none", "all"), (False, 0, "none", "all"), (False, 2, "none", "all")]
    if focus == 22:
        combos += [(False, 1, "fixed", "all"), (False, 1, "zero", "all")]
    elif focus == 32:
        combos += [(False, 0, "short", "all")]         # registrations that expire in real time
    elif not quick:
        combos += [(False, 1, "fixed", "all")]
    if focus is None:
        # handlers with a subset of the responders (a rendezvous-only, an owner-only and a manufacturer-only server)
        combos += [(False, 1, "none", "rv"), (False, 1, "none", "owner")] + ([] if quick else [(False, 1, "none", "mfg")])
    out = []
    for k in kinds:
        for (reuse, nmods, pol, srv) in combos:
            out.append({"kind": k, "reuse": reuse, "nmods": nmods, "policy": pol, "served": srv, "enc": rnd.choice(ENC_FOR[k]),
                        "kex": rnd.choice(KEX_FOR[k]), "cipher": rnd.choice(CIPHERS) if (focus == 64 or not quick) else 1})
    return out, combos


def run(ctx, prop, focus, restart_weight=False, light=False, cover_filter=None):
    """focus: which forged-message family gets the weight (64 / 22 / 32 / None); restart_weight: the
    random driver restarts the server side (handler, responders, database reopened) far more often."""
    quick = ctx.quick()
    rnd = random.Random(ctx.seed)
    ctx.build_vh()
    # 1. design-level check
    if not light:
        ctx.model_check("Server", "Server_MC.cfg" if quick else "Server_MC_big.cfg", timeout=3000)
    # 2. TLC-generated behaviours, executed in several world configurations
    ws, combos = worlds(ctx, focus, rnd)
    f64 = FORGE64 if focus in (64, None) else FORGE64[:2]
    f22 = FORGE22 if focus in (22, None) else FORGE22[:2]
    f32 = FORGE32 if focus in (32, None) else FORGE32[:2]
    behaviours = []
    ngen = (40 if quick else 400) if not light else 8
    per_combo_cap = 120 if quick else 1500
    for ci, (reuse, nmods, pol, srv) in enumerate(combos):
        acts = generate(ctx, reuse, nmods, ngen, 12 if quick else 16, ctx.seed * 7 + ci, f64, f22, f32, policy=pol, served=srv)
        rnd.shuffle(acts)
        mine = [w for w in ws if (w["reuse"], w["nmods"], w["policy"], w["served"]) == (reuse, nmods, pol, srv)]
        for i, a in enumerate(acts[:per_combo_cap]):
            cfg = dict(mine[i % len(mine)])
            cfg["seed"] = rnd.getrandbits(62)
            cfg["hangups"] = (i % 3 == 1)     # clients that go away while the server is processing
            cfg["nolimit"] = (i % 4 == 3)     # handler without a length limit, requests without Content-Length
            behaviours.append({"cfg": cfg, "actions": a})
    # 2b. one behaviour per class of specification transition (breadth-first cover)
    if not light or cover_filter:
        ncov = 0
        for ci, (reuse, nmods, pol, srv) in enumerate(combos):
            if quick and ci > 1 and pol == "none" and srv == "all":
                continue
            acts = cover(ctx, reuse, nmods, pol, 7 if quick else 8, not quick, f64[:2], sorted(set(f22[:2] + ["strip_certchain"])), f32[:2], served=srv)
            if srv != "all":
                # what differs from the full handler: exchanges of the protocols without a responder
                unserved = [p for p in SERVED["all"] if p not in SERVED[srv]]
                tys = {"DI": (10, 11, 12, 13), "TO0": (20, 21, 22, 23), "TO1": (30, 31, 32, 33), "TO2": tuple(range(60, 72))}
                bad = set(t for p in unserved for t in tys[p])
                acts = [a for a in acts if any(x.get("t") in bad or (x["a"] == "start" and x["p"] in unserved) for x in a)]
            elif pol != "none" and ci > 1:
                # the other classes are covered in the worlds without a TTL policy
                acts = [a for a in acts if any(x["a"] == "expire" for x in a)] if pol == "short" else \
                       [a for a in acts if any(x["a"] == "start" and x["p"] in ("TO0", "TO1") for x in a)]
            if cover_filter:
                acts = [a for a in acts if cover_filter(a)]
            mine = [w for w in ws if (w["reuse"], w["nmods"], w["policy"], w["served"]) == (reuse, nmods, pol, srv)]
            for i, a in enumerate(acts):
                cfg = dict(mine[i % len(mine)])
                cfg["seed"] = rnd.getrandbits(62)
                cfg["hangups"] = (i % 4 == 2)
                cfg["nolimit"] = (i % 5 == 4)
                behaviours.append({"cfg": cfg, "actions": a})
                ncov += 1
        ctx.notes["cover_behaviours_executed"] = ncov
    ctx.log("generated %d distinct behaviours from TLC (%d world configurations)" % (len(behaviours), len(ws)))
    if not behaviours:
        raise Inconclusive("TLC generated no behaviours")
    wd = ctx.sub("replay")
    bpath = os.path.join(wd, "behaviours.json")
    with open(bpath, "w") as f:
        json.dump(behaviours, f)
    tpath = os.path.join(wd, "trace.ndjson")
    ctx.run_vh(["srv-replay", "-in", bpath, "-out", tpath], timeout=3000)
    evs = read_ndjson(tpath)
    ctx.log("replayed %d behaviours on the real server stack (%d events)" % (len(behaviours), len(evs)))
    _attach(evs, behaviours)
    n1 = validate(ctx, prop, evs, "gen")
    ctx.log("validated %d runs against Server_Trace.tla" % n1)
    ctx.sample({"tlc_generated_behaviour": behaviours[0]["actions"][:8]})
    # 3. random driver (code -> spec)
    rpath = os.path.join(wd, "random.ndjson")
    rb = os.path.join(wd, "random-behaviours.json")
    forge = {"64": f64, "22": f22, "32": f32}
    ws = [dict(w, hangups=(i % 2 == 1), nolimit=(i % 3 == 2)) for i, w in enumerate(ws)]
    ctx.run_vh(["srv-random", "-n", 160 if quick else 3000, "-len", 16 if quick else 24, "-seed", ctx.seed,
                "-cfgs", json.dumps(ws), "-forge", json.dumps(forge), "-focus", focus or 0, "-restarts", 30 if restart_weight else 2,
                "-out", rpath, "-behaviours", rb], timeout=3000)
    evs2 = read_ndjson(rpath)
    with open(rb) as f:
        _attach(evs2, json.load(f))
    n2 = validate(ctx, prop, evs2, "rnd")
    real = [e for e in evs + evs2 if e["kind"] not in ("reset", "unexecutable")]
    ctx.cov["traces_validated_against_impl"] += n1 + n2
    ctx.cov["evaluations"] += len(real)
    kinds_seen = set((e["kind"], e.get("t"), e.get("tok"), e.get("b"), e.get("resp")) for e in real)
    ctx.cov["distinct_nontrivial"] += len(kinds_seen)
    ctx.cov["rule"] = ("one evaluation = one HTTP exchange executed against the real handler and validated against Server_Trace.tla; "
                       "distinct = distinct (kind, type, token class, body class, response) tuples observed")
    hon = [e for e in evs2 if e["kind"] == "honest"]
    if hon:
        ctx.sample({"recorded_event": hon[0]})
    forged = [e for e in real if e["kind"] == "forged"]
    ctx.notes["forged_exchanges"] = len(forged)
    ctx.notes["forged_atoms_seen"] = sorted(set("%s:%s" % (e["t"], e["b"]) for e in forged))
    ctx.notes["effects_seen"] = sorted(set(x.split(":")[0] for e in real for x in e.get("fx", [])))
    ctx.notes["world_configurations"] = len(ws)
    ctx.notes["runs_from_tlc"] = n1
    ctx.notes["runs_from_random_driver"] = n2
    ctx.notes["exchanges_without_content_length"] = sum(1 for e in real if "nolen" in (e.get("note") or ""))
    ctx.notes["exchanges_with_client_hangup"] = sum(1 for e in real if "hangup" in (e.get("note") or ""))
    ctx.notes["restarts_executed"] = sum(1 for e in real if e["kind"] == "restart")
    if focus and not forged:
        raise Inconclusive("no forged exchange was executed (vacuous run)")
    ctx.assumptions += ["TLC 1.8.0 and the CommunityModules Json module",
                        "the harness projection (response type, effect journal of the sqlite decorator, session-row probe) is faithful",
                        "honest clients are the library's own client roles; forged messages are built with the harness' own CBOR tree codec and signed with harness-owned keys"]
    return "model_checking"


def _attach(evs, behaviours):
    """Remember the action sequence of each run for replay artefacts."""
    for ev in evs:
        if ev["kind"] == "reset":
            i = ev["run"] - 1
            if 0 <= i < len(behaviours):
                ev["cfg"] = behaviours[i]["cfg"]
                ev["actions"] = behaviours[i]["actions"]
