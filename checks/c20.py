"""C20 -- Rendezvous instructions are interpreted totally and per role as specified.

Pipeline: (1) TLC checks RvInfo.tla (order independence, role filter, defaults, malformed values
ignored) exhaustively over instruction lists x value classes x both roles; (2) TLC prints every
emitted result as a behaviour (role, instruction list over value classes, expected abstract result):
exhaustively for every list up to length 2 over the full alphabet, by simulation (and, in the
thorough tier, exhaustively over a reduced alphabet) for lengths 3 and 4; (3) the Go runner
(`vh rv-replay`) expands each value class into concrete CBOR values, calls
protocol.ParseDeviceRvInfo / ParseOwnerRvInfo under recover(), projects the RvDirective to the
abstract record and compares it with the expectation of the specification; in addition the
specification's MalformedIgnored property is applied to the library directly (removing an instruction
whose value is malformed / of the wrong type / empty must not change the library's result), which
names the instruction that was misread; a totality-only pass feeds random instruction lists.

Oracle (DESIGN 3 C20 "O"): judged are valid / boundary values (must take effect as the tables say)
and malformed CBOR / wrong type / empty values (must be ignored). Type-correct but out-of-range
values and lenient encodings (class "range") make the touched field unjudged; how the library treats
them is counted in the evidence (`adjudicate`).
"""
import json
import os

from lib.vlib import Inconclusive

ADDR = {"urls": "addr", "dns": "addr", "ip": "addr"}


def _gen(ctx, module, cfg, **kw):
    r = ctx.tlc(module, cfg, **kw)
    if r["errors"]:
        raise Inconclusive("model-level error in %s/%s (not a verdict about the code):\n%s" % (module, cfg, r["out"][-4000:]))
    return r, ctx.behaviours(r)


def run(ctx):
    quick = ctx.quick()
    ctx.build_vh()

    # 1. design level: the specification's own properties
    if quick:
        ctx.model_check("RvInfo", "RvInfo_MC.cfg", timeout=900)
    else:   # (the state space of RvInfo_MC.cfg is checked by the RvInfo_Gen3.cfg run below)
        ctx.model_check("RvInfo", "RvInfo_MC_big.cfg", timeout=2400)
        ctx.model_check("RvInfo", "RvInfo_MC4.cfg", timeout=1200)

    # 2. behaviours
    behaviours = []
    r = ctx.model_check("RvInfo_Gen", "RvInfo_Gen.cfg", timeout=900)        # every list of length <= 2, full alphabet
    b2 = ctx.behaviours(r)
    behaviours += b2
    if not quick:
        r3 = ctx.model_check("RvInfo_Gen", "RvInfo_Gen3.cfg", timeout=1800)  # every list of length <= 3, reduced alphabet
        behaviours += [b for b in ctx.behaviours(r3) if len(b["instrs"]) == 3]
    nsim = [(("RvInfo_Sim.cfg"), 1500 if quick else 8000), (("RvInfo_Sim3.cfg"), 1000 if quick else 4000)]
    for cfg, num in nsim:
        rs, bs = _gen(ctx, "RvInfo_Gen", cfg, simulate=num, depth=12, workers=1, seed=ctx.seed * 31 + num, timeout=1500)
        ctx.cov["transitions"] += rs.get("generated", 0) or 0
        behaviours += bs
    seen, uniq = set(), []
    for b in behaviours:
        k = json.dumps(b, sort_keys=True)
        if k not in seen:
            seen.add(k)
            uniq.append(b)
    behaviours = uniq
    if len(behaviours) < 1000:
        raise Inconclusive("TLC generated only %d behaviours" % len(behaviours))
    ctx.log("behaviours from TLC: %d (length<=2 exhaustive: %d)" % (len(behaviours), len(b2)))

    # binding demonstration (bin/selftest style): VERIF_SELFTEST=flip corrupts one expected value
    if os.environ.get("VERIF_SELFTEST") == "flip":
        for b in behaviours:
            e = b["expect"]
            if e["applies"] and e["dns"]["from"] and e["port"]["judge"] and e["port"]["dflt"] == [80]:
                e["port"]["dflt"] = [81]
                ctx.log("SELFTEST: flipped the expected default port of one behaviour: %s" % json.dumps(b["instrs"]))
                break

    wd = ctx.sub("rv")
    bpath, rpath = os.path.join(wd, "behaviours.json"), os.path.join(wd, "report.json")
    with open(bpath, "w") as f:
        json.dump(behaviours, f)
    ctx.run_vh(["rv-replay", "-in", bpath, "-out", rpath, "-rounds", 2 if quick else 6, "-fuzz", 20000 if quick else 400000], timeout=1500)
    with open(rpath) as f:
        rep = json.load(f)

    # 3. verdicts: shortest witnesses first. "misread|..." keys name the must-be-ignored instruction that
    # took effect; a "mismatch|..." key names a combination of instructions: a longer combination that
    # includes the instructions of an already reported finding on the same field is the same finding
    accepted, subsumed = [], 0
    for fd in (rep["findings"] or []):
        group = ADDR.get(fd.get("field"), fd.get("field"))
        ds = set(fd["descs"])
        if fd["key"].startswith("mismatch|") and any(g == group and d <= ds for (g, d) in accepted):
            subsumed += 1
            continue
        if fd["kind"] == "mismatch":
            accepted.append((group, ds))
        what = "%s [role %s, %d instruction(s): %s; seen %d times]" % (
            fd["what"], fd["role"], fd["len"], ", ".join("%s=%s(%s) h'%s'" % (i["var"], i["cls"], i["kind"], i["value_hex"][:40]) for i in fd["instrs"]), fd["count"])
        ctx.violation(fd["key"], what, {"role": fd["role"], "instructions": fd["instrs"], "expected": fd.get("expected"),
                                        "observed": fd.get("observed"), "replay": "vh rv-replay (protocol.Parse%sRvInfo with the instruction values above)" % fd["role"].capitalize()})

    # 4. coverage, vacuity
    if rep["behaviours"] != len(behaviours) or rep["evaluations"] < len(behaviours):
        raise Inconclusive("runner replayed %d of %d behaviours" % (rep["behaviours"], len(behaviours)))
    pairs = set((i["var"], i["cls"]) for b in behaviours for i in b["instrs"])
    if len(pairs) != 16 * 6 or set(b["role"] for b in behaviours) != {"device", "owner"}:
        raise Inconclusive("vacuous: %d of 96 (variable, class) pairs generated" % len(pairs))
    ctx.cov["traces_validated_against_impl"] += rep["behaviours"]
    ctx.cov["evaluations"] += rep["evaluations"] + rep["fuzz_calls"]
    ctx.cov["distinct_nontrivial"] += rep["distinct"]
    ctx.cov["rule"] = ("one evaluation = one ParseDeviceRvInfo/ParseOwnerRvInfo call on a concretized behaviour compared field by field with the "
                       "result RvInfo.tla emits (plus totality-only random calls); distinct = distinct (role, variable, class, table value, "
                       "concrete instance family) tuples that reached the parser")
    ctx.notes["behaviours_by_length"] = rep["by_len"]
    ctx.notes["totality_only_random_calls"] = rep["fuzz_calls"]
    ctx.notes["findings_subsumed_by_shorter_witness"] = subsumed
    ctx.notes["adjudicate_out_of_range_values_not_judged"] = rep["adjudicate"]
    for s in rep.get("samples", [])[:2]:
        ctx.sample(s)
    ctx.sample({"tlc_behaviour": behaviours[len(behaviours) // 2]})
    ctx.assumptions += ["TLC 1.8.0 and the CommunityModules Json module",
                        "the concretizer's CBOR values are built and classified (well-formed or not) by the harness' own codec harness/cb",
                        "RVProtRest (0) and unassigned protocol / medium numbers leave the defaults in place, as the comments of protocol/rv.go state",
                        "where a variable occurs more than once the result may come from any effective occurrence (FDO: at most one per directive)",
                        "type-correct out-of-range values (port 0, negative or > 2^32-1 delay, IP of length other than 4/16, unknown hash type, "
                        "bstr for tstr, non-preferred integer widths, indefinite lengths) are run for totality only and reported in "
                        "adjudicate_out_of_range_values_not_judged"]
    return "model_checking"
