"""C16 — TO2 service info is delivered exactly once, in order, until modules finish.

Pipeline: (1) TLC checks the invariants of SvcInfo.tla exhaustively in the closed model SvcInfo_MC
(all module behaviours, batch boundaries and fragmentations within small bounds) and shows that both
terminal states are reachable; (2) TLC -simulate (SvcInfo_Gen) generates walks whose events are cut
into module *scripts* (what every owner module does in its k-th ProduceInfo call, what every device
module does in its k-th Receive/Yield call, 0-3 owner modules, modules on one side only, 0/1/2/24/200
further device module names), every write carrying a size class; (3) the concretiser turns classes
into bytes for MTU pairs of a boundary grid; (4) `vh svc-replay` executes the scripts with
instrumented modules inside a real fdo.TO2 / fdo.TO2Server pair (real tunnel, handler, sqlite
session state) and records what every module wrote/received (offsets, content check, running
digest), every plaintext 68/69 at the device's transport, the devmod the owner stored and the TO2
result; (5) every recorded run is validated against SvcInfo_Trace.tla: each event must be the
corresponding action of SvcInfo.tla, all invariants are evaluated in every state.  A rejected event is
reported with the name of the first condition of the specification it falsifies.
"""
import json
import os
import random
import re
import shutil
import tempfile
from concurrent.futures import ThreadPoolExecutor

from lib.vlib import Inconclusive, write_ndjson, read_ndjson

INVS = "TypeOK RecvLeSent Conservation CompleteAtDone SequentialOwners OnlyActiveReceive UnknownStayInactive DoneExactly EndsWithDone"


# ---- scripts from TLC walks ------------------------------------------------------------------------
def to_script(b):
    c = b[0]
    omods, dmods = list(c["omods"]), list(c["dmods"])
    rounds = {m: [] for m in omods}
    cur = {m: {"msgs": []} for m in omods}
    recv = {m: [] for m in dmods}
    yld = {m: [] for m in dmods}
    dcur = None
    done_mods, late = set(), False
    for e in b[1:]:
        ev = e["ev"]
        if ev == "owner_wrote":
            cur[e["mod"]]["msgs"].append({"msg": e["msg"], "cls": e.get("cls", "one")})
        elif ev == "module_done":
            done_mods.add(e["mod"])
        elif ev == "produce":
            r = cur[e["mod"]]
            r["block"], r["done"] = bool(e["block"]), bool(e["done"])
            rounds[e["mod"]].append(r)
            cur[e["mod"]] = {"msgs": []}
        elif ev == "dev_got":
            dcur = []
            recv[e["mod"]].append(dcur)
        elif ev == "yield_call":
            dcur = []
            yld[e["mod"]].append(dcur)
        elif ev == "dev_wrote":
            if dcur is not None:
                dcur.append({"r": e["msg"], "cls": e.get("cls", "one")})
            if e["mod"] in done_mods and omods and e["mod"] != omods[-1]:
                late = True
        elif ev == "dev_yield":
            if dcur is not None:
                dcur.append({"y": True})
        elif ev == "activate":
            dcur = None
    for m in omods:           # a walk that failed leaves the last round open
        if cur[m]["msgs"]:
            r = cur[m]
            r["block"], r["done"] = False, False
            rounds[m].append(r)
    s = {"omods": [{"name": m, "rounds": rounds[m], "persist": m not in dmods} for m in omods],
         "dmods": [{"name": m, "recv": recv[m], "yield": yld[m]} for m in dmods],
         "ndev": c["ndev"], "abstract_result": "failed" if b[-1].get("err") else "ok"}
    tags = []
    if any(m not in dmods for m in omods):
        tags.append("owner-only-module")
    if any(m not in omods for m in dmods):
        tags.append("device-only-module")
    if late:
        tags.append("reply-after-module-done")
    for m in dmods:
        for ops in recv[m] + yld[m]:
            seen_r, prev_y = False, False
            for i, op in enumerate(ops):
                if op.get("y"):
                    if (not seen_r or prev_y) and any("r" in o for o in ops[i + 1:]):
                        if "yield-first" not in tags:
                            tags.append("yield-first")
                    prev_y = True
                else:
                    seen_r, prev_y = True, False
    if any(op.get("y") for m in dmods for ops in recv[m] + yld[m] for op in ops):
        tags.append("yield")
    if any(r["block"] for m in omods for r in rounds[m]):
        tags.append("block")
    s["tags"] = tags
    return s


def keyenc(k):
    return len(k) + (1 if len(k) < 24 else 2)


def fit_o2d(dev_mtu, key):
    """Largest value the first KV of an empty Producer can carry (Producer.Available)."""
    d = dev_mtu or 1300
    return max(1, d - 5 - keyenc(key))


def fit_d2o(own_mtu, key):
    """Largest value ChunkReader.ReadChunk puts into the first KV of a 68 (budget = MTU - 5)."""
    b = (own_mtu or 1300) - 5
    ovh = 1 + keyenc(key) + 1
    if b - ovh >= 24:
        ovh += 1
    if b - ovh >= 256:
        ovh += 1
    return max(1, b - ovh)


def size_of(cls, fit, rnd):
    if cls == "one":
        return 1
    if cls == "small":
        return rnd.randint(2, 23)
    if cls == "fitm":
        return max(1, fit - rnd.randint(1, 40))
    if cls == "fit":
        return fit
    if cls == "fitp":
        return fit + rnd.randint(1, 3)
    if cls == "two":
        return 2 * fit + rnd.randint(0, 9)
    if cls == "three":
        return 3 * fit + rnd.randint(0, 40)
    return 1


def concretise(script, dev_mtu, own_mtu, cid, rnd, timeout_ms):
    om = []
    for m in script["omods"]:
        rs = []
        for r in m["rounds"]:
            msgs = []
            for x in r["msgs"]:
                n = 1 if x["msg"] == "active" else size_of(x["cls"], fit_o2d(dev_mtu, m["name"] + ":" + x["msg"]), rnd)
                msgs.append({"msg": x["msg"], "n": n})
            rs.append({"msgs": msgs, "block": r["block"], "done": r["done"]})
        om.append({"name": m["name"], "rounds": rs, "persist": m["persist"]})
    dm = []
    for m in script["dmods"]:
        def conv(ops):
            out = []
            for op in ops:
                if op.get("y"):
                    out.append({"y": True})
                else:
                    out.append({"r": op["r"], "n": size_of(op["cls"], fit_d2o(own_mtu, m["name"] + ":" + op["r"]), rnd)})
            return out
        dm.append({"name": m["name"], "recv": [conv(o) for o in m["recv"]], "yield": [conv(o) for o in m["yield"]]})
    return {"id": cid, "seed": rnd.getrandbits(40), "dev_mtu": dev_mtu, "own_mtu": own_mtu, "omods": om, "dmods": dm,
            "fillers": script["ndev"], "filler_len": rnd.choice([4, 8, 8, 12, 22, 23, 24]), "timeout_ms": timeout_ms,
            "tags": script["tags"]}


def mtu_class(m):
    m = m or 1300
    if m < 64:
        return "<64"
    if m < 200:
        return "<200"
    if m < 250:
        return "<250"
    if m <= 262:
        return "255/256"
    if m <= 1300:
        return "<=1300"
    return "big"


def mtu_pairs(quick, rnd, n):
    """MTU pairs (device receive MTU, owner announced MTU) on a boundary grid."""
    if quick:
        dev = [0, 1300, 65535, 255, 256, 257, 24, 40] + rnd.sample(range(16, 200), 4)
        own = [0, 1300, 65535, 255, 256, 257, 260, 512] + rnd.sample(range(30, 250), 3)
    else:
        dev = [0, 1300, 65535, 65534] + list(range(16, 80)) + list(range(250, 263)) + rnd.sample(range(80, 250), 12) + [1299, 1301, 4096]
        own = [0, 1300, 65535, 65534] + list(range(30, 200)) + list(range(250, 271)) + rnd.sample(range(200, 250), 8) + [1299, 1301, 4096]
    coarse_dev = [0, 1300, 256, 65535, 64]
    coarse_own = [0, 1300, 256, 65535, 300]
    out = []
    for i in range(n):
        if i % 2 == 0:
            out.append((rnd.choice(dev), rnd.choice(coarse_own)))
        else:
            out.append((rnd.choice(coarse_dev), rnd.choice(own)))
    return out


# ---- trace validation ------------------------------------------------------------------------------
CATS = [("could not read service info key", "chunk-key-window"),
        ('error handling device service info "devmod:modules"', "devmod-modules-fragment"),
        ('error handling device service info "devmod:', "devmod-descriptor-fragment"),
        ("missing required devmod field", "devmod-field-lost"),
        ("has not activated module", "message-for-inactive-module"),
        ("MTU too small to send devmod module name", "mtu-below-module-name"),
        ("verif: MTU too small", "mtu-below-minimum"),
        ("exceeding the MTU", "owner-exceeds-mtu"),
        ("context deadline exceeded", "timeout"),
        ("did not read full body", "body-not-drained")]


def category(msg):
    for pat, name in CATS:
        if pat in msg:
            return name
    return "other:" + re.sub(r"[0-9a-f]{6,}|\d+", "#", msg)[-70:] if msg else "none"


def validate_batch(ctx, runs, label):
    """runs: list of lists of events (first = config). Returns list of (run_events, line_event, reason)."""
    rejected = []
    pending = list(runs)
    for attempt in range(12):
        if not pending:
            break
        lines, index = [], []
        for r in pending:
            for ev in r:
                lines.append(ev)
                index.append(r)
        wd = tempfile.mkdtemp(prefix="tv-%s-" % label, dir=ctx.scratch)
        write_ndjson(os.path.join(wd, "trace.ndjson"), lines)
        res = ctx.tlc("SvcInfo_Trace", "SvcInfo_Trace.cfg", workers=1, workdir=wd, quiet=True, timeout=1500)
        out = res["out"]
        for m in re.finditer(r'<<"TRACE_DIAG", (\d+), (\d+), "([a-z0-9_]+)">>', out):
            ln, reason = int(m.group(1)), m.group(3)
            rejected.append((index[ln - 1], lines[ln - 1], reason))
        inv = [e for e in res["errors"] if "Invariant" in e]
        if inv:
            lvals = [int(x) for x in re.findall(r"^/\\ l = (\d+)", out, re.M)]
            if not lvals:
                raise Inconclusive("invariant violation without a position:\n" + out[-3000:])
            ln = max(lvals) - 1          # the state after consuming line l-1 violates
            r = index[min(ln, len(lines)) - 1]
            name = re.search(r"Invariant (\S+) is violated", inv[0])
            rejected.append((r, lines[ln - 1], "invariant_" + (name.group(1) if name else "unknown")))
            pending = [x for x in pending if x is not r]
            shutil.rmtree(wd, ignore_errors=True)
            continue
        hw = re.findall(r"TRACE_HWM[^0-9]*(\d+)", out)
        if not hw or max(int(x) for x in hw) != len(lines):
            raise Inconclusive("trace validation did not consume the whole trace (%s of %d):\n%s" % (hw, len(lines), out[-3000:]))
        shutil.rmtree(wd, ignore_errors=True)
        pending = []
    if pending:
        raise Inconclusive("too many invariant violations in one batch")
    return rejected


def result_of(r):
    """The to2_result event of a run (module goroutines may still log after it)."""
    for e in reversed(r):
        if e["ev"] == "to2_result":
            return e
    return {"ev": "to2_result", "err": None, "msg": "(no result recorded)"}


def split_runs(evs):
    runs = []
    for ev in evs:
        if ev["ev"] == "config":
            runs.append([])
        runs[-1].append(ev)
    return runs


def run(ctx):
    quick = ctx.quick()
    rnd = random.Random(ctx.seed * 1000003 + 16)
    ctx.build_vh()
    selftest = os.environ.get("VERIF_SELFTEST", "")

    # 1. design level
    ctx.model_check("SvcInfo_MC", "SvcInfo_MC.cfg" if quick else "SvcInfo_MC_big.cfg", timeout=1500)
    # 2. module scripts from TLC walks
    ngen = 150 if quick else 2500
    scripts, seen = [], set()
    for part in range(1 if quick else 4):
        r = ctx.tlc("SvcInfo_Gen", "SvcInfo_Gen.cfg", simulate=ngen if quick else ngen // 4, depth=160, workers=1,
                    seed=ctx.seed * 31 + part, quiet=True, timeout=1200)
        ctx.cov["transitions"] += r.get("generated", 0) or 0
        for b in ctx.behaviours(r):
            k = json.dumps(b, sort_keys=True)
            if k in seen:
                continue
            seen.add(k)
            scripts.append(to_script(b))
    if len(scripts) < 20:
        raise Inconclusive("TLC generated only %d module scripts" % len(scripts))
    outcomes = {x["abstract_result"] for x in scripts}
    if outcomes != {"ok", "failed"}:
        raise Inconclusive("vacuous generation: walks of SvcInfo_Gen reached only %s" % sorted(outcomes))
    ctx.notes["terminal_states_reached_by_walks"] = sorted(outcomes)
    rnd.shuffle(scripts)
    cap = 220 if quick else 2000
    scripts = scripts[:cap]
    ctx.log("TLC generated %d distinct module scripts" % len(scripts))
    ctx.sample({"tlc_generated_script": scripts[0]})

    # 3. concretise on the MTU grid
    per = 2 if quick else 3
    cases = []
    for s in scripts:
        for (d, o) in mtu_pairs(quick, rnd, per):
            cases.append(concretise(s, d, o, len(cases) + 1, rnd, 12000 if quick else 20000))
    # fixed corner scripts: no owner module at all with 0/1/2/24/200 names at default and boundary MTUs
    for nd in (0, 1, 2, 24, 200):
        for (d, o) in [(0, 0), (1300, 256), (256, 1300)] + ([] if quick else [(65535, 65535), (0, 512), (0, 4096)]):
            cases.append(concretise({"omods": [], "dmods": [], "ndev": nd, "tags": ["names-only"]}, d, o, len(cases) + 1, rnd, 12000))
    wd = ctx.sub("replay")
    cpath, tpath = os.path.join(wd, "cases.json"), os.path.join(wd, "trace.ndjson")
    with open(cpath, "w") as f:
        json.dump(cases, f)
    ctx.run_vh(["svc-replay", "-in", cpath, "-out", tpath], timeout=3000)
    runs = split_runs(read_ndjson(tpath))
    if len(runs) != len(cases):
        raise Inconclusive("harness returned %d runs for %d cases" % (len(runs), len(cases)))
    for r in runs:
        for ev in r:
            if ev["ev"] == "harness_err":
                raise Inconclusive("harness error: %s" % ev.get("what"))
    # module goroutines the library left behind may still log after fdo.TO2 returned: the property ends there
    late = 0
    for r in runs:
        for i, e in enumerate(r):
            if e["ev"] == "to2_result":
                late += len(r) - i - 1
                del r[i + 1:]
                break
    ctx.notes["events_after_to2_result_ignored"] = late
    ctx.log("executed %d runs in the real TO2 pair" % len(runs))

    if selftest == "corrupt":
        # binding demonstration: corrupt one recorded field / drop one event of accepted runs
        victim = next(r for r in runs if any(e["ev"] == "dev_got" for e in r) and not result_of(r).get("err"))
        ev = next(e for e in victim if e["ev"] == "dev_got")
        ev["n"] += 1
        victim2 = next(r for r in runs if r is not victim and any(e["ev"] == "owner_got" and e["msg"] != "active" for e in r) and not result_of(r).get("err"))
        victim2.remove(next(e for e in victim2 if e["ev"] == "owner_got" and e["msg"] != "active"))
        victim3 = next(r for r in runs if r is not victim and r is not victim2 and not result_of(r).get("err") and any(e["ev"] == "m69" and e["done"] for e in r))
        next(e for e in victim3 if e["ev"] == "m69" and e["done"])["done"] = False
        for v, name in ((victim, "dev_got.n+1"), (victim2, "owner_got dropped"), (victim3, "m69.done flipped")):
            v[0]["tags"] = v[0].get("tags", []) + ["SELFTEST:" + name]

    # 4. validation, batches in parallel
    bsz = 40 if quick else 120
    batches = [runs[i:i + bsz] for i in range(0, len(runs), bsz)]
    with ThreadPoolExecutor(max_workers=6 if quick else 8) as ex:
        results = list(ex.map(lambda ib: validate_batch(ctx, ib[1], "b%d" % ib[0]), enumerate(batches)))
    rejected = [x for rs in results for x in rs]

    # 5. verdicts
    by_run = {}
    slow = below = 0
    for (r, ev, reason) in rejected:
        if reason == "to2_failed_without_cause" and result_of(r).get("timeout"):
            # a run the deadline cut while it was still making progress says nothing (slow machine, hundreds of
            # round trips at a tiny MTU); a hang shows as a tail of empty 68/69 polling
            tail = [e for e in r if e["ev"] in ("m68", "m69", "dev_got", "owner_got", "dev_wrote", "owner_wrote", "module_done", "owner_devmod")][-40:]
            if len(tail) < 40 or any(e["ev"] not in ("m68", "m69") or e["kvs"] for e in tail):
                slow += 1
                continue
        if reason == "to2_failed_without_cause" and category(result_of(r).get("msg", "")) in ("mtu-below-module-name", "mtu-below-minimum"):
            below += 1          # the property starts at the minimum MTU: a single name / a single byte does not fit
            continue
        by_run.setdefault(r[0]["run"], (r, ev, reason))
    ctx.notes["runs_cut_by_deadline_while_progressing_not_judged"] = slow
    ctx.notes["runs_below_minimum_mtu_not_judged"] = below
    nrej = 0
    for runid, (r, ev, reason) in sorted(by_run.items()):
        case = cases[runid - 1]
        res = result_of(r)
        orig_reason = reason
        tags = case.get("tags", [])
        if reason == "to2_failed_without_cause":
            detail = category(res.get("msg", ""))
            # the known defect: a devmod message split over two protocol messages (visible on the wire as a
            # value that is not a whole CBOR item); the same error text without a fragment is another failure
            frag = [kv[1] for e in r if e["ev"] == "m68" for kv in e["kvs"] if kv[0] == "devmod" and len(kv) > 4 and not kv[4]]
            if detail in ("devmod-modules-fragment", "devmod-descriptor-fragment"):
                if not frag:
                    detail = detail.replace("-fragment", "-rejected-whole-message")
                else:
                    detail = "devmod-modules-fragment" if "modules" in frag else "devmod-descriptor-fragment"
            if detail == "timeout" and not any(e["ev"] == "owner_devmod" for e in r):
                detail = "timeout-devmod-never-completes"
            if not any(e["ev"] == "owner_devmod" for e in r):
                # failures while devmod is sent depend on the owner-announced MTU and on the length of the module list
                detail += "|own_mtu" + mtu_class(case["own_mtu"]) + ("|many-names" if case["fillers"] >= 24 else "|few-names")
        elif reason == "done_sent_with_undispatched_owner_info" or (reason[:4] in ("d2o_", "o2d_") and reason[4:] != "offset"):
            if reason.startswith("done_sent"):
                reason = "o2d_undispatched_at_done"
            # one family per direction: bytes a module wrote did not reach the peer module complete, in order, once
            yielded = any(e["ev"] == "dev_yield" and e["seq"] < ev["seq"] for e in r)
            reason = reason[:4] + "stream_broken"
            detail = "with-yield" if yielded else "no-yield"
            if any(e["ev"] == "dev_write_err" and e["seq"] < ev["seq"] for e in r):
                detail = "device-pipe-closed-by-chunker"      # the signature of the ChunkReader key window (C15)
        elif reason == "owner_got_misrouted":
            detail = "to-next-module"
        elif reason == "devmod_module_list":
            detail = ("empty-list-accepted" if ev.get("modules") == [] else "list-differs") + "|own_mtu" + mtu_class(case["own_mtu"])
        else:
            detail = category(res.get("msg", "")) if res.get("err") else "run-completed"
        key = "%s|%s" % (reason, detail)
        if any(t.startswith("SELFTEST:") for t in r[0].get("tags", [])):
            key = "selftest|" + key
        prefix = [e for e in r if e["seq"] <= ev["seq"]] if "seq" in ev else r
        what = ("recorded event is not a step of SvcInfo.tla (first falsified condition: %s): %s; dev_mtu=%s own_mtu=%s names=%s tags=%s; TO2 result: %s" %
                (orig_reason, json.dumps({k: v for k, v in ev.items() if k not in ("run", "seq")})[:300], case["dev_mtu"], case["own_mtu"],
                 case["fillers"], ",".join(tags), (res.get("msg") or "ok")[-160:]))
        ctx.violation(key, what, {"case": case, "rejected_event": ev, "reason": orig_reason, "events": prefix[-60:],
                                  "replay": "write [case] to a file and run: vh svc-replay -in file -out trace.ndjson; validate with spec/SvcInfo_Trace.tla"})
        nrej += 1

    # 6. coverage
    nev = sum(len(r) for r in runs)
    feats = set()
    nontrivial = 0
    for r, c in zip(runs, cases):
        kinds = {e["ev"] for e in r}
        if "m69" in kinds:
            nontrivial += 1
        feats.add((len(c["omods"]), tuple(sorted(c.get("tags", []))), c["fillers"], mtu_class(c["dev_mtu"]), mtu_class(c["own_mtu"]),
                   "dev_wrote" in kinds, "dev_got" in kinds, any(e["ev"] == "m68" and e["more"] for e in r),
                   any(e["ev"] == "m69" and e["more"] for e in r), bool(result_of(r).get("err"))))
    ctx.cov["traces_validated_against_impl"] += len(runs)
    ctx.cov["evaluations"] += nev
    ctx.cov["distinct_nontrivial"] += len(feats)
    ctx.cov["rule"] = ("one evaluation = one recorded event (module call, plaintext 68/69, devmod read, result) of a real TO2 run checked as a step of "
                       "SvcInfo.tla; distinct = distinct (owner modules, script tags, device names, MTU classes, more-flags used, streams used, outcome) tuples")
    ctx.notes["runs"] = len(runs)
    ctx.notes["runs_reaching_service_info"] = nontrivial
    ctx.notes["runs_rejected"] = nrej
    ctx.notes["runs_with_to2_error"] = sum(1 for r in runs if result_of(r).get("err"))
    ctx.notes["scripts_from_tlc"] = len(scripts)
    ctx.notes["mtu_pairs"] = len({(c["dev_mtu"], c["own_mtu"]) for c in cases})
    ok_run = next((r for r in runs if not result_of(r).get("err") and any(e["ev"] == "dev_wrote" for e in r) and r[0]["run"] not in by_run), None)
    if ok_run:
        ctx.sample({"accepted_run_prefix": [{k: v for k, v in e.items() if k not in ("devmod", "devnames")} for e in ok_run[:14]]})
    ctx.assumptions += ["TLC and the CommunityModules Json module",
                        "the harness modules record faithfully (dev_wrote is logged before the bytes are handed to the library, *_got after they were read)",
                        "content check: every stream is a position-dependent reference sequence; a receiver compares each byte with the reference at its own offset",
                        "DiscardAfterDone, OrphanDropped, InactiveFails: outcomes the property leaves open are allowed either way (see SvcInfo.tla header)"]
    return "model_checking"
