"""C05 - TO2 messages after ProveDevice are confidential and tamper-evident.

Pipeline: (1) TLC checks spec/Tunnel.tla (DecryptSound, DecryptStrict, FormPinned, FreshIV,
NoPlaintextOnWire, RejectFailsRun) for 7 ciphers x 2 sessions x every adversary class; the same
model with the deviation of today's code switched on (BareEncrypt0Accepted) is run as well and its
counterexample recorded; (2) TLC enumerates every run of Tunnel_Gen.tla (one adversary class on
one message), giving the design's per-class verdict table and the (cipher, message, class) triples
to execute; (3) unit level: `vh tunnel-replay` applies every class (every bit position in thorough)
to real wire objects of paired kex sessions for 6 suites x 7 ciphers, both directions, and calls
the real SessionCrypter.Decrypt; (4) system level: `vh tunnel-system` runs full TO2 over the real
http.Handler / http.Transport, rewrites one encrypted message per run, journals the plaintexts at
the responder and device-transport boundaries and sniffs the wire; the recorded events are
validated against Tunnel_Trace.tla.  Verdicts: accepted-with-different-content, a crash, an
unmodified message rejected, a wrong wire form, a repeated IV, plaintext on the wire, or a run that
goes on after a rejection.
"""
import json
import os
import random
import re
import shutil
import tempfile

from lib.vlib import Inconclusive, read_ndjson, write_ndjson

SUITES = ["ECDH256", "ECDH384", "DHKEXid14", "DHKEXid15", "ASYMKEX2048", "ASYMKEX3072"]
CIPHERS = ["A128GCM", "A192GCM", "A256GCM", "COSEAES128CBC", "COSEAES128CTR", "COSEAES256CBC", "COSEAES256CTR"]
CLASSES = ["short_tag+flip_ct", "short_tag+flip_iv", "flip_ct", "flip_iv", "flip_alg", "flip_tag", "strip_mac0", "strip_mac0+flip_ct", "strip_mac0+flip_iv",
           "strip_mac0+iv_len", "strip_mac0+empty_ct", "strip_mac0+truncate", "wrap_mac0", "retag", "drop_iv", "iv_len",
           "empty_ct", "truncate", "substitute", "plaintext", "bit_any"]


def mode(cipher):
    """cipher family used in violation keys (the seven suites share three code paths)"""
    return "GCM" if "GCM" in cipher else ("CTR" if "CTR" in cipher else "CBC")


def frame_of(s):
    return (s or "unknown").split(" :: ")[0]


def run(ctx):
    quick = ctx.quick()
    rnd = random.Random(ctx.seed)
    ctx.build_vh()

    # 1. design-level check
    ctx.model_check("Tunnel", "Tunnel_MC.cfg" if quick else "Tunnel_MC_big.cfg", timeout=1800)
    coded = ctx.tlc("Tunnel", "Tunnel_MC_ascoded.cfg", timeout=600, quiet=True)
    ctx.notes["model_of_code_as_written"] = {
        "config": "Tunnel_MC_ascoded.cfg (BareEncrypt0Accepted = TRUE)",
        "tlc_result": coded["violated"][:1] or ["no violation"],
        "meaning": "model-level only: with a bare COSE_Encrypt0 accepted under encrypt-then-MAC suites TLC finds a run "
                   "violating DecryptSound; the verdict comes from the replay on the real code below",
    }

    # 2. behaviours of the design: verdict table and triples
    gen = ctx.tlc("Tunnel_Gen", "Tunnel_Gen.cfg", workers=4, timeout=900)
    if gen["errors"]:
        raise Inconclusive("model-level error in Tunnel_Gen:\n" + gen["out"][-4000:])
    ctx.cov["transitions"] += gen.get("generated", 0) or 0
    behs = ctx.behaviours(gen)
    table = {}      # (cipher, class) -> set of design outcomes
    triples = set()  # (cipher, type, class)
    forms = {}
    for b in behs:
        cipher = b[0]["cipher"]
        forms[cipher] = b[0]["form"]
        cur = None
        for e in b[1:]:
            if e["ev"] == "enc":
                cur = e["type"]
            elif e["ev"] == "wire":
                triples.add((cipher, cur, e["mut"]))
            elif e["ev"] == "dec":
                out = "reject" if e["outcome"] == "reject" else ("accept_same" if e["same"] else "accept_diff")
                table.setdefault((cipher, e["mut"]), set()).add(out)
    if len(forms) != 7 or any("accept_diff" in v for v in table.values()):
        raise Inconclusive("Tunnel_Gen verdict table is incomplete or unsound: %s" % sorted(forms))
    for c in CIPHERS:
        if table.get((c, "none")) != {"accept_same"}:
            raise Inconclusive("verdict table: unmodified messages must be accepted (%s)" % c)
    for b in behs:
        ctx.sample({"tlc_behaviour": b})
        break
    ctx.log("TLC: %d behaviours, %d (cipher, message, class) triples, verdict table of %d cells" % (len(behs), len(triples), len(table)))
    flip = os.environ.get("VERIF_FLIP") == "c05"

    # 3. unit level on kex.SessionCrypter
    wd = ctx.sub("tunnel")
    ujobs = []
    for s in SUITES:
        for c in CIPHERS:
            cls = [k for k in CLASSES if (c, k) in table]
            ujobs.append({"suite": s, "cipher": c, "classes": cls, "seed": rnd.getrandbits(40), "full": not quick, "k": 8})
    up, uo = os.path.join(wd, "ujobs.json"), os.path.join(wd, "unit.ndjson")
    with open(up, "w") as f:
        json.dump(ujobs, f)
    ctx.run_vh(["tunnel-replay", "-jobs", up, "-out", uo], timeout=2400)
    ures = read_ndjson(uo)
    n_unit = 0
    cells = set()
    lenient = {}
    for r in ures:
        if r.get("err"):
            raise Inconclusive("tunnel-replay: %s %s: %s" % (r["suite"], r["cipher"], r["err"]))
        if r.get("kind") == "ivstat":
            # FreshIV of Tunnel.tla on a run of messages under one key: pairwise distinct, and not drawn
            # from a space so small that repetition is a matter of some ten thousand messages (FDO: a 96
            # bit nonce for AES-GCM and AES-CTR, a whole block for AES-CBC). A byte position that is
            # constant over 96 messages is not random (probability 256^-95); at most the 4 counter
            # bytes of the CTR layout may be constant.
            ctx.notes["iv_runs_checked"] = ctx.notes.get("iv_runs_checked", 0) + 1
            if r["iv_distinct"] != r["iv_n"]:
                ctx.violation("iv|repeated|mode=%s" % mode(r["cipher"]), "%s %s: only %d distinct IVs in %d consecutive messages" % (
                    r["suite"], r["cipher"], r["iv_distinct"], r["iv_n"]), r)
            elif r["iv_varying"] < 12:
                ctx.violation("iv|low-entropy|mode=%s" % mode(r["cipher"]), "%s %s: only %d of %d IV bytes ever change over %d consecutive messages (a fresh IV needs at least a 96 bit nonce)" % (
                    r["suite"], r["cipher"], r["iv_varying"], r["iv_len"], r["iv_n"]), r)
            continue
        n_unit += r["n"]
        cells.add((r["suite"], r["cipher"], r["dir"], r["class"]))
        allowed = table[(r["cipher"], r["class"])]
        if flip and r["class"] == "flip_tag":
            allowed = {"accept_diff"}          # self-test: a corrupted verdict table must be noticed
            r["accept_diff"], r["diff_example"] = 0, None
            if r["reject"]:
                ctx.violation("selftest|verdict-table-corrupted|class=flip_tag", "VERIF_FLIP: table says accept_diff, code rejects", r)
        if r["class"] == "none":
            if r["accept_same"] != r["n"]:
                ctx.violation("decrypt|honest-rejected|mode=%s|dir=%s" % (mode(r["cipher"]), r["dir"]),
                              "unit level %s %s %s: an unmodified object was not accepted with its plaintext (%d of %d)" % (
                                  r["suite"], r["cipher"], r["dir"], r["n"] - r["accept_same"], r["n"]), r)
            continue
        if r["accept_diff"]:
            ex = r["diff_example"]
            ctx.violation("decrypt|accepted-modified|class=%s|mode=%s" % (r["class"], mode(r["cipher"])),
                          "unit level %s %s %s payload=%s: SessionCrypter.Decrypt accepted %d of %d rewritten objects of class %s with "
                          "DIFFERENT plaintext (e.g. %s); expected: reject (design) or identical plaintext" % (
                              r["suite"], r["cipher"], r["dir"], r["payload"], r["accept_diff"], r["n"], r["class"], ex["mutant"]),
                          {"result": r, "replay": "feed wire_hex to SessionCrypter{SEK,SVK}.Decrypt for the cipher"})
        for fr, ex in (r.get("panic_examples") or {}).items():
            ctx.violation("panic|%s|class=%s|mode=%s" % (fr, r["class"], mode(r["cipher"])),
                          "unit level %s %s %s: SessionCrypter.Decrypt panics (%s) on %s; expected an error" % (
                              r["suite"], r["cipher"], r["dir"], ex["panic"], ex["mutant"]), {"example": ex, "result": dict(r, panic_examples=None)})
        if r["accept_same"] and "accept_same" not in allowed:
            lenient.setdefault("%s|%s" % (r["cipher"], r["class"]), r["same_example"]["mutant"] if r.get("same_example") else "")
    ctx.log("unit level: %d Decrypt calls over %d (suite, cipher, direction, class) cells" % (n_unit, len(cells)))

    # 4. system level
    runs = []

    def add(suite, cipher, ty, cls, occ=0):
        runs.append({"id": len(runs), "suite": suite, "cipher": cipher, "type": ty, "occ": occ, "class": cls, "seed": rnd.getrandbits(40)})

    tl = sorted(triples)
    for c in CIPHERS:
        add("ECDH256", c, 0, "none")
    if quick:
        for (c, ty, cls) in tl:
            add("ECDH256", c, ty, cls)
        for s in SUITES[1:]:
            for c in CIPHERS:
                add(s, c, 0, "none")
            for (c, ty, cls) in rnd.sample(tl, 8):
                add(s, c, ty, cls)
        for (c, ty, cls) in rnd.sample([t for t in tl if t[1] in (68, 69)], 20):
            add("ECDH256", c, ty, cls, occ=1 + rnd.randrange(2))
    else:
        for (c, ty, cls) in tl:
            for s in ("ECDH256", "ECDH384"):
                for k in range(2):
                    add(s, c, ty, cls, occ=(k if ty in (68, 69) else 0))
            add(rnd.choice(SUITES[2:]), c, ty, cls)
        for s in SUITES[1:]:
            for c in CIPHERS:
                add(s, c, 0, "none")
        for c in CIPHERS:
            for ty in range(65, 72):
                for k in range(24):
                    add("ECDH256", c, ty, "bit_any", occ=(k % 3 if ty in (68, 69) else 0))
    byrun = run_system(ctx, wd, runs)
    if len(byrun) != len(runs):
        raise Inconclusive("tunnel-system returned %d runs of %d" % (len(byrun), len(runs)))
    mutated = 0
    sys_triples = set()
    complete_marks = 0
    for rid, es in byrun.items():
        r = runs[rid]
        for e in es:
            if e["ev"] == "harness_error":
                raise Inconclusive("tunnel-system run %d (%s): %s" % (rid, r, e["err"]))
            if e["ev"] == "info":
                if e["mutated"]:
                    mutated += 1
                    sys_triples.add((r["cipher"], r["type"], r["class"]))
                if r["class"] == "none":
                    if e["markers_in_plaintext"] != 3 or e["messages"] < 7:
                        raise Inconclusive("honest run %d did not carry the marker plaintexts (%s)" % (rid, e))
                    complete_marks += 1
            if e["ev"] == "leak":
                ctx.violation("leak|marker=%s|type=%d" % (e["marker"], e["type"]),
                              "%s %s: plaintext (%s) visible in the wire body of message %d" % (r["suite"], r["cipher"], e["marker"], e["type"]), {"run": r, "event": e})
    # runs whose target message was not a COSE object at all cannot be rewritten (they are rejected by FormPinned below)
    not_cose = sum(1 for rid, es in byrun.items() if runs[rid]["class"] != "none" and
                   any(e["ev"] == "enc" and e["type"] == runs[rid]["type"] and e["form"] == "other" for e in es))
    want_mut = sum(1 for r in runs if r["class"] != "none") - not_cose
    if mutated < 0.9 * want_mut:
        raise Inconclusive("only %d of %d adversarial runs reached the message to rewrite" % (mutated, want_mut))
    nval, nbad = validate(ctx, runs, byrun, flip)
    ctx.log("system level: %d TO2 runs (%d with a rewritten message), %d traces validated, %d left the specification" % (len(runs), mutated, nval, nbad))

    # coverage
    ctx.cov["traces_validated_against_impl"] += nval
    ctx.cov["evaluations"] += n_unit + len(runs)
    ctx.cov["distinct_nontrivial"] += len(cells) + len(sys_triples)
    ctx.cov["rule"] = ("one evaluation = one call of the real SessionCrypter.Decrypt on a rewritten wire object (unit level) or one full "
                       "TO2 run over http.Handler/http.Transport with one rewritten encrypted message, validated against "
                       "Tunnel_Trace.tla (system level); distinct = distinct (suite, cipher, direction, class) unit cells plus distinct "
                       "(cipher, message type, class) triples whose rewriting reached the receiver")
    ex_run = next((es for rid, es in sorted(byrun.items()) if runs[rid]["class"] == "flip_ct"), None)
    if ex_run:
        ctx.sample({"recorded_run": [dict((k, v) for k, v in e.items() if k not in ("orig_hex", "wire_hex")) for e in ex_run[:8]]})
    ctx.sample({"verdict_table_excerpt": dict(("%s|%s" % k, sorted(v)) for k, v in sorted(table.items())[:12])})
    ctx.notes["unit_decrypt_calls"] = n_unit
    ctx.notes["system_runs"] = len(runs)
    ctx.notes["system_runs_with_rewritten_message"] = mutated
    ctx.notes["honest_runs_with_marker_plaintexts"] = complete_marks
    ctx.notes["lenient_acceptance_identical_plaintext"] = lenient
    ctx.assumptions += [
        "TLC and the CommunityModules Json module",
        "symbolic cryptography in Tunnel.tla (a ciphertext opens only under its key/IV/AAD, a MAC verifies only over its body)",
        "the harness journals (responder wrapper, device transport wrapper) are the plaintext boundaries; CBOR rewriting is done with the "
        "independent codec harness/cb",
        "acceptance of a rewritten object with IDENTICAL plaintext is allowed by the property text and reported as lenient, not as a violation",
        "replay/reordering of intact objects within one session is outside C05 (no class for it)",
    ]
    # "a rejected message fails the run": after a rejected tunnel message the session must be gone
    # (FinalKills of Server.tla), decided by traces of the random server driver with undecryptable,
    # foreign and plaintext 66..70 injected into live sessions
    from checks import server_family
    # every class of specification transition whose last exchange is a tunnel message (66/68/70): garbage,
    # replayed, foreign and crafted bodies under every token class in every reachable session state
    server_family.run(ctx, "C05", None, light=True,
                      cover_filter=lambda acts: acts[-1].get("t") in (66, 68, 70) or (acts[-1]["a"] == "honest" and len(acts) > 4))
    return "model_checking"


def run_system(ctx, wd, runs):
    """Execute the runs with `vh tunnel-system`. A panic in a goroutine the library started itself
    cannot be recovered by the harness and kills the harness process: that is recorded as a finding
    (the stack is in stderr) and the runs that did not finish are executed again."""
    byrun = {}
    todo = list(runs)
    for attempt in range(6):
        rp, ro = os.path.join(wd, "runs-%d.json" % attempt), os.path.join(wd, "events-%d.ndjson" % attempt)
        with open(rp, "w") as f:
            json.dump(todo, f)
        p = ctx.run_vh(["tunnel-system", "-runs", rp, "-out", ro], timeout=3000, check=False)
        part = {}
        if os.path.exists(ro):
            with open(ro) as f:
                for line in f:
                    try:
                        e = json.loads(line)
                    except ValueError:
                        continue          # torn last line of a killed process
                    part.setdefault(e["run"], []).append(e)
        for rid, es in part.items():
            if any(e["ev"] in ("info", "harness_error") for e in es):
                byrun[rid] = es
        if p.returncode == 0:
            break
        m = re.search(r"^panic: (.*)$", p.stderr, re.M)
        if not m:
            raise Inconclusive("tunnel-system failed (%d):\n%s" % (p.returncode, p.stderr[-3000:]))
        frames = re.findall(r"^(github\.com/fido-device-onboard/go-fdo[^\s(]*(?:\([^)]*\))?[^\s(]*)\(", p.stderr, re.M)
        files = re.findall(r"^\s+/\S*?/((?:serviceinfo|kex|cose|http|cbor|protocol)?/?[a-z0-9_]+\.go):\d+", p.stderr, re.M)
        top = frames[0].split("go-fdo/")[-1] if frames else "unknown"
        top = top.replace("go-fdo.", "")
        created = re.search(r"created by (\S+)", p.stderr)
        key = "panic|%s %s|unrecoverable-goroutine" % (files[0] if files else "?", top)
        running = [r for r in todo if r["id"] not in byrun]
        ctx.violation(key, "system level: the process died with an unrecovered panic (%s) in a goroutine started by %s while a TO2 run with a "
                           "rewritten message was failing; expected: fdo.TO2 returns an error" % (m.group(1), created.group(1) if created else "the library"),
                      {"stderr": p.stderr[-6000:], "runs_in_progress": running[:32]})
        todo = running
        if not todo:
            break
    else:
        raise Inconclusive("tunnel-system kept dying")
    return byrun


TRACE_EVS = ("enc", "wire", "dec", "crash", "hang", "end")


def signature(cipher, es):
    out = [cipher]
    for e in es:
        ev = e["ev"]
        if ev == "enc":
            out.append(("enc", e["type"], e["dir"], e["form"], e["iv"]))
        elif ev == "wire":
            out.append(("wire", e["mut"]))
        elif ev == "dec":
            out.append(("dec", e["outcome"], e["same"]))
        elif ev == "crash":
            out.append(("crash", frame_of(e["frame"]), e.get("where")))
        elif ev == "hang":
            out.append(("hang", e.get("class"), e.get("type")))
        elif ev == "end":
            out.append(("end", e["failed"]))
    return json.dumps(out)


def trace_lines(cipher, es):
    lines = [{"ev": "reset", "cipher": cipher}]
    for e in es:
        ev = e["ev"]
        if ev == "enc":
            lines.append({"ev": "enc", "type": e["type"], "dir": e["dir"], "form": e["form"], "iv": e["iv"]})
        elif ev == "wire":
            lines.append({"ev": "wire", "mut": e["mut"]})
        elif ev == "dec":
            lines.append({"ev": "dec", "outcome": e["outcome"], "same": bool(e["same"])})
        elif ev == "crash":
            lines.append({"ev": "crash", "frame": frame_of(e["frame"])})
        elif ev == "hang":
            lines.append({"ev": "hang"})
        elif ev == "end":
            lines.append({"ev": "end", "failed": bool(e["failed"])})
    return lines


def validate(ctx, runs, byrun, flip):
    """Validate every recorded run against Tunnel_Trace.tla (identical traces once)."""
    groups = {}
    for rid in sorted(byrun):
        es = [e for e in byrun[rid] if e["ev"] in TRACE_EVS]
        groups.setdefault(signature(runs[rid]["cipher"], es), []).append(rid)
    reps = [rids[0] for rids in groups.values()]
    if flip and reps:
        # self-test: corrupt one recorded field (an honest decision turned into a rejection)
        for e in byrun[reps[0]]:
            if e["ev"] == "dec":
                e["outcome"], e["same"] = "reject", False
                break
    nbad = 0
    chunk = 400
    for i in range(0, len(reps), chunk):
        part = reps[i:i + chunk]
        lines, index = [], []
        for rid in part:
            es = [e for e in byrun[rid] if e["ev"] in TRACE_EVS]
            for j, ln in enumerate(trace_lines(runs[rid]["cipher"], es)):
                lines.append(ln)
                index.append((rid, j - 1))
        wd = tempfile.mkdtemp(prefix="tv-", dir=ctx.scratch)
        write_ndjson(os.path.join(wd, "trace.ndjson"), lines)
        res = ctx.tlc("Tunnel_Trace", "Tunnel_Trace.cfg", workers=1, workdir=wd, quiet=True, timeout=1200)
        hw = re.findall(r"TRACE_HWM[^0-9]*(\d+)", res["out"])
        if not hw or max(int(x) for x in hw) < len(lines):
            inv = [e for e in res["errors"] if "Invariant" in e]
            raise Inconclusive("trace validation did not consume the batch (%s):\n%s" % (inv, res["out"][-3000:]))
        bad = sorted(set(int(x) for x in re.findall(r"BADLINE[^0-9]*(\d+)", res["out"])))
        for ln in bad:
            rid, j = index[ln - 1]
            es = [e for e in byrun[rid] if e["ev"] in TRACE_EVS]
            ev = es[j] if 0 <= j < len(es) else {"ev": "reset"}
            report(ctx, runs[rid], es, j, ev, len(groups[signature(runs[rid]["cipher"], es)]) if not flip else 1)
            nbad += 1
    return len(byrun), nbad


def report(ctx, r, es, j, ev, mult):
    """Turn the first line of a run that no step of Tunnel_Trace explains into a violation."""
    cipher, cls = r["cipher"], r["class"]
    mut = next((e for e in es if e["ev"] == "wire" and e["mut"] != "none"), {})
    msg = next((e for e in reversed(es[:j + 1]) if e["ev"] == "enc"), {})
    ctxt = {"run": r, "events": [dict((k, v) for k, v in e.items()) for e in es[:j + 1]], "rejected_line": ev, "identical_traces": mult,
            "replay": "vh tunnel-system -runs <file with [run]> -out /dev/stdout"}
    where = "%s %s message %s (%s)" % (r["suite"], cipher, msg.get("type"), msg.get("dir"))
    if ev["ev"] == "crash":
        key = "panic|%s|class=%s|mode=%s" % (frame_of(ev["frame"]), cls, mode(cipher))
        what = "system level %s: %s panics (%s) on %s; expected: the message is rejected and the run fails" % (
            where, ev.get("where"), ev["frame"], mut.get("mutant"))
    elif ev["ev"] == "hang":
        fr = re.search(r"go-fdo[/.]([^\s(]+(?:\([^)]*\))?[^\s(]*)\(", ev.get("stacks", ""))
        key = "hang|%s|class=%s|type=%s" % (fr.group(1) if fr else "unknown", cls, r["type"])
        what = "system level %s %s: the TO2 run with a rewritten message %s (class %s) did not return within %ss" % (
            r["suite"], cipher, r["type"], cls, ev.get("after_s"))
    elif ev["ev"] == "dec" and ev["outcome"] == "accept" and not ev["same"]:
        key = "decrypt|accepted-modified|class=%s|mode=%s" % (cls, mode(cipher))
        what = "system level %s: the %s accepted a rewritten object (%s) and was handed DIFFERENT plaintext than the sender protected" % (
            where, "owner" if msg.get("dir") == "d2o" else "device", mut.get("mutant"))
    elif ev["ev"] == "dec":
        key = "decrypt|honest-rejected|mode=%s|dir=%s" % (mode(cipher), msg.get("dir"))
        what = "system level %s: an unmodified message was rejected" % where
    elif ev["ev"] == "enc":
        prev = next((e for e in reversed(es[:j]) if e["ev"] == "dec"), {})
        if prev.get("outcome") == "reject":
            key = "run|continued-after-reject|cipher=%s|type=%s" % (cipher, ev["type"])
            what = "system level %s: after a rejected message the run went on protecting message %s" % (where, ev["type"])
        elif ev["form"] not in ("enc0", "mac0") or (ev["form"] == "enc0") != (cipher in ("A128GCM", "A192GCM", "A256GCM")):
            key = "form|cipher=%s|type=%s|form=%s" % (cipher, ev["type"], ev["form"])
            what = "system level %s: wire object of message %s has form %s, the suite fixes another" % (where, ev["type"], ev["form"])
        elif ev["iv"] == 0:
            key = "iv|missing|cipher=%s|type=%s" % (cipher, ev["type"])
            what = "system level %s: no IV header in message %s" % (where, ev["type"])
        elif any(e["ev"] == "enc" and e["iv"] == ev["iv"] for e in es[:j]):
            key = "iv|reused|cipher=%s" % cipher
            what = "system level %s: the IV of message %s was already used in this session" % (where, ev["type"])
        else:
            key = "order|cipher=%s|type=%s" % (cipher, ev["type"])
            what = "system level %s: message type %s out of the order Tunnel.tla allows" % (where, ev["type"])
    elif ev["ev"] == "end":
        key = "run|outcome|cipher=%s|class=%s|failed=%s" % (cipher, cls, ev["failed"])
        what = "system level %s: the run %s although %s" % (where, "failed" if ev["failed"] else "completed",
                                                             "nothing was rejected" if ev["failed"] else "a message was rejected or the run is incomplete")
    else:
        key = "trace|%s|cipher=%s|class=%s" % (ev["ev"], cipher, cls)
        what = "system level %s: line not explained by Tunnel_Trace: %s" % (where, json.dumps(ev))
    ctx.violation(key, what, ctxt)
