"""C14 - key exchange yields equal, fresh, correctly derived keys; survives persistence.

Pipeline: (1) TLC checks the invariants of spec/Kex.tla (agreement, lengths, derivation arguments,
freshness, degenerate => error and no keys, persistence transparent, keys stable) exhaustively;
(2) TLC enumerates every behaviour of Kex_Gen.tla (6 suites x 7 ciphers x restore points x
degenerate classes x second SetParameter) with the projected state expected after each step;
(3) `vh kex-replay` replays each behaviour on real kex sessions (MarshalBinary/UnmarshalBinary or
sqlite SetXSession/XSession at the restore points, every degenerate class expanded into concrete
parameters) and compares after every step; (4) `vh kex-kdf` lets the harness play the peer of a
library session with its own ECDH / modexp / OAEP and compares the library's SEK||SVK with an
independent SP 800-108 reference (separate sub-result); (5) pairwise distinctness of the keys of
all independent sessions of the run.
"""
import json
import os
import random

from lib.vlib import Inconclusive, read_ndjson

SUITES = ["ECDH256", "ECDH384", "DHKEXid14", "DHKEXid15", "ASYMKEX2048", "ASYMKEX3072"]
CIPHERS = ["A128GCM", "A192GCM", "A256GCM", "COSEAES128CBC", "COSEAES128CTR", "COSEAES256CBC", "COSEAES256CTR"]
VARIANTS = ["lz_lib_pub", "lz_peer_pub", "lz_secret", "padded_peer_pub"]


def family(s):
    return "ecdh" if s.startswith("ECDH") else ("dh" if s.startswith("DHKEX") else "asym")


def shape(steps):
    return " ".join(x["act"] + (":" + x["arg"] if x.get("arg") else "") for x in steps[1:])


def run(ctx):
    quick = ctx.quick()
    rnd = random.Random(ctx.seed)
    ctx.build_vh()

    # 1. design-level check
    if quick:
        ctx.model_check("Kex", "Kex_MC_adv.cfg", timeout=900)
        ctx.model_check("Kex", "Kex_MC_fresh.cfg", timeout=900)
    else:
        ctx.model_check("Kex", "Kex_MC.cfg", timeout=2400)
        ctx.model_check("Kex", "Kex_MC_fresh.cfg", timeout=900)

    # 2. behaviours (exhaustive enumeration, the invariants are evaluated on the way)
    gen = ctx.tlc("Kex_Gen", "Kex_Gen.cfg", workers=4, timeout=900)
    if gen["errors"]:
        raise Inconclusive("model-level error in Kex_Gen:\n" + gen["out"][-4000:])
    ctx.cov["transitions"] += gen.get("generated", 0) or 0
    behs = ctx.behaviours(gen)
    scripts, seen = [], set()
    for b in behs:
        key = (b[0]["suite"], b[0]["cipher"], shape(b))
        if key in seen:          # either-classes appear once per allowed outcome
            continue
        seen.add(key)
        scripts.append(b)
    configs = set((b[0]["suite"], b[0]["cipher"]) for b in scripts)
    if len(configs) != len(SUITES) * len(CIPHERS):
        raise Inconclusive("Kex_Gen covered %d of 42 configurations" % len(configs))
    ctx.log("TLC generated %d distinct scripts for %d configurations" % (len(scripts), len(configs)))

    # binding self-test (BUILDING.md): corrupt one expectation and see it reported
    if os.environ.get("VERIF_FLIP") == "c14":
        for b in scripts:
            if b[-1]["act"] == "SetParam" and b[0]["suite"] == "ECDH256":
                b[-1]["akeys"] = False
                ctx.log("VERIF_FLIP: expectation akeys of %s flipped" % shape(b))
                break

    # 3. replay
    jobs = []
    modes = ["bin", "sqlite"]
    for i, b in enumerate(scripts):
        if quick:
            jobs.append({"id": len(jobs), "mode": modes[(i + ctx.seed) % 2], "seed": rnd.getrandbits(40), "steps": b})
        else:
            for m in modes:
                jobs.append({"id": len(jobs), "mode": m, "seed": rnd.getrandbits(40), "steps": b})
    wd = ctx.sub("kex")
    sp, rp = os.path.join(wd, "scripts.json"), os.path.join(wd, "results.ndjson")
    with open(sp, "w") as f:
        json.dump(jobs, f)
    args = ["kex-replay", "-in", sp, "-out", rp, "-maxinst", 3 if quick else 0]
    if not quick:
        args.append("-full")
    ctx.run_vh(args, timeout=2400)
    results = read_ndjson(rp)
    if len(results) != len(jobs):
        raise Inconclusive("kex-replay returned %d results for %d scripts" % (len(results), len(jobs)))
    byid = {j["id"]: j for j in jobs}
    either = {}
    keys_seen = {}
    dup = []
    nruns = 0
    reached = set()
    for r in results:
        nruns += r["runs"]
        job = byid[r["id"]]
        fam = family(r["suite"])
        reached.add((r["suite"], r["cipher"], r["shape"]))
        grouped = {}
        for m in r.get("mismatches", []):
            if m["field"] == "harness":
                raise Inconclusive("harness problem in script %d: %s" % (r["id"], m))
            step = m["act"] + (":" + m["arg"] if m.get("arg") else "")
            grouped.setdefault((step, m.get("instance", "")), []).append(m)
        for (step, inst), ms in grouped.items():
            if any(m["field"] == "panic" for m in ms):
                frame = ms[0].get("detail", "").split(" :: ")[0]
                key = "panic|%s|fam=%s|step=%s" % (frame, fam, step)
                what = "%s %s: %s panics on %s (%s)" % (r["suite"], r["cipher"], step, inst or "honest input", ms[0].get("detail"))
            else:
                fields = ",".join("%s:%s->%s" % (m["field"], m["want"], m["got"]) for m in ms)
                key = "kex|fam=%s|step=%s|%s" % (fam, step, fields)
                what = "%s %s mode=%s: after %s%s the real session is outside Kex.tla: %s (script: %s)" % (
                    r["suite"], r["cipher"], r["mode"], step, " [%s]" % inst if inst else "", fields, r["shape"])
            ctx.violation(key, what, {"script": job, "result": r,
                                      "replay": "vh kex-replay -in <file with [script]> -out /dev/stdout"})
        for k, v in (r.get("either") or {}).items():
            either.setdefault("%s|%s" % (fam, k), set()).add(v)
        if r.get("completed"):
            for name in ("sek", "svk"):
                h = r.get(name)
                if h:
                    if h in keys_seen and keys_seen[h] != (r["id"], name):
                        dup.append((keys_seen[h], (r["id"], name), h))
                    keys_seen[h] = (r["id"], name)
    ncompleted = sum(1 for r in results if r.get("completed"))
    ctx.log("replayed %d scripts (%d concrete runs), %d completed exchanges" % (len(results), nruns, ncompleted))

    # 4. KDF numeric equality (separate sub-result)
    kjobs = []
    reps = 1 if quick else 4
    for s in SUITES:
        for c in CIPHERS:
            for role in ("owner", "device"):
                for k in range(reps):
                    kjobs.append({"Suite": s, "Cipher": c, "LibRole": role, "Variant": "plain", "OwnerIdx": rnd.randrange(4)})
    lz_ciphers = [rnd.choice(CIPHERS)] if quick else CIPHERS
    for s in SUITES:
        for v in VARIANTS:
            if v == "padded_peer_pub" and family(s) != "dh":
                continue
            for role in ("owner", "device"):
                for c in lz_ciphers:
                    kjobs.append({"Suite": s, "Cipher": c, "LibRole": role, "Variant": v, "OwnerIdx": rnd.randrange(4)})
    kp, ko = os.path.join(wd, "kdfjobs.json"), os.path.join(wd, "kdf.ndjson")
    with open(kp, "w") as f:
        json.dump(kjobs, f)
    ctx.run_vh(["kex-kdf", "-jobs", kp, "-out", ko], timeout=2400)
    kres = read_ndjson(ko)
    if len(kres) != len(kjobs):
        raise Inconclusive("kex-kdf returned %d results for %d jobs" % (len(kres), len(kjobs)))
    kbad = 0
    for k in kres:
        if k["ok"]:
            for name in ("sek", "svk"):
                h = k.get(name)
                if h:
                    if h in keys_seen:
                        dup.append((keys_seen[h], ("kdf", name), h))
                    keys_seen[h] = ("kdf", name)
            continue
        kbad += 1
        if k.get("detail", "").startswith("panic"):
            key = "panic|kdf|fam=%s|role=%s|variant=%s" % (family(k["suite"]), k["lib_role"], k["variant"])
        else:
            key = "kdf|fam=%s|cipher=%s|lib=%s|variant=%s" % (family(k["suite"]), k["cipher"], k["lib_role"], k["variant"])
        ctx.violation(key, "%s %s library as %s (%s): %s" % (k["suite"], k["cipher"], k["lib_role"], k["variant"], k.get("detail")), k)
    ctx.log("KDF numeric equality: %d/%d cases equal to the SP 800-108 reference" % (len(kres) - kbad, len(kres)))

    # 5. freshness: pairwise distinct keys over all independent sessions of the run
    for (a, b, h) in dup[:3]:
        ctx.violation("fresh|duplicate-key", "two independent sessions derived the same key %s (%s, %s)" % (h, a, b), {"a": a, "b": b, "key": h})

    # coverage
    ctx.cov["traces_validated_against_impl"] += len(results) + len(kres)
    ctx.cov["evaluations"] += nruns + len(kres)
    ctx.cov["distinct_nontrivial"] += len(reached) + len(set((k["suite"], k["cipher"], k["lib_role"], k["variant"]) for k in kres))
    ctx.cov["rule"] = ("one evaluation = one script of Kex_Gen.tla executed on real kex sessions with one concrete member of its "
                       "degenerate class (state compared with the specification after every step), or one exchange against the "
                       "harness' own peer compared with the reference KDF; distinct = distinct (suite, cipher, step sequence) "
                       "scripts executed plus distinct (suite, cipher, library role, leading-zero variant) reference comparisons")
    ok_script = next((j for j in jobs if j["steps"][-1]["act"] == "SecondSetParam"), jobs[0])
    ctx.sample({"script": {"suite": ok_script["steps"][0]["suite"], "cipher": ok_script["steps"][0]["cipher"], "mode": ok_script["mode"],
                           "steps": [dict((k, s[k]) for k in ("act", "arg", "res", "ast", "akeys", "bst", "bkeys", "agree")) for s in ok_script["steps"][1:]]}})
    deg = next((j for j in jobs if "Deg" in j["steps"][-1]["act"] or (len(j["steps"]) > 2 and "Deg" in j["steps"][-2]["act"])), None)
    if deg:
        ctx.sample({"degenerate_script": shape(deg["steps"]), "suite": deg["steps"][0]["suite"], "expect": deg["steps"][-1]["res"]})
    ctx.sample({"kdf_case": dict((k, kres[0][k]) for k in ("suite", "cipher", "lib_role", "variant", "ok", "lbits", "ctxlen", "kinlen"))})
    ctx.notes["scripts"] = len(results)
    ctx.notes["completed_exchanges"] = ncompleted
    ctx.notes["distinct_keys_compared"] = len(keys_seen)
    ctx.notes["unjudged_classes_observed"] = dict((k, sorted(v)) for k, v in sorted(either.items()))
    ctx.notes["kdf_numeric_equality"] = {
        "cases": len(kres), "equal": len(kres) - kbad,
        "output_lengths_bits": sorted(set(k["lbits"] for k in kres)),
        "context_lengths": sorted(set(k["ctxlen"] for k in kres)),
        "kin_lengths": sorted(set(k["kinlen"] for k in kres)),
        "leading_zero_cases": sum(1 for k in kres if k["variant"] != "plain"),
        "trusted_base": "harness/kexx/ref.go RefKDF (SP 800-108r1 4.1 counter mode, r=8, 16-bit L, label FIDO-KDF, context "
                        "AutomaticOnboardTunnel||ContextRand), Go crypto/hmac, crypto/ecdh, math/big, crypto/rsa OAEP; RFC 3526 "
                        "groups computed from pi; the library plays one side, the harness' own implementation the other",
    }
    ctx.assumptions += [
        "TLC and the CommunityModules Json module",
        "symbolic cryptography in Kex.tla (DH commutative, KDF/Slice injective)",
        "KeyLen/MacKeyLen are the library's registered sizes (SVK 16 bytes for HMAC-SHA256, 32 for HMAC-SHA384); the FDO "
        "table could not be consulted offline, a different SVK size there would be an interoperability deviation this check does not see",
        "DH shared secret is encoded with the fixed length of p (library convention) in the reference",
        "KDF numeric equality rests on the Go reference in harness/kexx/ref.go and on Go's crypto primitives",
    ]
    return "model_checking"
