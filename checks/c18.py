"""C18: Store.tla (reference model of the sqlite state interfaces) checked by TLC; random histories
of every state-interface operation over several tokens with reopen, executed on sqlite.DB and
validated against Store_Trace.tla; plus the server restart part through Server.tla traces."""
import json
import os
import re
import tempfile

from lib.vlib import Inconclusive, write_ndjson, read_ndjson
from checks import server_family


def validate(ctx, events):
    runs, cur = [], None
    for ev in events:
        if ev["op"] == "reset":
            cur = []
            runs.append(cur)
        else:
            cur.append(ev)
    pending = list(range(len(runs)))
    total, rejected = 0, 0
    while pending:
        lines, index = [], []
        for ri in pending:
            lines.append({"op": "reset"})
            index.append((ri, None))
            for ev in runs[ri]:
                lines.append(ev)
                index.append((ri, ev))
        wd = tempfile.mkdtemp(prefix="stv-", dir=ctx.scratch)
        write_ndjson(os.path.join(wd, "trace.ndjson"), lines)
        r = ctx.tlc("Store_Trace", "Store_Trace.cfg", workers=1, workdir=wd, quiet=True, timeout=1800)
        m = re.findall(r"TRACE_HWM[^0-9]*(\d+)", r["out"])
        lvals = [int(x) for x in re.findall(r"^/\\ l = (\d+)", r["out"], re.M)]
        inv = [e for e in r["errors"] if "ostcondition" not in e and "TraceAccepted" not in e]
        if inv and lvals:
            hwm = max(lvals) - 2
        elif m:
            hwm = max(int(x) for x in m)
        else:
            raise Inconclusive("no high-water mark from Store_Trace:\n" + r["out"][-3000:])
        if hwm >= len(lines) and not inv:
            total += len(pending)
            break
        ri, ev = index[min(hwm, len(lines) - 1)]
        if ev is None:
            raise Inconclusive("validation stopped at a reset line:\n" + r["out"][-2000:])
        key = "store|%s|f=%s|cls=%s|res=%s|out=%s" % (ev["op"], ev["f"], ev["cls"], ev["res"], ev["out"])
        if ev.get("panic"):
            key = "panic|%s|store:%s" % (ev["panic"].split("@")[-1].strip(), ev["op"])
        ctx.violation(key, "operation result not allowed by Store.tla%s: %s" % ((" (" + inv[0] + ")") if inv else "", json.dumps(ev)),
                      {"history": [e for e in runs[ri] if e["i"] <= ev["i"]], "rejected": ev})
        pending = [x for x in pending if x != ri]
        total += 1
        rejected += 1
        if rejected > 6:
            raise Inconclusive("more than 6 rejected histories; stopping")
    return total


def run(ctx):
    quick = ctx.quick()
    ctx.build_vh()
    ctx.model_check("Store", "Store_MC.cfg" if quick else "Store_MC_big.cfg", timeout=3000)
    wd = ctx.sub("store")
    tp = os.path.join(wd, "trace.ndjson")
    ctx.run_vh(["store-run", "-n", 120 if quick else 2000, "-len", 60 if quick else 120, "-seed", ctx.seed, "-out", tp], timeout=3000)
    evs = read_ndjson(tp)
    n = validate(ctx, evs)
    real = [e for e in evs if e["op"] != "reset"]
    ctx.cov["traces_validated_against_impl"] = n
    ctx.cov["evaluations"] = len(real)
    ctx.cov["distinct_nontrivial"] = len(set((e["op"], e["f"], e["cls"], e["res"], e["out"]) for e in real))
    ctx.cov["rule"] = "history = random sequence of state-interface operations (13 session fields, vouchers, blobs, tokens presented as live / none / damaged / foreign, reopen) on sqlite.DB; one evaluation = one operation validated against Store_Trace.tla; distinct = distinct (operation, field, token class, result, returned value id)"
    ctx.notes["reopens"] = sum(1 for e in real if e["op"] == "reopen")
    ctx.sample(real[:6])
    # restart between any two protocol messages: Server.tla traces with restart actions
    ctx.log("store histories validated; now protocol runs with restarts")
    server_family.run(ctx, "C18", None, restart_weight=True, light=True)
    ctx.assumptions += ["value identity is decided by canonical CBOR equality with the pool the harness stored from",
                        "expiry is moved by rewriting the exp column (filter-at-read contract)"]
    return "model_checking"
