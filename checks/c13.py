"""C13 -- COSE signatures and MACs verify exactly what was signed, with the right key.

Pipeline: (1) TLC checks Cose.tla (symbolic signatures [by, over, len]; Sign, Transmit, Alter,
Verify): a verdict TRUE exactly for an unaltered object under the matching key, FALSE or Error for
every set of altered fields, for 8 algorithms x payload kind x detached x aad; (2) TLC prints every
verified state as a behaviour (configuration with the table values, alterations, expected verdict
class); (3) `vh cose-replay` runs each behaviour on cose.Sign1 / cose.Mac0 with real keys through
cbor.Marshal -> alteration -> cbor.Unmarshal -> Verify under recover(), expanding each abstract
alteration into concrete ones (bits of signature / protected header / payload / external data:
every bit in the thorough tier, a seeded sample in the quick tier; impossible lengths; foreign keys
of the same and of other kinds; unknown algorithm identifiers), searches for signatures with a
leading zero byte in r or s, and cross-checks what the library signs / accepts against an
independent construction (harness/cb Sig_structure + Go crypto with the hash of the tables).

Signer options (Cose.tla SignOpts): TLC enumerates key kind (P-256/384/521, RSA-2048/3072) x class of
crypto.SignerOpts (nil, a hash, *rsa.PSSOptions with every class of salt length and hash) x payload
kind x payload mode and prints the outcomes the specification allows for each: "refused" (Sign returns
an error; never for the documented combinations) or "verifies" (with the algorithm label). The runner
calls Sign1.Sign with concrete options of the class on real keys and, when it succeeds, encodes,
decodes and verifies with the matching key (library and independent reference): "signed but does not
verify" is no outcome of the specification.

The protected header has two alteration values: another map ("h1": bits, entries) and the honest map
held inexactly by its byte string ("h0-inexact": trailing bytes inside the byte string, inner map cut
short).

Verdict classes: "accept" -> Verify must return true; "reject" -> false or an error (either), never
true, never a panic. Alterations that a reference decoder maps to the same canonical item
(null/undefined) are skipped and counted (DESIGN 1.4 rule 3); ECDSA (r, n-s) is not in the alphabet.
"""
import json
import os
from concurrent.futures import ThreadPoolExecutor

from lib.vlib import Inconclusive


def run(ctx):
    quick = ctx.quick()
    ctx.build_vh()
    # the exhaustive check of the model runs beside generation and replay (they are independent)
    pool = ThreadPoolExecutor(max_workers=1)
    mc = pool.submit(ctx.model_check, "Cose", "Cose_MC.cfg" if quick else "Cose_MC_big.cfg", timeout=3000, workers=8)
    try:
        return _run(ctx, quick, mc)
    finally:
        pool.shutdown(wait=True)


def _combos(lines):
    """One entry per (key, options class, payload kind, mode): the outcomes Cose.tla allows."""
    by = {}
    for l in lines:
        o = l["signopts"]
        k = (o["key"], o["kind"], o["hash"], o["salt"], o["pk"], o["det"], o["aad"])
        c = by.setdefault(k, dict(o, refuse_allowed=False, labels=[]))
        if l["outcome"] == "refused":
            c["refuse_allowed"] = True
        elif l["outcome"] == "verifies":
            if l["labelid"] not in c["labels"]:
                c["labels"].append(l["labelid"])
        else:
            raise Inconclusive("unknown outcome in a signer-options line: %s" % l)
    return [by[k] for k in sorted(by, key=str)]


def _run(ctx, quick, mc):
    r = ctx.model_check("Cose_Gen", "Cose_Gen.cfg" if quick else "Cose_Gen2.cfg", timeout=1800, workers=8)
    seen, behaviours, optlines = set(), [], []
    for b in ctx.behaviours(r):
        if "signopts" in b:
            optlines.append(b)
            continue
        k = json.dumps(b, sort_keys=True)
        if k not in seen:            # a refusal is printed once as FALSE and once as Error
            seen.add(k)
            behaviours.append(b)
    cfgs = set((b["cfg"]["alg"], b["cfg"]["pk"], b["cfg"]["det"], b["cfg"]["aad"]) for b in behaviours)
    fields = set(a["field"] for b in behaviours for a in b["alters"])
    if len(cfgs) != 128 or fields != {"sig", "protected", "payload", "argpayload", "aad", "key", "siglen", "algid"}:
        raise Inconclusive("vacuous generation: %d configurations, fields %s" % (len(cfgs), sorted(fields)))
    protvals = set(a["value"] for b in behaviours for a in b["alters"] if a["field"] == "protected")
    if protvals != {"h1", "h0-inexact"}:
        raise Inconclusive("vacuous generation: protected header alteration values %s" % sorted(protvals))
    combos = _combos(optlines)
    classes = set((c["key"], c["kind"], c["hash"], c["salt"]) for c in combos)
    must = [c for c in combos if not c["refuse_allowed"]]
    if len(classes) != 5 * 31 or not must or not any(c["refuse_allowed"] and c["labels"] for c in combos) or any(not c["labels"] for c in combos):
        raise Inconclusive("vacuous generation: %d signer-options classes, %d combinations that must sign" % (len(classes), len(must)))
    ctx.log("signer options from TLC: %d combinations (%d key x options classes), %d of them must sign" % (len(combos), len(classes), len(must)))
    if not any(b["expect"] == "accept" for b in behaviours) or not any(b["expect"] == "reject" for b in behaviours):
        raise Inconclusive("vacuous generation: one verdict class missing")
    ctx.log("behaviours from TLC: %d (%d configurations)" % (len(behaviours), len(cfgs)))

    # binding demonstration: VERIF_SELFTEST=flip corrupts one expected verdict
    if os.environ.get("VERIF_SELFTEST") == "flip":
        for b in behaviours:
            if b["alters"] and b["alters"][0]["field"] == "aad" and b["cfg"]["alg"] == "ES256":
                b["expect"] = "accept"
                ctx.log("SELFTEST: flipped the expected verdict of one behaviour: %s" % json.dumps(b))
                break

    if os.environ.get("VERIF_SELFTEST") == "flip-opts":
        for c in combos:
            if c["kind"] == "pss" and c["salt"] == "otherPositive" and c["hash"] == "SHA256" and c["key"] == "RSA-2048":
                c["refuse_allowed"] = False
        ctx.log("SELFTEST: refusal of PSS options with another positive salt length is no longer allowed")

    wd = ctx.sub("cose")
    bpath, rpath, opath = os.path.join(wd, "behaviours.json"), os.path.join(wd, "report.json"), os.path.join(wd, "signopts.json")
    with open(bpath, "w") as f:
        json.dump(behaviours, f)
    with open(opath, "w") as f:
        json.dump(combos, f)
    ctx.run_vh(["cose-replay", "-in", bpath, "-opts", opath, "-out", rpath], timeout=3000)
    with open(rpath) as f:
        rep = json.load(f)
    # single-class findings first; a combination of classes that are each reported on their own is the same findings
    singles = set()
    for fd in (rep["findings"] or []):
        if fd["key"].startswith("accepted|") and len(fd.get("classes") or []) == 1:
            singles.add((fd["cfg"]["struct"], fd["classes"][0]))
    combined = 0
    for fd in (rep["findings"] or []):
        cls = fd.get("classes") or []
        if fd["key"].startswith("accepted|") and len(cls) > 1 and all((fd["cfg"]["struct"], c) in singles for c in cls):
            combined += 1
            continue
        if fd["key"].startswith("signopts|"):
            ctx.violation(fd["key"], "%s [payload kind %s detached=%s aad=%s; seen %d times]" % (fd["what"], fd["cfg"]["pk"], fd["cfg"]["det"], fd["cfg"]["aad"], fd["count"]), fd)
            continue
        what = "%s [%s pk=%s detached=%s aad=%s; verification key: %s; outcome %s %s; seen %d times]" % (
            fd["what"], fd["cfg"]["alg"], fd["cfg"]["pk"], fd["cfg"]["det"], fd["cfg"]["aad"], fd.get("verification_key"), fd["outcome"],
            (fd.get("detail") or "")[:200], fd["count"])
        ctx.violation(fd["key"], what, fd)
    if rep["behaviours"] != len(behaviours):
        raise Inconclusive("runner replayed %d of %d behaviours" % (rep["behaviours"], len(behaviours)))
    if rep["by_outcome"].get("true", 0) < 128 or rep["reference_cross_checks"] < 256:
        raise Inconclusive("vacuous replay: %s" % rep["by_outcome"])
    so = rep["signer_options"]
    if so["combinations"] != len(combos) or so["by_outcome"].get("verifies", 0) < len(must) or not so["by_outcome"].get("refused") or len(so["classes"]) < 2 * 31:
        raise Inconclusive("vacuous signer-options run: %s" % json.dumps({k: so[k] for k in ("combinations", "evaluations", "by_outcome")}))
    ctx.log("signer options: %d combinations, %d Sign calls: %s" % (so["combinations"], so["evaluations"], so["by_outcome"]))
    lz = rep["leading_zero_signatures"]
    if not all(lz.get(k) for k in ("ES256:r", "ES256:s", "ES384:r", "ES384:s")):
        raise Inconclusive("no signature with a leading zero byte in r and in s was found for both curves: %s" % lz)
    ctx.cov["traces_validated_against_impl"] += rep["behaviours"]
    ctx.cov["evaluations"] += rep["evaluations"]
    ctx.cov["distinct_nontrivial"] += rep["distinct"]
    ctx.cov["rule"] = ("(signer options: one evaluation = one Sign1.Sign call with concrete options, followed by encode, decode, Verify and the reference verification) "
                       "one evaluation = one decode + Sign1.Verify (or Mac0 recompute-and-compare as kex/crypter.go does) of a concretely altered "
                       "object, judged against the verdict class of Cose.tla; distinct = distinct (algorithm, payload kind, detached, aad, "
                       "altered fields, concrete alteration kind) tuples")
    ctx.cov["evaluations"] += so["evaluations"]
    ctx.notes["signer_options"] = {"combinations": so["combinations"], "sign_calls": so["evaluations"], "by_outcome": so["by_outcome"],
                                   "key_family_x_options_classes": len(so["classes"]),
                                   "sign_panics (Sign panicking on the caller's own options is outside the statement of C13; judged like a refusal)": so["sign_panics"]}
    ctx.notes["evaluations_by_altered_fields"] = rep["by_alteration"]
    ctx.notes["outcomes"] = rep["by_outcome"]
    ctx.notes["noop_alterations_skipped"] = rep["noop_alterations_skipped"]
    ctx.notes["findings_that_combine_separately_reported_classes"] = combined
    ctx.notes["leading_zero_signatures_checked"] = lz
    ctx.notes["reference_cross_checks"] = rep["reference_cross_checks"]
    ctx.notes["every_bit_of_sig_protected_payload_aad"] = rep["every_bit"]
    ctx.sample({"tlc_behaviour": behaviours[1]})
    ctx.sample({"tlc_behaviour": behaviours[len(behaviours) // 2]})
    ctx.sample({"tlc_signer_options": next(c for c in combos if c["kind"] == "pss" and c["salt"] == "auto" and c["key"] == "RSA-2048")})
    mc.result()      # a model-level error is Inconclusive (raised by model_check)
    ctx.assumptions += ["TLC 1.8.0 and the CommunityModules Json module", "Go's crypto/ecdsa, crypto/rsa, crypto/hmac, crypto/sha256, crypto/sha512 (reference primitives)",
                        "harness/cb builds the reference Sig_structure / MAC_structure and classifies no-op alterations",
                        "ECDSA (r, n-s) malleability is not an alteration (DESIGN 1.4 rule 3)",
                        "bit-level alterations of payloads above 4 KiB are sampled in both tiers; 'large' payloads stay below the library's documented decode limit (cbor.MaxArrayDecodeLength = 100000)",
                        "Mac0 has no Verify in the library: the tag is recomputed with Mac0.Digest under the verifier's algorithm and key and compared with bytes.Equal, as kex/crypter.go does"]
    return "model_checking"
