"""C13 -- COSE signatures and MACs verify exactly what was signed, with the right key.

Pipeline: (1) TLC checks Cose.tla (symbolic signatures [by, over, len]; Sign, Transmit, Alter,
Verify): a verdict TRUE exactly for an unaltered object under the matching key, FALSE or Error for
every set of altered fields, for 8 algorithms x payload kind x detached x aad; (2) TLC prints every
verified state as a behaviour (configuration with the table values, alterations, expected verdict
class); (3) `vh cose-replay` runs each behaviour on cose.Sign1 / cose.Mac0 with real keys through
cbor.Marshal -> alteration -> cbor.Unmarshal -> Verify under recover(), expanding each abstract
alteration into concrete ones (bits of signature / protected header / payload / external data:
every bit in the thorough tier, a seeded sample in the quick tier; impossible lengths; foreign keys
of the same and of other kinds; unknown algorithm identifiers), searches for signatures with a
leading zero byte in r or s, and cross-checks what the library signs / accepts against an
independent construction (harness/cb Sig_structure + Go crypto with the hash of the tables).

Verdict classes: "accept" -> Verify must return true; "reject" -> false or an error (either), never
true, never a panic. Alterations that a reference decoder maps to the same canonical item
(null/undefined) are skipped and counted (DESIGN 1.4 rule 3); ECDSA (r, n-s) is not in the alphabet.
"""
import json
import os

from lib.vlib import Inconclusive


def run(ctx):
    quick = ctx.quick()
    ctx.build_vh()
    ctx.model_check("Cose", "Cose_MC.cfg" if quick else "Cose_MC_big.cfg", timeout=1800)
    r = ctx.model_check("Cose_Gen", "Cose_Gen.cfg" if quick else "Cose_Gen2.cfg", timeout=1800)
    seen, behaviours = set(), []
    for b in ctx.behaviours(r):
        k = json.dumps(b, sort_keys=True)
        if k not in seen:            # a refusal is printed once as FALSE and once as Error
            seen.add(k)
            behaviours.append(b)
    cfgs = set((b["cfg"]["alg"], b["cfg"]["pk"], b["cfg"]["det"], b["cfg"]["aad"]) for b in behaviours)
    fields = set(a["field"] for b in behaviours for a in b["alters"])
    if len(cfgs) != 128 or fields != {"sig", "protected", "payload", "argpayload", "aad", "key", "siglen", "algid"}:
        raise Inconclusive("vacuous generation: %d configurations, fields %s" % (len(cfgs), sorted(fields)))
    if not any(b["expect"] == "accept" for b in behaviours) or not any(b["expect"] == "reject" for b in behaviours):
        raise Inconclusive("vacuous generation: one verdict class missing")
    ctx.log("behaviours from TLC: %d (%d configurations)" % (len(behaviours), len(cfgs)))

    # binding demonstration: VERIF_SELFTEST=flip corrupts one expected verdict
    if os.environ.get("VERIF_SELFTEST") == "flip":
        for b in behaviours:
            if b["alters"] and b["alters"][0]["field"] == "aad" and b["cfg"]["alg"] == "ES256":
                b["expect"] = "accept"
                ctx.log("SELFTEST: flipped the expected verdict of one behaviour: %s" % json.dumps(b))
                break

    wd = ctx.sub("cose")
    bpath, rpath = os.path.join(wd, "behaviours.json"), os.path.join(wd, "report.json")
    with open(bpath, "w") as f:
        json.dump(behaviours, f)
    ctx.run_vh(["cose-replay", "-in", bpath, "-out", rpath], timeout=3000)
    with open(rpath) as f:
        rep = json.load(f)
    # single-class findings first; a combination of classes that are each reported on their own is the same findings
    singles = set()
    for fd in (rep["findings"] or []):
        if fd["key"].startswith("accepted|") and len(fd.get("classes") or []) == 1:
            singles.add((fd["cfg"]["struct"], fd["classes"][0]))
    combined = 0
    for fd in (rep["findings"] or []):
        cls = fd.get("classes") or []
        if fd["key"].startswith("accepted|") and len(cls) > 1 and all((fd["cfg"]["struct"], c) in singles for c in cls):
            combined += 1
            continue
        what = "%s [%s pk=%s detached=%s aad=%s; verification key: %s; outcome %s %s; seen %d times]" % (
            fd["what"], fd["cfg"]["alg"], fd["cfg"]["pk"], fd["cfg"]["det"], fd["cfg"]["aad"], fd.get("verification_key"), fd["outcome"],
            (fd.get("detail") or "")[:200], fd["count"])
        ctx.violation(fd["key"], what, fd)
    if rep["behaviours"] != len(behaviours):
        raise Inconclusive("runner replayed %d of %d behaviours" % (rep["behaviours"], len(behaviours)))
    if rep["by_outcome"].get("true", 0) < 128 or rep["reference_cross_checks"] < 256:
        raise Inconclusive("vacuous replay: %s" % rep["by_outcome"])
    lz = rep["leading_zero_signatures"]
    if not all(lz.get(k) for k in ("ES256:r", "ES256:s", "ES384:r", "ES384:s")):
        raise Inconclusive("no signature with a leading zero byte in r and in s was found for both curves: %s" % lz)
    ctx.cov["traces_validated_against_impl"] += rep["behaviours"]
    ctx.cov["evaluations"] += rep["evaluations"]
    ctx.cov["distinct_nontrivial"] += rep["distinct"]
    ctx.cov["rule"] = ("one evaluation = one decode + Sign1.Verify (or Mac0 recompute-and-compare as kex/crypter.go does) of a concretely altered "
                       "object, judged against the verdict class of Cose.tla; distinct = distinct (algorithm, payload kind, detached, aad, "
                       "altered fields, concrete alteration kind) tuples")
    ctx.notes["evaluations_by_altered_fields"] = rep["by_alteration"]
    ctx.notes["outcomes"] = rep["by_outcome"]
    ctx.notes["noop_alterations_skipped"] = rep["noop_alterations_skipped"]
    ctx.notes["findings_that_combine_separately_reported_classes"] = combined
    ctx.notes["leading_zero_signatures_checked"] = lz
    ctx.notes["reference_cross_checks"] = rep["reference_cross_checks"]
    ctx.notes["every_bit_of_sig_protected_payload_aad"] = rep["every_bit"]
    ctx.sample({"tlc_behaviour": behaviours[1]})
    ctx.sample({"tlc_behaviour": behaviours[len(behaviours) // 2]})
    ctx.assumptions += ["TLC 1.8.0 and the CommunityModules Json module", "Go's crypto/ecdsa, crypto/rsa, crypto/hmac, crypto/sha256, crypto/sha512 (reference primitives)",
                        "harness/cb builds the reference Sig_structure / MAC_structure and classifies no-op alterations",
                        "ECDSA (r, n-s) malleability is not an alteration (DESIGN 1.4 rule 3)",
                        "bit-level alterations of payloads above 4 KiB are sampled in both tiers; 'large' payloads stay below the library's documented decode limit (cbor.MaxArrayDecodeLength = 100000)",
                        "Mac0 has no Verify in the library: the tag is recomputed with Mac0.Digest under the verifier's algorithm and key and compared with bytes.Equal, as kex/crypter.go does"]
    return "model_checking"
