"""X01 (growth beyond the listed properties, not registered in MANIFEST.json): the plugin line
protocol. Plugin.tla (one action per line the adapter reads; DecodeValue's recursion as an explicit
stack) checked by TLC; every conversation up to the bound replayed on plugin.DeviceModule.Yield and
plugin.OwnerModule.ProduceInfo with an in-process plugin; every value the specification delivers is
also sent in the other direction (Receive / HandleInfo) and parsed back from the lines the plugin got."""
import json
import os

from lib.vlib import Inconclusive


def peer_stage(ctx, n=None):
    """Peer-supplied CBOR values (any item a peer can put into a service-info value) handed to modules
    backed by a plugin: the adapter returns an error or hands the plugin lines, it never panics or
    hangs (C10's clause for the TO2 roles when modules are plugins). Reported under ctx.prop."""
    wd = ctx.sub("plugpeer")
    rp = os.path.join(wd, "peer.json")
    n = n or (3000 if ctx.quick() else 60000)
    ctx.run_vh(["plugin-peer", "-n", n, "-seed", ctx.seed, "-out", rp], timeout=3000)
    with open(rp) as f:
        res = json.load(f)
    outcomes = {}
    for x in res:
        outcomes[x["outcome"]] = outcomes.get(x["outcome"], 0) + 1
        if x["outcome"] in ("crash", "hang"):
            frame = (x.get("detail") or "").split("@")[-1].strip()
            key = "panic|%s|plugin-module|peer-value" % frame if x["outcome"] == "crash" else "hang|plugin-module|%s" % x["role"]
            ctx.violation(key, "a peer-supplied service-info value %s a plugin-backed %s module: %s" % (
                "crashes" if x["outcome"] == "crash" else "hangs", x["role"], json.dumps(x)[:600]), x)
    ctx.notes["plugin_module_peer_values"] = outcomes
    if outcomes.get("delivered", 0) < n // 10 or outcomes.get("error", 0) < n // 20:
        raise Inconclusive("plugin peer stage is vacuous: %r" % outcomes)
    ctx.cov["evaluations"] += len(res)
    return len(res)


def run(ctx):
    quick = ctx.quick()
    ctx.build_vh()
    ctx.model_check("Plugin", "Plugin_MC.cfg", timeout=1800)
    wd = ctx.sub("plug")
    cfgp = os.path.join(wd, "Plugin_Gen.cfg")
    with open(cfgp, "w") as f:
        f.write('SPECIFICATION Spec\nCONSTANTS\n  MaxLines = %d\n  Roles = {"device", "owner"}\nINVARIANTS Emit\n' % (4 if quick else 5))
    r = ctx.tlc("Plugin_Gen", cfgp, workers=8, timeout=2400)
    if r["errors"]:
        raise Inconclusive("Plugin_Gen failed:\n" + r["out"][-3000:])
    behs = ctx.behaviours(r)
    ctx.cov["states"] += r.get("distinct", 0)
    ctx.cov["transitions"] += r.get("generated", 0)
    if len(behs) < 1000:
        raise Inconclusive("too few conversations generated (%d)" % len(behs))
    bp = os.path.join(wd, "behaviours.json")
    with open(bp, "w") as f:
        json.dump(behs, f)
    rp = os.path.join(wd, "results.json")
    ctx.run_vh(["plugin-replay", "-in", bp, "-out", rp], timeout=3000)
    with open(rp) as f:
        out = json.load(f)
    res, sends = out["results"], out["sends"]
    ctx.log("%d conversations replayed on the plugin adapters, %d values sent to the plugin" % (len(res), len(sends)))
    bad = [x for x in res if not x["match"]]
    for x in bad:
        toks = x["lines"]
        if x.get("panic"):
            frame = x["panic"].split("@")[-1].strip()
            key = "panic|%s|%s" % (frame, "map-key-not-hashable" if "unhashable" in x["panic"] else x["panic"].split("@")[0].strip()[:60])
        elif x.get("hang"):
            key = "hang|%s|%s" % (x["role"], ",".join(toks))
        else:
            key = "conversation|%s|%s|res=%s(spec %s)|obs=%d(spec %d)" % (x["role"], ",".join(toks), x["res"], x["expres"], len(x["obs"] or []), len(x["expected"] or []))
        ctx.violation(key, "plugin adapter left Plugin.tla: %s" % json.dumps(x)[:1500], x)
    for s in sends:
        if s["match"]:
            continue
        if s.get("panic"):
            key = "panic|%s|host-to-plugin|%s" % (s["panic"].split("@")[-1].strip(), s["panic"].split("@")[0].strip()[:60])
        else:
            key = "host-to-plugin|%s|value=%s|%s" % (s["role"], s["value"], (s.get("err") or "differs")[:80])
        ctx.violation(key, "value handed to the plugin is not the value received: %s" % json.dumps(s)[:1200], s)
    ctx.cov["traces_validated_against_impl"] = len(res) + len(sends)
    ctx.cov["evaluations"] = len(res) + len(sends)
    peer_stage(ctx)
    ctx.cov["distinct_nontrivial"] = len(set((x["role"], x["expres"], len(x["expected"] or [])) for x in res)) + len(set(s["value"] for s in sends))
    ctx.cov["rule"] = "one evaluation = one conversation (plugin output up to the bound, incl. malformed lines and exit) replayed on the real adapter and compared with the specification's observations and result, or one value sent through Receive/HandleInfo and parsed back"
    ctx.sample(behs[len(behs) // 2])
    ctx.assumptions += ["the in-process plugin writes the concrete line of each abstract token; the harness' own parser of the value grammar"]
    return "model_checking"
