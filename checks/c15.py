"""C15 -- service-info chunking is lossless, ordered and within the MTU.

Specifications: spec/Chunk.tla (byte-count level: writer script, ReadChunk, batch packing,
reassembly; invariants Lossless, Contiguous, FitsBudget, SmallIsPure, YieldStartsNewBatch),
spec/Pipeline.tla (goroutine/pipe level of serviceinfo/chunk.go: hand-off, bufPipe / io.Pipe,
Close protocol, cancellation; deadlock freedom, termination, completeness, all interleavings).

Pipeline of the check:
 1. TLC checks Chunk.tla exhaustively on a parameter grid (all remainders 0..40, key lengths
    1/4/22/23/24/40, budget bands) and with writer/reader interleavings (+ liveness Delivered);
    TLC checks Pipeline.tla for K in {0,1,2} (deadlock, Termination, Complete, NoPanic).
 2. Chunk_Gen.tla prints, for a seeded grid, every parameter tuple with the chunk sequences the
    specification allows; `vh chunk-replay` runs the real ChunkOutPipe / ChunkInPipe on each tuple
    and the observed chunk sequence (key, n, KV.Size) and reassembled stream must be an allowed one.
 3. `vh chunk-sweep` runs the dense Go-side sweep (remainders, MTUs, key lengths, 1-3 messages,
    yields, write splits, buffered and unbuffered pipes, perturbed schedules, several GOMAXPROCS)
    and records traces; every trace (also those of step 2) is validated against Chunk_Trace.tla.
    Splits of a value into writes include EMPTY writes (Write(0) before, between and after the non-empty
    parts: Chunk.tla SplitOf kind = base + 7 z; a stuttering step of the written stream; Pipeline.tla models the
    io.Pipe rendezvous of an empty write, taken by a Read returning (0, nil)); a second, seeded "writes" grid of
    Chunk_Gen enumerates all 28 split kinds, splits of the second value and calls after Close (WLate: every call
    after Close fails and changes nothing, `late` events).  On the reassembly side the harness also feeds chunks
    with an empty value (Chunk.tla FeedEmpty, `feed{n=0}` events, call by call) and reads the reassembled values
    with small buffers.  A stall is a `hang` event (10 s watchdog) that no action of the specification allows.
 4. Cancellation (Pipeline.tla, Cancel = TRUE): where the model reaches a panic state the scenario
    is executed against the real code (`vh chunk-cancel`).
Verdicts come only from the real code: a rejected trace line / a replay mismatch / a reproduced panic.
"""
import collections
import json
import os
import random
import re
import shutil
import tempfile
from concurrent.futures import ThreadPoolExecutor

from lib.vlib import Inconclusive, write_ndjson, read_ndjson

KEYLENS = [1, 4, 22, 23, 24, 40]
INVS = "TypeOK Lossless Contiguous FitsBudget SmallIsPure YieldStartsNewBatch"
WINDOW = "size-window[7,7+keyraw)"


def rawlen(k):
    return k + (1 if k < 24 else 2 if k < 256 else 3)


# ---------------------------------------------------------------------------------------------
# TLC helpers
def tla_set(xs):
    return "{" + ", ".join(str(x) for x in xs) + "}"


def gen_cfg(mtus, tails, spans, yieldsets, maxmsgs=2, keylens=KEYLENS, rems=range(0, 41), splits=(0,), tailsplits=(0,), lates=(0,)):
    ys = "{" + ", ".join(tla_set(sorted(y)) for y in yieldsets) + "}"
    return """SPECIFICATION Spec
CONSTANTS
  MTUs = %s
  KeyLens = %s
  Rems = %s
  MaxMsgs = %d
  TailLens = %s
  Spans = %s
  YieldSets = %s
  SplitKinds = %s
  TailSplitKinds = %s
  LateKinds = %s
  EmptyFeeds = FALSE
  Interleave = FALSE
INVARIANTS %s Emit
""" % (tla_set(mtus), tla_set(keylens), tla_set(rems), maxmsgs, tla_set(tails), tla_set(spans), ys, tla_set(splits),
       tla_set(tailsplits), tla_set(lates), INVS)


def account(ctx, module, cfg, r):
    """What ctx.model_check does, for a run started with ctx.tlc in a worker thread."""
    if r["errors"]:
        raise Inconclusive("model-level error in %s/%s (not a verdict about the code):\n%s" % (module, cfg, r["out"][-6000:]))
    ctx.cov["states"] += r.get("distinct", 0) or 0
    ctx.cov["transitions"] += r.get("generated", 0) or 0
    ctx.notes.setdefault("tlc_runs", []).append({"module": module, "cfg": os.path.basename(cfg), "generated": r.get("generated"),
                                                 "distinct": r.get("distinct"), "depth": r.get("depth"), "wall_s": round(r["wall"], 1)})


# ---------------------------------------------------------------------------------------------
# trace validation
def split_runs(events):
    runs, cur = [], None
    for ev in events:
        if ev["ev"] == "reset":
            cur = [ev]
            runs.append(cur)
        elif cur is not None:
            cur.append(ev)
    return runs


def validate_slice(ctx, runs, label):
    """Validate a list of runs (each a list of events) in one TLC process.
    Returns a list of (run, index of the rejected event in the run)."""
    lines, index = [], []
    for r in runs:
        for i, ev in enumerate(r):
            lines.append(ev)
            index.append((r, i))
    wd = tempfile.mkdtemp(prefix="tv-%s-" % label, dir=ctx.scratch)
    write_ndjson(os.path.join(wd, "trace.ndjson"), lines)
    res = ctx.tlc("Chunk_Trace", "Chunk_Trace.cfg", workers=1, workdir=wd, quiet=True, timeout=1500)
    out = res["out"]
    if any("Invariant" in e for e in res["errors"]):
        raise Inconclusive("an invariant of Chunk.tla failed on a state reached by specification steps (model-level):\n" + out[-3000:])
    m = re.findall(r"TRACE_HWM[^0-9]*(\d+)", out)
    if not m or max(int(x) for x in m) != len(lines):
        raise Inconclusive("trace validation did not consume the whole batch (%s of %d lines):\n%s" % (m, len(lines), out[-3000:]))
    rej = sorted(set(int(x) for x in re.findall(r'TRACE_REJECT", (\d+)', out)))
    shutil.rmtree(wd, ignore_errors=True)
    return [index[n - 1] for n in rej], res


def validate_runs(ctx, runs, label, per_slice=8000, workers=8):
    """Validate runs against Chunk_Trace.tla in parallel slices; returns the rejections."""
    slices, cur, n = [], [], 0
    for r in runs:
        cur.append(r)
        n += len(r)
        if n >= per_slice:
            slices.append(cur)
            cur, n = [], 0
    if cur:
        slices.append(cur)
    rejections = []
    with ThreadPoolExecutor(max_workers=workers) as ex:
        futs = [ex.submit(validate_slice, ctx, s, "%s%d" % (label, i)) for i, s in enumerate(slices)]
        for f in futs:
            rej, res = f.result()
            rejections += rej
            ctx.cov["transitions"] += res.get("generated", 0) or 0
    return rejections


def messages_of(run):
    msgs = []
    for x in run:
        if x["ev"] == "script":
            for o in x["ops"]:
                if o["op"] == "close":
                    break       # what follows are calls after Close
                if o["op"] == "next":
                    msgs.append([o["key"], 0])
                elif o["op"] == "write":
                    msgs[-1][1] += o["n"]
    return msgs


def script_of(run):
    for x in run:
        if x["ev"] == "script":
            return x["ops"]
    return []


def empty_writes(run):
    n = 0
    for o in script_of(run):
        if o["op"] == "close":
            break
        if o["op"] == "write" and o["n"] == 0:
            n += 1
    return n


def late_ops(run):
    ops = script_of(run)
    for i, o in enumerate(ops):
        if o["op"] == "close":
            return [x["op"] for x in ops[i + 1:]]
    return []


def empty_write_offsets(run, j):
    """Offsets inside message j (0-based) at which the script has an empty write."""
    offs, cur, acc = set(), -1, 0
    for o in script_of(run):
        if o["op"] == "close":
            break
        if o["op"] == "next":
            cur, acc = cur + 1, 0
        elif o["op"] == "write" and cur == j:
            if o["n"] == 0:
                offs.add(acc)
            acc += o["n"]
    return offs


def position(run, msgs, upto):
    """(message index, offset) of the next unread byte after the chunk events before `upto`."""
    tot = sum(x["n"] for x in run[:upto] if x["ev"] == "read" and x["out"] == "chunk")
    acc = 0
    for j, (k, n) in enumerate(msgs):
        if tot < acc + n:
            return j, tot - acc
        acc += n
    return len(msgs), 0


def classify(run, idx):
    """Key and description of a rejected event (labelling only; the verdict is TLC's)."""
    e = run[idx]
    msgs = messages_of(run)
    mtu = run[0].get("mtu")
    if e["ev"] == "werr":
        return "C15|writer-error|" + re.sub(r"^\d+:", "", e["msg"])[:60], "the writer saw an error: %s" % e["msg"]
    if e["ev"] in ("hang", "crash"):
        d = (e.get("where") or e.get("msg") or "")[:80]
        if e["ev"] == "hang" and empty_writes(run) and run[0].get("buffers") == 0:
            return ("C15|empty-write|hang|unbuffered|stage=%s" % d,
                    "the pipeline stalled (watchdog, stage %s) on a script with an empty Write on the unbuffered pipe; script: %s"
                    % (d, json.dumps(script_of(run))[:300]))
        return "C15|%s|%s" % (e["ev"], d), "%s: %s" % (e["ev"], d)
    if e["ev"] == "late":
        return ("C15|call-after-Close-succeeded|%s" % e.get("op"),
                "the writer's %s after Close did not fail (or was not the call the script made): %s" % (e.get("op"), json.dumps(e)))
    if e["ev"] in ("feed", "feeds", "feedclose", "unchunk") and e.get("err"):
        return ("C15|reassembly-error|%s|%s" % (e["ev"], e["err"][:50]), "the reassembly side failed: %s" % json.dumps(e))
    if e["ev"] == "unchunk":
        return ("C15|reassembly|value-differs|feed_empty=%s" % (run[0].get("feed_empty") or "none"),
                "NextServiceInfo + body read (buffer of %s bytes; 0 = io.ReadAll) returned a value Chunk.tla does not allow here: %s"
                % (run[0].get("body_read") or 0, json.dumps(e)))
    if e["ev"] != "read":
        return "C15|unexplained|ev=%s" % e["ev"], "event not allowed by Chunk.tla: %s" % json.dumps(e)
    j, off = position(run, msgs, idx)
    fresh = off == 0 and j < len(msgs)
    klen = msgs[j][0]["len"] if j < len(msgs) else 0
    L = rawlen(klen) if klen else 0
    prev = [x for x in run[:idx] if x["ev"] == "read"]
    if e["out"] == "chunk" and j < len(msgs) and (off + e["n"]) in empty_write_offsets(run, j) and off + e["n"] < msgs[j][1]:
        return ("C15|empty-write|value-cut-at-empty-write|buffers=%s" % run[0].get("buffers"),
                "ReadChunk(size=%d) returned a chunk of %d byte(s) that ends where the writer made an empty Write (offset %d of %d in message %d), "
                "although the message was not finished and the budget had room; mtu=%d buffers=%s"
                % (e["size"], e["n"], off + e["n"], msgs[j][1], j + 1, mtu, run[0].get("buffers")))
    if e["out"] == "err" and fresh and 7 <= e["size"] < 7 + L:
        return ("C15|%s|read-error" % WINDOW,
                "ReadChunk(size=%d) at the start of a message whose key has %d bytes (raw %d): observed error %r and the exchange fails; "
                "expected ErrSizeTooSmall without consuming (or a chunk of %d byte(s)); mtu=%d" % (e["size"], klen, L, e.get("msg"), max(e["size"] - L - 2, 0), mtu))
    if prev and prev[-1]["out"] == "small" and fresh and 7 <= prev[-1]["size"] < 7 + L:
        got = "io.EOF" if e["out"] == "eof" else "a chunk of the following message %s" % json.dumps(e.get("key"))
        return ("C15|%s|message-dropped" % WINDOW,
                "ReadChunk(size=%d) at the start of a message whose key has %d bytes (raw %d) answered ErrSizeTooSmall but consumed the message: "
                "the next ReadChunk(size=%d) returned %s; expected the first chunk of the message with key length %d (it is silently lost); mtu=%d"
                % (prev[-1]["size"], klen, L, e["size"], got, klen, mtu))
    return ("C15|unexplained|read|out=%s|fresh=%s" % (e["out"], fresh),
            "ReadChunk outcome not allowed by Chunk.tla: %s (position: message %d offset %d, mtu=%d)" % (json.dumps(e), j + 1, off, mtu))


def report(ctx, rejections, params_by_run, source, stats):
    for run, idx in rejections:
        key, what = classify(run, idx)
        stats[key] += 1
        e = run[idx]
        if WINDOW in key:
            msgs = messages_of(run)
            j, _ = position(run, msgs, idx)
            prev = [x for x in run[:idx] if x["ev"] == "read"]
            size = e["size"] if key.endswith("read-error") else prev[-1]["size"]
            stats.setdefault("window", set()).add((msgs[j][0]["len"], size, key.rsplit("|", 1)[1]))
        rid = run[0].get("run")
        ctx.violation(key, what, {"source": source, "params": params_by_run.get(rid), "events": run[:idx + 1], "rejected": e,
                                  "replay": "vh chunk-replay -in <file with [params]> -out trace.ndjson; validate with spec/Chunk_Trace.tla"})


def window_census(runs):
    """All reads at the start of a message with 7 <= size < 7+rawkey: (key length, size) pairs exercised."""
    seen, rems = set(), set()
    for run in runs:
        msgs = messages_of(run)
        tot, starts, acc = 0, {}, 0
        for j, (k, n) in enumerate(msgs):
            starts[acc] = k["len"]
            acc += n
        for x in run:
            if x["ev"] != "read":
                continue
            if tot in starts and x["size"] < run[0]["mtu"] and x["size"] <= 40:
                rems.add(x["size"])
            if tot in starts and 7 <= x["size"] < 7 + rawlen(starts[tot]) and x["size"] < run[0]["mtu"]:
                seen.add((starts[tot], x["size"]))
            if x["out"] == "chunk":
                tot += x["n"]
            if x["out"] == "err":
                break
    return seen, rems


# ---------------------------------------------------------------------------------------------
def convert_script(ops):
    out = []
    for o in ops:
        if o["op"] == "next":
            out.append({"op": "next", "key": {"id": o["key"]["id"], "len": o["key"]["len"]}})
        elif o["op"] == "write":
            out.append({"op": "write", "n": o["n"]})
        else:
            out.append({"op": o["op"]})
    return out


def run(ctx):
    quick = ctx.quick()
    rnd = random.Random(ctx.seed)
    ctx.build_vh()
    stats = collections.Counter()

    # ---- 1+2a. TLC: model checking and behaviour generation, side by side ---------------------
    low = list(range(49, 114))
    mid = list(range(251, 261))
    high = [1295, 1300] + list(range(65527, 65536))
    bnd = [rawlen(k) + d for k in KEYLENS for d in (26, 259) if rawlen(k) + d >= 49]   # value head-size boundaries 23/24, 255/256
    if quick:
        gen_mtus = [rnd.choice(low + mid + mid + high + high + bnd + bnd)]
        gcfg = gen_cfg(gen_mtus, tails=[3], spans=[0], yieldsets=[[]])
    else:
        gen_mtus = sorted(set(rnd.sample(low, 2) + rnd.sample(mid, 1) + [1300] + rnd.sample(high, 1) + rnd.sample(bnd, 1)))
        gcfg = gen_cfg(gen_mtus, tails=[3], spans=[0, 1], yieldsets=[[], [1]])
    # the "writes" grid: every split of the first value into writes, empty writes included (kind = base + 7 z,
    # Chunk.tla SplitOf: z = where the empty writes go), the second value split as well, calls after Close
    pool = low + mid + mid + high + high + bnd + bnd
    if quick:
        w_mtus = [rnd.choice(pool)]
        wcfg = gen_cfg(w_mtus, tails=[3], spans=[rnd.choice([0, 1])], yieldsets=[[]], keylens=[rnd.choice(KEYLENS)],
                       rems=sorted(rnd.sample(range(0, 41), 5)), splits=range(28), tailsplits=[0, 21], lates=[0, 3])
    else:
        w_mtus = sorted(set([rnd.choice(low), rnd.choice(mid + high + bnd)]))
        wcfg = gen_cfg(w_mtus, tails=[3], spans=[0, 1], yieldsets=[[]], keylens=sorted(rnd.sample(KEYLENS, 2)),
                       rems=sorted(rnd.sample(range(0, 41), 6)), splits=range(28), tailsplits=[0, 21], lates=[0, 3])
    gdir = ctx.sub("gen")
    gpath = os.path.join(gdir, "Chunk_Gen_seeded.cfg")
    wpath = os.path.join(gdir, "Chunk_Gen_writes.cfg")
    with open(gpath, "w") as f:
        f.write(gcfg)
    with open(wpath, "w") as f:
        f.write(wcfg)
    jobs = [
        ("Chunk", "Chunk_MC.cfg" if quick else "Chunk_MC_big.cfg", {}),
        ("Chunk", "Chunk_MC_il.cfg" if quick else "Chunk_MC_il_big.cfg", {}),
        ("Pipeline", "Pipeline_MC.cfg", {"deadlock": True}),
        ("Pipeline", "Pipeline_MC_cancel.cfg" if quick else "Pipeline_MC_cancel_big.cfg", {"deadlock": True}),
        ("Pipeline", "Pipeline_MC_cancel_nopanic.cfg", {"deadlock": True}),
        ("Chunk_Gen", gpath, {}),
        ("Chunk_Gen", wpath, {}),
    ]
    if not quick:
        jobs.append(("Chunk", "Chunk_MC_big3.cfg", {}))
        # interleavings of writer, reader, feeder (with empty chunks) and consumer over splits with empty writes
        jobs.append(("Chunk", "Chunk_MC_il_zero.cfg", {}))
        # design check of the proposed repair of nextPipe (poll w.closing under readerMu before the select)
        jobs.append(("Pipeline", "Pipeline_MC_cancel_fixed.cfg", {"deadlock": True}))
    with ThreadPoolExecutor(max_workers=len(jobs)) as ex:
        futs = [ex.submit(ctx.tlc, m, c, timeout=2400, workers=4 if quick else 8, **kw) for (m, c, kw) in jobs]
        results = [f.result() for f in futs]
    for (m, c, kw), r in zip(jobs, results):
        if c == "Pipeline_MC_cancel_nopanic.cfg":
            continue
        account(ctx, m, c, r)
    probe = results[4]
    model_panics = any("NoPanic" in e for e in probe["errors"])
    if probe["errors"] and not model_panics:
        raise Inconclusive("Pipeline cancel probe failed:\n" + probe["out"][-3000:])
    ctx.notes["pipeline"] = {"K": [0, 1, 2], "deadlock_free": True, "termination": True, "complete_without_cancel": True,
                             "cancel_model_reaches_panic": model_panics,
                             "repair_ClosingCheck_model_checked(NoPanic,Termination,deadlock)": not quick}

    behs = ctx.behaviours(results[5])
    wbehs = ctx.behaviours(results[6])
    if not behs or not wbehs:
        raise Inconclusive("Chunk_Gen printed no behaviours")
    behs = behs + wbehs
    groups = collections.OrderedDict()
    for b in behs:
        k = json.dumps([b["mtu"], b["script"]], sort_keys=True)
        g = groups.setdefault(k, {"mtu": b["mtu"], "script": convert_script(b["script"]), "allowed": [], "asm_expect": b["asm"]})
        if b["sent"] not in g["allowed"]:
            g["allowed"].append(b["sent"])
    bufchoices, inmodes = [0, 0, 1, 2, 1000], ["seq", "conc", "conc1"]
    feedempties, bodyreads = ["", "", "before", "after", "both"], [0, 0, 1, 2, 5, 64]
    scheds = ["", "gosched", "sleep", "mixed", "writerfirst", "readerfirst"]
    behaviours = []
    for i, g in enumerate(groups.values()):
        g.update({"id": i + 1, "buffers": rnd.choice(bufchoices), "in_mode": rnd.choice(inmodes),
                  "feed_empty": rnd.choice(feedempties), "body_read": rnd.choice(bodyreads),
                  "sched": {"mode": rnd.choice(scheds), "seed": rnd.getrandbits(40)}})
        behaviours.append(g)
    if os.environ.get("VERIF_C15_FLIP"):
        # binding demonstration: corrupt one expectation (a chunk one byte shorter than the specification says)
        for g in behaviours:
            if len(g["allowed"]) == 1 and g["allowed"][0] and g["allowed"][0][0]:
                g["allowed"][0][0][0]["n"] -= 1
                ctx.log("VERIF_C15_FLIP: expectation of behaviour %d corrupted" % g["id"])
                break
    ctx.log("TLC generated %d behaviours for %d parameter tuples (MTUs %s; writes grid: %d behaviours, MTUs %s)"
            % (len(behs), len(behaviours), gen_mtus, len(wbehs), w_mtus))
    ctx.notes["gen_mtus"] = gen_mtus
    ctx.notes["gen_writes_grid"] = {"mtus": w_mtus, "behaviours": len(wbehs), "split_kinds": "0..27 (7 splits x 4 placements of empty writes)",
                                    "tail_split_kinds": [0, 21], "late_kinds": [0, 3]}
    ctx.notes["behaviours_with_two_allowed_outcomes"] = sum(1 for g in behaviours if len(g["allowed"]) > 1)

    # ---- 2b. replay into the real code -----------------------------------------------------------
    wd = ctx.sub("replay")
    bpath, tpath, vpath = (os.path.join(wd, x) for x in ("behaviours.json", "trace.ndjson", "verdicts.json"))
    with open(bpath, "w") as f:
        json.dump(behaviours, f)
    ctx.run_vh(["chunk-replay", "-in", bpath, "-out", tpath, "-verdicts", vpath], timeout=1500)
    with open(vpath) as f:
        verdicts = json.load(f)
    revs = read_ndjson(tpath)
    rruns = split_runs(revs)
    nhang = sum(1 for r in rruns for e in r if e["ev"] == "hang")
    if (len(rruns) != len(behaviours) and nhang < 6) or len(verdicts) != len(behaviours):
        raise Inconclusive("replay executed %d of %d behaviours" % (len(rruns), len(behaviours)))
    pby = {b["id"]: {k: b[k] for k in ("mtu", "buffers", "in_mode", "feed_empty", "body_read", "script", "sched")} for b in behaviours}
    rej = validate_runs(ctx, rruns, "rp", per_slice=8000 if quick else 40000, workers=8 if quick else 12)
    report(ctx, rej, pby, "replay of TLC-generated behaviours", stats)
    rejected_ids = set(r[0].get("run") for r, _ in rej)
    mism = [v for v in verdicts if not (v["match"] and v["asm_match"])]
    for v in mism:
        if v["id"] in rejected_ids or (v.get("hang") or "").startswith("not run"):
            continue    # the same run was rejected by Chunk_Trace.tla and is reported with that key
        b = behaviours[v["id"] - 1]
        ctx.violation("C15|replay|chunks-differ-from-specification|mtu=%d" % b["mtu"],
                      "the chunk sequence / reassembled stream of the real code is none the specification allows: observed %s, allowed %s"
                      % (json.dumps(v["observed"])[:400], json.dumps(b["allowed"])[:400]),
                      {"behaviour": b, "verdict": v})
        stats["replay-mismatch-not-explained-by-trace"] += 1
    for rid in rejected_ids:
        if rid is not None and verdicts[rid - 1]["match"] and verdicts[rid - 1]["asm_match"]:
            raise Inconclusive("behaviour %d: Chunk_Trace.tla rejects the run but the replay comparison accepts it (harness and specification disagree)" % rid)
    ctx.log("replayed %d behaviours on the real code and validated their traces (%d rejected)" % (len(behaviours), len(rej)))
    ctx.notes["replayed_behaviours"] = len(behaviours)
    ctx.notes["replay_mismatches"] = len(mism)
    ctx.sample({"tlc_behaviour": {"mtu": behaviours[0]["mtu"], "script": behaviours[0]["script"], "allowed": behaviours[0]["allowed"]}})

    # ---- 3. the Go-side sweep, validated against Chunk_Trace.tla -----------------------------
    swd = ctx.sub("sweep")
    spath, ppath = os.path.join(swd, "trace.ndjson"), os.path.join(swd, "params.json")
    args = ["chunk-sweep", "-out", spath, "-params", ppath, "-seed", ctx.seed, "-procs", "2,16" if quick else "1,2,4,16"]
    if quick:
        args += ["-limit", 3000]
    else:
        args += ["-thorough", "-limit", 60000]
    ctx.run_vh(args, timeout=3000)
    sevs = read_ndjson(spath)
    sruns = split_runs(sevs)
    with open(ppath) as f:
        sparams = {p["id"]: p for p in json.load(f)}
    nhang2 = sum(1 for r in sruns for e in r if e["ev"] == "hang")
    if len(sruns) != len(sparams) and nhang2 < 6:     # after 6 watchdog expiries the harness stops starting runs
        raise Inconclusive("sweep recorded %d of %d runs" % (len(sruns), len(sparams)))
    if os.environ.get("VERIF_C15_CORRUPT"):
        # binding demonstration: one recorded field changed (KV.Size of the first chunk of the first run + 1)
        for e in sruns[0]:
            if e["ev"] == "read" and e["out"] == "chunk":
                e["kv"] += 1
                ctx.log("VERIF_C15_CORRUPT: recorded kv of run %s changed" % sruns[0][0].get("run"))
                break
    rej2 = validate_runs(ctx, sruns, "sw", per_slice=8000 if quick else 40000, workers=8 if quick else 12)
    report(ctx, rej2, sparams, "Go-side sweep", stats)
    ctx.log("sweep: %d runs validated (%d rejected)" % (len(sruns), len(rej2)))
    ctx.sample({"recorded_run": sruns[0][:8]})

    # ---- 4. cancellation -------------------------------------------------------------------------
    if model_panics:
        cpath = os.path.join(swd, "cancel.json")
        ctx.run_vh(["chunk-cancel", "-n", 40 if quick else 300, "-out", cpath], timeout=1200)
        with open(cpath) as f:
            outcomes = json.load(f)
        cnt = collections.Counter((o["outcome"], o.get("detail", "")) for o in outcomes)
        ctx.notes["cancel_runs"] = {"%s %s" % k: v for k, v in cnt.items()}
        pan = [o for o in outcomes if o["outcome"] == "panic"]
        hang = [o for o in outcomes if o["outcome"] == "hang"]
        if pan:
            ctx.violation("C15|cancel|nextPipe-after-Close|panic-send-on-closed-channel",
                          "UnchunkWriter.Close() by the consumer goroutine (to2.go: defer serviceInfoWriter.Close()) followed by the producer's "
                          "NextServiceInfo/ForceNewMessage: nextPipe's select has `w.readers <- pr` on the closed channel ready -> %s in %d of %d runs "
                          "(Pipeline.tla reaches the same state: PN3Panic); expected io.ErrClosedPipe" % (pan[0]["detail"], len(pan), len(outcomes)),
                          {"scenario": pan[0], "replay": "vh chunk-cancel -n 100 -out outcomes.json"})
        if hang:
            ctx.violation("C15|cancel|hang|%s" % hang[0]["detail"], "a goroutine did not terminate after cancellation (Pipeline.tla: Termination)", {"scenario": hang[0]})

    # ---- coverage --------------------------------------------------------------------------------
    allruns = rruns + sruns
    reads = [e for r in allruns for e in r if e["ev"] == "read"]
    unch = [e for r in allruns for e in r if e["ev"] == "unchunk"]
    ctx.cov["traces_validated_against_impl"] += len(allruns)
    ctx.cov["evaluations"] += len(reads) + len(unch)
    distinct = set((r[0]["mtu"], e["size"], e.get("key", {}).get("len", 0), e["out"], e.get("n", 0)) for r in allruns for e in r if e["ev"] == "read")
    ctx.cov["distinct_nontrivial"] += len(distinct)
    ctx.cov["rule"] = ("one evaluation = one ReadChunk call or one reassembled message executed on the real code and validated against "
                       "Chunk_Trace.tla; distinct = distinct (mtu, size asked, key length, outcome, chunk length) tuples among the ReadChunk calls")
    census, rems = window_census(allruns)
    win = stats.pop("window", set())
    ctx.notes["runs_replay"] = len(rruns)
    ctx.notes["runs_sweep"] = len(sruns)
    ctx.notes["rejected_runs_by_key"] = dict(stats)
    ctx.notes["mtus_swept"] = len(set(r[0]["mtu"] for r in sruns))
    ctx.notes["remainders_0_40_seen_at_the_start_of_a_message"] = sorted(rems)
    ctx.notes["window_reads_exercised(keylen,size)"] = len(census)
    ctx.notes["window_reads_rejected(keylen,size)"] = len(set((k, s) for (k, s, _) in win))
    table = {}
    for (k, s, o) in sorted(win):
        table.setdefault("keylen=%d raw=%d" % (k, rawlen(k)), {}).setdefault(o, []).append(s)
    ctx.notes["window_table"] = table
    ctx.notes["sched_modes"] = sorted(set(p["sched"]["mode"] or "none" for p in sparams.values()))
    ctx.notes["buffers"] = sorted(set(p["buffers"] for p in sparams.values()))
    ew = collections.Counter()
    for r in allruns:
        if empty_writes(r):
            ew["unbuffered" if r[0].get("buffers") == 0 else "buffered"] += 1
    ctx.notes["runs_with_empty_writes"] = dict(ew)
    ctx.notes["runs_with_calls_after_Close"] = sum(1 for r in allruns if late_ops(r))
    ctx.notes["calls_after_Close_validated"] = sum(1 for r in allruns for e in r if e["ev"] == "late")
    ctx.notes["runs_with_empty_chunks_fed"] = dict(collections.Counter(r[0].get("feed_empty") for r in allruns if r[0].get("feed_empty")))
    ctx.notes["empty_chunks_fed"] = sum(1 for r in allruns for e in r if e["ev"] == "feed" and e["n"] == 0)
    ctx.notes["body_read_sizes"] = sorted(set(r[0].get("body_read") or 0 for r in allruns))
    ctx.notes["longest_key"] = max((o["key"]["len"] for r in sruns for o in script_of(r) if o["op"] == "next"), default=0)
    if not nhang and not nhang2 and (ew["unbuffered"] < 20 or ew["buffered"] < 20 or not ctx.notes["calls_after_Close_validated"]
                                     or not ctx.notes["empty_chunks_fed"]):
        raise Inconclusive("vacuous run: too few runs with empty writes / calls after Close / empty chunks: %s" % dict(ew))
    hangs = [e for r in allruns for e in r if e["ev"] in ("hang", "crash")]
    ctx.notes["hang_or_crash_events"] = len(hangs)
    if not reads or len(census) == 0:
        raise Inconclusive("vacuous run: no ReadChunk at the start of a message with a small remainder was executed")
    ctx.assumptions += [
        "TLC and the CommunityModules Json module",
        "the harness replicates the packing loop of to2.go exchangeServiceInfoRound (maxRead = mtu; ReadChunk(maxRead); ErrSizeTooSmall ends the batch; maxRead -= chunk.Size())",
        "value bytes are a running counter mod 251; a chunk's first byte and its consecutiveness identify its position in the written stream",
        "the writer's script is logged before the reads of the same run (at byte-count level every schedule linearizes to writer-first); "
        "interior interleavings of chunk.go (inside nextPipe / bufPipe critical sections) are explored exhaustively only in Pipeline.tla; on the real code "
        "they are sampled by perturbing the harness' own call sites (Gosched / sleeps / writer-first / reader-first, GOMAXPROCS 1..16), not steered",
        "usable MTU range: mtu >= 7 + raw key length of every key in the script (the code's documented minimum overhead)",
    ]
    return "model_checking"
