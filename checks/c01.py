"""C01 (and the device half of C07): TO2Device.tla checked by TLC; every terminal state (chain
length, blob or not, <= 2 fault atoms) replayed against the real fdo.TO2 device role with a real
TO2Server as carrier, a forged voucher in its store (classes from Voucher.tla, isolating repairs)
and a man in the middle for the 61/63/blob atoms."""
import json
import os
import random

from lib.vlib import Inconclusive
from checks import c04

ALL_CFGS = c04.ALL_CFGS


def dev_gen_cfg(lens, maxatoms):
    return """SPECIFICATION Spec
CONSTANTS
  ChainLens = {%s}
  MaxAtoms = %d
INVARIANTS Emit
""" % (", ".join(str(x) for x in lens), maxatoms)


def voucher_classes(ctx, maxlen):
    """Voucher-level concretisations by class, from Voucher.tla (isolating adversary, 3 steps)."""
    wd = ctx.sub("c01-vgen")
    cfgp = os.path.join(wd, "Voucher_Gen.cfg")
    with open(cfgp, "w") as f:
        f.write(c04.gen_cfg(maxlen, 3, True))
    r = ctx.tlc("Voucher_Gen", cfgp, workers=8, timeout=2400)
    if r["errors"]:
        raise Inconclusive("Voucher_Gen failed:\n" + r["out"][-3000:])
    ctx.cov["states"] += r.get("distinct", 0)
    ctx.cov["transitions"] += r.get("generated", 0)
    classes = {}
    for b in ctx.behaviours(r):
        ops = b["ops"]
        n = ops[0]["n"]
        if n < 1 or len(ops) < 2:
            continue
        if b["len"] != n:
            continue            # dup/drop change the chain length: the carrier serves what it stores; keep lengths aligned
        if any(o["op"] in ("alter_chain", "splice_header") for o in ops[1:]):
            continue            # the device certificate chain is not part of what the device sees
        if any(o["op"] == "alter_hdr" and o.get("f") in ("guid", "cchash") for o in ops[1:]) and False:
            continue
        if b["owner"] != "o%d" % n:
            continue            # the carrier (real TO2Server holding o_n's key) must still be the voucher's owner
        vec = b["vec"]
        key = None
        if not vec["hdr"] and vec["mfg"] and vec["ents"]:
            key = "v_hdrmac"
        elif vec["hdr"] and not vec["mfg"] and vec["ents"]:
            key = "v_mfgkey"
        elif vec["hdr"] and vec["mfg"] and not vec["ents"]:
            key = "v_chain"
        elif vec["hdr"] and vec["mfg"] and vec["ents"]:
            key = "v_unbound"
        if key:
            classes.setdefault((key, n), []).append(ops[1:])
    return classes


def run(ctx):
    quick = ctx.quick()
    rnd = random.Random(ctx.seed)
    ctx.build_vh()
    ctx.model_check("TO2Device", "TO2Device_MCq.cfg" if quick else "TO2Device_MC.cfg", timeout=1800)
    lens = [1, 2] if quick else [1, 2, 3]
    wd = ctx.sub("c01-gen")
    cfgp = os.path.join(wd, "TO2Device_Gen.cfg")
    with open(cfgp, "w") as f:
        f.write(dev_gen_cfg(lens, 2))
    r = ctx.tlc("TO2Device_Gen", cfgp, workers=8, timeout=2400)
    if r["errors"]:
        raise Inconclusive("TO2Device_Gen failed:\n" + r["out"][-3000:])
    terms = ctx.behaviours(r)
    ctx.cov["states"] += r.get("distinct", 0)
    ctx.cov["transitions"] += r.get("generated", 0)
    classes = voucher_classes(ctx, max(lens))
    ctx.log("%d terminal states from TO2Device.tla; voucher classes: %s" % (
        len(terms), {("%s/%d" % k): len(v) for k, v in sorted(classes.items())}))
    for need in ("v_hdrmac", "v_mfgkey", "v_chain", "v_unbound"):
        if not any(k[0] == need for k in classes):
            raise Inconclusive("no voucher-level concretisation for class %s (vacuous)" % need)
    if quick:
        cfgs = ["P256/1", rnd.choice(["P384/2", "P256/3", "P384/1"]), rnd.choice(["RSA2048RESTR/1", "RSAPSS2048/2"])]
    else:
        cfgs = ALL_CFGS
    # singles for every configuration; pairs spread over configurations
    cases = []
    singles = [t for t in terms if len(t["atoms"]) <= 1]
    pairs = [t for t in terms if len(t["atoms"]) == 2]
    rnd.shuffle(pairs)
    if quick:
        pairs = pairs[:400]
    def concretise(t, cfg, variants):
        vat = [a for a in t["atoms"] if a.startswith("v_")]
        if not vat:
            c = dict(t)
            c["cfg"] = cfg
            return [c]
        opts = classes.get((vat[0], t["n"]))
        if not opts:
            return []
        out = []
        for ops in rnd.sample(opts, min(variants, len(opts))):
            c = dict(t)
            c["cfg"] = cfg
            c["vops"] = ops
            out.append(c)
        return out
    for cfg in cfgs:
        for t in singles:
            cases += concretise(t, cfg, 4 if quick else 12)
    # every distinct kind of voucher-level forgery at least once (by the sequence of steps with their
    # fields and entry positions), not only a sample per class: a check that is missing for one entry
    # position or one field only is otherwise a matter of luck
    def feats(ops):
        return sorted(set(json.dumps(o, sort_keys=True) for o in ops))
    nstrat = 0
    for t in singles:
        vat = [a for a in t["atoms"] if a.startswith("v_")]
        if not vat:
            continue
        opts = sorted(classes.get((vat[0], t["n"]), []), key=len)
        covered = set()
        for ops in opts:
            fs = feats(ops)
            want = set(fs) | set((a, b) for i, a in enumerate(fs) for b in fs[i + 1:])
            if quick and want <= covered:
                continue        # quick: every step and every pair of steps that occur together, once
            covered |= want
            c = dict(t)
            c["cfg"] = cfgs[nstrat % len(cfgs)] if not quick else cfgs[0]
            c["vops"] = ops
            cases.append(c)
            nstrat += 1
    ctx.notes["voucher_forgery_kinds_executed"] = nstrat
    for i, t in enumerate(pairs):
        cases += concretise(t, cfgs[i % len(cfgs)], 1)
    ctx.log("%d cases (%d configurations)" % (len(cases), len(cfgs)))
    wd = ctx.sub("c01-replay")
    cp = os.path.join(wd, "cases.json")
    with open(cp, "w") as f:
        json.dump(cases, f)
    op = os.path.join(wd, "outcomes.json")
    ctx.run_vh(["dev-replay", "-in", cp, "-out", op], timeout=3300)
    outs = json.load(open(op))
    skipped = 0
    executed = 0
    for o in outs:
        c = cases[o["idx"]]
        if o.get("skipped"):
            skipped += 1
            ctx.notes.setdefault("skipped_reasons", {})
            k = o["skipped"].split(":")[0]
            ctx.notes["skipped_reasons"][k] = ctx.notes["skipped_reasons"].get(k, 0) + 1
            continue
        executed += 1
        if o.get("mismatch"):
            vsig = "+".join(x["op"] + (":" + x["f"] if x.get("f") else "") for x in c.get("vops", []))
            atoms = "+".join(sorted(c["atoms"]))
            if o.get("panic"):
                key = "panic|%s|%s" % (o["panic"].split("@")[-1].strip(), atoms)
            else:
                key = "device|%s|%s|%s" % (atoms, vsig, o["mismatch"].split(":")[0])
            ctx.violation(key, "%s on %s (n=%d, blob=%s): %s; err=%s" % (atoms, c["cfg"], c["n"], c["to1d"], o["mismatch"], o.get("err", "")[:200]),
                          {"case": c, "outcome": o})
    if executed == 0:
        raise Inconclusive("no case was executable")
    ctx.cov["traces_validated_against_impl"] = executed
    ctx.cov["evaluations"] = executed
    ctx.cov["distinct_nontrivial"] = len(set((tuple(sorted(c["atoms"])), c["n"], c["to1d"], c["cfg"]) for c in cases))
    ctx.cov["rule"] = "case = terminal state of TO2Device.tla (chain length, blob, <=2 fault atoms) x key configuration x voucher-level concretisation; one full fdo.TO2 run each; distinct = distinct (atom set, chain length, blob, configuration)"
    ctx.notes["skipped_cases"] = skipped
    ctx.notes["configurations"] = cfgs
    ctx.notes["atoms"] = sorted(set(a for c in cases for a in c["atoms"]))
    ctx.sample(cases[len(cases) // 3])
    ctx.sample(cases[-1])
    ctx.assumptions += ["each fault atom falsifies exactly the conditions TO2Device.tla lists for it (by construction of the forgery in harness/devexec)",
                        "the carrier is the real TO2Server; forged vouchers are inserted into its store under the GUID the device asks for"]
    return "model_checking"


def run_blob_half(ctx, prop="C07"):
    """Device half of C07: the blob obtained through TO0/TO1 from the real rendezvous server is the
    one registered (byte fidelity), TO2 accepts it, and any altered / foreign-signed blob makes TO2
    abort before ProveDevice. Uses the TO2Device.tla cases whose atoms concern the blob only."""
    rnd = random.Random(ctx.seed)
    wd = ctx.sub("c07-gen")
    cfgp = os.path.join(wd, "TO2Device_Gen.cfg")
    with open(cfgp, "w") as f:
        f.write(dev_gen_cfg([1, 2], 1))
    r = ctx.tlc("TO2Device_Gen", cfgp, workers=4, timeout=1800)
    if r["errors"]:
        raise Inconclusive("TO2Device_Gen failed:\n" + r["out"][-3000:])
    terms = [t for t in ctx.behaviours(r) if t["to1d"] and all(a.startswith("to1d_") for a in t["atoms"])]
    ctx.cov["states"] += r.get("distinct", 0)
    ctx.cov["transitions"] += r.get("generated", 0)
    cfgs = ["P256/1", "P384/2", "RSA2048RESTR/1"] if ctx.quick() else ALL_CFGS
    cases = []
    for cfg in cfgs:
        for t in terms:
            c = dict(t)
            c["cfg"] = cfg
            cases.append(c)
    wd = ctx.sub("c07-replay")
    cp = os.path.join(wd, "cases.json")
    with open(cp, "w") as f:
        json.dump(cases, f)
    op = os.path.join(wd, "outcomes.json")
    ctx.run_vh(["dev-replay", "-in", cp, "-out", op], timeout=3300)
    outs = json.load(open(op))
    executed = 0
    for o in outs:
        c = cases[o["idx"]]
        if o.get("skipped") and not o.get("mismatch"):
            continue
        executed += 1
        if o.get("mismatch"):
            atoms = "+".join(sorted(c["atoms"])) or "honest"
            key = "blob|%s|%s" % (atoms, o["mismatch"].split(":")[0])
            if o.get("panic"):
                key = "panic|%s|%s" % (o["panic"].split("@")[-1].strip(), atoms)
            ctx.violation(key, "%s on %s: %s" % (atoms, c["cfg"], o["mismatch"]), {"case": c, "outcome": o})
    if executed == 0:
        raise Inconclusive("no blob case was executable")
    ctx.cov["traces_validated_against_impl"] += executed
    ctx.cov["evaluations"] += executed
    ctx.cov["distinct_nontrivial"] += len(set((tuple(c["atoms"]), c["n"], c["cfg"]) for c in cases))
    ctx.notes["blob_cases"] = executed
    ctx.notes["blob_atoms"] = sorted(set(a for c in cases for a in c["atoms"]))
