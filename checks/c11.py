"""C11 -- CBOR encoding is canonical and decode/encode are mutual inverses.

Pipeline: (1) TLC checks the theorems of spec/Cbor.tla (Dec(Enc(v)) = v, self-delimiting and
prefix-free encodings, head minimality, map keys strictly increasing bytewise, Enc(Dec(b)) = b iff b
canonical) exhaustively over bounded universes (Cbor_MC*.cfg, Cbor_Tab*.cfg); (2) TLC generates
behaviours of the builder machine (Cbor_Gen.tla): constructor script + the canonical bytes Enc
yields; (3) `vh cbor-replay` builds every behaviour as Go values in the shapes the library uses
(any, typed, structs with weights/omitempty/embedded/flat fields, fixed arrays, pointers, Tag, Bstr,
ByteWrap, RawBytes, maps, streams) and requires Marshal == spec bytes, Unmarshal(spec bytes) == value,
re-Marshal == spec bytes; the reference codec harness/cb is bound to the spec on the same behaviours;
(4) seeded FDO/COSE message structures must encode to their documented layout (built with the bound
reference codec), canonically, decode to an equal value and re-encode to the same bytes.
"""
import json
import os
import random
from concurrent.futures import ThreadPoolExecutor

from lib.vlib import Inconclusive

MAX_REPORTED = 120
THEOREMS = "Dec(Enc(v))=v, self-delimiting, no item is a proper prefix, prefix-free, canonical (minimal heads, keys strictly increasing bytewise), Enc(Dec(e))=e, wrap exact"


def _mc(ctx, module, cfg, workers, timeout):
    return ctx.model_check(module, cfg, workers=workers, timeout=timeout, quiet=True)


def _gen(ctx, cfg, workers, timeout, simulate=None, depth=None, seed=None):
    r = ctx.tlc("Cbor_Gen", cfg, workers=workers, timeout=timeout, simulate=simulate, depth=depth, seed=seed, quiet=True)
    if r["errors"]:
        raise Inconclusive("model-level error while generating behaviours with %s (not a verdict about the code):\n%s" % (cfg, r["out"][-4000:]))
    behs = ctx.behaviours(r)
    if simulate is None:
        ctx.cov["states"] += r.get("distinct", 0) or 0
    ctx.cov["transitions"] += r.get("generated", 0) or 0
    ctx.notes.setdefault("tlc_runs", []).append({"module": "Cbor_Gen", "cfg": cfg, "mode": "simulate" if simulate else "bfs",
                                                 "generated": r.get("generated"), "distinct": r.get("distinct"), "behaviours": len(behs), "wall_s": round(r["wall"], 1)})
    return behs


def run(ctx):
    quick = ctx.quick()
    rnd = random.Random(ctx.seed)
    ctx.build_vh()
    tmo = 900 if quick else 3000
    jobs = []
    with ThreadPoolExecutor(max_workers=10) as ex:
        # 1. theorems, exhaustive (constants in the cfg files / spec/Cbor_MC.tla)
        jobs.append(("mc", ex.submit(_mc, ctx, "Cbor_MC", "Cbor_MC.cfg", 4, tmo)))
        jobs.append(("mc", ex.submit(_mc, ctx, "Cbor_MC", "Cbor_MC_long.cfg", 2, tmo)))
        jobs.append(("mc", ex.submit(_mc, ctx, "Cbor_Tab", "Cbor_Tab_thm.cfg", 4, tmo)))
        if not quick:
            jobs.append(("mc", ex.submit(_mc, ctx, "Cbor_MC", "Cbor_MC_keys.cfg", 4, tmo)))
            jobs.append(("mc", ex.submit(_mc, ctx, "Cbor_MC", "Cbor_MC_deep.cfg", 6, tmo)))
        # 2. behaviours (the generation configs check the theorems again on the way)
        jobs.append(("gen", ex.submit(_gen, ctx, "Cbor_Gen.cfg", 4, tmo)))
        jobs.append(("gen", ex.submit(_gen, ctx, "Cbor_Gen_long.cfg", 2, tmo)))
        if quick:
            jobs.append(("gen", ex.submit(_gen, ctx, "Cbor_Gen_keys_q.cfg", 3, tmo)))
            jobs.append(("gen", ex.submit(_gen, ctx, "Cbor_Gen_sim.cfg", 1, tmo, 250, 16, ctx.seed + 1000)))
        else:
            jobs.append(("gen", ex.submit(_gen, ctx, "Cbor_Gen_keys.cfg", 4, tmo)))
            jobs.append(("gen", ex.submit(_gen, ctx, "Cbor_Gen_deep.cfg", 6, tmo)))
            jobs.append(("gen", ex.submit(_gen, ctx, "Cbor_Gen_sim.cfg", 1, tmo, 6000, 18, ctx.seed + 1000)))
        behs, seen = [], set()
        for kind, f in jobs:
            r = f.result()
            if kind == "gen":
                for b in r:
                    k = json.dumps(b["script"], sort_keys=True)
                    if k not in seen:
                        seen.add(k)
                        behs.append(b)
    if not behs:
        raise Inconclusive("TLC generated no behaviours")
    ctx.log("TLC: %d states checked (%s); %d distinct behaviours generated" % (ctx.cov["states"], THEOREMS, len(behs)))
    rnd.shuffle(behs)
    cap = 40000 if quick else 400000
    behs = behs[:cap]

    # 3. replay into the library
    wd = ctx.sub("c11")
    bpath, rpath = os.path.join(wd, "behaviours.json"), os.path.join(wd, "results.json")
    with open(bpath, "w") as f:
        json.dump(behs, f)
    nmsg = 60 if quick else 1500
    ctx.run_vh(["cbor-replay", "-in", bpath, "-out", rpath, "-messages", nmsg, "-seed", ctx.seed], timeout=tmo)
    with open(rpath) as f:
        res = json.load(f)
    ctx.log("replayed %d behaviours in %d shape runs (%d distinct shape x item classes), %d messages of %d types; %d findings" % (
        res["replayed"], res["evaluations"], res["distinct"], res["messages"], len(res["message_types"]), len(res["findings"] or [])))

    nrep = 0
    for f in res["findings"] or []:
        if f["key"].startswith("harness"):
            raise Inconclusive("replay harness could not build a shape: %s" % json.dumps(f)[:2000])
        if nrep < MAX_REPORTED:   # a broken encoder yields thousands of keys; the first ones tell the story
            if ctx.violation(f["key"], f["what"], f["case"]):
                nrep += 1
    if len(res["findings"] or []) > MAX_REPORTED:
        ctx.notes["findings_not_reported_individually"] = len(res["findings"]) - nrep
        ctx.log("%d findings in total, %d reported individually" % (len(res["findings"]), nrep))
    if res["ref_mismatch"]:
        raise Inconclusive("the reference codec harness/cb disagrees with Cbor.tla on %d behaviours (not a verdict about the code): %s" % (
            len(res["ref_mismatch"]), json.dumps(res["ref_mismatch"][:3])))
    if res["replayed"] != len(behs):
        raise Inconclusive("only %d of %d behaviours were replayed" % (res["replayed"], len(behs)))

    ctx.cov["traces_validated_against_impl"] = res["replayed"]
    ctx.cov["evaluations"] = res["evaluations"]
    ctx.cov["distinct_nontrivial"] = res["distinct"] + len(res["message_types"])
    ctx.cov["rule"] = ("one evaluation = one behaviour (or one generated message) built in one Go shape and taken through Marshal == spec bytes, "
                       "Unmarshal(spec bytes) == value, re-Marshal == spec bytes; distinct = distinct (shape, item class signature) pairs "
                       "executed plus message types; shapes that cannot express an item (e.g. struct modes for a scalar) are counted as not applicable, not as evaluations")
    ctx.notes["shape_runs"] = res["shape_runs"]
    ctx.notes["shape_not_applicable"] = res["not_applicable"]
    ctx.notes["message_types"] = res["message_types"]
    ctx.notes["theorems_checked_by_tlc"] = THEOREMS
    ctx.sample({"tlc_behaviour": {"script": behs[0]["script"], "bytes_hex": bytes(behs[0]["bytes"]).hex()}})
    for s in (res.get("samples") or [])[:3]:
        ctx.sample(s)
    ctx.assumptions += ["TLC 1.8.0 and the CommunityModules Json module",
                        "Go values are built by reflection (reflect.StructOf/SliceOf/MapOf) from the TLC item; reflect.DeepEqual-like comparison with nil == empty for slices and maps",
                        "message layouts are transcribed from the CDDL in the library's type documentation and encoded with harness/cb, which is checked against Enc of Cbor.tla on every replayed behaviour",
                        "decoding an unsigned integer above MaxInt64 into `any` is documented as unsupported (doc.go: Unsigned -> int64) and is not judged; typed uint64 targets are"]
    return "model_checking"
