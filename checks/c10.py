"""C10: no peer-supplied bytes can crash, hang or exhaust an endpoint.

Server: Server.tla with the Mutant actions (every outcome the responder has for any body class is
allowed, crash/hang/alloc are not actions); TLC-generated walks with mutants plus positional
mutant bursts after honest prefixes are executed on the real handler, one world per process with
allocation metering and a watchdog, and validated against Server_Trace.tla.
Clients: Client.tla; every response position of DI/TO0/TO1/TO2 client roles receives
structure-aware mutations at the wire level and (TO2 65..71) at the plaintext level inside the
tunnel; outcomes validated against Client_Trace.tla.
Classes of mutants (spec/MutantClasses.tla): level (wire / plaintext in the tunnel / authenticated part with
the authentication repaired) x family (struct / inner binary framing / volume).  TLC enumerates every
(message position, honest session state, level, family) on the server side (Server_Mutants.tla) and every
(role, position, occurrence, level, family) on the client side (Client_Gen.tla); the harness delivers the
mutants of each class to the real code, in every key exchange family where the message carries a key
exchange parameter."""
import hashlib
import json
import os
import random
import re
import subprocess
import tempfile
from concurrent.futures import ThreadPoolExecutor

from lib.vlib import Inconclusive, write_ndjson, read_ndjson, go_env
from checks import server_family

ALLOC_SLACK = 24 << 20   # honest handler calls reach 8.4 MiB (sqlite/wazero, RSA) on a loaded machine; blow-ups the property is about are >= 10x that
ENTRY_OVERHEAD = 2048      # volume family: bookkeeping allowed per list entry / map key / string beyond 64 bytes per byte


def alloc_budget(e):
    """Allocation a handler call may make: in proportion to the bytes of the request and, for the
    volume family (legal messages with thousands of tiny entries), to the number of entries added."""
    b = 64 * e.get("len", 0) + ALLOC_SLACK
    if e.get("fam") == "volume":
        m = re.search(r"-x(\d+) ", (e.get("note") or "") + " ")
        if m:
            b += ENTRY_OVERHEAD * int(m.group(1))
    return b
PROTO_STEPS = {"DI": [10, 12], "TO0": [20, 22], "TO1": [30, 32], "TO2": [60, 62, 64, 66, 68, 68, 68, 70]}


def positional(rnd, n, kinds):
    """Honest prefix of a protocol up to a position, then a few mutants of nearby and random types."""
    out = []
    alltypes = [10, 12, 20, 22, 30, 32, 60, 62, 64, 66, 68, 70, 255]
    for i in range(n):
        proto = rnd.choice(["DI", "TO0", "TO1", "TO2", "TO2", "TO2", "TO2"])
        steps = PROTO_STEPS[proto]
        k = rnd.randrange(0, len(steps))          # number of honest messages before the mutants
        acts = []
        dev = "new" if proto == "DI" else rnd.choice(["dA", "dB"])
        slot = 1
        if proto == "TO1":
            acts += [{"a": "start", "s": 1, "p": "TO0", "d": dev}, {"a": "honest", "s": 1}]
            slot = 2
        if k >= 1:
            acts.append({"a": "start", "s": slot, "p": proto, "d": dev})
            acts += [{"a": "honest", "s": slot}] * (k - 1)
        else:
            # mutants of the start message itself need some slot to attribute to
            acts.append({"a": "start", "s": slot, "p": proto, "d": dev})
        nxt = steps[min(k, len(steps) - 1)]
        for j in range(rnd.choice([1, 1, 2, 3])):
            t = nxt if rnd.random() < 0.7 else rnd.choice(alltypes)
            lvl = rnd.choice(["wire", "wire", "wire", "plain", "http"]) if t in (66, 68, 70) else rnd.choice(["wire", "wire", "wire", "http"])
            if t == 255:
                lvl = "wire"        # an error message is handled before the body is framed
            acts.append({"a": "mutant", "s": slot, "t": t, "b": lvl, "seed": rnd.getrandbits(48)})
        # let the honest client run into whatever the mutants left behind
        acts += [{"a": "honest", "s": slot}] * 2
        out.append({"cfg": {"kind": rnd.choice(kinds), "enc": rnd.choice([1, 1, 2]), "reuse": rnd.random() < 0.3, "nmods": 1, "policy": "none", "seed": rnd.getrandbits(62),
                            "served": rnd.choice(["all", "all", "all", "rv", "owner", "mfg"])}, "actions": acts})
    return out


# (key kind, key exchange suite): one world per key exchange family
KEX_WORLDS = [("P256", "ECDH256"), ("P384", "ECDH384"), ("RSA2048RESTR", "DHKEXid14"), ("RSA2048RESTR", "ASYMKEX2048")]
KEX_WORLDS_MORE = [("RSAPKCS3072", "DHKEXid15"), ("RSAPKCS3072", "ASYMKEX3072"), ("RSAPSS2048", "DHKEXid14"), ("RSAPSS3072", "ASYMKEX3072")]
DEPLOYMENTS = [(False, 1), (True, 0)]      # (credential reuse, owner modules)


def tlc_enumerate(ctx, module, cfg, deps):
    """Records printed by an enumeration module (breadth first, one worker). The result depends on the
    specification only, so it is cached under spec/cover/ keyed by a hash of the modules and the
    configuration (as server_family.cover does)."""
    h = hashlib.sha256()
    for fn in deps:
        with open(os.path.join(ctx.spec, fn), "rb") as f:
            h.update(f.read())
    h.update(cfg.encode())
    key = "%s-%s" % (module, h.hexdigest()[:20])
    cpath = os.path.join(server_family.COVER_DIR, key + ".json")
    if os.path.exists(cpath):
        with open(cpath) as f:
            c = json.load(f)
    else:
        wd = ctx.sub("enum-" + key)
        cfgp = os.path.join(wd, module + ".cfg")
        with open(cfgp, "w") as f:
            f.write(cfg)
        r = ctx.tlc(module, cfgp, workers=1, quiet=True, timeout=1800)
        if r["errors"]:
            raise Inconclusive("%s: %s" % (module, "; ".join(r["errors"])[:2000]))
        c = {"cfg": cfg, "generated": r.get("generated"), "distinct": r.get("distinct"), "records": ctx.behaviours(r)}
        try:
            os.makedirs(server_family.COVER_DIR, exist_ok=True)
            with open(cpath + ".tmp", "w") as f:
                json.dump(c, f)
            os.replace(cpath + ".tmp", cpath)
        except OSError:
            pass
    ctx.cov["states"] += c.get("distinct") or 0
    ctx.cov["transitions"] += c.get("generated") or 0
    return c["records"]


def server_classes(ctx):
    """(deployment, prefix actions, mutant record) for every class Server_Mutants.tla reaches."""
    out, seen = [], set()
    for (reuse, nmods) in DEPLOYMENTS:
        cfg = """SPECIFICATION MSpec
CONSTANTS
  Slots = {1, 2}
  Devs = {"dA"}
  Reuse = %s
  NMods = %d
  Policy = "none"
  Forge64 = {}
  Forge22 = {}
  Forge32 = {}
  Served = {"DI", "TO0", "TO1", "TO2"}
  MaxReq = 10
  WithMutants = TRUE
VIEW MView
INVARIANTS Emit
CHECK_DEADLOCK FALSE
""" % ("TRUE" if reuse else "FALSE", nmods)
        for b in tlc_enumerate(ctx, "Server_Mutants", cfg, ("Server.tla", "MutantClasses.tla", "Server_Mutants.tla")):
            m = b[-1]
            if m.get("kind") != "mutant" or "fam" not in m:
                raise Inconclusive("Server_Mutants printed a behaviour that does not end in a classed mutant")
            prefix = [server_family.to_action(x) for x in b[:-1]]
            if m["t"] < 60:
                # DI / TO0 / TO1 do not depend on the TO2 deployment: once
                k = (json.dumps(prefix), m["t"], m["lvl"], m["fam"])
                if k in seen:
                    continue
                seen.add(k)
            out.append({"reuse": reuse, "nmods": nmods, "prefix": prefix, "m": m})
    return out


def classed_behaviour(c, world, idx, seed):
    m = c["m"]
    acts = list(c["prefix"]) + [{"a": "mutant", "s": m["s"], "t": m["t"], "b": m["lvl"], "fam": m["fam"], "seed": idx}]
    if m["t"] == 22 and m["lvl"] == "signed":
        # a registration accepted from a re-signed mutant is then used by the device
        acts += [{"a": "start", "s": 2, "p": "TO1", "d": "dA"}, {"a": "honest", "s": 2}]
    else:
        acts += [{"a": "honest", "s": m["s"]}]
    cfg = {"kind": world[0], "kex": world[1], "enc": world[2], "reuse": c["reuse"], "nmods": c["nmods"], "policy": "none", "lean": True, "seed": seed}
    return {"cfg": cfg, "actions": acts, "cls": [m["t"], m["lvl"], m["fam"]]}


def pick_worlds(rnd, kex_bearing, enc_bearing, quick, i):
    """Every key exchange family where the message carries a key exchange parameter; elsewhere the
    worlds take turns (quick) / one world per key family (thorough). Every public key encoding
    where the message carries public keys; elsewhere the encoding is drawn. Where both matter the
    two dimensions are covered each (their union, not their product)."""
    allw = KEX_WORLDS if quick else KEX_WORLDS + KEX_WORLDS_MORE
    turn = [allw[i % len(allw)]] if quick else KEX_WORLDS[:3]
    out = []
    if kex_bearing:
        out += [(k, x, rnd.choice(server_family.ENC_FOR[k])) for (k, x) in allw]
    if enc_bearing:
        out += [(k, x, enc) for (k, x) in turn for enc in server_family.ENC_FOR[k] if (k, x, enc) not in out]
    if not out:
        out = [(k, x, rnd.choice(server_family.ENC_FOR[k])) for (k, x) in turn]
    return out


def classed_server(ctx, rnd, quick):
    """Every mutant of every deterministic class, delivered after the honest prefix of the class in a
    fresh (lean) world. A probe (mutant 0) per (class, world) tells how many mutants the class has there.
    Quick: the struct family (large) is sampled; inner and volume are executed completely."""
    classes = server_classes(ctx)
    ctx.notes["server_mutant_classes"] = len(classes)
    cells = []
    for i, c in enumerate(classes):
        for w in pick_worlds(rnd, c["m"].get("kex"), c["m"].get("enc"), quick, i + ctx.seed):
            cells.append((c, w))
    probes = [classed_behaviour(c, w, 0, rnd.getrandbits(62)) for (c, w) in cells]
    evs = run_metered(ctx, probes, "probe")
    counts, cur = {}, None
    for e in evs:
        if e["kind"] == "reset":
            cur = e
        elif e["kind"] == "mutant" and e.get("fam") and "n=" in (e.get("note") or ""):
            counts[cur["probe"]] = int(re.search(r"n=(\d+)", e["note"]).group(1))
    if not counts:
        raise Inconclusive("class probes produced no mutant counts")
    todo = {"struct": [], "inner": [], "volume": []}
    per_family = {"struct": 0, "inner": 0, "volume": 0}
    for pi, (c, w) in enumerate(cells):
        n = counts.get(pi, 0)
        per_family[c["m"]["fam"]] += n
        todo[c["m"]["fam"]] += [(c, w, idx) for idx in range(1, n)]
    ctx.notes["server_class_cells"] = len(cells)
    ctx.notes["server_class_cells_without_cases"] = sum(1 for pi in range(len(cells)) if not counts.get(pi))
    ctx.notes["server_classed_mutants_total"] = per_family
    budget = {"struct": 2000, "inner": 4000, "volume": 2000} if quick else {"struct": 30000, "inner": 20000, "volume": 8000}
    chosen = []
    for fam, lst in todo.items():
        if len(lst) > budget[fam]:
            # the classes behind an integrity check or inside the tunnel are small and deep: keep them whole
            deep = [x for x in lst if x[0]["m"]["lvl"] != "wire"] if fam != "struct" else []
            rest = [x for x in lst if x[0]["m"]["lvl"] == "wire"] if deep else lst
            lst = deep + rnd.sample(rest, max(0, min(len(rest), budget[fam] - len(deep))))
        chosen += lst
    behaviours = [classed_behaviour(c, w, idx, rnd.getrandbits(62)) for (c, w, idx) in chosen]
    ctx.notes["server_classed_mutants_executed"] = len(behaviours) + len(probes)
    ctx.log("classed mutants: %d classes, %d (class, world) cells, %s mutants; executing %d" % (len(classes), len(cells), per_family, len(behaviours) + len(probes)))
    return evs + run_metered(ctx, behaviours, "classed")


def client_classes(ctx):
    cfg = "SPECIFICATION GSpec\nVIEW GView\nINVARIANTS Emit\nCHECK_DEADLOCK FALSE\n"
    recs = tlc_enumerate(ctx, "Client_Gen", cfg, ("Client.tla", "MutantClasses.tla", "Client_Gen.tla"))
    if not recs:
        raise Inconclusive("Client_Gen enumerated no classes")
    return recs


def classed_client(ctx, rnd, quick):
    """(probe cases, function from probe events to the remaining cases) for the client roles."""
    classes = client_classes(ctx)
    ctx.notes["client_mutant_classes"] = len(classes)
    cells = []
    for i, c in enumerate(classes):
        for (k, x, enc) in pick_worlds(rnd, c.get("kex"), c.get("enc"), quick, i + ctx.seed):
            cells.append({"role": c["role"], "pos": c["pos"], "nth": c["nth"], "level": c["level"], "fam": c["fam"], "kind": k, "kex": x, "enc": enc})
    return cells

def run_metered(ctx, behaviours, label, procs=12):
    """One world per process at a time, allocation metering on; several processes in parallel."""
    vh = ctx.build_vh()
    wd = ctx.sub("c10-" + label)
    chunks = [behaviours[i::procs] for i in range(procs)]
    chunks = [c for c in chunks if c]

    def job(i):
        ip = os.path.join(wd, "b%d.json" % i)
        op = os.path.join(wd, "t%d.ndjson" % i)
        with open(ip, "w") as f:
            json.dump(chunks[i], f)
        env = go_env()
        env["VERIF_SCRATCH"] = ctx.sub("db-%s-%d" % (label, i))
        p = subprocess.run([vh, "srv-meter", "-in", ip, "-out", op], env=env, capture_output=True, text=True, timeout=3300)
        if p.returncode != 0:
            raise Inconclusive("srv-meter failed: " + p.stderr[-2000:])
        evs = read_ndjson(op)
        # make run numbers unique across processes and attach actions
        for ev in evs:
            if ev["kind"] == "reset":
                b = chunks[i][ev["run"] - 1]
                ev["cfg"], ev["actions"] = b["cfg"], b["actions"]
                ev["probe"] = (ev["run"] - 1) * procs + i      # index of the behaviour in the list given
            ev["run"] = ev["run"] * procs + i
        return evs
    with ThreadPoolExecutor(max_workers=procs) as ex:
        parts = list(ex.map(job, range(len(chunks))))
    # run numbers stay unique across calls
    off = getattr(ctx, "_run_offset", 0)
    out = [e for p in parts for e in p]
    for e in out:
        e["run"] += off
    ctx._run_offset = max([e["run"] for e in out] or [off]) + 1
    return out


def mutation_kind(note):
    """Stable name of a classed mutation: family and kind without the position and the counts."""
    w = (note or "").strip().split(" ")[0]
    fam, _, rest = w.partition(":")
    kind = re.sub(r"-x\d+$", "", rest.rsplit(":", 1)[-1])
    return fam + ":" + (kind[len(fam) + 1:] if kind.startswith(fam + "-") else kind)


def instruments(ctx, evs):
    """Crash / hang / allocation events are reported directly (no specification action produces them);
    the runs that contain one are removed before trace validation."""
    bad_runs = set()
    for e in evs:
        if e["kind"] == "reset":
            continue
        key = None
        if e.get("panic"):
            key = "panic|%s|server|t=%s" % (e["panic"], e.get("t"))
            what = "handler panicked: %s" % e.get("note", "")
        elif e.get("resp") == -2:
            key = "hang|server|t=%s|%s" % (e.get("t"), e.get("note", "").split(":")[-1])
            if e.get("fam"):
                key = "hang|server|t=%s|%s|%s" % (e.get("t"), e.get("b"), mutation_kind(e.get("note")))
            what = "handler call did not return within 90 s"
        elif e.get("alloc", 0) > alloc_budget(e):
            key = "alloc|server|t=%s|%s" % (e.get("t"), (e.get("note") or "").strip().split(" ")[0])
            if e.get("fam"):
                key = "alloc|server|t=%s|%s|%s" % (e.get("t"), e.get("b"), mutation_kind(e.get("note")))
            what = "handler call allocated %d bytes for a %d byte request" % (e["alloc"], e.get("len", 0))
        if key:
            bad_runs.add(e["run"])
            ctx.violation(key, what + " " + json.dumps({k: e[k] for k in ("kind", "t", "b", "fam", "note", "alloc", "len") if k in e}), e)
    return [e for e in evs if e["run"] not in bad_runs], len(bad_runs)


def sequence_stages(ctx):
    """Inputs that are sequences rather than one altered message, and modules backed by plugins:
    (a) scripted devmod sequences from a proven device (nummodules N, one or two devmod:modules chunks
    with any start / announced length / number of names, in one or two 68 messages) replace the first
    DeviceServiceInfo at the plaintext layer of an otherwise honest TO2: the owner answers 69 or an
    error message; (b) arbitrary CBOR items as service-info values handed to plugin-backed modules on
    both sides. A panic or a hang is a step of no action of Server.tla / Client.tla."""
    wd = ctx.sub("devmodseq")
    op = os.path.join(wd, "devmod.json")
    ctx.run_vh(["devmod-seq", "-n", 320 if ctx.quick() else 0, "-seed", ctx.seed, "-out", op], timeout=3000)
    with open(op) as f:
        d = json.load(f)
    res = d["results"]
    reached = sum(1 for r in res if r["reached"])
    outcomes = {}
    for r in res:
        k = ",".join(str(x) for x in r["resp"]) or "-"
        outcomes[k] = outcomes.get(k, 0) + 1
        sc = r["script"]
        what = "nummodules=%s chunks=%s split=%s" % (sc["n"], [[c["Start"], c["Len"], c["Names"]] for c in sc["chunks"]], sc["split"])
        if r.get("panic"):
            ctx.violation("panic|%s|server|t=68|devmod-sequence" % r["panic"].split("@")[-1].strip(),
                          "owner panicked on a scripted devmod sequence from a proven device (%s): %s" % (what, r["panic"]), r)
        elif r.get("hang"):
            ctx.violation("hang|server|t=68|devmod-sequence", "TO2 did not end within 90 s on a scripted devmod sequence (%s)" % what, r)
    ctx.notes["devmod_sequences"] = {"executed": len(res), "of": d["total"], "reached_responder": reached, "responses": outcomes}
    if reached < len(res) * 0.9 or len(outcomes) < 2:
        raise Inconclusive("devmod sequence stage is vacuous: %d of %d reached the responder, outcomes %r" % (reached, len(res), outcomes))
    ctx.cov["evaluations"] += len(res)
    from checks import x01
    x01.peer_stage(ctx, 2000 if ctx.quick() else 40000)


def run(ctx):
    quick = ctx.quick()
    rnd = random.Random(ctx.seed)
    ctx.build_vh()
    ctx.model_check("Server", "Server_MC_mutants.cfg", timeout=3000)
    ctx.model_check("Client", "Client_MC.cfg", timeout=600)
    kinds = ["P256", "P384", "RSA2048RESTR"] if quick else ["P256", "P384", "RSA2048RESTR", "RSAPKCS3072", "RSAPSS2048", "RSAPSS3072"]
    # (a) TLC walks that include mutant actions
    behaviours = []
    for ci, (reuse, nmods) in enumerate([(False, 1), (True, 0)]):
        acts = server_family.generate(ctx, reuse, nmods, 30 if quick else 300, 12 if quick else 16, ctx.seed * 11 + ci,
                                      server_family.FORGE64[:2], server_family.FORGE22[:2], server_family.FORGE32[:2], mutants=True)
        rnd.shuffle(acts)
        for a in acts[:150 if quick else 3000]:
            for x in a:
                if x["a"] == "mutant":
                    x["seed"] = rnd.getrandbits(48)
            behaviours.append({"cfg": {"kind": rnd.choice(kinds), "reuse": reuse, "nmods": nmods, "policy": "none", "seed": rnd.getrandbits(62)}, "actions": a})
    # (b) positional bursts: every message position with the state of every honest prefix
    behaviours += positional(rnd, 1200 if quick else 40000, kinds)
    ctx.log("%d behaviours with mutants" % len(behaviours))
    evs = run_metered(ctx, behaviours, "srv")
    # (b2) the classes of Server_Mutants.tla: every deterministic mutant family at every level, at every
    # message position with every honest session state
    evs += classed_server(ctx, rnd, quick)
    muts = [e for e in evs if e["kind"] == "mutant"]
    clean, nbad = instruments(ctx, evs)
    n = server_family.validate(ctx, "C10", clean, "c10")
    # (c) client roles
    cases = []
    per = 12 if quick else 200
    for role, poss in (("DI", [11, 13]), ("TO0", [21, 23]), ("TO1", [31, 33]), ("TO2", [61, 63, 65, 67, 69, 71])):
        for p in poss:
            for i in range(per):
                level = "plain" if (role == "TO2" and p >= 65 and i % 2 == 0) else "wire"
                cases.append({"role": role, "pos": p, "nth": (i % 2 if p == 69 else 0), "level": level, "seed": rnd.getrandbits(48),
                              "kind": kinds[i % len(kinds)] if i % 4 == 0 else "P256"})
    # the classes of Client_Gen.tla: every deterministic mutant family at every level (wire, plaintext in
    # the tunnel, signed payloads of 61 / 63 / 65 re-signed) at every response position
    cells = classed_client(ctx, rnd, quick)
    wdp = ctx.sub("c10-cli-probe")
    with open(os.path.join(wdp, "cases.json"), "w") as f:
        json.dump([dict(c, seed=0) for c in cells], f)
    ctx.run_vh(["cli-mutate", "-in", os.path.join(wdp, "cases.json"), "-out", os.path.join(wdp, "events.ndjson")], timeout=3300)
    pevs = read_ndjson(os.path.join(wdp, "events.ndjson"))
    todo = {"struct": [], "inner": [], "volume": []}
    per_family = {"struct": 0, "inner": 0, "volume": 0}
    for c, e in zip(cells, sorted(pevs, key=lambda e: e["run"])):
        m = re.search(r"n=(\d+)", e.get("what") or "")
        if e.get("hit") and m:
            per_family[c["fam"]] += int(m.group(1))
            todo[c["fam"]] += [dict(c, seed=i) for i in range(1, int(m.group(1)))]
    ctx.notes["client_class_cells"] = len(cells)
    ctx.notes["client_class_cells_not_reached"] = sum(1 for e in pevs if not e.get("hit"))
    ctx.notes["client_classed_mutants_total"] = per_family
    budget = {"struct": 1500, "inner": 2500, "volume": 1200} if quick else {"struct": 20000, "inner": 20000, "volume": 8000}
    chosen = []
    for fam, lst in todo.items():
        if len(lst) > budget[fam]:
            deep = [x for x in lst if x["level"] != "wire"] if fam != "struct" else []
            rest = [x for x in lst if x["level"] == "wire"] if deep else lst
            lst = deep + rnd.sample(rest, max(0, min(len(rest), budget[fam] - len(deep))))
        chosen += lst
    todo = chosen
    ctx.notes["client_classed_mutants_executed"] = len(todo) + len(cells)
    ctx.log("client classed mutants: %d (class, world) cells, %s mutants; executing %d" % (len(cells), per_family, len(todo) + len(cells)))
    cases += todo
    wd = ctx.sub("c10-cli")
    cp = os.path.join(wd, "cases.json")
    with open(cp, "w") as f:
        json.dump(cases, f)
    ep = os.path.join(wd, "events.ndjson")
    ctx.run_vh(["cli-mutate", "-in", cp, "-out", ep], timeout=3300)
    cevs = read_ndjson(ep) + pevs
    ok_lines = []
    for e in cevs:
        if e["outcome"] == "setup":
            ctx.notes["client_setup_failures"] = ctx.notes.get("client_setup_failures", 0) + 1
            continue
        if e["outcome"] == "crash":
            ctx.violation("panic|%s|client|%s|pos=%d" % (e.get("frame"), e["role"], e["pos"]), "client role panicked on a mutated response (%s): %s" % (e["what"], e.get("err")), e)
        elif e["outcome"] == "hang":
            kind = mutation_kind(e["what"].replace("signed~", "")) if e.get("fam") else e["what"].split(":")[-1]
            ctx.violation("hang|client|%s|pos=%d|%s" % (e["role"], e["pos"], kind), "client role hung on a mutated response (%s)" % e["what"], e)
        else:
            ok_lines.append(e)
    if ok_lines:
        wd2 = tempfile.mkdtemp(prefix="ctv-", dir=ctx.scratch)
        write_ndjson(os.path.join(wd2, "trace.ndjson"), ok_lines)
        r = ctx.tlc("Client_Trace", "Client_Trace.cfg", workers=1, workdir=wd2, quiet=True, timeout=1200)
        m = re.findall(r"TRACE_HWM[^0-9]*(\d+)", r["out"])
        if not m:
            raise Inconclusive("no high-water mark from Client_Trace:\n" + r["out"][-2000:])
        hwm = max(int(x) for x in m)
        if hwm < len(ok_lines):
            bad = ok_lines[hwm]
            ctx.violation("client|%s|pos=%s|outcome=%s" % (bad["role"], bad["pos"], bad["outcome"]), "client outcome not allowed by Client.tla", bad)
    real = [e for e in evs if e["kind"] not in ("reset", "unexecutable")]
    ctx.cov["traces_validated_against_impl"] = n + len(ok_lines)
    ctx.cov["evaluations"] = len(muts) + len(cevs)
    ctx.cov["distinct_nontrivial"] = len(set((e.get("t"), e.get("b"), (e.get("note") or "").strip(), e.get("resp")) for e in muts)) + \
        len(set((e["role"], e["pos"], e["level"], e["what"], e["outcome"]) for e in cevs))
    ctx.cov["rule"] = ("one evaluation = one structure-aware mutant (wire, plaintext-in-tunnel or HTTP framing level) delivered to the real handler in a session state reached by an honest prefix or a TLC walk, "
                       "or one mutated response delivered to a client role; the deterministic families (struct, inner framing, volume) are enumerated per class "
                       "(message position, honest session state, level, family) that TLC prints from Server_Mutants.tla / Client_Gen.tla; distinct = distinct (type/position, level, mutation kind, outcome)")
    ctx.notes["server_mutants"] = len(muts)
    ctx.notes["server_mutants_accepted"] = sum(1 for e in muts if e.get("resp") not in (255, -1, -2))
    ctx.notes["server_runs_with_instrument_events"] = nbad
    ctx.notes["max_alloc_bytes"] = max([e.get("alloc", 0) for e in real] or [0])
    ctx.notes["max_ms"] = max([e.get("ms", 0) for e in real] or [0])
    ctx.notes["client_runs"] = len(cevs)
    ctx.notes["client_mutations_applied"] = sum(1 for e in cevs if e["hit"])
    ctx.notes["client_outcomes"] = {o: sum(1 for e in cevs if e["outcome"] == o) for o in ("ok", "error", "crash", "hang")}
    ctx.sample([e for e in muts if e.get("resp") == 255][:2])
    ctx.sample([e for e in cevs if e["hit"]][:2])
    sequence_stages(ctx)
    ctx.assumptions += ["allocation oracle: TotalAlloc delta of the handler call <= 64*len(request)+24 MiB (volume family: + 2 KiB per added entry), measured with one world per process",
                        "hang oracle: a handler call that has not returned after 90 s, a client run that has not returned after 100 s (75 s after its context expired)",
                        "mutants are seeded structure-aware mutations (cb.Mutate) and the deterministic families of MutantClasses.tla (cb.Sweep, cb.Inner, cb.Volume), not all byte strings",
                        "signed level: authentication is repaired with the keys the harness owns (owner key for to1d / 61 / 65, device key for the tokens of 32 / 64, manufacturer key for the first voucher entry); voucher-internal signatures and HMACs are not repaired"]
    return "model_checking"
