"""C10: no peer-supplied bytes can crash, hang or exhaust an endpoint.

Server: Server.tla with the Mutant actions (every outcome the responder has for any body class is
allowed, crash/hang/alloc are not actions); TLC-generated walks with mutants plus positional
mutant bursts after honest prefixes are executed on the real handler, one world per process with
allocation metering and a watchdog, and validated against Server_Trace.tla.
Clients: Client.tla; every response position of DI/TO0/TO1/TO2 client roles receives
structure-aware mutations at the wire level and (TO2 65..71) at the plaintext level inside the
tunnel; outcomes validated against Client_Trace.tla."""
import json
import os
import random
import re
import subprocess
import tempfile
from concurrent.futures import ThreadPoolExecutor

from lib.vlib import Inconclusive, write_ndjson, read_ndjson, go_env
from checks import server_family

ALLOC_SLACK = 8 << 20
PROTO_STEPS = {"DI": [10, 12], "TO0": [20, 22], "TO1": [30, 32], "TO2": [60, 62, 64, 66, 68, 68, 68, 70]}


def positional(rnd, n, kinds):
    """Honest prefix of a protocol up to a position, then a few mutants of nearby and random types."""
    out = []
    alltypes = [10, 12, 20, 22, 30, 32, 60, 62, 64, 66, 68, 70, 255]
    for i in range(n):
        proto = rnd.choice(["DI", "TO0", "TO1", "TO2", "TO2", "TO2", "TO2"])
        steps = PROTO_STEPS[proto]
        k = rnd.randrange(0, len(steps))          # number of honest messages before the mutants
        acts = []
        dev = "new" if proto == "DI" else rnd.choice(["dA", "dB"])
        slot = 1
        if proto == "TO1":
            acts += [{"a": "start", "s": 1, "p": "TO0", "d": dev}, {"a": "honest", "s": 1}]
            slot = 2
        if k >= 1:
            acts.append({"a": "start", "s": slot, "p": proto, "d": dev})
            acts += [{"a": "honest", "s": slot}] * (k - 1)
        else:
            # mutants of the start message itself need some slot to attribute to
            acts.append({"a": "start", "s": slot, "p": proto, "d": dev})
        nxt = steps[min(k, len(steps) - 1)]
        for j in range(rnd.choice([1, 1, 2, 3])):
            t = nxt if rnd.random() < 0.7 else rnd.choice(alltypes)
            lvl = rnd.choice(["wire", "wire", "wire", "plain", "http"]) if t in (66, 68, 70) else rnd.choice(["wire", "wire", "wire", "http"])
            if t == 255:
                lvl = "wire"        # an error message is handled before the body is framed
            acts.append({"a": "mutant", "s": slot, "t": t, "b": lvl, "seed": rnd.getrandbits(48)})
        # let the honest client run into whatever the mutants left behind
        acts += [{"a": "honest", "s": slot}] * 2
        out.append({"cfg": {"kind": rnd.choice(kinds), "enc": rnd.choice([1, 1, 2]), "reuse": rnd.random() < 0.3, "nmods": 1, "policy": "none", "seed": rnd.getrandbits(62),
                            "served": rnd.choice(["all", "all", "all", "rv", "owner", "mfg"])}, "actions": acts})
    return out


def sweep_behaviour(proto, k, dev, t, level, idx, cfg):
    """Honest prefix of k messages of proto, then sweep mutant number idx of message type t."""
    acts, slot = [], 1
    if proto == "TO1":
        acts += [{"a": "start", "s": 1, "p": "TO0", "d": dev}, {"a": "honest", "s": 1}]
        slot = 2
    acts.append({"a": "start", "s": slot, "p": proto, "d": dev})
    acts += [{"a": "honest", "s": slot}] * max(0, k - 1)
    acts.append({"a": "mutant", "s": slot, "t": t, "b": level, "seed": idx})
    if t == 22 and level == "sweeps":
        # a registration accepted from a re-signed mutant is then used by the device
        acts += [{"a": "start", "s": 2, "p": "TO1", "d": dev}, {"a": "honest", "s": 2}]
    else:
        acts += [{"a": "honest", "s": slot}]
    return {"cfg": cfg, "actions": acts}


def sweep_positions():
    """(proto, honest prefix length, message type, level) for every client message of every protocol."""
    out = []
    for proto, steps in PROTO_STEPS.items():
        for k, t in enumerate(steps):
            if t == 68 and k > 4:
                continue
            out.append((proto, k, t, "sweep"))
            if t in (66, 68, 70):
                out.append((proto, k, t, "sweepp"))     # plaintext mutated, then protected with the session keys
            if t in (22, 32, 64):
                out.append((proto, k, t, "sweeps"))     # authenticated part mutated, authentication repaired
    return out


def sweep(ctx, rnd, kinds, budget):
    """Deterministic single-point structural sweep (cb.Sweep) of every client message: a probe run per
    (position, level, key kind, key encoding) learns how many mutants the message has; then all of
    them (thorough) or a seeded sample of `budget` (quick) are delivered, each after an honest prefix
    in a fresh world."""
    worlds = []
    for k in kinds:
        for enc in server_family.ENC_FOR[k]:
            worlds.append({"kind": k, "enc": enc, "reuse": False, "nmods": 1, "policy": "none"})
    probes = []
    for w in worlds:
        for (proto, k, t, level) in sweep_positions():
            cfg = dict(w, seed=rnd.getrandbits(62))
            probes.append(sweep_behaviour(proto, k, "new" if proto == "DI" else "dA", t, level, 0, cfg))
    evs = run_metered(ctx, probes, "probe")
    counts = {}
    for e in evs:
        if e["kind"] == "reset":
            cur = e
        elif e["kind"] == "mutant" and "n=" in (e.get("note") or ""):
            b = cur["actions"]
            m = next(a for a in b if a["a"] == "mutant")
            counts[(cur["cfg"]["kind"], cur["cfg"]["enc"], m["t"], m["b"])] = int(e["note"].rsplit("n=", 1)[1])
    total = sum(counts.values())
    ctx.notes["sweep_mutants_total"] = total
    if not counts:
        raise Inconclusive("sweep probes produced no mutant counts")
    todo = []
    for w in worlds:
        for (proto, k, t, level) in sweep_positions():
            n = counts.get((w["kind"], w["enc"], t, level), 0)
            for idx in range(n):
                todo.append((w, proto, k, t, level, idx))
    if budget and len(todo) > budget:
        todo = rnd.sample(todo, budget)
    behaviours = [sweep_behaviour(proto, k, "new" if proto == "DI" else "dA", t, level, idx, dict(w, seed=rnd.getrandbits(62)))
                  for (w, proto, k, t, level, idx) in todo]
    ctx.notes["sweep_mutants_executed"] = len(behaviours)
    ctx.log("structural sweep: %d single-point mutants in %d (position, world) cells; executing %d" % (total, len(counts), len(behaviours)))
    return evs + run_metered(ctx, behaviours, "sweep")


def run_metered(ctx, behaviours, label, procs=12):
    """One world per process at a time, allocation metering on; several processes in parallel."""
    vh = ctx.build_vh()
    wd = ctx.sub("c10-" + label)
    chunks = [behaviours[i::procs] for i in range(procs)]
    chunks = [c for c in chunks if c]

    def job(i):
        ip = os.path.join(wd, "b%d.json" % i)
        op = os.path.join(wd, "t%d.ndjson" % i)
        with open(ip, "w") as f:
            json.dump(chunks[i], f)
        env = go_env()
        env["VERIF_SCRATCH"] = ctx.sub("db-%s-%d" % (label, i))
        p = subprocess.run([vh, "srv-meter", "-in", ip, "-out", op], env=env, capture_output=True, text=True, timeout=3300)
        if p.returncode != 0:
            raise Inconclusive("srv-meter failed: " + p.stderr[-2000:])
        evs = read_ndjson(op)
        # make run numbers unique across processes and attach actions
        for ev in evs:
            if ev["kind"] == "reset":
                b = chunks[i][ev["run"] - 1]
                ev["cfg"], ev["actions"] = b["cfg"], b["actions"]
            ev["run"] = ev["run"] * procs + i
        return evs
    with ThreadPoolExecutor(max_workers=procs) as ex:
        parts = list(ex.map(job, range(len(chunks))))
    # run numbers stay unique across calls
    off = getattr(ctx, "_run_offset", 0)
    out = [e for p in parts for e in p]
    for e in out:
        e["run"] += off
    ctx._run_offset = max([e["run"] for e in out] or [off]) + 1
    return out


def instruments(ctx, evs):
    """Crash / hang / allocation events are reported directly (no specification action produces them);
    the runs that contain one are removed before trace validation."""
    bad_runs = set()
    for e in evs:
        if e["kind"] == "reset":
            continue
        key = None
        if e.get("panic"):
            key = "panic|%s|server|t=%s" % (e["panic"], e.get("t"))
            what = "handler panicked: %s" % e.get("note", "")
        elif e.get("resp") == -2:
            key = "hang|server|t=%s|%s" % (e.get("t"), e.get("note", "").split(":")[-1])
            what = "handler call did not return within 15 s"
        elif e.get("alloc", 0) > 64 * e.get("len", 0) + ALLOC_SLACK:
            key = "alloc|server|t=%s|%s" % (e.get("t"), (e.get("note") or "").strip().split(" ")[0])
            what = "handler call allocated %d bytes for a %d byte request" % (e["alloc"], e.get("len", 0))
        if key:
            bad_runs.add(e["run"])
            ctx.violation(key, what + " " + json.dumps({k: e[k] for k in ("kind", "t", "b", "note", "alloc", "len") if k in e}), e)
    return [e for e in evs if e["run"] not in bad_runs], len(bad_runs)


def run(ctx):
    quick = ctx.quick()
    rnd = random.Random(ctx.seed)
    ctx.build_vh()
    ctx.model_check("Server", "Server_MC_mutants.cfg", timeout=3000)
    ctx.model_check("Client", "Client_MC.cfg", timeout=600)
    kinds = ["P256", "P384", "RSA2048RESTR"] if quick else ["P256", "P384", "RSA2048RESTR", "RSAPKCS3072", "RSAPSS2048", "RSAPSS3072"]
    # (a) TLC walks that include mutant actions
    behaviours = []
    for ci, (reuse, nmods) in enumerate([(False, 1), (True, 0)]):
        acts = server_family.generate(ctx, reuse, nmods, 30 if quick else 300, 12 if quick else 16, ctx.seed * 11 + ci,
                                      server_family.FORGE64[:2], server_family.FORGE22[:2], server_family.FORGE32[:2], mutants=True)
        rnd.shuffle(acts)
        for a in acts[:150 if quick else 3000]:
            for x in a:
                if x["a"] == "mutant":
                    x["seed"] = rnd.getrandbits(48)
            behaviours.append({"cfg": {"kind": rnd.choice(kinds), "reuse": reuse, "nmods": nmods, "policy": "none", "seed": rnd.getrandbits(62)}, "actions": a})
    # (b) positional bursts: every message position with the state of every honest prefix
    behaviours += positional(rnd, 1500 if quick else 40000, kinds)
    ctx.log("%d behaviours with mutants" % len(behaviours))
    evs = run_metered(ctx, behaviours, "srv")
    # (b2) deterministic structural sweep of every client message
    sw = sweep(ctx, rnd, ["P256", "RSA2048RESTR"] if quick else kinds, 4000 if quick else 0)
    evs += sw
    muts = [e for e in evs if e["kind"] == "mutant"]
    clean, nbad = instruments(ctx, evs)
    n = server_family.validate(ctx, "C10", clean, "c10")
    # (c) client roles
    cases = []
    per = 12 if quick else 200
    for role, poss in (("DI", [11, 13]), ("TO0", [21, 23]), ("TO1", [31, 33]), ("TO2", [61, 63, 65, 67, 69, 71])):
        for p in poss:
            for i in range(per):
                level = "plain" if (role == "TO2" and p >= 65 and i % 2 == 0) else "wire"
                cases.append({"role": role, "pos": p, "nth": (i % 2 if p == 69 else 0), "level": level, "seed": rnd.getrandbits(48),
                              "kind": kinds[i % len(kinds)] if i % 4 == 0 else "P256"})
    # deterministic structural sweep of every response position (wire, plaintext in the tunnel, and the
    # owner-signed payloads of 61 / 65 re-signed)
    cells = []
    for kind in (["P256", "RSA2048RESTR"] if quick else kinds):
        for enc in server_family.ENC_FOR[kind]:
            for role, poss in (("DI", [11, 13]), ("TO0", [21, 23]), ("TO1", [31, 33]), ("TO2", [61, 63, 65, 67, 69, 71])):
                for p in poss:
                    levels = ["wire"] + (["plain"] if role == "TO2" and p >= 65 else []) + (["signed"] if p in (61, 65) else [])
                    for level in levels:
                        cells.append({"role": role, "pos": p, "nth": 0, "level": level, "kind": kind, "enc": enc, "sweep": True})
    wdp = ctx.sub("c10-cli-probe")
    with open(os.path.join(wdp, "cases.json"), "w") as f:
        json.dump([dict(c, seed=0) for c in cells], f)
    ctx.run_vh(["cli-mutate", "-in", os.path.join(wdp, "cases.json"), "-out", os.path.join(wdp, "events.ndjson")], timeout=3300)
    pevs = read_ndjson(os.path.join(wdp, "events.ndjson"))
    todo = []
    for c, e in zip(cells, sorted(pevs, key=lambda e: e["run"])):
        m = re.search(r"n=(\d+)", e.get("what") or "")
        if e.get("hit") and m:
            todo += [dict(c, seed=i) for i in range(1, int(m.group(1)))]
    ctx.notes["client_sweep_mutants_total"] = len(todo) + len(cells)
    budget = 3000 if quick else 0
    if budget and len(todo) > budget:
        todo = rnd.sample(todo, budget)
    ctx.notes["client_sweep_mutants_executed"] = len(todo) + len(cells)
    ctx.log("client sweep: %d single-point mutants over %d (position, level, world) cells; executing %d" % (
        ctx.notes["client_sweep_mutants_total"], len(cells), len(todo) + len(cells)))
    cases += todo
    wd = ctx.sub("c10-cli")
    cp = os.path.join(wd, "cases.json")
    with open(cp, "w") as f:
        json.dump(cases, f)
    ep = os.path.join(wd, "events.ndjson")
    ctx.run_vh(["cli-mutate", "-in", cp, "-out", ep], timeout=3300)
    cevs = read_ndjson(ep) + pevs
    ok_lines = []
    for e in cevs:
        if e["outcome"] == "setup":
            ctx.notes["client_setup_failures"] = ctx.notes.get("client_setup_failures", 0) + 1
            continue
        if e["outcome"] == "crash":
            ctx.violation("panic|%s|client|%s|pos=%d" % (e.get("frame"), e["role"], e["pos"]), "client role panicked on a mutated response (%s): %s" % (e["what"], e.get("err")), e)
        elif e["outcome"] == "hang":
            ctx.violation("hang|client|%s|pos=%d|%s" % (e["role"], e["pos"], e["what"].split(":")[-1]), "client role hung on a mutated response (%s)" % e["what"], e)
        else:
            ok_lines.append(e)
    if ok_lines:
        wd2 = tempfile.mkdtemp(prefix="ctv-", dir=ctx.scratch)
        write_ndjson(os.path.join(wd2, "trace.ndjson"), ok_lines)
        r = ctx.tlc("Client_Trace", "Client_Trace.cfg", workers=1, workdir=wd2, quiet=True, timeout=1200)
        m = re.findall(r"TRACE_HWM[^0-9]*(\d+)", r["out"])
        if not m:
            raise Inconclusive("no high-water mark from Client_Trace:\n" + r["out"][-2000:])
        hwm = max(int(x) for x in m)
        if hwm < len(ok_lines):
            bad = ok_lines[hwm]
            ctx.violation("client|%s|pos=%s|outcome=%s" % (bad["role"], bad["pos"], bad["outcome"]), "client outcome not allowed by Client.tla", bad)
    real = [e for e in evs if e["kind"] not in ("reset", "unexecutable")]
    ctx.cov["traces_validated_against_impl"] = n + len(ok_lines)
    ctx.cov["evaluations"] = len(muts) + len(cevs)
    ctx.cov["distinct_nontrivial"] = len(set((e.get("t"), e.get("b"), (e.get("note") or "").strip(), e.get("resp")) for e in muts)) + \
        len(set((e["role"], e["pos"], e["level"], e["what"], e["outcome"]) for e in cevs))
    ctx.cov["rule"] = ("one evaluation = one structure-aware mutant (wire, plaintext-in-tunnel or HTTP framing level) delivered to the real handler in a session state reached by an honest prefix or a TLC walk, "
                       "or one mutated response delivered to a client role; distinct = distinct (type/position, level, mutation kind, outcome)")
    ctx.notes["server_mutants"] = len(muts)
    ctx.notes["server_mutants_accepted"] = sum(1 for e in muts if e.get("resp") not in (255, -1, -2))
    ctx.notes["server_runs_with_instrument_events"] = nbad
    ctx.notes["max_alloc_bytes"] = max([e.get("alloc", 0) for e in real] or [0])
    ctx.notes["max_ms"] = max([e.get("ms", 0) for e in real] or [0])
    ctx.notes["client_runs"] = len(cevs)
    ctx.notes["client_mutations_applied"] = sum(1 for e in cevs if e["hit"])
    ctx.notes["client_outcomes"] = {o: sum(1 for e in cevs if e["outcome"] == o) for o in ("ok", "error", "crash", "hang")}
    ctx.sample([e for e in muts if e.get("resp") == 255][:2])
    ctx.sample([e for e in cevs if e["hit"]][:2])
    ctx.assumptions += ["allocation oracle: TotalAlloc delta of the handler call <= 64*len(request)+8 MiB, measured with one world per process",
                        "hang oracle: 15 s per handler call, 40 s per client run", "mutants are seeded structure-aware mutations (cb.Mutate), not all byte strings"]
    return "model_checking"
