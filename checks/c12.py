"""C12 -- CBOR decoding of arbitrary bytes is total, bounded and exact.

Pipeline: (1) TLC checks the theorems of spec/Cbor.tla that C12 rests on (encodings are
self-delimiting, no proper prefix of an item is an item, a bstr-wrapped item is exact) and evaluates
ItemLen / Class / WrappedExact on every string of length <= 3 over byte-class representatives and on
the adversarial shape families: the verdict table (Cbor_Tab.tla); (2) `vh cbor-decode-sweep` first
checks its Go reference (cborx.Verdict, harness/cb) against that table on the same inputs (so the
reference is bound to the spec), then runs the library on the table inputs, on all strings of length
<= 3 (thorough; <= 2 plus samples in quick), and on seeded random / mutated / adversarial strings up
to 64 KiB, against every decode target, in stream mode (counting reader) and whole-buffer mode, every
call under recover(), a CPU-time watchdog and an allocation meter; (3) outcomes are judged with the
rule of the spec (operator Allowed): Ok only on an item, consuming exactly ItemLen; Crash, Hang and
AllocExceeded are no outcomes of the specification.

Nested-encoded items (Cbor_Nest.tla): every decode target has a schema saying where it holds an item
inside a byte string (bstr .cbor: cbor.Bstr / ByteWrap, COSE protected headers and typed payloads, the
voucher header, to0d in TO0.OwnerSign, ovhProof ...); exactness applies at each of these positions
(NestOK). TLC builds honest instances of the wire types, alters every nested position with the
alphabet of inner mismatches (trailing items, truncated inner item, emptied) and prints the verdict of
each case under every schema; the sweep runs every case against every target (judged by TLC's
verdict), requires the honest instances to be accepted by the targets they are built for (controls),
and applies the same rule, through a schema interpreter that must agree with TLC on every printed
case, to every other input, among them seeded inner mismatches of real encoded messages.
"""
import json
import os
from concurrent.futures import ThreadPoolExecutor

from lib.vlib import Inconclusive


MAX_REPORTED = 150


def _table(ctx, cfg, workers, timeout):
    r = ctx.tlc("Cbor_Tab", cfg, workers=workers, timeout=timeout, quiet=True)
    if r["errors"]:
        raise Inconclusive("model-level error in Cbor_Tab/%s (not a verdict about the code):\n%s" % (cfg, r["out"][-4000:]))
    ctx.cov["states"] += r.get("distinct", 0) or 0
    ctx.cov["transitions"] += r.get("generated", 0) or 0
    ctx.notes.setdefault("tlc_runs", []).append({"module": "Cbor_Tab", "cfg": cfg, "generated": r.get("generated"), "distinct": r.get("distinct"), "wall_s": round(r["wall"], 1)})
    return ctx.behaviours(r)


def _nest(ctx, timeout):
    r = ctx.tlc("Cbor_Nest", "Cbor_Nest.cfg", workers=4, timeout=timeout, quiet=True)
    if r["errors"]:
        raise Inconclusive("model-level error in Cbor_Nest (not a verdict about the code):\n%s" % r["out"][-4000:])
    ctx.cov["states"] += r.get("distinct", 0) or 0
    ctx.cov["transitions"] += r.get("generated", 0) or 0
    ctx.notes.setdefault("tlc_runs", []).append({"module": "Cbor_Nest", "cfg": "Cbor_Nest.cfg", "generated": r.get("generated"), "distinct": r.get("distinct"), "wall_s": round(r["wall"], 1)})
    return ctx.behaviours(r)


def run(ctx):
    quick = ctx.quick()
    ctx.build_vh()
    tmo = 900 if quick else 3000
    with ThreadPoolExecutor(max_workers=4) as ex:
        f1 = ex.submit(ctx.model_check, "Cbor_MC", "Cbor_MC.cfg", workers=4, timeout=tmo, quiet=True)
        f2 = ex.submit(_table, ctx, "Cbor_Tab.cfg" if quick else "Cbor_Tab_big.cfg", 10, tmo)
        f3 = ex.submit(ctx.model_check, "Cbor_MC", "Cbor_MC_long.cfg", workers=2, timeout=tmo, quiet=True)
        f4 = ex.submit(_nest, ctx, tmo)
        f1.result()
        f3.result()
        table = f2.result()
        nest = f4.result()
    nstrings = sum(1 + len(l["reps"]) for l in table if "reps" in l)
    nshapes = sum(1 for l in table if l.get("shape"))
    if nstrings < 1000 or nshapes < 10:
        raise Inconclusive("verdict table too small: %d strings, %d shapes" % (nstrings, nshapes))
    ncases = [l for l in nest if "nest" in l]
    nschemas = sum(len(l["nestschemas"]) for l in nest if "nestschemas" in l)
    must_refuse = sum(1 for l in ncases if 0 in l["v"])
    if len(ncases) < 300 or nschemas < 10 or must_refuse < 200 or not any(l["kind"] == "control" for l in ncases):
        raise Inconclusive("nested-item table too small: %d cases (%d with a refusal), %d schemas" % (len(ncases), must_refuse, nschemas))
    ctx.log("TLC: theorems checked; verdict table for %d byte strings and %d adversarial shapes; %d nested-item cases (%d to be refused by some target) under %d schemas" % (
        nstrings, nshapes, len(ncases), must_refuse, nschemas))

    wd = ctx.sub("c12")
    tpath, rpath = os.path.join(wd, "table.json"), os.path.join(wd, "results.json")
    with open(tpath, "w") as f:
        json.dump(table, f)
    # binding demonstration: VERIF_SELFTEST=flip-nest corrupts one verdict of the nested-item table
    # (the schema interpreter of the harness must then disagree with the table: Inconclusive)
    if os.environ.get("VERIF_SELFTEST") == "flip-nest":
        l = next(l for l in ncases if l["nest"] == "voucher" and l["kind"] == "inner" and 0 in l["v"])
        l["v"] = [1 - x for x in l["v"]]
        ctx.log("SELFTEST: flipped the verdicts of one nested-item case: %s %s %s" % (l["nest"], l["path"], l["mut"]))
    npath = os.path.join(wd, "nest.json")
    with open(npath, "w") as f:
        json.dump(nest, f)
    args = ["cbor-decode-sweep", "-out", rpath, "-table", tpath, "-nest", npath, "-tier", ctx.tier, "-seed", ctx.seed]
    args += ["-sample3", 1024, "-nseeded", 2400] if quick else ["-nseeded", 60000]
    ctx.run_vh(args, timeout=1500 if quick else 5400)
    with open(rpath) as f:
        res = json.load(f)
    ctx.log("sweep: %d inputs, %d decode calls (%d Ok) against %d targets; %d table inputs cross-checked; %d disagreement keys; max alloc %d bytes (%s)" % (
        res["inputs"], res["calls"], res["ok_calls"], res["targets"], res["table_inputs"], len(res["disagreements"] or []), res["max_alloc_bytes"], res["max_alloc_at"]))

    if res["ref_mismatch"]:
        raise Inconclusive("the Go reference decoder disagrees with Cbor_Tab.tla on shared inputs (not a verdict about the code): %s" % json.dumps(res["ref_mismatch"][:5]))
    if res["table_inputs"] != nstrings + nshapes:
        raise Inconclusive("only %d of %d table inputs were cross-checked" % (res["table_inputs"], nstrings + nshapes))
    if res["nest_inputs"] != len(ncases):
        raise Inconclusive("only %d of %d nested-item cases were cross-checked" % (res["nest_inputs"], len(ncases)))
    if res.get("nest_control_failed"):
        raise Inconclusive("honest instances of Cbor_Nest.tla are refused by the targets they are built for (the instance or the schema does not describe the Go type; "
                           "not a verdict about the code): %s" % "; ".join(res["nest_control_failed"][:5]))
    want_controls = sum(len(l["for"]) for l in ncases if l["kind"] == "control")
    if res["nest_controls"] != want_controls or res["nest_must_refuse_calls"] < 2 * must_refuse:
        raise Inconclusive("vacuous nested-item run: %d of %d controls accepted, %d calls on cases to be refused" % (res["nest_controls"], want_controls, res["nest_must_refuse_calls"]))
    ctx.log("nested items: %d cases cross-checked and run, %d controls accepted, %d calls on (input, target) pairs the specification wants refused" % (
        res["nest_inputs"], res["nest_controls"], res["nest_must_refuse_calls"]))

    for d in (res["disagreements"] or [])[:MAX_REPORTED]:
        e = d["examples"][0]
        what = "%s decoding %s (%d bytes, %s) in %s mode: observed %s; specification: %s [%d occurrences, targets: %s]" % (
            e["target"], e["input_hex"], e["input_len"], e["input_kind"], e["mode"], e["observed"], e["expected"], d["count"], ", ".join(d["targets"][:8]))
        ctx.violation(d["key"], what, {"examples": d["examples"], "targets": d["targets"], "count": d["count"],
                                       "replay": "cbor.NewDecoder(bytes.NewReader(input)).Decode(new(T)) / cbor.Unmarshal(input, new(T)) for the target type T"})
    if len(res["disagreements"] or []) > MAX_REPORTED:
        ctx.notes["disagreement_keys_not_reported_individually"] = len(res["disagreements"]) - MAX_REPORTED
    if res["incomplete"]:
        raise Inconclusive("sweep incomplete: %s" % "; ".join(res["incomplete"])[:3000])
    if res["calls"] == 0 or res["ok_calls"] == 0:
        raise Inconclusive("vacuous sweep: %d calls, %d Ok" % (res["calls"], res["ok_calls"]))

    ctx.cov["traces_validated_against_impl"] = res["inputs"]
    ctx.cov["evaluations"] = res["calls"]
    ctx.cov["distinct_nontrivial"] = res["distinct_input_classes"] * res["targets"]
    ctx.cov["rule"] = ("one evaluation = one decode call (one input, one target type, stream or whole-buffer mode) judged against the verdict of Cbor.tla "
                       "(table inputs: by TLC; all others: by the Go reference bound to TLC on the table); distinct = distinct (input family, class, first irregularity) "
                       "labels observed x decode targets, each label having been run against every target")
    ctx.notes["inputs_by_class"] = res["inputs_by_class"]
    ctx.notes["inputs_by_kind"] = res["inputs_by_kind"]
    ctx.notes["ok_calls_by_target"] = res["ok_by_target"]
    ctx.notes["nested_item_calls_to_be_refused_by_schema_and_input_kind"] = res["nest_must_refuse_by_schema"]
    ctx.notes["nested_item_controls_accepted"] = res["nest_controls"]
    ctx.notes["max_alloc_bytes"] = res["max_alloc_bytes"]
    ctx.notes["max_alloc_at"] = res["max_alloc_at"]
    ctx.notes["max_call_cpu_ms"] = res["max_call_ms"]
    ctx.notes["child_restarts"] = res["restarts"]
    ctx.notes["calls_skipped_after_resource_finding"] = res["skipped_after_resource_finding"]
    ctx.notes["alloc_budget"] = "64*len(input) + 4 MiB per call (runtime/metrics /gc/heap/allocs:bytes delta, single-threaded child processes); hang limit 10 s CPU per call"
    shape = next(l for l in table if l.get("shape") == "indef-arr")
    ctx.sample({"tlc_verdict": {"shape": shape["shape"], "bytes_hex": bytes(shape["bytes"]).hex(), "code": shape["code"], "meaning": "class indef (2), item length 3"}})
    nl = next(l for l in ncases if l["nest"] == "voucher" and l["mut"] == "trailing-uint" and 0 in l["v"])
    ctx.sample({"tlc_nested_case": {"instance": nl["nest"], "path": nl["path"], "mutation": nl["mut"], "bytes_hex": bytes(nl["bytes"]).hex(), "verdict_per_schema": nl["v"]}})
    line = next(l for l in table if l.get("p") == [130, 24])
    ctx.sample({"tlc_table_line": {"prefix_hex": bytes(line["p"]).hex(), "reps": line["reps"][:8], "code": line["code"][:8]}})
    ctx.assumptions += ["TLC 1.8.0 and the CommunityModules Json module",
                        "the Go reference (cborx.Verdict, harness/cb) judges inputs beyond the TLC table; it is compared with the table on every table input in every run",
                        "the schemas of Cbor_Nest.tla (where a target nests items in byte strings) were read off the Go types; the honest instances must be accepted by the targets they name (checked in every run); "
                        "unexported message types (DI.AppStart, DI.SetCredentials, TO0.OwnerSign, TO2.ProveOVHdr, TO2.OVNextEntry) are re-declared field by field in harness/cborx from the library's generic types",
                        "two-byte simple values below 32 (f8 00..f8 1f) and indefinite-length items may be refused or accepted with exact consumption (Cbor.tla Class len/indef)",
                        "allocation is measured with runtime/metrics (small-object accounting is per span, error of a few hundred KiB, inside the 4 MiB slack)"]
    return "model_checking"
