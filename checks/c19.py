"""C19: concurrent onboardings through one server are isolated and race-free.

Server.tla already interleaves sessions at exchange granularity (checked by TLC); here N real
devices run TO0, TO1, TO2 (plus further DIs) concurrently through ONE handler/responder set/sqlite
store: every device must get the outcome it gets alone, receive only its own session's module
data, and leave a voucher that agrees with its new credential; the recorded exchanges (sequence
numbers under the recorder's lock) are validated against Server_Trace.tla; the same runs are
repeated under the race detector with no harness lock on the library's paths (a race report is a
Race event, which no specification action produces). The device-side pipeline (no deadlock, no
race under permuted producer/consumer speeds) is exercised by the same runs with injected delays
and by Pipeline.tla (see C15)."""
import json
import os
import subprocess

from lib.vlib import Inconclusive, read_ndjson, go_env
from checks import server_family


def conc(ctx, vh, n, seed, kind, record, gomaxprocs, label, dis=4):
    wd = ctx.sub("c19-" + label)
    out = os.path.join(wd, "report.json")
    trace = os.path.join(wd, "trace.ndjson")
    env = go_env()
    env["VERIF_SCRATCH"] = ctx.sub("db-" + label)
    env["GOMAXPROCS"] = str(gomaxprocs)
    env["GORACE"] = "halt_on_error=0 exitcode=0"
    cmd = [vh, "conc", "-n", str(n), "-seed", str(seed), "-kind", kind, "-out", out, "-dis", str(dis)]
    if record:
        cmd += ["-record", "-trace", trace]
    try:
        p = subprocess.run(cmd, env=env, capture_output=True, text=True, timeout=900)
    except subprocess.TimeoutExpired:
        return None, None, "timeout"
    if p.returncode != 0:
        raise Inconclusive("conc run failed: " + (p.stderr or p.stdout)[-2000:])
    rep = json.load(open(out))
    evs = read_ndjson(trace) if record else []
    return rep, evs, p.stderr


def judge(ctx, rep, label):
    if rep.get("hang"):
        ctx.violation("hang|concurrent|%s" % label, "concurrent onboarding did not finish within the watchdog", rep)
    for r in rep["results"]:
        if r.get("panic"):
            ctx.violation("panic|%s|concurrent" % r["panic"].split("@")[-1].strip(), "panic in a concurrent onboarding", r)
        elif not r["ok"]:
            ctx.violation("concurrent|step=%s|%s" % (r.get("step"), (r.get("err") or "").split(":")[-1].strip()[:60]),
                          "device %s fails under concurrency but succeeds alone: %s" % (r["dev"], r.get("err")), r)
        elif not r["echo"] or r.get("foreign"):
            ctx.violation("concurrent|module-data-of-another-session", "device %s received module data that is not its session's: %r" % (r["dev"], r.get("foreign")), r)
        elif not r["agrees"]:
            ctx.violation("concurrent|voucher-does-not-agree", "replacement voucher of %s does not agree with its credential" % r["dev"], r)
    if rep.get("difail"):
        ctx.violation("concurrent|di-failed", "%d of %d concurrent device initialisations failed" % (rep["difail"], rep["dis"]), {"dis": rep["dis"], "difail": rep["difail"]})


def run(ctx):
    quick = ctx.quick()
    vh = ctx.build_vh()
    ctx.model_check("Server", "Server_MC.cfg", timeout=3000)
    runs = [(8, "P256", 16), (6, "P384", 2)] if quick else [(8, "P256", 16), (16, "P384", 4), (32, "P256", 1), (64, "P256", 16), (12, "RSA2048RESTR", 8), (8, "RSAPSS3072", 2), (8, "RSAPKCS3072", 16)]
    nev, ndev = 0, 0
    for i, (n, kind, gmp) in enumerate(runs):
        rep, evs, _ = conc(ctx, vh, n, ctx.seed + i, kind, True, gmp, "rec%d" % i)
        if rep is None:
            ctx.violation("hang|concurrent|n=%d" % n, "concurrent run timed out", {"n": n, "kind": kind})
            continue
        judge(ctx, rep, "n=%d" % n)
        ndev += n
        # one trace per run: slots up to 3 per device + DIs
        for e in evs:
            if e["kind"] == "reset":
                e["cfg"] = {"kind": kind, "policy": "none"}
        nev += sum(1 for e in evs if e["kind"] != "reset")
        _validate(ctx, evs, n, "conc%d" % i)
        ctx.log("n=%d %s GOMAXPROCS=%d: %d exchanges recorded, wall %.1fs" % (n, kind, gmp, len(evs) - 1, rep["wall_s"]))
    # race detector: no harness lock on the library's paths, no recording
    vhr = ctx.build_vh(race=True)
    races = 0
    rruns = [(8, "P256", 16), (6, "RSA2048RESTR", 4)] if quick else [(16, "P256", 16), (32, "P256", 4), (12, "P384", 2), (12, "RSA2048RESTR", 16), (8, "RSAPSS3072", 8), (64, "P256", 16)]
    for i, (n, kind, gmp) in enumerate(rruns):
        rep, _, stderr = conc(ctx, vhr, n, ctx.seed + 100 + i, kind, False, gmp, "race%d" % i)
        if rep is None:
            ctx.violation("hang|concurrent-race|n=%d" % n, "race-detector run timed out", {"n": n})
            continue
        judge(ctx, rep, "race n=%d" % n)
        ndev += n
        if "DATA RACE" in (stderr or ""):
            races += stderr.count("WARNING: DATA RACE")
            frames = [l.strip() for l in stderr.splitlines() if "go-fdo" in l and "(" in l]
            top = frames[0].split("(")[0].split("/")[-1] if frames else "unknown"
            ctx.violation("race|%s" % top, "data race reported by the race detector in library code", {"report": stderr[:6000]})
        ctx.log("race n=%d %s GOMAXPROCS=%d: wall %.1fs, races=%d" % (n, kind, gmp, rep["wall_s"], races))
    # device-side pipeline: the library's chunking goroutines (producer, chunker, transport side) under buffered
    # and unbuffered pipes, GOMAXPROCS 2 and 16 and permuted producer/consumer delays; every recorded run must be
    # a behaviour of Chunk.tla (a lost wake-up or a lost tail shows as a read that ends early), no hang, no crash
    import collections
    from checks import c15
    swd = ctx.sub("pipe")
    spath, ppath = os.path.join(swd, "trace.ndjson"), os.path.join(swd, "params.json")
    args = ["chunk-sweep", "-out", spath, "-params", ppath, "-seed", ctx.seed + 19, "-procs", "2,16" if quick else "1,2,4,16"]
    args += ["-limit", 3000] if quick else ["-thorough", "-limit", 30000]
    ctx.run_vh(args, timeout=3000)
    sruns = c15.split_runs(read_ndjson(spath))
    with open(ppath) as f:
        sparams = {p["id"]: p for p in json.load(f)}
    if len(sruns) != len(sparams) and sum(1 for r in sruns for e in r if e["ev"] == "hang") < 6:
        raise Inconclusive("pipeline sweep recorded %d of %d runs" % (len(sruns), len(sparams)))
    pstats = collections.Counter()
    rej = c15.validate_runs(ctx, sruns, "c19sw", per_slice=8000 if quick else 40000, workers=8 if quick else 12)
    c15.report(ctx, rej, sparams, "device pipeline sweep", pstats)
    pstats.pop("window", None)
    ctx.notes["pipeline_runs"] = len(sruns)
    ctx.notes["pipeline_rejected_by_key"] = dict(pstats)
    ctx.cov["traces_validated_against_impl"] = len(runs) + len(sruns)
    ctx.cov["evaluations"] = nev + sum(1 for r in sruns for e in r if e["ev"] == "read")
    ctx.cov["distinct_nontrivial"] = ndev
    ctx.cov["rule"] = "one evaluation = one HTTP exchange of a concurrent run validated against Server_Trace.tla; distinct = device chains run concurrently (recorded and race-detector runs)"
    ctx.notes["race_reports"] = races
    ctx.notes["recorded_runs"] = [{"n": n, "kind": k, "gomaxprocs": g} for (n, k, g) in runs]
    ctx.notes["race_runs"] = [{"n": n, "kind": k, "gomaxprocs": g} for (n, k, g) in rruns]
    ctx.sample({"run": runs[0], "devices_ok": ndev})
    ctx.assumptions += ["the race clause is decided by the Go race detector on the schedules the runs exercise (TLA+ cannot see Go's memory model)",
                        "cross-device independence: concurrent sessions concern distinct devices, so any linearisation of the recorded exchanges is a behaviour of Server.tla"]
    return "model_checking"


def _validate(ctx, evs, n, label):
    import tempfile
    from lib.vlib import write_ndjson
    slots = max([e.get("s", 0) for e in evs if e["kind"] != "reset"] or [1])
    devs = sorted(set(e["d"] for e in evs if e["kind"] != "reset" and e.get("d") not in (None, "", "new")))
    wd = tempfile.mkdtemp(prefix="c19tv-", dir=ctx.scratch)
    cfg = server_family.cfg_text("trace", False, 1, 0, slots=slots).replace('Devs = {"dA", "dB"}', "Devs = " + server_family.tla_set(devs))
    cfgp = os.path.join(wd, "Server_Trace.cfg")
    with open(cfgp, "w") as f:
        f.write(cfg)
    tp = os.path.join(wd, "trace.in.ndjson")
    write_ndjson(tp, evs)
    ok, hwm, res = server_family.validate_with_cfg(ctx, tp, cfgp, len(evs))
    if not ok:
        bad = evs[min(hwm, len(evs) - 1)]
        ctx.violation("concurrent|trace|%s|t=%s|resp=%s|fx=%s|live=%s" % (bad.get("kind"), bad.get("t"), bad.get("resp"), ",".join(bad.get("fx", [])), bad.get("live")),
                      "exchange of a concurrent run not allowed by Server.tla: " + json.dumps(bad), {"prefix": evs[max(0, hwm - 8):hwm + 1]})
