"""C19: concurrent onboardings through one server are isolated and race-free.

Server.tla already interleaves sessions at exchange granularity (checked by TLC); here N real
devices run TO0, TO1, TO2 (plus further DIs) concurrently through ONE handler/responder set/sqlite
store: every device must get the outcome it gets alone, receive only its own session's module
data, and leave a voucher that agrees with its new credential; the recorded exchanges (sequence
numbers under the recorder's lock) are validated against Server_Trace.tla; the same runs are
repeated under the race detector with no harness lock on the library's paths (a race report is a
Race event, which no specification action produces). The device-side pipeline (no deadlock, no
race under permuted producer/consumer speeds) is exercised by the same runs with injected delays
and by Pipeline.tla (see C15).

Non-interference as a specification (Isolation.tla, Isolation_Trace.tla, harness/concx/iso.go): TLC
draws MIXES of devices that share key kinds and differ in every per-voucher / per-session attribute
(encoding of the key in the voucher, credential reuse, replacement rendezvous info, owner module list
and volume, both service-info sizes; the concretiser adds device info, key exchange and cipher); each
mix runs on the real code in three phases with twin devices - every device alone on a fresh server
instance (the baseline), all one after the other on one instance, all at once on one instance - and
every exchange plus every device's outcome (projection of replacement credential and stored
replacement voucher: owner key encoding, hash algorithm, agreement, GUID freshness, rendezvous and
device info; module data both ways; size profile of its 68/69 messages) is validated against the
specification: the recorded interleaving is replayed on Isolation.tla, whose invariant
NonInterference says that a complete session holds the outcome of its sequential run alone, and the
observed outcome must be the one the specification state holds (what the specification leaves open
must equal the device's own solo run).  The same mixes run under the race detector.

Device-side pipeline as a specification (DevPipe.tla, DevPipe_Trace.tla, harness/concx/pipe.go): the
goroutine / capacity structure of exchangeServiceInfo is model-checked for deadlock freedom,
termination and delivery for volumes up to the documented buffering bound whatever the size classes
(and the documented deadlock above the bound is shown to exist); TLC enumerates run classes (volume
classes both ways up to just below the bound x size classes of both sides x where delays are
injected); a pairwise cover (quick) or all of them (thorough) run as real fdo.TO2 under a watchdog,
also under the race detector; a Hang is a step of DevPipe_Trace.tla only above the bound."""
import json
import os
import random
import re
import subprocess
import tempfile
from concurrent.futures import ThreadPoolExecutor

from lib.vlib import Inconclusive, read_ndjson, write_ndjson, go_env
from checks import server_family


def conc(ctx, vh, n, seed, kind, record, gomaxprocs, label, dis=4):
    wd = ctx.sub("c19-" + label)
    out = os.path.join(wd, "report.json")
    trace = os.path.join(wd, "trace.ndjson")
    env = go_env()
    env["VERIF_SCRATCH"] = ctx.sub("db-" + label)
    env["GOMAXPROCS"] = str(gomaxprocs)
    env["GORACE"] = "halt_on_error=0 exitcode=0"
    cmd = [vh, "conc", "-n", str(n), "-seed", str(seed), "-kind", kind, "-out", out, "-dis", str(dis)]
    if record:
        cmd += ["-record", "-trace", trace]
    try:
        p = subprocess.run(cmd, env=env, capture_output=True, text=True, timeout=900)
    except subprocess.TimeoutExpired:
        return None, None, "timeout"
    if p.returncode != 0:
        raise Inconclusive("conc run failed: " + (p.stderr or p.stdout)[-2000:])
    rep = json.load(open(out))
    evs = read_ndjson(trace) if record else []
    return rep, evs, p.stderr


def judge(ctx, rep, label):
    if rep.get("hang"):
        ctx.violation("hang|concurrent|%s" % label, "concurrent onboarding did not finish within the watchdog", rep)
    for r in rep["results"]:
        if r.get("panic"):
            ctx.violation("panic|%s|concurrent" % r["panic"].split("@")[-1].strip(), "panic in a concurrent onboarding", r)
        elif not r["ok"]:
            ctx.violation("concurrent|step=%s|%s" % (r.get("step"), (r.get("err") or "").split(":")[-1].strip()[:60]),
                          "device %s fails under concurrency but succeeds alone: %s" % (r["dev"], r.get("err")), r)
        elif not r["echo"] or r.get("foreign"):
            ctx.violation("concurrent|module-data-of-another-session", "device %s received module data that is not its session's: %r" % (r["dev"], r.get("foreign")), r)
        elif not r["agrees"]:
            ctx.violation("concurrent|voucher-does-not-agree", "replacement voucher of %s does not agree with its credential" % r["dev"], r)
    if rep.get("difail"):
        ctx.violation("concurrent|di-failed", "%d of %d concurrent device initialisations failed" % (rep["difail"], rep["dis"]), {"dis": rep["dis"], "difail": rep["difail"]})


def run(ctx):
    quick = ctx.quick()
    vh = ctx.build_vh()
    # the model-level checks of Isolation.tla and DevPipe.tla run beside the one of Server.tla
    # (and TLC draws the isolation mixes and enumerates the pipeline run classes meanwhile)
    bg = ThreadPoolExecutor(max_workers=3)
    spec_fut, iso_fut, pipe_fut = bg.submit(spec_level, ctx), bg.submit(iso_generate, ctx), bg.submit(pipe_classes, ctx)
    ctx.model_check("Server", "Server_MC.cfg", timeout=3000)
    spec_fut.result()
    iso_gen, pipe_cls = iso_fut.result(), pipe_fut.result()
    bg.shutdown()
    runs = [(8, "P256", 16), (6, "P384", 2)] if quick else [(8, "P256", 16), (16, "P384", 4), (32, "P256", 1), (64, "P256", 16), (12, "RSA2048RESTR", 8), (8, "RSAPSS3072", 2), (8, "RSAPKCS3072", 16)]
    nev, ndev = 0, 0
    for i, (n, kind, gmp) in enumerate(runs):
        rep, evs, _ = conc(ctx, vh, n, ctx.seed + i, kind, True, gmp, "rec%d" % i)
        if rep is None:
            ctx.violation("hang|concurrent|n=%d" % n, "concurrent run timed out", {"n": n, "kind": kind})
            continue
        judge(ctx, rep, "n=%d" % n)
        ndev += n
        # one trace per run: slots up to 3 per device + DIs
        for e in evs:
            if e["kind"] == "reset":
                e["cfg"] = {"kind": kind, "policy": "none"}
        nev += sum(1 for e in evs if e["kind"] != "reset")
        _validate(ctx, evs, n, "conc%d" % i)
        ctx.log("n=%d %s GOMAXPROCS=%d: %d exchanges recorded, wall %.1fs" % (n, kind, gmp, len(evs) - 1, rep["wall_s"]))
    # race detector: no harness lock on the library's paths, no recording
    vhr = ctx.build_vh(race=True)
    races = 0
    # (quick: the second race run is the mixed-kind isolation mix below - P256, P384 and RSA2048RESTR devices on one server)
    rruns = [(8, "P256", 16)] if quick else [(16, "P256", 16), (32, "P256", 4), (12, "P384", 2), (12, "RSA2048RESTR", 16), (8, "RSAPSS3072", 8), (64, "P256", 16)]
    for i, (n, kind, gmp) in enumerate(rruns):
        rep, _, stderr = conc(ctx, vhr, n, ctx.seed + 100 + i, kind, False, gmp, "race%d" % i)
        if rep is None:
            ctx.violation("hang|concurrent-race|n=%d" % n, "race-detector run timed out", {"n": n})
            continue
        judge(ctx, rep, "race n=%d" % n)
        ndev += n
        if "DATA RACE" in (stderr or ""):
            races += stderr.count("WARNING: DATA RACE")
            frames = [l.strip() for l in stderr.splitlines() if "go-fdo" in l and "(" in l]
            top = frames[0].split("(")[0].split("/")[-1] if frames else "unknown"
            ctx.violation("race|%s" % top, "data race reported by the race detector in library code", {"report": stderr[:6000]})
        ctx.log("race n=%d %s GOMAXPROCS=%d: wall %.1fs, races=%d" % (n, kind, gmp, rep["wall_s"], races))
    # non-interference: mixes of devices that differ per voucher / per session, each against its solo baseline
    races += isolation(ctx, vh, vhr, iso_gen)
    # device-side pipeline of fdo.TO2: volumes up to just below the buffering bound x sizes x delays, under a watchdog
    races += pipeline_volumes(ctx, vh, vhr, pipe_cls)
    # device-side pipeline: the library's chunking goroutines (producer, chunker, transport side) under buffered
    # and unbuffered pipes, GOMAXPROCS 2 and 16 and permuted producer/consumer delays; every recorded run must be
    # a behaviour of Chunk.tla (a lost wake-up or a lost tail shows as a read that ends early), no hang, no crash
    import collections
    from checks import c15
    swd = ctx.sub("pipe")
    spath, ppath = os.path.join(swd, "trace.ndjson"), os.path.join(swd, "params.json")
    args = ["chunk-sweep", "-out", spath, "-params", ppath, "-seed", ctx.seed + 19, "-procs", "2,16" if quick else "1,2,4,16"]
    args += ["-limit", 3000] if quick else ["-thorough", "-limit", 30000]
    ctx.run_vh(args, timeout=3000)
    sruns = c15.split_runs(read_ndjson(spath))
    with open(ppath) as f:
        sparams = {p["id"]: p for p in json.load(f)}
    if len(sruns) != len(sparams) and sum(1 for r in sruns for e in r if e["ev"] == "hang") < 6:
        raise Inconclusive("pipeline sweep recorded %d of %d runs" % (len(sruns), len(sparams)))
    pstats = collections.Counter()
    rej = c15.validate_runs(ctx, sruns, "c19sw", per_slice=8000 if quick else 40000, workers=8 if quick else 12)
    c15.report(ctx, rej, sparams, "device pipeline sweep", pstats)
    pstats.pop("window", None)
    ctx.notes["pipeline_runs"] = len(sruns)
    ctx.notes["pipeline_rejected_by_key"] = dict(pstats)
    ctx.cov["traces_validated_against_impl"] += len(runs) + len(sruns)
    ctx.cov["evaluations"] += nev + sum(1 for r in sruns for e in r if e["ev"] == "read")
    ctx.cov["distinct_nontrivial"] += ndev
    ctx.cov["rule"] = ("one evaluation = one HTTP exchange of a concurrent run validated against Server_Trace.tla or Isolation_Trace.tla (or one ReadChunk of the pipe sweep); "
                       "distinct = device chains run concurrently (recorded and race-detector runs) + devices of isolation mixes per phase + pipeline run classes")
    ctx.notes["race_reports"] = races
    ctx.notes["recorded_runs"] = [{"n": n, "kind": k, "gomaxprocs": g} for (n, k, g) in runs]
    ctx.notes["race_runs"] = [{"n": n, "kind": k, "gomaxprocs": g} for (n, k, g) in rruns]
    ctx.sample({"run": runs[0], "devices_ok": ndev})
    ctx.assumptions += ["the race clause is decided by the Go race detector on the schedules the runs exercise (TLA+ cannot see Go's memory model)",
                        "cross-device independence: concurrent sessions concern distinct devices, so any linearisation of the recorded exchanges is a behaviour of Server.tla",
                        "isolation mixes under the race detector are recorded per device without a shared lock; their exchanges are validated device by device (a linearisation, sessions being independent in Isolation.tla)",
                        "the goroutines inside exchangeServiceInfo are not observable without hooks: a device pipeline run is judged end to end (terminates, delivered, in order) against what DevPipe.tla proves for its configuration; schedules are perturbed (delays, GOMAXPROCS), not steered"]
    return "model_checking"


def _validate(ctx, evs, n, label):
    import tempfile
    from lib.vlib import write_ndjson
    slots = max([e.get("s", 0) for e in evs if e["kind"] != "reset"] or [1])
    devs = sorted(set(e["d"] for e in evs if e["kind"] != "reset" and e.get("d") not in (None, "", "new")))
    wd = tempfile.mkdtemp(prefix="c19tv-", dir=ctx.scratch)
    cfg = server_family.cfg_text("trace", False, 1, 0, slots=slots).replace('Devs = {"dA", "dB"}', "Devs = " + server_family.tla_set(devs))
    cfgp = os.path.join(wd, "Server_Trace.cfg")
    with open(cfgp, "w") as f:
        f.write(cfg)
    tp = os.path.join(wd, "trace.in.ndjson")
    write_ndjson(tp, evs)
    ok, hwm, res = server_family.validate_with_cfg(ctx, tp, cfgp, len(evs))
    if not ok:
        bad = evs[min(hwm, len(evs) - 1)]
        ctx.violation("concurrent|trace|%s|t=%s|resp=%s|fx=%s|live=%s" % (bad.get("kind"), bad.get("t"), bad.get("resp"), ",".join(bad.get("fx", [])), bad.get("live")),
                      "exchange of a concurrent run not allowed by Server.tla: " + json.dumps(bad), {"prefix": evs[max(0, hwm - 8):hwm + 1]})


# ---------------------------------------------------------------------------------------------
# generic trace validation (TLC is the judge): returns (accepted, number of consumed lines, result)
def _tv(ctx, module, cfg_text, lines, label):
    wd = tempfile.mkdtemp(prefix="tv-%s-" % label, dir=ctx.scratch)
    write_ndjson(os.path.join(wd, "trace.ndjson"), lines)
    cfgp = os.path.join(wd, module + ".cfg")
    with open(cfgp, "w") as f:
        f.write(cfg_text)
    r = ctx.tlc(module, cfgp, workers=1, workdir=wd, quiet=True, timeout=1500)
    lvals = [int(x) for x in re.findall(r"^/\\ l = (\d+)", r["out"], re.M)]
    if r["errors"] and lvals and any("Invariant" in e for e in r["errors"]):
        return False, max(lvals) - 2, r
    m = re.findall(r"TRACE_HWM[^0-9]*(\d+)", r["out"])
    if not m:
        raise Inconclusive("trace validation (%s) produced no high-water mark:\n%s" % (module, r["out"][-3000:]))
    hwm = max(int(x) for x in m)
    ctx.cov["transitions"] += r.get("generated", 0) or 0
    return hwm >= len(lines), hwm, r


def _expect_counterexample(ctx, module, cfg, what, deadlock=False):
    """A configuration of the specification that must FAIL (the property is able to fail on the model)."""
    r = ctx.tlc(module, cfg, workers=2, quiet=True, deadlock=deadlock, timeout=900)
    if not any(what in v for v in r["violated"]):
        raise Inconclusive("%s/%s was expected to produce '%s' (the specification's property cannot fail?):\n%s" % (module, cfg, what, r["out"][-2000:]))
    ctx.notes.setdefault("expected_counterexamples", []).append({"module": module, "cfg": cfg, "found": what})


def spec_level(ctx):
    """Model-level checks of the two C19 specifications (no verdict about the code)."""
    quick = ctx.quick()
    ctx.model_check("Isolation", "Isolation_MC.cfg" if quick else "Isolation_MC_big.cfg", timeout=3000, workers=4 if quick else "auto")
    _expect_counterexample(ctx, "Isolation", "Isolation_MC_memo.cfg", "Invariant NonInterference is violated")
    ctx.model_check("DevPipe", "DevPipe_MC.cfg" if quick else "DevPipe_MC_big.cfg", timeout=3000, deadlock=True, workers=4 if quick else "auto")
    _expect_counterexample(ctx, "DevPipe", "DevPipe_MC_over.cfg", "Deadlock reached", deadlock=True)
    _expect_counterexample(ctx, "DevPipe", "DevPipe_MC_scaled.cfg", "Deadlock reached", deadlock=True)


# ---------------------------------------------------------------------------------------------
# non-interference: Isolation.tla
ISO_DOMAINS = """  Kinds = %s
  Encs = {"X509", "X5CHAIN", "COSE"}
  Rvs = {1, 2}
  Mtus = {"small", "default", "large"}
  ModCounts = {0, 1, 2}
  Vols = %s
  OwnerChain = TRUE
  Memo = FALSE
"""
ISO_FIELDS = ["reuse", "guid", "cenc", "alg", "venc", "vkey", "agree", "rv", "vrv", "entries", "echo", "nrecv", "oecho", "onrecv",
              "devmod", "w68", "w69", "info", "vinfo", "oldgone", "inorder", "supp", "wire"]


def iso_cfg(kind, n, kinds, vols="{1, 4}"):
    devs = server_family.tla_set(["d%d" % i for i in range(1, n + 1)])
    dom = ISO_DOMAINS % (server_family.tla_set(kinds), vols)
    if kind == "gen":
        return "SPECIFICATION GenSpec\nCONSTANTS\n  Devs = %s\n%sINVARIANTS Emit\n" % (devs, dom)
    return "SPECIFICATION TraceSpec\nCONSTANTS\n  Devs = %s\n%sINVARIANTS TypeOK NonInterference\nPOSTCONDITION TraceAccepted\nCHECK_DEADLOCK FALSE\n" % (devs, dom)


def iso_mixes(ctx, n, kinds, want, seed):
    """Mixes drawn by TLC (Isolation_Gen.tla, -simulate) for n devices over the key kinds."""
    wd = ctx.sub("isogen-%d-%d" % (n, seed))
    cfgp = os.path.join(wd, "Isolation_Gen.cfg")
    with open(cfgp, "w") as f:
        f.write(iso_cfg("gen", n, kinds))
    out, seen = [], set()
    for attempt in range(4):
        r = ctx.tlc("Isolation_Gen", cfgp, simulate=40 * (attempt + 1) + 20 * want, depth=n + 2, workers=1, seed=seed + 7919 * attempt, quiet=True, timeout=900)
        for b in ctx.behaviours(r):
            k = json.dumps(b, sort_keys=True)
            if k not in seen:
                seen.add(k)
                out.append(b)
        ctx.cov["transitions"] += r.get("generated", 0) or 0
        if len(out) >= want:
            break
    if len(out) < want:
        raise Inconclusive("Isolation_Gen produced %d of %d mixes" % (len(out), want))
    return out[:want]


def iso_concretise(rnd, mix_id, devs, record, phases, quick):
    """Session-local data the specification does not mention: device info, key exchange, cipher, schedule seed."""
    ds = []
    for c in devs:
        c = dict(c)
        c["info"] = rnd.choice([1, 2])
        c["kex"] = rnd.choice(server_family.KEX_FOR[c["kind"]] + (["ECDH256"] if c["kind"] == "RSA2048RESTR" else []))
        c["cipher"] = rnd.choice(server_family.CIPHERS)
        ds.append(c)
    return {"id": mix_id, "seed": rnd.getrandbits(40), "devs": ds, "extra_dis": 2 if quick else 4, "delays": True,
            "phases": phases, "record": record, "watch_ms": 240000}


def iso_expected(c):
    """Mirror of Solo(c) in Isolation.tla - used ONLY to name the fields of a rejected solo outcome in the key."""
    e = c["enc"]
    r = "orig" if c["reuse"] else "r%d" % c["rv"]
    data = "none" if c["mods"] == 0 else "own"
    return {"reuse": c["reuse"], "guid": "same" if c["reuse"] else "fresh", "cenc": e, "venc": e,
            "alg": "SHA384" if c["kind"] in ("P384", "RSAPKCS3072", "RSAPSS3072") else "SHA256",
            "vkey": "mfg" if c["reuse"] else "owner", "agree": True, "rv": r, "vrv": r, "entries": 1 if c["reuse"] else 0,
            "echo": data, "nrecv": c["mods"] * (c["vol"] + 1), "oecho": data, "onrecv": c["mods"], "devmod": "own",
            "w68": "small" if c["mods"] == 0 else c["omtu"], "w69": "small" if c["mods"] == 0 else c["dmtu"],
            "info": "own", "vinfo": "own", "oldgone": not c["reuse"], "inorder": True, "supp": "own"}


def iso_run(ctx, vh, mixes, gomaxprocs, label):
    wd = ctx.sub("iso-" + label)
    inp, out = os.path.join(wd, "mixes.json"), os.path.join(wd, "events.ndjson")
    with open(inp, "w") as f:
        json.dump(mixes, f)
    env = go_env()
    env["VERIF_SCRATCH"] = ctx.sub("db-iso-" + label)
    env["GOMAXPROCS"] = str(gomaxprocs)
    env["GORACE"] = "halt_on_error=0 exitcode=0"
    try:
        p = subprocess.run([vh, "conc-iso", "-in", inp, "-out", out], env=env, capture_output=True, text=True, timeout=1500)
    except subprocess.TimeoutExpired:
        return None, "timeout"
    if p.returncode != 0:
        raise Inconclusive("conc-iso failed: " + (p.stderr or p.stdout)[-2000:])
    return read_ndjson(out), p.stderr


def iso_judge(ctx, mix, evs, kinds, label):
    """Validate the events of one mix against Isolation_Trace.tla; phases whose events are rejected are
    reported and taken out, so that every phase is judged."""
    cfgs = {c["d"]: c for c in mix["devs"]}
    lines = [e for e in evs if e["ev"] in ("mix", "begin", "x", "outcome", "dis", "hang", "crash")]
    vols = "{" + ", ".join(str(v) for v in sorted(set([0] + [c["vol"] for c in mix["devs"]]))) + "}"
    cfg_text = iso_cfg("trace", len(mix["devs"]), kinds, vols)
    solo = {e["d"]: e for e in lines if e["ev"] == "outcome" and e["mode"] == "solo"}
    nout = 0
    for attempt in range(6):
        ok, hwm, res = _tv(ctx, "Isolation_Trace", cfg_text, lines, "%s-%d" % (label, attempt))
        if ok:
            nout += sum(1 for e in lines if e["ev"] == "outcome")
            return nout
        bad = lines[min(hwm, len(lines) - 1)]
        mode, d = bad.get("mode"), bad.get("d")
        c = cfgs.get(d, {})
        cls = "kind=%s|enc=%s|reuse=%s" % (c.get("kind"), c.get("enc"), c.get("reuse"))
        if bad["ev"] == "hang":
            ctx.violation("hang|isolation|%s" % mode, "onboarding in a mix did not finish within the watchdog (phase %s, stuck %s)" % (mode, bad.get("stuck")), {"mix": mix, "event": bad})
        elif bad["ev"] == "crash":
            ctx.violation("panic|%s|isolation" % str(bad.get("what", "")).split("@")[-1].strip(), "panic in a mix", {"mix": mix, "event": bad})
        elif bad["ev"] == "dis":
            ctx.violation("concurrent|di-failed", "%s of %s concurrent device initialisations failed" % (bad.get("failed"), bad.get("n")), {"mix": mix, "event": bad})
        elif bad["ev"] == "x":
            ctx.violation("isolation|%s|exchange-failed|t=%s|resp=%s" % (mode, bad.get("t"), bad.get("resp")),
                          "TO2 exchange of %s (%s) failed in phase %s, no step of Isolation.tla: %s" % (d, cls, mode, json.dumps(bad)), {"mix": mix, "event": bad})
        elif bad["ev"] == "outcome":
            if not bad.get("ok"):
                key = "isolation|%s|to2-failed|%s" % (mode, (bad.get("err") or bad.get("panic") or "").split(":")[-1].strip()[:60])
                what = "device %s (%s) fails in phase %s: %s" % (d, cls, mode, bad.get("err") or bad.get("panic"))
            else:
                ref, refname = (solo.get(d), "its solo run") if mode != "solo" and d in solo else (iso_expected(c), "Solo(cfg) of Isolation.tla")
                diff = [f for f in ISO_FIELDS if f in ref and bad.get(f) != ref.get(f)]
                if not diff and mode != "solo":       # equals the solo run, which itself was rejected
                    ref, refname = iso_expected(c), "Solo(cfg) of Isolation.tla"
                    diff = [f for f in ISO_FIELDS if f in ref and bad.get(f) != ref.get(f)]
                key = "isolation|%s|outcome-differs|%s" % (mode, "+".join(diff) or "unexplained")
                what = ("device %s (%s) in phase %s does not obtain the outcome it obtains alone; differs from %s in %s: observed %s, expected %s"
                        % (d, cls, mode, refname, diff, {f: bad.get(f) for f in diff}, {f: ref.get(f) for f in diff}))
            ctx.violation(key, what, {"mix": mix, "rejected": bad, "solo": solo.get(d), "replay": "vh conc-iso -in <[mix]> -out ev.ndjson; validate with spec/Isolation_Trace.tla"})
        else:
            raise Inconclusive("Isolation_Trace stopped at %s:\n%s" % (json.dumps(bad), res["out"][-2000:]))
        # take the rejected event's phase (solo: that device's solo run) out and judge the rest
        idx = min(hwm, len(lines) - 1)
        start = max(i for i in range(idx + 1) if lines[i]["ev"] in ("begin", "mix"))
        if lines[start]["ev"] == "mix":
            raise Inconclusive("Isolation_Trace rejected the mix line itself:\n" + res["out"][-2000:])
        end = next((i for i in range(idx + 1, len(lines)) if lines[i]["ev"] == "begin"), len(lines))
        nout += sum(1 for e in lines[start:idx] if e["ev"] == "outcome")
        if lines[start]["mode"] == "solo":
            # without its baseline the device's later outcomes cannot be compared: drop them too
            lines = [e for i, e in enumerate(lines) if not (start <= i < end) and not (e["ev"] == "outcome" and e.get("d") == d and e["mode"] != "solo")]
        else:
            lines = lines[:start] + lines[end:]
    ctx.notes["isolation_judging_stopped"] = "more than 6 rejected phases in mix %s" % mix["id"]
    return nout


def races_in(ctx, stderr, what):
    if "DATA RACE" not in (stderr or ""):
        return 0
    frames = [l.strip() for l in stderr.splitlines() if "go-fdo" in l and "(" in l]
    top = frames[0].split("(")[0].split("/")[-1] if frames else "unknown"
    ctx.violation("race|%s" % top, "data race reported by the race detector in library code (%s)" % what, {"report": stderr[:6000]})
    return stderr.count("WARNING: DATA RACE")


ISO_KINDS = ["P256", "P384", "RSA2048RESTR"]


def iso_plan(ctx):
    """(tag, devices, mixes, GOMAXPROCS) of the recorded and the race-detector mixes of this tier."""
    if ctx.quick():
        return [("rec", 6, 1, 16), ("race", 4, 1, 4)]
    return [("rec", 4, 2, 2), ("rec", 8, 3, 16), ("rec", 12, 2, 4), ("rec", 16, 1, 16), ("race", 6, 2, 16), ("race", 10, 1, 2)]


def iso_generate(ctx):
    """TLC draws the mixes of the plan (model level; can run beside other model-level work)."""
    return [(tag, n, gmp, iso_mixes(ctx, n, ISO_KINDS, k, ctx.seed * 31 + n + (500 if tag == "race" else 0))) for (tag, n, k, gmp) in iso_plan(ctx)]


def isolation(ctx, vh, vhr, generated):
    quick = ctx.quick()
    rnd = random.Random(ctx.seed * 1009 + 19)
    jobs, mid = [], 0
    for (tag, n, gmp, gen) in generated:
        # (race-detector mixes: the concurrent phase only; the baselines are compared in the recorded mixes)
        record, phases = (True, ["solo", "seq", "conc"]) if tag == "rec" else (False, ["conc"] if quick else ["solo", "conc"])
        mixes = []
        for devs in gen:
            mid += 1
            mixes.append(iso_concretise(rnd, mid, devs, record, phases, quick))
        jobs.append((tag, n, gmp, mixes, vh if tag == "rec" else vhr, phases))

    def one(job):
        tag, n, gmp, mixes, vhx, phases = job
        evs, stderr = iso_run(ctx, vhx, mixes, gmp, "%s-%d" % (tag, n))
        if evs is None:
            ctx.violation("hang|isolation|n=%d" % n, "mix run timed out", {"mixes": mixes})
            return 0, 0, 0, 0
        races = races_in(ctx, stderr, "isolation mix n=%d" % n) if tag == "race" else 0
        nout, ndev, nx = 0, 0, 0
        for mix in mixes:
            mevs = [e for e in evs if e.get("mix") == mix["id"]]
            nout += iso_judge(ctx, mix, mevs, ISO_KINDS, "%s%d" % (tag, mix["id"]))
            ndev += len(mix["devs"]) * len(phases)
            nx += sum(1 for e in mevs if e["ev"] == "x")
            tm = {e["what"]: e["ms"] for e in mevs if e["ev"] == "timing"}
            ctx.log("isolation mix %d (%s, n=%d, GOMAXPROCS=%d): %d exchanges, phases ms %s" % (mix["id"], tag, n, gmp, sum(1 for e in mevs if e["ev"] == "x"), tm))
        return nout, ndev, nx, races

    with ThreadPoolExecutor(max_workers=2) as ex:
        res = list(ex.map(one, jobs))
    nmix = sum(len(j[3]) for j in jobs)
    first = next((j[3][0] for j in jobs if j[0] == "rec" and j[3]), None)
    if first:
        ctx.sample({"isolation_mix": [{k2: c[k2] for k2 in ("d", "kind", "enc", "reuse", "rv", "omtu", "dmtu", "mods", "vol")} for c in first["devs"]]})
    ctx.notes["isolation_mixes"] = nmix
    ctx.notes["isolation_outcomes_validated"] = sum(r[0] for r in res)
    ctx.notes["isolation_race_reports"] = sum(r[3] for r in res)
    ctx.cov["traces_validated_against_impl"] += nmix
    ctx.cov["distinct_nontrivial"] += sum(r[1] for r in res)
    ctx.cov["evaluations"] += sum(r[2] for r in res)
    return sum(r[3] for r in res)


# ---------------------------------------------------------------------------------------------
# device-side pipeline: DevPipe.tla
PIPE_BOUND = 1000
PIPE_TRACE_CFG = """SPECIFICATION TraceSpec
CONSTANTS
  Bound = %d
  Vos = {0}
  Vds = {0}
  PerDs = {1}
  PerOs = {1}
  DefPer = 1
  Scaled = FALSE
POSTCONDITION TraceAccepted
CHECK_DEADLOCK FALSE
""" % PIPE_BOUND
PIPE_DIMS = ["vo", "vd", "omtu", "dmtu", "delay"]


def pipe_classes(ctx):
    r = ctx.tlc("DevPipe_Gen", "DevPipe_Gen.cfg", workers=1, quiet=True, timeout=900)
    if r["errors"]:
        raise Inconclusive("DevPipe_Gen: " + "; ".join(r["errors"])[:1000])
    seen, out = set(), []
    for b in ctx.behaviours(r):
        k = json.dumps(b, sort_keys=True)
        if k not in seen:
            seen.add(k)
            out.append(b)
    if not out:
        raise Inconclusive("DevPipe_Gen printed no classes")
    ctx.cov["states"] += r.get("distinct", 0) or 0
    return out


def pairwise_cover(classes, rnd):
    """A seeded greedy selection of run classes in which every pair of values of two dimensions occurs."""
    todo = set()
    for c in classes:
        for i, a in enumerate(PIPE_DIMS):
            for b in PIPE_DIMS[i + 1:]:
                todo.add((a, c[a], b, c[b]))
    pool = list(classes)
    rnd.shuffle(pool)
    chosen = []
    while todo:
        best, gain = None, -1
        for c in pool[:200]:
            g = sum(1 for i, a in enumerate(PIPE_DIMS) for b in PIPE_DIMS[i + 1:] if (a, c[a], b, c[b]) in todo)
            if g > gain:
                best, gain = c, g
        chosen.append(best)
        pool.remove(best)
        rnd.shuffle(pool)
        for i, a in enumerate(PIPE_DIMS):
            for b in PIPE_DIMS[i + 1:]:
                todo.discard((a, best[a], b, best[b]))
    return chosen


def pipe_concretise(rnd, cid, k, watch_ms):
    def vol(cls):
        # logical service infos; "near" is just below the documented bound of buffered service infos
        return {"few": rnd.randint(2, 9), "some": rnd.randint(150, 450), "near": rnd.randint(PIPE_BOUND - 40, PIPE_BOUND - 5)}[cls]

    def mtu(cls):
        return {"small": rnd.randint(256, 400), "default": rnd.choice([0, 1300]), "large": rnd.choice([4096, 8192, 16384]), "max": 65535}[cls]
    return {"id": cid, "seed": rnd.getrandbits(40), "vo": vol(k["vo"]), "vd": vol(k["vd"]), "omtu": mtu(k["omtu"]), "dmtu": mtu(k["dmtu"]),
            "delay": k["delay"], "watch_ms": watch_ms, "class": {d: k[d] for d in PIPE_DIMS}}


def pipe_run(ctx, vh, cases, gomaxprocs, workers, label):
    wd = ctx.sub("pipe-" + label)
    inp, out = os.path.join(wd, "cases.json"), os.path.join(wd, "events.ndjson")
    with open(inp, "w") as f:
        json.dump(cases, f)
    env = go_env()
    env["VERIF_SCRATCH"] = ctx.sub("db-pipe-" + label)
    env["GOMAXPROCS"] = str(gomaxprocs)
    env["GORACE"] = "halt_on_error=0 exitcode=0"
    try:
        p = subprocess.run([vh, "conc-pipe", "-in", inp, "-out", out, "-workers", str(workers)], env=env, capture_output=True, text=True, timeout=3000)
    except subprocess.TimeoutExpired:
        raise Inconclusive("conc-pipe timed out (%s)" % label)
    if p.returncode != 0:
        raise Inconclusive("conc-pipe failed: " + (p.stderr or p.stdout)[-2000:])
    return read_ndjson(out), p.stderr


def pipe_judge(ctx, cases, evs, label):
    by_id = {c["id"]: c for c in cases}
    runs, cur = [], None
    for e in evs:
        if e["ev"] == "run":
            cur = [e]
            runs.append(cur)
        elif cur is not None:
            cur.append(e)
    if len(runs) != len(cases):
        raise Inconclusive("pipeline runs recorded %d of %d" % (len(runs), len(cases)))
    for r in runs:
        bad = [e for e in r if e["ev"] in ("harness_err",)]
        if bad:
            raise Inconclusive("pipeline harness error: %s" % json.dumps(bad[0]))
    pending = list(runs)
    for attempt in range(8):
        lines, index = [], []
        for r in pending:
            for e in r:
                lines.append(e)
                index.append(r)
        if not lines:
            return len(runs)
        ok, hwm, res = _tv(ctx, "DevPipe_Trace", PIPE_TRACE_CFG, lines, "%s-%d" % (label, attempt))
        if ok:
            return len(runs)
        i = min(hwm, len(lines) - 1)
        bad, r = lines[i], index[i]
        case = by_id.get(bad.get("id"), {})
        k = case.get("class", {})
        cls = "vo=%s|vd=%s|omtu=%s|dmtu=%s" % (k.get("vo"), k.get("vd"), k.get("omtu"), k.get("dmtu"))
        desc = "vo=%s vd=%s (bound %d) omtu=%s dmtu=%s delay=%s" % (case.get("vo"), case.get("vd"), PIPE_BOUND, case.get("omtu"), case.get("dmtu"), case.get("delay"))
        if bad["ev"] == "hang":
            ctx.violation("hang|device-pipeline|%s" % cls,
                          "fdo.TO2 did not return within the watchdog for service-info volumes below the documented buffering bound (%s): "
                          "the device module had received %s service infos, the owner %s answers" % (desc, bad.get("mgot"), bad.get("dgot")), {"case": case, "event": bad,
                          "replay": "vh conc-pipe -in <[case]> -out ev.ndjson; validate with spec/DevPipe_Trace.tla"})
        elif bad["ev"] == "crash":
            ctx.violation("panic|%s|device-pipeline" % str(bad.get("what", "")).split("@")[-1].strip(), "panic in a device pipeline run (%s)" % desc, {"case": case, "event": bad})
        elif bad["ev"] == "end":
            if not bad.get("ok"):
                key = "device-pipeline|to2-failed|%s|%s" % (cls, (bad.get("err") or "").split(":")[-1].strip()[:60])
            else:
                key = "device-pipeline|lost-or-reordered|%s" % cls
            ctx.violation(key, "device pipeline run below the bound (%s) ended with ok=%s, device module received %s of %s, owner received %s of %s, in order: %s; %s"
                          % (desc, bad.get("ok"), bad.get("mgot"), case.get("vo"), bad.get("dgot"), case.get("vd"), bad.get("inorder"), bad.get("err")), {"case": case, "event": bad})
        else:
            raise Inconclusive("DevPipe_Trace stopped at %s:\n%s" % (json.dumps(bad), res["out"][-2000:]))
        pending = [x for x in pending if x is not r]
    ctx.notes["pipeline_judging_stopped"] = "more than 8 rejected runs in %s" % label
    return len(runs)


def pipeline_volumes(ctx, vh, vhr, classes):
    quick = ctx.quick()
    rnd = random.Random(ctx.seed * 2003 + 5)
    chosen = pairwise_cover(classes, rnd) if quick else list(classes)
    watch = 120000
    cases = [pipe_concretise(rnd, i + 1, k, watch) for i, k in enumerate(chosen)]
    # race detector: the volumes near the bound with every size class of both sides
    rk = [k for k in classes if k["vo"] == "near" and k["vd"] in ("some", "near")]
    rnd.shuffle(rk)
    rsel, seen_o, seen_d = [], set(), set()
    for k in rk:
        if len(rsel) < (4 if quick else 16) and (k["omtu"] not in seen_o or k["dmtu"] not in seen_d or len(seen_o) + len(seen_d) == 8):
            rsel.append(k)
            seen_o.add(k["omtu"])
            seen_d.add(k["dmtu"])
    rcases = [pipe_concretise(rnd, 10000 + i, k, 2 * watch) for i, k in enumerate(rsel)]
    halves = [(cases[0::2], 16), (cases[1::2], 2)]
    jobs = [(vh, cs, gmp, 8 if gmp > 2 else 4, "g%d" % gmp) for (cs, gmp) in halves if cs] + [(vhr, rcases, 8, 4, "race")]
    def one(j):
        evs, stderr = pipe_run(ctx, j[0], j[1], j[2], j[3], j[4])
        k = pipe_judge(ctx, j[1], evs, "pipe-" + j[4])
        r = races_in(ctx, stderr, "device pipeline volumes") if j[4] == "race" else 0
        ms = [e["ms"] for e in evs if e["ev"] == "end"]
        ctx.log("device pipeline %s: %d runs, GOMAXPROCS=%d, run wall ms max %s" % (j[4], len(j[1]), j[2], max(ms) if ms else None))
        return k, sum(1 for e in evs if e["ev"] == "hang"), r

    with ThreadPoolExecutor(max_workers=3) as ex:
        res = list(ex.map(one, jobs))
    n, hangs, races = sum(r[0] for r in res), sum(r[1] for r in res), sum(r[2] for r in res)
    ctx.notes["pipeline_volume_runs"] = n
    ctx.notes["pipeline_volume_classes"] = len(classes)
    ctx.notes["pipeline_volume_hangs"] = hangs
    ctx.notes["pipeline_volume_race_reports"] = races
    ctx.cov["traces_validated_against_impl"] += n
    ctx.cov["distinct_nontrivial"] += len(set(json.dumps(c["class"], sort_keys=True) for c in cases + rcases))
    ctx.sample({"pipeline_case": cases[0]})
    return races
