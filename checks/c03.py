"""C03: Lifecycle.tla (DI, handover, TO2 with replacement or reuse, resale, cuts at every message,
blob persistence) checked by TLC; TLC-generated histories executed on the real stack; the recorded
projections validated against Lifecycle_Trace.tla."""
import json
import os
import random
import re
import shutil
import tempfile

from lib.vlib import Inconclusive, write_ndjson, read_ndjson
from checks.server_family import KEX_FOR, CIPHERS

ENC_FOR = {"P256": [1, 2, 3], "P384": [1, 2, 3], "RSA2048RESTR": [1, 2], "RSAPKCS3072": [1, 2], "RSAPSS2048": [1, 2], "RSAPSS3072": [1, 2]}


def gen_cfg(steps, cuts, ext=False, aio="FALSE"):
    return ("SPECIFICATION GenSpec\nCONSTANTS\n  MaxSteps = %d\n  MaxCuts = %d\n  Ext = %s\n  AIOs = {%s}\nINVARIANTS Emit\n"
            % (steps, cuts, "TRUE" if ext else "FALSE", aio))


def to_action(rec):
    a = rec["act"]
    out = {"a": a["a"]}
    if a["a"] == "handover":
        out["k"] = a["k"]
    if a["a"] in ("di", "to2"):
        c = a["cut"]
        out["cut"] = {"kind": c["kind"], "t": c["t"]}
    if a["a"] == "to2":
        out["reuse"] = a["reuse"]
        out["useblob"] = bool(a.get("useblob"))
    return out


def validate(ctx, events):
    """events: list with reset lines. Returns runs accepted; reports violations."""
    runs, cur, resets = [], None, []
    for ev in events:
        if ev["a"] == "reset":
            cur = []
            runs.append(cur)
            resets.append({"a": "reset", "aio": bool(ev.get("aio"))})
        else:
            cur.append(ev)
    pending = list(range(len(runs)))
    total = 0
    rejected = 0
    while pending:
        lines, index = [], []
        for ri in pending:
            lines.append(resets[ri])
            index.append((ri, None))
            for ev in runs[ri]:
                lines.append(ev)
                index.append((ri, ev))
        wd = tempfile.mkdtemp(prefix="ltv-", dir=ctx.scratch)
        write_ndjson(os.path.join(wd, "trace.ndjson"), lines)
        r = ctx.tlc("Lifecycle_Trace", "Lifecycle_Trace.cfg", workers=1, workdir=wd, quiet=True, timeout=1800)
        m = re.findall(r"TRACE_HWM[^0-9]*(\d+)", r["out"])
        lvals = [int(x) for x in re.findall(r"^/\\ l = (\d+)", r["out"], re.M)]
        inv = [e for e in r["errors"] if "Invariant" in e or "Action property" in e or "property" in e.lower() and "ostcondition" not in e]
        if inv and lvals:
            hwm = max(lvals) - 2
        elif m:
            hwm = max(int(x) for x in m)
        else:
            raise Inconclusive("no high-water mark from Lifecycle_Trace:\n" + r["out"][-3000:])
        if hwm >= len(lines) and not inv:
            total += len(pending)
            break
        ri, ev = index[min(hwm, len(lines) - 1)]
        if ev is None:
            raise Inconclusive("validation stopped at a reset line:\n" + r["out"][-2000:])
        key = "life|%s|cut=%s@%s|reuse=%s|ok=%s|cred=%s|mfgN=%s|ownerN=%s|agreeM=%s|agreeO=%s" % (
            ev["a"], ev["cutkind"], ev["cutt"], ev["reuse"], ev["ok"], ev["hasCred"], ev["mfgN"], ev["ownerN"], ev["agreeM"], ev["agreeO"])
        if ev.get("panic"):
            key = "panic|%s|%s" % (ev["panic"].split("@")[-1].strip(), ev["a"])
        what = "projection after action not allowed by Lifecycle.tla%s: %s" % ((" (" + inv[0] + ")") if inv else "", json.dumps(ev))
        ctx.violation(key, what, {"history": [e for e in runs[ri] if e["i"] <= ev["i"]], "rejected": ev})
        pending = [x for x in pending if x != ri]
        total += 1
        rejected += 1
        if rejected > 6:
            raise Inconclusive("more than 6 rejected histories; stopping")
    return total


def run(ctx):
    quick = ctx.quick()
    rnd = random.Random(ctx.seed)
    ctx.build_vh()
    ctx.model_check("Lifecycle", "Lifecycle_MC.cfg", timeout=1800)
    wd = ctx.sub("lgen")
    cfgp = os.path.join(wd, "Lifecycle_Gen.cfg")
    with open(cfgp, "w") as f:
        f.write(gen_cfg(5 if quick else 6, 1))
    r = ctx.tlc("Lifecycle_Gen", cfgp, workers=8, timeout=2400)
    if r["errors"]:
        raise Inconclusive("Lifecycle_Gen failed:\n" + r["out"][-3000:])
    hists = ctx.behaviours(r)
    ctx.cov["states"] += r.get("distinct", 0)
    ctx.cov["transitions"] += r.get("generated", 0)
    ctx.log("%d histories from TLC" % len(hists))
    # the extended alphabet (rendezvous leg, all-in-one deployment, failed resale): random walks of the specification
    ext = []
    for aio in ("FALSE", "TRUE"):
        cfge = os.path.join(wd, "Lifecycle_Gen_ext_%s.cfg" % aio)
        with open(cfge, "w") as f:
            f.write(gen_cfg(8 if quick else 10, 1, ext=True, aio=aio))
        re_ = ctx.tlc("Lifecycle_Gen", cfge, simulate=(300 if quick else 3000), depth=(8 if quick else 10), workers=1, seed=ctx.seed * 3 + (aio == "TRUE"), timeout=1200)
        hs_ = ctx.behaviours(re_)
        seen_ = set()
        for h in hs_:
            k = json.dumps(h, sort_keys=True)
            if k not in seen_:
                seen_.add(k)
                ext.append((aio == "TRUE", h))
    ngen_ext = len(ext)
    rnd.shuffle(ext)
    # richest histories first (most distinct kinds of action, a TO2 that uses a blob counts extra)
    ext.sort(key=lambda ah: -(len(set(x["act"]["a"] for x in ah[1])) + sum(1 for x in ah[1] if x["act"]["a"] == "to2" and x["act"].get("useblob"))))
    ext = ext[:(500 if quick else 8000)]
    ctx.log("%d distinct histories over the extended alphabet (rendezvous leg, all-in-one, failed resale), %d executed" % (ngen_ext, len(ext)))
    if len(ext) < 50:
        raise Inconclusive("too few extended histories generated (%d)" % len(ext))
    # prefer histories with a cut, but keep uncut ones too; cover every (cut kind, type) at least once
    rnd.shuffle(hists)
    want = 500 if quick else 6000
    chosen, seen = [], set()
    for h in hists:
        sig = tuple((x["act"]["a"], x["act"].get("cut", {}).get("kind"), x["act"].get("cut", {}).get("t"), x["act"].get("reuse")) for x in h)
        cutsig = tuple(s for s in sig if s[1] not in (None, "none"))
        if cutsig not in seen or len(chosen) < want:
            seen.add(cutsig)
            chosen.append(h)
        if len(chosen) >= want and len(seen) >= 24:
            break
    kinds = list(ENC_FOR) if not quick else ["P256", "P384", rnd.choice(["RSA2048RESTR", "RSAPSS2048"])]
    hs = []
    for i, h in enumerate(chosen):
        k = kinds[i % len(kinds)] if (not quick or i % 5 == 0) else "P256"
        cfg = {"kind": k, "enc": rnd.choice(ENC_FOR[k]), "kex": rnd.choice(KEX_FOR[k]), "cipher": rnd.choice(CIPHERS), "rvinfo": rnd.random() < 0.5, "mods": rnd.choice([0, 1, 1, 2])}
        cfg["altchain"] = (cfg["enc"] == 2 and i % 2 == 0)
        hs.append({"cfg": cfg, "actions": [to_action(x) for x in h]})
    for i, (aio, h) in enumerate(ext):
        k = kinds[i % len(kinds)] if (not quick or i % 5 == 0) else rnd.choice(["P256", "P384"])
        cfg = {"kind": k, "enc": rnd.choice(ENC_FOR[k]), "kex": rnd.choice(KEX_FOR[k]), "cipher": rnd.choice(CIPHERS), "rvinfo": rnd.random() < 0.5,
               "mods": rnd.choice([0, 1]), "aio": aio}
        cfg["altchain"] = (cfg["enc"] == 2 and i % 2 == 1)
        hs.append({"cfg": cfg, "actions": [to_action(x) for x in h]})
    ctx.notes["extended_histories"] = len(ext)
    ctx.notes["histories_with_reissued_owner_chain"] = sum(1 for h in hs if h["cfg"].get("altchain"))
    ctx.notes["extended_histories_all_in_one"] = sum(1 for a, _ in ext if a)
    wd = ctx.sub("lreplay")
    hp = os.path.join(wd, "histories.json")
    with open(hp, "w") as f:
        json.dump(hs, f)
    tp = os.path.join(wd, "trace.ndjson")
    ctx.run_vh(["life-replay", "-in", hp, "-out", tp], timeout=3300)
    evs = read_ndjson(tp)
    n = validate(ctx, evs)
    real = [e for e in evs if e["a"] != "reset"]
    ctx.cov["traces_validated_against_impl"] = n
    ctx.cov["evaluations"] = len(real)
    ctx.cov["distinct_nontrivial"] = len(set((e["a"], e["cutkind"], e["cutt"], e["reuse"], e["ok"], e["agreeO"], e["agreeM"], e.get("useblob"), e.get("rvLive"), e.get("hasBlob")) for e in real))
    ctx.notes["to2_with_rendezvous_blob"] = {"completed": sum(1 for e in real if e["a"] == "to2" and e.get("useblob") and e["ok"]),
                                            "failed": sum(1 for e in real if e["a"] == "to2" and e.get("useblob") and not e["ok"])}
    ctx.notes["actions_executed"] = {a: sum(1 for e in real if e["a"] == a) for a in sorted(set(e["a"] for e in real))}
    ctx.cov["rule"] = "history = DI / handover / TO2 (replace or reuse) / resale / persist sequence from Lifecycle.tla with at most one cut; one evaluation = one action executed on the real stack and its projection validated; distinct = distinct (action, cut, reuse, result, agreement) tuples"
    ctx.notes["cut_points_covered"] = sorted(set("%s@%s:%s" % (e["cutkind"], e["cutt"], e["a"]) for e in real if e["cutkind"] != "none"))
    ctx.notes["configurations"] = sorted(set("%s/%s/%s/%s" % (h["cfg"]["kind"], h["cfg"]["enc"], h["cfg"]["kex"], h["cfg"]["cipher"]) for h in hs))[:40]
    ctx.notes["notes_from_runs"] = sorted(set(e["note"] for e in real if e.get("note")))
    for e in real:
        if e.get("note"):
            ctx.violation("life|note|" + e["note"], e["note"], e)
    ctx.sample(hs[0])
    ctx.sample([e for e in real if e["cutkind"] != "none"][:2])
    ctx.assumptions += ["Agrees is evaluated with the library's own verifiers (device's real HMAC secret) plus an independent field comparison",
                        "cuts are injected by the harness transport at the first exchange of the named request type"]
    return "model_checking"
