"""C17 — FSIM file transfers deliver identical files or nothing.

Pipeline: (1) TLC checks the invariants of Fsim.tla exhaustively (all lengths, chunkings, corruption
classes and positions within small bounds); (2) TLC prints every maximal behaviour of Fsim_Gen with
its scenario (module, length, chunk, corruption, position, delta) and verdict (placed / failed);
(3) the concretiser maps a scenario onto concrete transfers: file sizes around multiples of the
effective chunk (chunk size classes 1, small, 1014, 65535, 0, -1; MTU classes), which data message /
announced value is altered; (4) `vh fsim-replay` runs the real fsim modules in a real TO2 (wget against
a local HTTP server), with the alteration applied by a wrapper between the library and the receiving
module, and records what the receiver was told and given and what the run left behind; (5) every run is
validated against Fsim_Trace.tla (the outcome must be the outcome of Finalize/Stall in the state the
recorded announcements and chunks lead to) and compared with the verdict TLC attached to its scenario.
"""
import json
import os
import random
import re
import shutil
import tempfile
from concurrent.futures import ThreadPoolExecutor

from lib.vlib import Inconclusive, write_ndjson, read_ndjson

# value bytes one "fdo.download:data" KV can carry (Producer.Available - 6), see fsim/download_owner.go
def dl_payload(dev_mtu):
    return (dev_mtu or 1300) - 5 - (len("fdo.download:data") + 1) - 6


def chunk_param_value(p):
    return 1014 if p == 0 else (65535 if p < 0 else p)


DL_FLOOR = 200      # below this the four announcements of DownloadContents do not fit one message
WGET_FLOOR = 200
UP_FIT = 1014 + 3 + 1 + (len("fdo.upload:data") + 1) + 1 + 2 + 5   # owner MTU at which a 1014-byte chunk travels in one KV


def concretise(b, rnd, quick, cid):
    sc = b["sc"]
    mod, L, C, cor, k, d = sc["mod"], sc["len"], sc["chunk"], sc["cor"], sc["k"], sc["d"]
    q, r = divmod(L, C)
    out = []
    if mod == "download":
        variants = [(0, 0), (1, 0), (7, 256), (1014, 4096), (65535, 0), (-1, 65535), (0, 256), (-1, 1300), (1014, 65535), (7, 65535)]
        dense = [(0, m) for m in range(DL_FLOOR, DL_FLOOR + 24)] + [(0, 1299), (0, 1301), (-1, 65534), (1014, 1043), (1014, 1044), (2, 300)]
        floor_variants = [(0, 64), (0, 150), (7, 100)]
    elif mod == "upload":
        variants = [(0, 0), (0, 1300), (0, 4096), (0, 65535), (0, 1100), (0, UP_FIT), (0, UP_FIT - 1), (0, 1040), (0, 256), (0, 512)]
        dense = [(0, m) for m in range(UP_FIT + 1, UP_FIT + 24)] + [(0, 1299), (0, 1301), (0, 2048), (0, 65534)]
        floor_variants = []
    else:
        variants = [(0, 0), (0, 256), (0, 65535), (0, 4096), (0, 300)]
        dense = [(0, m) for m in range(WGET_FLOOR, WGET_FLOOR + 8)]
        floor_variants = [(0, 64), (0, 120)]
    if quick:
        picks = rnd.sample(variants, 1)
    else:
        picks = rnd.sample(variants, min(len(variants), 5)) + rnd.sample(dense, 3)
    if floor_variants and rnd.random() < (0.08 if quick else 0.25):
        picks.append(rnd.choice(floor_variants) + ("floor",))
    for p in picks:
        chunkp, mtu = p[0], p[1]
        floor = len(p) > 2
        if mod == "download":
            E = max(1, min(chunk_param_value(chunkp), dl_payload(mtu)))
        elif mod == "upload":
            E = 1014
        else:
            E = rnd.choice([1014, 4096, 65535, 100])
        rem = 0 if r == 0 else (1 if r == 1 else max(1, E - 1))
        size = max(1, q * E + rem)
        delta = 1 if d == 1 else max(1, E if rnd.random() < 0.7 else E + 1)
        if cor == "len-" and d >= L:
            delta = size              # the abstract scenario announces zero
        elif cor == "len-":
            delta = max(1, min(delta, size - 1))
        c = {"id": cid + len(out), "seed": rnd.getrandbits(40), "module": mod, "size": size, "chunk": chunkp,
             "dev_mtu": mtu if mod != "upload" else 0, "own_mtu": mtu if mod == "upload" else 0,
             "cor": cor, "cor_idx": k - 1, "delta": delta, "must": rnd.random() < 0.3, "floor": floor,
             "expect": b["expect"], "class": "%s/len=%dq+%s/chunk=%s/%s" % (mod, q, "0" if r == 0 else ("1" if r == 1 else "E-1"), chunkp, cor),
             "timeout_ms": 4000 if (mod != "wget" and (cor == "len+" or (cor == "len-" and delta >= size))) else (10000 if quick else 20000)}
        out.append(c)
    return out


def mtu_label(c):
    if c["module"] == "upload":
        m = c["own_mtu"] or 1300
        # below UP_FIT a 1014-byte data message is fragmented; at UP_FIT it fills a 68 exactly
        return "own_mtu<%d" % UP_FIT if m < UP_FIT else ("own_mtu=%d" % UP_FIT if m == UP_FIT else "own_mtu>%d" % UP_FIT)
    m = c["dev_mtu"] or 1300
    return "dev_mtu<%d" % DL_FLOOR if m < DL_FLOOR else "dev_mtu>=%d" % DL_FLOOR


def split_runs(evs):
    runs = []
    for ev in evs:
        if ev["ev"] == "start":
            runs.append([])
        runs[-1].append(ev)
    return runs


def validate_batch(ctx, runs, label):
    lines, index = [], []
    for r in runs:
        for ev in r:
            lines.append(ev)
            index.append(r)
    wd = tempfile.mkdtemp(prefix="ftv-%s-" % label, dir=ctx.scratch)
    write_ndjson(os.path.join(wd, "trace.ndjson"), lines)
    res = ctx.tlc("Fsim_Trace", "Fsim_Trace.cfg", workers=1, workdir=wd, quiet=True, timeout=900)
    out = res["out"]
    rejected = []
    for m in re.finditer(r'<<"TRACE_DIAG", (\d+), (\d+), "([a-z0-9_]+)">>', out):
        ln = int(m.group(1))
        rejected.append((index[ln - 1], lines[ln - 1], m.group(3)))
    inv = [e for e in res["errors"] if "Invariant" in e]
    if inv:
        lvals = [int(x) for x in re.findall(r"^/\\ l = (\d+)", out, re.M)]
        if not lvals:
            raise Inconclusive("invariant violation without a position:\n" + out[-3000:])
        ln = max(lvals) - 1
        name = re.search(r"Invariant (\S+) is violated", inv[0])
        rejected.append((index[ln - 1], lines[ln - 1], "invariant_" + (name.group(1) if name else "unknown")))
        rest = [x for x in runs if x is not index[ln - 1]]
        if len(rest) < len(runs) and rest:
            rejected += validate_batch(ctx, rest, label + "r")
        return rejected
    hw = re.findall(r"TRACE_HWM[^0-9]*(\d+)", out)
    if not hw or max(int(x) for x in hw) != len(lines):
        raise Inconclusive("trace validation did not consume the whole trace (%s of %d):\n%s" % (hw, len(lines), out[-3000:]))
    shutil.rmtree(wd, ignore_errors=True)
    return rejected


def run(ctx):
    quick = ctx.quick()
    rnd = random.Random(ctx.seed * 1000003 + 17)
    ctx.build_vh()
    selftest = os.environ.get("VERIF_SELFTEST", "")

    # 1. design level
    ctx.model_check("Fsim", "Fsim_MC.cfg" if quick else "Fsim_MC_big.cfg", timeout=900)

    # 2. all behaviours with their verdicts
    r = ctx.tlc("Fsim_Gen", "Fsim_Gen.cfg" if quick else "Fsim_Gen_big.cfg", workers=1, quiet=True, timeout=900)
    if r["errors"]:
        raise Inconclusive("Fsim_Gen failed:\n" + r["out"][-3000:])
    ctx.cov["transitions"] += r.get("generated", 0) or 0
    behs, seen = [], set()
    for b in ctx.behaviours(r):
        k = json.dumps(b, sort_keys=True)
        if k not in seen:
            seen.add(k)
            behs.append(b)
    if len(behs) < 100 or {b["expect"] for b in behs} != {"placed", "failed"}:
        raise Inconclusive("vacuous generation: %d behaviours, verdicts %s" % (len(behs), {b["expect"] for b in behs}))
    ctx.log("TLC enumerated %d scenario behaviours (%d placed, %d failed)" % (
        len(behs), sum(b["expect"] == "placed" for b in behs), sum(b["expect"] == "failed" for b in behs)))
    ctx.sample({"tlc_behaviour": behs[len(behs) // 2]})

    # 3. concrete transfers
    rnd.shuffle(behs)
    cases = []
    for b in behs:
        cases += concretise(b, rnd, quick, len(cases) + 1)
    for i, c in enumerate(cases):
        c["id"] = i + 1
    wd = ctx.sub("replay")
    cpath, tpath = os.path.join(wd, "cases.json"), os.path.join(wd, "trace.ndjson")
    with open(cpath, "w") as f:
        json.dump(cases, f)
    ctx.run_vh(["fsim-replay", "-in", cpath, "-out", tpath], timeout=3000)
    runs = split_runs(read_ndjson(tpath))
    if len(runs) != len(cases):
        raise Inconclusive("harness returned %d runs for %d cases" % (len(runs), len(cases)))
    for rr in runs:
        for ev in rr:
            if ev["ev"] == "harness_err":
                raise Inconclusive("harness error: %s" % ev.get("what"))
        if rr[-1]["ev"] != "end" and not any(e["ev"] == "crash" for e in rr):
            raise Inconclusive("run %s has no end event" % rr[0].get("id"))
    ctx.log("executed %d transfers in the real TO2 pair" % len(runs))
    # a corruption that could not be applied (the addressed message never came) says nothing: drop the run
    keep = [i for i, rr in enumerate(runs) if rr[-1]["ev"] != "end" or rr[-1].get("cor_applied", True) or rr[-1]["stalled"] or rr[-1]["to2_err"]]
    ctx.notes["corruption_not_applied_dropped"] = len(runs) - len(keep)
    runs, cases = [runs[i] for i in keep], [cases[i] for i in keep]
    for i, (rr, c) in enumerate(zip(runs, cases)):
        for ev in rr:
            ev["run"] = i + 1

    if selftest == "corrupt":
        v1 = next(x for x in runs if x[-1]["ev"] == "end" and x[-1]["dest"] == "same")
        v1[-1]["dest"] = "absent"           # an identical file that "did not arrive"
        v2 = next(x for x in runs if x[-1]["ev"] == "end" and x[-1]["dest"] == "absent" and x[0]["cor"] == "digest")
        v2[-1]["dest"] = "same"             # a file placed although the digest was altered
        v3 = next(x for x in runs if x is not v2 and x[-1]["ev"] == "end" and x[0]["cor"] == "data" and x[-1]["reported"])
        v3[-1]["reported"], v3[-1]["to2_err"] = False, False    # a mismatch nobody reported
        for v in (v1, v2, v3):
            v[0]["class"] = "SELFTEST " + v[0]["class"]

    # 4. TLC judges every run
    bsz = 150
    batches = [runs[i:i + bsz] for i in range(0, len(runs), bsz)]
    with ThreadPoolExecutor(max_workers=6) as ex:
        results = list(ex.map(lambda ib: validate_batch(ctx, ib[1], "b%d" % ib[0]), enumerate(batches)))
    rejected = {}
    for rs in results:
        for (rr, ev, reason) in rs:
            rejected.setdefault(rr[0]["run"], (rr, ev, reason))

    # 5. verdicts: the trace judgement, and the verdict TLC attached to the scenario class
    def report(rr, reason):
        c = cases[rr[0]["run"] - 1]
        end = rr[-1]
        key = "%s|%s|%s|%s" % (reason, c["module"], c["cor"], mtu_label(c))
        if rr[0]["class"].startswith("SELFTEST"):
            key = "selftest|" + key
        what = ("%s: %s size=%d chunk=%d dev_mtu=%d own_mtu=%d corruption=%s idx=%d delta=%d -> destination=%s names=%s reported=%s to2_err=%s stalled=%s errs=%s" % (
            reason, c["module"], c["size"], c["chunk"], c["dev_mtu"], c["own_mtu"], c["cor"], c["cor_idx"], c["delta"], end.get("dest"),
            end.get("names"), end.get("reported"), end.get("to2_err"), end.get("stalled"), (end.get("errs") or [end.get("msg", "")])[:1]))
        ctx.violation(key, what, {"case": c, "events": rr, "replay": "write [case] to a file and run: vh fsim-replay -in file -out trace.ndjson"})

    for runid, (rr, ev, reason) in sorted(rejected.items()):
        report(rr, reason)
    nmis = 0
    for rr, c in zip(runs, cases):
        end = rr[-1]
        if end["ev"] != "end" or c["floor"] or rr[0]["run"] in rejected:
            continue
        failed = end["reported"] or end["to2_err"]
        observed = "placed" if (end["dest"] == "same" and not failed) else ("failed" if (end["dest"] == "absent" and failed) else "neither")
        if observed != c["expect"]:
            nmis += 1
            report(rr, "tlc_verdict_%s_observed_%s" % (c["expect"], observed))

    # 6. coverage
    feats = set()
    for rr, c in zip(runs, cases):
        end = rr[-1]
        feats.add((c["class"], mtu_label(c), c["chunk"], end.get("dest"), bool(end.get("reported") or end.get("to2_err"))))
    ctx.cov["traces_validated_against_impl"] += len(runs)
    ctx.cov["evaluations"] += sum(len(x) for x in runs)
    ctx.cov["distinct_nontrivial"] += len(feats)
    ctx.cov["rule"] = ("one evaluation = one recorded event (announcement, data chunk, end state) of a real transfer checked as a step of Fsim.tla; "
                       "distinct = distinct (scenario class, MTU class, chunk parameter, destination state, failure reported) tuples")
    ctx.notes["transfers"] = len(runs)
    ctx.notes["scenario_behaviours_from_tlc"] = len(behs)
    ctx.notes["rejected_by_trace_spec"] = len(rejected)
    ctx.notes["verdict_mismatches"] = nmis
    ctx.notes["by_module"] = {m: sum(1 for c in cases if c["module"] == m) for m in ("download", "upload", "wget")}
    ctx.notes["by_corruption"] = {m: sum(1 for c in cases if c["cor"] == m) for m in ("none", "data", "digest", "len+", "len-")}
    ctx.notes["floor_cases_only_safety_judged"] = sum(1 for c in cases if c["floor"])
    okr = next((x for x in runs if x[0]["cor"] == "data" and x[0]["run"] not in rejected), None)
    if okr:
        ctx.sample({"accepted_run": okr})
    ctx.assumptions += ["TLC and the CommunityModules Json module", "SHA-384 is collision free on the runs (digests are abstract in Fsim.tla)",
                        "the wrapper between library and receiving module sees exactly what the module is given",
                        "below the MTU floor of a module (its fixed announcements do not fit one message) only safety is judged",
                        "a transfer whose announced length is never reached is ended by a bounded context; the error result is the reported failure"]
    return "model_checking"
