"""C17 — FSIM file transfers deliver identical files or nothing.

Pipeline: (1) TLC checks the invariants of Fsim.tla exhaustively: single transfers (all lengths, chunkings,
corruption classes and positions, HTTP server behaviours for wget within small bounds) and SESSIONS of up
to three transfers through one module instance (the module must be idle again after every Finalize, so
every transfer is judged on its own); two probes show the session dimension is not vacuous (a transfer
placed after a refused one is reachable; a model whose refusing Finalize keeps the module state violates
HonestSucceeds); (2) TLC prints every maximal behaviour of Fsim_Gen as a session: for each transfer its
scenario (module, length, chunk, corruption, position, delta, HTTP server behaviour) and verdict (placed /
failed); (3) the concretiser maps a scenario onto concrete transfers: file sizes around multiples of the
effective chunk (chunk size classes 1, small, 1014, 65535, 0, -1; MTU classes), which data message /
announced value is altered, how the HTTP server frames its response (Content-Length / chunked / flushed in
pieces / HTTP/1.0 close-delimited / Content-Length of the original file with a shorter or longer body /
redirect); (4) `vh fsim-replay` runs the real fsim modules in a real TO2 session per case (all transfers of
a session through the same device module instance; wget against local HTTP servers), with the alteration
applied by a wrapper between the library and the receiving module, and records what the receiver was told
and given and what every transfer left behind (destination, temp directory, reports); (5) every session is
validated against Fsim_Trace.tla (the outcome of each transfer must be the outcome of Finalize/Stall in the
state the recorded announcements and chunks of that transfer lead to, the module idle in between, the
destination at the end exactly the placed files) and compared with the verdicts TLC attached to it.
"""
import json
import os
import random
import re
import shutil
import tempfile
from concurrent.futures import ThreadPoolExecutor

from lib.vlib import Inconclusive, write_ndjson, read_ndjson

# value bytes one "fdo.download:data" KV can carry (Producer.Available - 6), see fsim/download_owner.go
def dl_payload(dev_mtu):
    return (dev_mtu or 1300) - 5 - (len("fdo.download:data") + 1) - 6


def chunk_param_value(p):
    return 1014 if p == 0 else (65535 if p < 0 else p)


DL_FLOOR = 200      # below this the four announcements of DownloadContents do not fit one message
WGET_FLOOR = 200
UP_FIT = 1014 + 3 + 1 + (len("fdo.upload:data") + 1) + 1 + 2 + 5   # owner MTU at which a 1014-byte chunk travels in one KV
NOCL = ("nocl", "flushed", "close")


def variants_for(mod):
    if mod == "download":
        variants = [(0, 0), (1, 0), (7, 256), (1014, 4096), (65535, 0), (-1, 65535), (0, 256), (-1, 1300), (1014, 65535), (7, 65535)]
        dense = [(0, m) for m in range(DL_FLOOR, DL_FLOOR + 24)] + [(0, 1299), (0, 1301), (-1, 65534), (1014, 1043), (1014, 1044), (2, 300)]
        floor_variants = [(0, 64), (0, 150), (7, 100)]
    elif mod == "upload":
        variants = [(0, 0), (0, 1300), (0, 4096), (0, 65535), (0, 1100), (0, UP_FIT), (0, UP_FIT - 1), (0, 1040), (0, 256), (0, 512)]
        dense = [(0, m) for m in range(UP_FIT + 1, UP_FIT + 24)] + [(0, 1299), (0, 1301), (0, 2048), (0, 65534)]
        floor_variants = []
    else:
        variants = [(0, 0), (0, 256), (0, 65535), (0, 4096), (0, 300)]
        dense = [(0, m) for m in range(WGET_FLOOR, WGET_FLOOR + 8)]
        floor_variants = [(0, 64), (0, 120)]
    return variants, dense, floor_variants


def concretise_xfer(x, rnd, chunkp, mtu):
    """One transfer of a TLC behaviour (scenario + verdict) as a concrete transfer."""
    sc = x["sc"]
    mod, L, C, cor, k, d, srv = sc["mod"], sc["len"], sc["chunk"], sc["cor"], sc["k"], sc["d"], sc["srv"]
    q, r = divmod(L, C)
    if mod == "download":
        E = max(1, min(chunk_param_value(chunkp), dl_payload(mtu)))
    elif mod == "upload":
        E = 1014
    else:
        E = rnd.choice([1014, 4096, 65535, 100])      # for "flushed" the size of a flushed piece
    rem = 0 if r == 0 else (1 if r == 1 else max(1, E - 1))
    size = max(1, q * E + rem)
    delta = 1 if d == 1 else max(1, E if rnd.random() < 0.7 else E + 1)
    if cor == "len-" and d >= L:
        delta = size              # the abstract scenario announces zero
    elif cor == "len-":
        delta = max(1, min(delta, size - 1))
    may_stall = mod != "wget" and (cor == "len+" or (cor == "len-" and delta >= size))
    return {"seed": rnd.getrandbits(40), "size": size, "may_stall": may_stall, "chunk": chunkp, "cor": cor, "cor_idx": k - 1, "delta": delta,
            "srv": srv, "piece": E if srv == "flushed" else 0, "expect": x["expect"], "stalled_in_spec": x["stalled"],
            "class": "%s/len=%dq+%s/chunk=%s/%s%s" % (mod, q, "0" if r == 0 else ("1" if r == 1 else "E-1"), chunkp, cor,
                                                    "" if srv == "na" else "/srv=" + srv)}


def concretise(b, rnd, quick):
    """A TLC behaviour (session) as concrete sessions: one per MTU / chunk-parameter variant picked."""
    mod, xs = b["sess"]["mod"], b["xs"]
    single = len(xs) == 1
    variants, dense, floor_variants = variants_for(mod)
    if quick or not single:
        picks = rnd.sample(variants, 1)
    else:
        picks = rnd.sample(variants, min(len(variants), 5)) + rnd.sample(dense, 3)
    if single and floor_variants and rnd.random() < (0.08 if quick else 0.25):
        picks.append(rnd.choice(floor_variants) + ("floor",))
    out = []
    for p in picks:
        chunkp, mtu = p[0], p[1]
        floor = len(p) > 2
        xfers = []
        for x in xs:
            # within a session the chunk parameter varies from file to file, the MTUs are the session's
            cp = chunkp if single else rnd.choice([v[0] for v in variants])
            xfers.append(concretise_xfer(x, rnd, cp, mtu))
        must = b["sess"]["must"] if not single else (rnd.random() < 0.3)
        out.append({"module": mod, "dev_mtu": mtu if mod != "upload" else 0, "own_mtu": mtu if mod == "upload" else 0,
                    "must": must, "floor": floor, "xfers": xfers,
                    # a transfer that may never finalize is ended 4 s after it began; anything else has time (the machine may be busy)
                    "stall_ms": 4000, "timeout_ms": 45000})
    return out


def mtu_label(c):
    if c["module"] == "upload":
        m = c["own_mtu"] or 1300
        # below UP_FIT a 1014-byte data message is fragmented; at UP_FIT it fills a 68 exactly
        return "own_mtu<%d" % UP_FIT if m < UP_FIT else ("own_mtu=%d" % UP_FIT if m == UP_FIT else "own_mtu>%d" % UP_FIT)
    m = c["dev_mtu"] or 1300
    return "dev_mtu<%d" % DL_FLOOR if m < DL_FLOOR else "dev_mtu>=%d" % DL_FLOOR


def split_runs(evs):
    runs = []
    for ev in evs:
        if ev["ev"] == "start":
            runs.append([])
        runs[-1].append(ev)
    return runs


def xends(rr):
    return [e for e in rr if e["ev"] == "xend"]


def validate_batch(ctx, runs, label):
    lines, index = [], []
    for r in runs:
        for ev in r:
            lines.append(ev)
            index.append(r)
    wd = tempfile.mkdtemp(prefix="ftv-%s-" % label, dir=ctx.scratch)
    write_ndjson(os.path.join(wd, "trace.ndjson"), lines)
    res = ctx.tlc("Fsim_Trace", "Fsim_Trace.cfg", workers=1, workdir=wd, quiet=True, timeout=900)
    out = res["out"]
    rejected = []
    for m in re.finditer(r'<<"TRACE_DIAG", (\d+), (\d+), "([a-z0-9_]+)">>', out):
        ln = int(m.group(1))
        rejected.append((index[ln - 1], lines[ln - 1], m.group(3)))
    inv = [e for e in res["errors"] if "Invariant" in e]
    if inv:
        lvals = [int(x) for x in re.findall(r"^/\\ l = (\d+)", out, re.M)]
        if not lvals:
            raise Inconclusive("invariant violation without a position:\n" + out[-3000:])
        ln = max(lvals) - 1
        name = re.search(r"Invariant (\S+) is violated", inv[0])
        rejected.append((index[ln - 1], lines[ln - 1], "invariant_" + (name.group(1) if name else "unknown")))
        rest = [x for x in runs if x is not index[ln - 1]]
        if len(rest) < len(runs) and rest:
            rejected += validate_batch(ctx, rest, label + "r")
        return rejected
    hw = re.findall(r"TRACE_HWM[^0-9]*(\d+)", out)
    if not hw or max(int(x) for x in hw) != len(lines):
        raise Inconclusive("trace validation did not consume the whole trace (%s of %d):\n%s" % (hw, len(lines), out[-3000:]))
    shutil.rmtree(wd, ignore_errors=True)
    return rejected


def design_level(ctx, quick):
    """Exhaustive model checks and the two probes of the session dimension, side by side."""
    jobs = [("mc", "Fsim_MC.cfg" if quick else "Fsim_MC_big.cfg"), ("mc", "Fsim_MC_sess.cfg"),
            ("probe", "Fsim_MC_probe.cfg", "HonestSucceeds")]
    if not quick:       # quick: generate() shows the same on the printed sessions
        jobs.append(("probe", "Fsim_MC_vac.cfg", "NeverAfterRefusal"))

    def one(j):
        if j[0] == "mc":
            return ctx.model_check("Fsim", j[1], timeout=900, workers=2)
        return ctx.tlc("Fsim", j[1], timeout=900, workers=1, quiet=True)
    with ThreadPoolExecutor(max_workers=4) as ex:
        res = list(ex.map(one, jobs))
    for j, r in zip(jobs, res):
        if j[0] == "probe" and not any(j[2] in v for v in r["violated"]):
            raise Inconclusive("probe %s: the model does not reach a violation of %s; the session dimension is vacuous:\n%s" % (j[1], j[2], r["out"][-2000:]))
    ctx.notes["session_probes"] = {"transfer_placed_after_a_refused_one_reachable": True, "model_without_reset_on_refusal_violates_HonestSucceeds": True}


def generate(ctx, quick):
    def one(cfg):
        r = ctx.tlc("Fsim_Gen", cfg, workers=1, quiet=True, timeout=900)
        if r["errors"]:
            raise Inconclusive("Fsim_Gen/%s failed:\n%s" % (cfg, r["out"][-3000:]))
        ctx.cov["transitions"] += r.get("generated", 0) or 0
        behs, seen = [], set()
        for b in ctx.behaviours(r):
            k = json.dumps(b, sort_keys=True)
            if k not in seen:
                seen.add(k)
                behs.append(b)
        return behs
    with ThreadPoolExecutor(max_workers=2) as ex:
        singles, sessions = list(ex.map(one, ["Fsim_Gen.cfg" if quick else "Fsim_Gen_big.cfg", "Fsim_Gen_sess.cfg"]))
    singles = [b for b in singles if len(b["xs"]) == 1]
    sessions = [b for b in sessions if len(b["xs"]) >= 2]
    verdicts = {x["expect"] for b in singles for x in b["xs"]}
    if len(singles) < 100 or verdicts != {"placed", "failed"}:
        raise Inconclusive("vacuous generation: %d single-transfer behaviours, verdicts %s" % (len(singles), verdicts))
    after_refusal = sum(1 for b in sessions if any(b["xs"][i]["expect"] == "failed" and b["xs"][i + 1]["expect"] == "placed" for i in range(len(b["xs"]) - 1)))
    if len(sessions) < 100 or not after_refusal:
        raise Inconclusive("vacuous session generation: %d sessions, %d with a placed transfer after a refused one" % (len(sessions), after_refusal))
    return singles, sessions


def session_class(b):
    return (b["sess"]["mod"], b["sess"]["must"], tuple(x["sc"]["cor"] for x in b["xs"]))


def run(ctx):
    quick = ctx.quick()
    rnd = random.Random(ctx.seed * 1000003 + 17)
    ctx.build_vh()
    selftest = os.environ.get("VERIF_SELFTEST", "")

    # 1. design level
    design_level(ctx, quick)

    # 2. all behaviours with their verdicts
    singles, sessions = generate(ctx, quick)
    ctx.log("TLC enumerated %d single-transfer behaviours (%d placed, %d failed) and %d sessions of 2-3 transfers (%d classes)" % (
        len(singles), sum(b["xs"][0]["expect"] == "placed" for b in singles), sum(b["xs"][0]["expect"] == "failed" for b in singles),
        len(sessions), len({session_class(b) for b in sessions})))
    ctx.sample({"tlc_behaviour": singles[len(singles) // 2]})
    ctx.sample({"tlc_session": next(b for b in sessions if len(b["xs"]) == 3 and b["xs"][0]["expect"] == "failed" and b["xs"][1]["expect"] == "placed")})

    # 3. concrete sessions.  quick: two thirds of the download/upload behaviours and of the wget behaviours against a
    #    server with Content-Length, a quarter of those against the other server behaviours (every module /
    #    server behaviour / corruption / whole-or-partial-last-chunk class at least once), and one session of every
    #    (module, MustDownload, corruption sequence) class.
    rnd.shuffle(singles)
    rnd.shuffle(sessions)
    if quick:
        chosen, seen = [], set()
        for b in singles:
            sc = b["xs"][0]["sc"]
            k = (sc["mod"], sc["srv"], sc["cor"], sc["len"] % sc["chunk"] == 0)
            if k not in seen or rnd.random() < (0.66 if sc["srv"] in ("na", "cl") else 0.25):
                seen.add(k)
                chosen.append(b)
        seen = set()
        for b in sessions:
            k = session_class(b)
            if k not in seen:
                seen.add(k)
                chosen.append(b)
    else:
        chosen = singles + sessions
    cases = []
    for b in chosen:
        cases += concretise(b, rnd, quick)
    for i, c in enumerate(cases):
        c["id"] = i + 1
    wd = ctx.sub("replay")
    cpath, tpath = os.path.join(wd, "cases.json"), os.path.join(wd, "trace.ndjson")
    with open(cpath, "w") as f:
        json.dump(cases, f)
    ctx.run_vh(["fsim-replay", "-in", cpath, "-out", tpath], timeout=3000)
    runs = split_runs(read_ndjson(tpath))
    if len(runs) != len(cases):
        raise Inconclusive("harness returned %d runs for %d cases" % (len(runs), len(cases)))
    for rr, c in zip(runs, cases):
        for ev in rr:
            if ev["ev"] == "harness_err":
                raise Inconclusive("harness error: %s" % ev.get("what"))
        if rr[-1]["ev"] != "end" and not any(e["ev"] == "crash" for e in rr):
            raise Inconclusive("run %s has no end event" % rr[0].get("id"))
        if rr[-1]["ev"] == "end" and (rr[-1]["started"] < 1 or len(xends(rr)) != rr[-1]["started"]):
            raise Inconclusive("run %s: %d transfers started, %d ended: %s" % (rr[0].get("id"), rr[-1]["started"], len(xends(rr)), rr[-1].get("msg")))
    ctx.log("executed %d sessions (%d transfers) in the real TO2 pair" % (len(runs), sum(len(xends(r)) for r in runs)))
    # a corruption that could not be applied (the addressed message never came) says nothing: drop the session
    def usable(rr):
        if rr[-1]["ev"] != "end":
            return True
        return all(e.get("cor_applied", True) or e["stalled"] or e["to2_err"] for e in xends(rr))
    keep = [i for i, rr in enumerate(runs) if usable(rr)]
    ctx.notes["corruption_not_applied_dropped"] = len(runs) - len(keep)
    runs, cases = [runs[i] for i in keep], [cases[i] for i in keep]
    for i, (rr, c) in enumerate(zip(runs, cases)):
        for ev in rr:
            ev["run"] = i + 1

    if selftest == "corrupt":
        def single(x):
            return x[-1]["ev"] == "end" and x[0]["nx"] == 1
        v1 = next(x for x in runs if single(x) and xends(x)[0]["dest"] == "same")
        xends(v1)[0]["dest"] = "absent"           # an identical file that "did not arrive"
        v2 = next(x for x in runs if single(x) and xends(x)[0]["dest"] == "absent" and x[1]["cor"] == "digest")
        xends(v2)[0]["dest"] = "same"             # a file placed although the digest was altered
        v3 = next(x for x in runs if x is not v2 and single(x) and x[1]["cor"] == "data" and xends(x)[0]["reported"])
        xends(v3)[0]["reported"], xends(v3)[0]["to2_err"] = False, False    # a mismatch nobody reported
        multi = [x for x in runs if x[-1]["ev"] == "end" and x[-1]["started"] >= 2 and x not in (v1, v2, v3)]
        v4 = next(x for x in multi if len(x[-1]["intact"]) >= 1)
        v4[-1]["intact"] = v4[-1]["intact"][1:]   # a file placed earlier in the session that is gone at its end
        v5 = next(x for x in multi if x is not v4 and x[0]["mod"] == "download" and xends(x)[0]["reported"] and not xends(x)[0]["last"])
        xends(v5)[0]["dest"] = "other"            # a refused file that left something at the destination
        v6 = next(x for x in multi if x not in (v4, v5) and any(e["ev"] == "http_len" and e["len"] == -1 for e in x) and xends(x)[0]["dest"] == "same")
        xends(v6)[0]["dest"], xends(v6)[0]["reported"] = "absent", True     # an intact streamed response refused
        v6[-1]["intact"] = [i for i in v6[-1]["intact"] if i != 1]
        for v in (v1, v2, v3, v4, v5, v6):
            v[0]["selftest"] = True

    # 4. TLC judges every session
    bsz = 120
    batches = [runs[i:i + bsz] for i in range(0, len(runs), bsz)]
    with ThreadPoolExecutor(max_workers=6) as ex:
        results = list(ex.map(lambda ib: validate_batch(ctx, ib[1], "b%d" % ib[0]), enumerate(batches)))
    rejected = {}
    for rs in results:
        for (rr, ev, reason) in rs:
            rejected.setdefault(rr[0]["run"], []).append((rr, ev, reason))

    # 5. verdicts: the trace judgement, and the verdicts TLC attached to the scenarios of the session
    def report(rr, reason, i):
        """i: number of the transfer the judgement is about (0: the session as a whole)"""
        c = cases[rr[0]["run"] - 1]
        ends = xends(rr)
        x = c["xfers"][max(i, 1) - 1]
        key = "%s|%s|%s|%s" % (reason, c["module"], x["cor"], mtu_label(c))
        if x["srv"] != "na":
            key += "|srv=" + x["srv"]
        if i > 1:
            prev = ends[i - 2]
            key += "|after_%s_transfer_in_session" % ("refused" if (prev["reported"] or prev["to2_err"]) else "placed")
        elif i == 0:
            key += "|session_end"
        if rr[0].get("selftest"):
            key = "selftest|" + key
        e = ends[i - 1] if 0 < i <= len(ends) else rr[-1]
        what = ("%s: %s session of %d (MustDownload=%s dev_mtu=%d own_mtu=%d) transfer %d: size=%d chunk=%d corruption=%s idx=%d delta=%d srv=%s -> "
                "destination=%s reported=%s to2_err=%s stalled=%s tmp_left=%s errs=%s; session: %s; at the end names=%s" % (
                    reason, c["module"], len(c["xfers"]), c["must"], c["dev_mtu"], c["own_mtu"], i, x["size"], x["chunk"], x["cor"], x["cor_idx"],
                    x["delta"], x["srv"], e.get("dest"), e.get("reported"), e.get("to2_err"), e.get("stalled"), e.get("tmp_left"),
                    (e.get("errs") or [rr[-1].get("msg", "")])[:1],
                    ["%s:%s->%s%s" % (y["cor"], y["expect"], z["dest"], "/reported" if (z["reported"] or z["to2_err"]) else "") for y, z in zip(c["xfers"], ends)],
                    rr[-1].get("names")))
        ctx.violation(key, what, {"case": c, "events": rr, "replay": "write [case] to a file and run: vh fsim-replay -in file -out trace.ndjson"})

    for runid, diags in sorted(rejected.items()):
        for (rr, ev, reason) in diags:
            report(rr, reason, ev.get("i", 0))
    nmis = 0
    for rr, c in zip(runs, cases):
        if rr[-1]["ev"] != "end" or c["floor"] or rr[0]["run"] in rejected:
            continue
        ends = xends(rr)
        for i, (x, e) in enumerate(zip(c["xfers"], ends)):
            failed = e["reported"] or e["to2_err"]
            observed = "placed" if (e["dest"] == "same" and not failed) else ("failed" if (e["dest"] == "absent" and failed) else "neither")
            if observed != x["expect"]:
                nmis += 1
                report(rr, "tlc_verdict_%s_observed_%s" % (x["expect"], observed), i + 1)
                break
        else:
            # the session went as far as the specification says: all transfers, or up to the one that ends it
            planned = len(c["xfers"])
            if len(ends) < planned and (ends[-1]["reported"] or ends[-1]["to2_err"]):
                # a refusal ended the session where the specification lets it go on: allowed by the property
                ctx.notes["sessions_ended_by_a_refusal_the_spec_lets_continue"] = ctx.notes.get("sessions_ended_by_a_refusal_the_spec_lets_continue", 0) + 1
            elif len(ends) < planned:
                raise Inconclusive("session %s: %d of %d transfers ran although none of them ended the session: %s" % (
                    rr[0].get("id"), len(ends), planned, rr[-1].get("msg")))

    # 6. coverage
    feats, nx, after_refused, nocl_ok = set(), 0, 0, 0
    for rr, c in zip(runs, cases):
        ends = xends(rr)
        nx += len(ends)
        for i, (x, e) in enumerate(zip(c["xfers"], ends)):
            failed = bool(e.get("reported") or e.get("to2_err"))
            prev = "first" if i == 0 else ("after_refused" if (ends[i - 1]["reported"] or ends[i - 1]["to2_err"]) else "after_placed")
            feats.add((x["class"], mtu_label(c), prev, e.get("dest"), failed))
            if prev == "after_refused" and e.get("dest") == "same" and not failed:
                after_refused += 1
            if x["srv"] in NOCL and e.get("dest") == "same" and not failed:
                nocl_ok += 1
    if not selftest and (after_refused == 0 or nocl_ok == 0):
        raise Inconclusive("no intact transfer placed after a refused one (%d) or none placed from a response without Content-Length (%d): the new dimensions were not exercised" % (after_refused, nocl_ok))
    ctx.cov["traces_validated_against_impl"] += len(runs)
    ctx.cov["evaluations"] += sum(len(x) for x in runs)
    ctx.cov["distinct_nontrivial"] += len(feats)
    ctx.cov["rule"] = ("one evaluation = one recorded event (announcement, response header, data chunk, state a transfer left behind, state at the end of the session) "
                       "of a real TO2 session checked as a step of Fsim.tla; "
                       "distinct = distinct (scenario class incl. server behaviour, MTU class, position in the session (first / after a placed / after a refused transfer), destination state, failure reported) tuples")
    ctx.notes["sessions"] = len(runs)
    ctx.notes["transfers"] = nx
    ctx.notes["sessions_of_2_or_3_transfers"] = sum(1 for c in cases if len(c["xfers"]) > 1)
    ctx.notes["intact_transfers_placed_after_a_refused_one"] = after_refused
    ctx.notes["placed_from_response_without_content_length"] = nocl_ok
    ctx.notes["scenario_behaviours_from_tlc"] = {"single_transfers": len(singles), "sessions": len(sessions)}
    ctx.notes["rejected_by_trace_spec"] = len(rejected)
    ctx.notes["verdict_mismatches"] = nmis
    ctx.notes["by_module"] = {m: sum(len(c["xfers"]) for c in cases if c["module"] == m) for m in ("download", "upload", "wget")}
    ctx.notes["by_corruption"] = {m: sum(1 for c in cases for x in c["xfers"] if x["cor"] == m) for m in ("none", "data", "digest", "len+", "len-")}
    ctx.notes["by_http_server_behaviour"] = {m: sum(1 for c in cases for x in c["xfers"] if x["srv"] == m) for m in ("cl", "nocl", "flushed", "close", "clsrc", "redirect")}
    ctx.notes["floor_cases_only_safety_judged"] = sum(1 for c in cases if c["floor"])
    # not part of the property (the temp directory is not the destination, the session is over): a refused upload
    # leaves the owner's temp file behind
    ctx.notes["refused_uploads_leaving_a_temp_file_in_the_temp_dir"] = sum(
        1 for rr, c in zip(runs, cases) if c["module"] == "upload" for e in xends(rr) if e["tmp_left"] and (e["reported"] or e["to2_err"]) and not e["stalled"])
    okr = next((x for x in runs if x[0]["nx"] == 3 and x[0]["run"] not in rejected and xends(x) and xends(x)[0]["reported"]), None)
    if okr:
        ctx.sample({"accepted_session": okr})
    ctx.assumptions += ["TLC and the CommunityModules Json module", "SHA-384 is collision free on the runs (digests are abstract in Fsim.tla)",
                        "the wrapper between library and receiving module sees exactly what the module is given",
                        "net/http (client) delivers a body as HTTP frames it: cut at the Content-Length, an error if it ends before; what the local servers write is what the harness records",
                        "owner module i of a session is first called only after owner module i-1 completed (one module per TO2.OwnerServiceInfo): the harness attributes messages to transfers by that",
                        "below the MTU floor of a module (its fixed announcements do not fit one message) only safety is judged",
                        "a transfer whose announced length is never reached is ended by a bounded context; the error result is the reported failure"]
    return "model_checking"
