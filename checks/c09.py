"""C09: Config.tla (validity table transcribed from FDO 3.6.5 / library documentation, onboarding
chain per configuration) checked by TLC; every configuration it labels is run through the real
chain DI, extension, TO0, TO1 or bypass, TO2 (replace or reuse), resale, second TO2."""
import json
import os
import random

from lib.vlib import Inconclusive


def run(ctx):
    quick = ctx.quick()
    rnd = random.Random(ctx.seed)
    ctx.build_vh()
    ctx.model_check("Config", "Config_MC.cfg", timeout=1800)
    r = ctx.tlc("Config_Gen", "Config_Gen.cfg", workers=8, timeout=1800)
    if r["errors"]:
        raise Inconclusive("Config_Gen failed:\n" + r["out"][-3000:])
    allc = ctx.behaviours(r)
    ctx.cov["states"] += r.get("distinct", 0)
    ctx.cov["transitions"] += r.get("generated", 0)
    same = [c for c in allc if c["cfg"]["dev"] == c["cfg"]["owner"]]
    ctx.log("%d single-key-type configurations labelled by Config.tla; %d valid" % (len(same), sum(1 for c in same if c["valid"])))
    if quick:
        # pairwise-style cover: every (key kind, kex), every (key kind, cipher), every (enc, kind), reuse/to1 mixed
        rnd.shuffle(same)
        chosen, need = [], set()
        for c in same:
            t = c["cfg"]
            keys = {("kk", t["owner"], t["kex"]), ("kc", t["owner"], t["cipher"]), ("ke", t["owner"], t["enc"]), ("xr", t["kex"], t["reuse"], t["to1"])}
            if "3072" not in t["owner"]:
                # the fast key kinds: every (key kind, key exchange, cipher) triple and every (key kind, encoding, reuse, via-TO1)
                keys |= {("kkc", t["owner"], t["kex"], t["cipher"]), ("kert", t["owner"], t["enc"], t["reuse"], t["to1"])}
            if not keys <= need or rnd.random() < 0.02:
                need |= keys
                chosen.append(c)
        # RSA 3072 chains are slow: keep a few, drop the rest in quick
        slow = [c for c in chosen if "3072" in c["cfg"]["owner"]]
        fast = [c for c in chosen if "3072" not in c["cfg"]["owner"]]
        rnd.shuffle(slow)
        chosen = fast + slow[:12]
    else:
        chosen = same
    # Mixed device/owner key types are labelled by Config.tla too, but go-fdo's owner derives the
    # owner key type from the device's signature type (to2.go proveOVHdr), i.e. the library only
    # treats device key type = manufacturer/owner key type as supported; the property's product has a
    # single key-type dimension, so mixed tuples are outside the claim and are not run.
    ctx.log("running %d chains" % len(chosen))
    wd = ctx.sub("cfg")
    cp = os.path.join(wd, "cases.json")
    with open(cp, "w") as f:
        json.dump(chosen, f)
    op = os.path.join(wd, "results.json")
    ctx.run_vh(["cfg-replay", "-in", cp, "-out", op], timeout=3400)
    res = json.load(open(op))
    nvalid = 0
    for o in res:
        c = chosen[o["idx"]]
        t = c["cfg"]
        nvalid += 1 if c["valid"] else 0
        if o.get("mismatch"):
            if o.get("panic"):
                key = "panic|%s|cfg" % o["panic"].split("@")[-1].strip()
            else:
                key = "config|dev=%s|owner=%s|enc=%s|kex=%s|cipher=%s|%s" % (t["dev"], t["owner"], t["enc"], t["kex"], t["cipher"] if "cipher" in o["mismatch"] or "tunnel" in o["mismatch"] else "*", o["mismatch"].split(":")[0])
            ctx.violation(key, "%s: %s (%s)" % (json.dumps(t), o["mismatch"], o.get("err", "")[:200]), {"case": c, "result": o})
    ctx.cov["traces_validated_against_impl"] = len(res)
    ctx.cov["evaluations"] = len(res)
    ctx.cov["distinct_nontrivial"] = len(set(json.dumps(c["cfg"], sort_keys=True) for c in chosen))
    ctx.cov["exhaustive"] = (not quick)
    ctx.cov["rule"] = "configuration = (device key, owner key, encoding, key exchange, cipher, reuse, via TO1) labelled valid/forbidden by Config.tla; one evaluation = the whole chain DI..second TO2 over HTTP; distinct = distinct tuples"
    ctx.notes["valid_run"] = nvalid
    ctx.notes["forbidden_run"] = len(res) - nvalid
    ctx.notes["single_key_type_space"] = len(same)
    ctx.sample(chosen[0])
    ctx.sample(res[0])
    ctx.assumptions += ["validity table transcribed from FDO 1.1 3.6.5 and the library's documented deviation (RSA device accepts any suite)",
                        "thorough runs the whole single-key-type product (2352 tuples); mixed device/owner key types are outside the property's product and not run"]
    return "model_checking"
