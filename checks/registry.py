from checks import server_family
from checks import c04
from checks import c01
from checks import c03
from checks import c09
from checks import c10
from checks import c11
from checks import c12
from checks import c16
from checks import c17
from checks import c13
from checks import c14
from checks import c05
from checks import c20
from checks import c18
from checks import c19
from checks import c15
from checks import x01
from checks import x02


def c08(ctx):
    return server_family.run(ctx, "C08", None)


def c02(ctx):
    return server_family.run(ctx, "C02", 64)


def c06(ctx):
    return server_family.run(ctx, "C06", 22)


def c07(ctx):
    level = server_family.run(ctx, "C07", 32)
    c01.run_blob_half(ctx, "C07")      # the device half: fidelity of the blob, altered blobs make TO2 abort
    return level


CHECKS = {
    "C10": c10.run,
    "C05": c05.run,
    "C11": c11.run,
    "C12": c12.run,
    "C13": c13.run,
    "C14": c14.run,
    "C15": c15.run,
    "C19": c19.run,
    "C20": c20.run,
    "C16": c16.run,
    "C17": c17.run,
    "C18": c18.run,
    "C01": c01.run,
    "C03": c03.run,
    "C04": c04.run,
    "C09": c09.run,
    "C02": c02,
    "C06": c06,
    "C07": c07,
    "C08": c08,
    # growth beyond the listed properties (not registered in MANIFEST.json)
    "X01": x01.run,
    "X02": x02.run,
}
