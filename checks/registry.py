from checks import server_family


def c08(ctx):
    return server_family.run(ctx, "C08", None)


CHECKS = {
    "C08": c08,
}
