"""C04: Voucher.tla (symbolic vouchers, verifiers of voucher.go, adversary with and without secrets)
checked by TLC; every reachable (honest voucher, adversary steps) pair is replayed on real vouchers
for several key types and encodings; plus the bit-level data layer and the extension matrix."""
import json
import os

from lib.vlib import Inconclusive

ALL_CFGS = ["P256/1", "P256/2", "P256/3", "P384/1", "P384/2", "P384/3", "RSA2048RESTR/1", "RSA2048RESTR/2",
            "RSAPKCS3072/1", "RSAPKCS3072/2", "RSAPSS2048/1", "RSAPSS2048/2", "RSAPSS3072/1", "RSAPSS3072/2"]


def gen_cfg(maxlen, maxops, isolating):
    return """SPECIFICATION Spec
CONSTANTS
  MaxLen = %d
  MaxOps = %d
  Isolating = %s
INVARIANTS Emit
""" % (maxlen, maxops, "TRUE" if isolating else "FALSE")


def run(ctx):
    quick = ctx.quick()
    ctx.build_vh()
    ctx.model_check("Voucher", "Voucher_MC.cfg", timeout=1800)
    behs = []
    for (ml, mo, iso) in ([(2, 2, False), (2, 2, True)] if quick else [(3, 2, False), (3, 3, True)]):
        wd = ctx.sub("vgen-%d-%d-%s" % (ml, mo, iso))
        cfgp = os.path.join(wd, "Voucher_Gen.cfg")
        with open(cfgp, "w") as f:
            f.write(gen_cfg(ml, mo, iso))
        r = ctx.tlc("Voucher_Gen", cfgp, workers=8, timeout=2400)
        if r["errors"]:
            raise Inconclusive("Voucher_Gen failed:\n" + r["out"][-3000:])
        bs = ctx.behaviours(r)
        ctx.cov["states"] += r.get("distinct", 0)
        ctx.cov["transitions"] += r.get("generated", 0)
        behs += bs
    seen, uniq = set(), []
    for b in behs:
        k = json.dumps(b["ops"], sort_keys=True)
        if k not in seen:
            seen.add(k)
            uniq.append(b)
    ctx.log("%d distinct behaviours from TLC (%d use secrets)" % (len(uniq), sum(1 for b in uniq if b["secrets"])))
    wd = ctx.sub("vreplay")
    bp = os.path.join(wd, "behaviours.json")
    with open(bp, "w") as f:
        json.dump(uniq, f)
    if quick:
        import random
        rnd = random.Random(ctx.seed)
        cfgs = ["P256/1", rnd.choice(["P384/2", "P256/3", "P384/3"]), rnd.choice(["RSA2048RESTR/1", "RSAPSS2048/2", "RSAPKCS3072/1"])]
        step = 24
    else:
        cfgs = ALL_CFGS
        step = 1
    op = os.path.join(wd, "results.json")
    # the extension matrix (every signer x next-owner key class) is cheap: always for all six key kinds
    ext = ["P256/1", "P384/1", "RSA2048RESTR/1", "RSAPKCS3072/1", "RSAPSS2048/1", "RSAPSS3072/1"]
    ctx.run_vh(["voucher-replay", "-in", bp, "-out", op, "-cfgs", ",".join(cfgs), "-extcfgs", ",".join(ext), "-sweep", step, "-seed", ctx.seed,
                "-full", 3 if quick else 2], timeout=3300)
    res = json.load(open(op))
    for r in res["results"] or []:
        b = uniq[r["idx"]]
        if r.get("skipped"):
            ctx.notes["skipped"] = ctx.notes.get("skipped", 0) + 1
            continue
        opsig = "+".join(o["op"] + (":" + o["f"] if o.get("f") else "") for o in b["ops"][1:])
        if r.get("panic"):
            key = "panic|%s|%s" % (r["panic"].split("@")[-1].strip(), opsig)
        else:
            key = "voucher|%s|%s" % (opsig, r["mismatch"].split(":")[0])
        ctx.violation(key, "%s on %s: %s" % (opsig, r["cfg"], r.get("mismatch") or r.get("panic")), {"behaviour": b, "result": r})
    flips = 0
    for s in res["sweeps"] or []:
        flips += s["flips"]
        for a in (s["accepted"] or [])[:3]:
            ctx.violation("bitflip|accepted|%s|len=%d" % (s["cfg"], s["len"]), "bound bit flip still verifies: %s" % a, s)
        for p in (s["panics"] or [])[:3]:
            ctx.violation("panic|" + p.split("@")[-1].strip(), "bit flip panics: %s" % p, {"cfg": s["cfg"], "len": s["len"], "panic": p})
    next_ = 0
    for c in res["extend"] or []:
        next_ += 1
        if c.get("panic"):
            ctx.violation("panic|" + c["panic"].split("@")[-1].strip() + "|extend", "ExtendVoucher panics", c)
        elif c["got"] != c["expect"]:
            ctx.violation("extend|signer=%s|next=%s|got=%s" % ("owner" if c["expect"] or c["next"] != "same" else "nonowner", c["next"], c["got"]),
                          "ExtendVoucher outcome differs from Voucher.tla CanExtend", c)
        elif c["got"] and not c["verifies"]:
            ctx.violation("extend|result-does-not-verify", "extended voucher does not verify", c)
    ctx.cov["traces_validated_against_impl"] = res["replayed"]
    ctx.cov["evaluations"] = res["replayed"] + flips + next_
    ctx.cov["distinct_nontrivial"] = len(uniq) * len(cfgs)
    ctx.cov["rule"] = "behaviour = honest voucher (chain 0..n) + <=2-3 adversary steps from Voucher.tla, replayed per key configuration; plus single-bit flips of the encoded voucher and the extension matrix; distinct = distinct (op sequence, configuration)"
    ctx.notes["bit_flips"] = flips
    ctx.notes["noop_flips"] = sum(s["noops"] for s in res["sweeps"] or [])
    ctx.notes["unbound_flips"] = sum(s["unbound"] for s in res["sweeps"] or [])
    ctx.notes["extend_cases"] = next_
    ctx.notes["configurations"] = cfgs
    ctx.sample(uniq[len(uniq) // 2])
    ctx.sample(uniq[-1])
    ctx.assumptions += ["harness-built concretisation of the symbolic adversary steps (CBOR tree edits, recomputed hashes/HMAC/signatures with harness-owned secrets)",
                        "ECDSA (r, n-s) malleability is outside the alteration alphabet"]
    return "model_checking"
