"""Common machinery for /verif/bin/check: scratch handling, harness build, TLC runs (model checking,
behaviour generation, trace validation), known findings, evidence files.

Exit codes of a check: 0 held (known findings printed), 1 unlisted violation reproduced against the
real code, 2 the check could not reach a verdict (tool failure, timeout, vacuous coverage).
"""
import json
import os
import re
import shutil
import subprocess
import sys
import tempfile
import time

VERIF = os.path.dirname(os.path.dirname(os.path.abspath(__file__)))
SPEC = os.path.join(VERIF, "spec")
HARNESS = os.path.join(VERIF, "harness")
EVID = os.path.join(VERIF, "evidence")
if os.environ.get("VERIF_REPO"):
    # a run against a scratch copy of the library (seeded changes) never touches the committed evidence
    EVID = os.environ.get("VERIF_EVIDENCE_DIR") or os.path.join(os.environ["VERIF_REPO"].rstrip("/") + "-evidence")
TLA_CP = "/opt/veriftools/tla/tla2tools.jar:/opt/veriftools/tla/CommunityModules-deps.jar"


class Inconclusive(Exception):
    """The check itself failed (never a violation)."""


def go_env():
    env = dict(os.environ)
    env["GOFLAGS"] = "-mod=mod"
    env["GOPROXY"] = "off"
    env.pop("GOSUMDB", None)
    env.setdefault("GOTOOLCHAIN", "auto")
    if env.get("GOTOOLCHAIN") == "local":
        env["GOTOOLCHAIN"] = "auto"
    env.setdefault("HOME", "/root")
    return env


class Ctx:
    def __init__(self, prop, tier, seed):
        self.prop = prop
        self.tier = tier
        self.seed = seed
        self.t0 = time.time()
        base = os.environ.get("VERIF_TMP") or ("/dev/shm" if os.path.isdir("/dev/shm") else None)
        self.scratch = tempfile.mkdtemp(prefix="verif-%s-" % prop, dir=base)
        self.violations = []      # (key, what, replay_path)
        self.known_printed = []
        self.cov = {"samples": [], "states": 0, "transitions": 0, "traces_validated_against_impl": 0,
                    "evaluations": 0, "distinct_nontrivial": 0}
        self.assumptions = []
        self.notes = {}
        self.vh = None
        self._nreplay = 0
        self.findings = load_findings()
        # the specification as it is when the check starts (edits during a run do not mix versions)
        self.spec = os.path.join(self.scratch, "spec-snapshot")
        os.makedirs(self.spec)
        for f in os.listdir(SPEC):
            if f.endswith(".tla") or f.endswith(".cfg"):
                shutil.copy(os.path.join(SPEC, f), self.spec)

    # ---- housekeeping -------------------------------------------------------------------------
    def cleanup(self):
        shutil.rmtree(self.scratch, ignore_errors=True)

    def sub(self, name):
        d = os.path.join(self.scratch, name)
        os.makedirs(d, exist_ok=True)
        return d

    def quick(self):
        return self.tier == "quick"

    def log(self, *a):
        print("[%s %6.1fs]" % (self.prop, time.time() - self.t0), *a, flush=True)

    # ---- harness ------------------------------------------------------------------------------
    def build_vh(self, race=False):
        out = os.path.join(self.scratch, "vh-race" if race else "vh")
        if os.path.exists(out):
            return out
        cmd = ["go", "build", "-tags", "verif", "-o", out]
        if race:
            cmd.insert(2, "-race")
        alt = os.environ.get("VERIF_REPO")
        if alt:
            # self-test only: build against a scratch copy of the library (mutant testing in parallel)
            mod = open(os.path.join(HARNESS, "go.mod")).read().replace("=> /repo", "=> " + alt.rstrip("/"))
            mf = os.path.join(self.scratch, "alt.mod")
            open(mf, "w").write(mod)
            shutil.copy(os.path.join(HARNESS, "go.sum"), os.path.join(self.scratch, "alt.sum"))
            cmd += ["-modfile", mf]
        cmd.append("./cmd/vh")
        t = time.time()
        p = subprocess.run(cmd, cwd=HARNESS, env=go_env(), capture_output=True, text=True)
        if p.returncode != 0:
            raise Inconclusive("harness build failed:\n" + p.stdout + p.stderr)
        self.log("built harness%s in %.1fs" % (" (race)" if race else "", time.time() - t))
        if not race:
            self.vh = out
        return out

    def run_vh(self, args, timeout=3600, race=False, env_extra=None, check=True, stdin=None):
        vh = self.build_vh(race=race)
        env = go_env()
        env["VERIF_SEED"] = str(self.seed)
        env["VERIF_TIER"] = self.tier
        env["VERIF_SCRATCH"] = self.sub("db")
        if env_extra:
            env.update(env_extra)
        try:
            p = subprocess.run([vh] + [str(a) for a in args], env=env, capture_output=True, text=True,
                               timeout=timeout, input=stdin)
        except subprocess.TimeoutExpired:
            raise Inconclusive("harness command timed out: %s" % (args,))
        if check and p.returncode not in (0,):
            raise Inconclusive("harness command failed (%d): %s\n%s\n%s" % (p.returncode, args, p.stdout[-4000:], p.stderr[-4000:]))
        return p

    # ---- TLC ----------------------------------------------------------------------------------
    def tlc(self, module, cfg, files=(), mode="mc", workers="auto", timeout=1800, simulate=None, depth=None,
            extra=(), deadlock=False, coverage=False, seed=None, dfs=False, workdir=None, quiet=False):
        """Run TLC on spec/<module>.tla with spec/<cfg> in a scratch copy. Returns a dict."""
        wd = workdir or tempfile.mkdtemp(prefix="tlc-", dir=self.scratch)
        for f in os.listdir(self.spec):
            if f.endswith(".tla"):
                shutil.copy(os.path.join(self.spec, f), wd)
        # cfg: a file name under spec/ or an absolute path of a generated configuration
        src = cfg if os.path.isabs(cfg) else os.path.join(self.spec, cfg)
        cfg = os.path.basename(cfg)
        if os.path.abspath(src) != os.path.abspath(os.path.join(wd, cfg)):
            shutil.copy(src, os.path.join(wd, cfg))
        for f in files:
            shutil.copy(f, wd)
        jopts = "-XX:+UseParallelGC -Xss256m"
        if dfs:
            jopts += " -Dtlc2.tool.queue.IStateQueue=StateDeque"
        cmd = ["java"] + jopts.split() + ["-cp", TLA_CP, "tlc2.TLC", "-config", cfg, "-metadir", os.path.join(wd, "meta"),
               "-workers", str(workers)]
        if not deadlock:
            cmd += ["-deadlock"]
        if simulate is not None:
            cmd += ["-simulate", "num=%d" % simulate]
            if depth:
                cmd += ["-depth", str(depth)]
            cmd += ["-seed", str(seed if seed is not None else self.seed)]
        if coverage:
            cmd += ["-coverage", "1"]
        cmd += list(extra) + [module + ".tla"]
        t = time.time()
        proc = subprocess.Popen(cmd, cwd=wd, stdout=subprocess.PIPE, stderr=subprocess.STDOUT, text=True, start_new_session=True)
        try:
            so, _ = proc.communicate(timeout=timeout)
        except subprocess.TimeoutExpired:
            try:
                os.killpg(proc.pid, 9)      # only this TLC (its own process group), never others
            except OSError:
                pass
            proc.wait()
            raise Inconclusive("TLC timed out on %s/%s" % (module, cfg))

        class _P:
            pass
        p = _P()
        p.returncode = proc.returncode
        out = so or ""
        res = {"out": out, "rc": p.returncode, "wall": time.time() - t, "wd": wd}
        m = re.search(r"(\d+) states generated, (\d+) distinct states found", out)
        if m:
            res["generated"], res["distinct"] = int(m.group(1)), int(m.group(2))
        m = re.search(r"The depth of the complete state graph search is (\d+)", out)
        if m:
            res["depth"] = int(m.group(1))
        res["violated"] = re.findall(r"Error: (Invariant \S+ is violated|Action property \S+ is violated|Temporal properties were violated|Deadlock reached|.*[Pp]ostcondition.*|Evaluating assumption.*|Assumption .* is false)", out)
        res["errors"] = [l for l in out.splitlines() if l.startswith("Error:")]
        res["prints"] = [l for l in out.splitlines() if l.startswith('"') or l.startswith("<<")]
        if not quiet:
            self.log("TLC %s/%s mode=%s: rc=%d generated=%s distinct=%s %.1fs" % (
                module, cfg, "sim" if simulate is not None else mode, p.returncode, res.get("generated"), res.get("distinct"), res["wall"]))
        ok_done = ("Model checking completed" in out) or ("Finished in" in out) or simulate is not None
        if not ok_done and not res["errors"]:
            raise Inconclusive("TLC did not complete on %s/%s:\n%s" % (module, cfg, out[-3000:]))
        if any(("Parsing or semantic" in e) or ("TLC threw" in e) or ("java.lang" in e) for e in res["errors"]) or "*** Errors:" in out or "Semantic errors" in out:
            raise Inconclusive("TLC failed on %s/%s:\n%s" % (module, cfg, out[-4000:]))
        return res

    def model_check(self, module, cfg, **kw):
        """Exhaustive model check; an invariant violation of the *model* is inconclusive for the code
        (DESIGN 1.4 rule 1) and reported as exit 2 with the counterexample."""
        r = self.tlc(module, cfg, **kw)
        if r["errors"]:
            raise Inconclusive("model-level error in %s/%s (not a verdict about the code):\n%s" % (module, cfg, r["out"][-6000:]))
        self.cov["states"] += r.get("distinct", 0)
        self.cov["transitions"] += r.get("generated", 0)
        self.notes.setdefault("tlc_runs", []).append({"module": module, "cfg": cfg, "generated": r.get("generated"),
                                                      "distinct": r.get("distinct"), "depth": r.get("depth"), "wall_s": round(r["wall"], 1)})
        return r

    def behaviours(self, res, tag="BEHAVIOUR"):
        """Extract JSON behaviours printed by PrintT(tag \\o ToJson(x)) from a TLC result."""
        outs = []
        pre = '"' + tag + " "
        for l in res["out"].splitlines():
            if l.startswith(pre):
                s = l[1:-1] if l.endswith('"') else l[1:]
                s = s[len(tag) + 1:]
                s = s.replace('\\"', '"').replace("\\\\", "\\")
                try:
                    outs.append(json.loads(s))
                except Exception as e:  # pragma: no cover
                    raise Inconclusive("cannot parse behaviour line: %r (%s)" % (l[:300], e))
        return outs

    # ---- verdicts -----------------------------------------------------------------------------
    def save_replay(self, obj):
        os.makedirs(os.path.join(EVID, "replay"), exist_ok=True)
        self._nreplay += 1
        path = os.path.join(EVID, "replay", "%s-%d.json" % (self.prop, self._nreplay))
        with open(path, "w") as f:
            json.dump(obj, f, indent=1, default=str)
        return path

    def violation(self, key, what, replay_obj):
        """Report a violation reproduced against the real code. `key` identifies the failing input
        class / call site; a key listed as status=known in known_findings.json is a KNOWN-FINDING."""
        if "HARNESS verifharness/" in key or "HARNESS verifharness/" in what:
            # the panic was raised in harness code that the library called back: the harness is at fault
            raise Inconclusive("panic raised inside the harness, not the library: %s :: %s" % (key, what[:500]))
        for f in self.findings:
            if f["property"] == self.prop and f.get("status") == "known" and key_matches(f["key"], key):
                if f["key"] not in self.known_printed:
                    self.known_printed.append(f["key"])
                    print("KNOWN-FINDING: property=%s %s [%s]" % (self.prop, f["what"], f["key"]), flush=True)
                return False
        if any(v[0] == key for v in self.violations):
            return True
        path = self.save_replay({"property": self.prop, "key": key, "what": what, "seed": self.seed, "tier": self.tier, "case": replay_obj})
        self.violations.append((key, what, path))
        print("VIOLATION property=%s replay=%s" % (self.prop, path), flush=True)
        print("  key=%s :: %s" % (key, what), flush=True)
        return True

    def sample(self, x, cap=6):
        if len(self.cov["samples"]) < cap:
            self.cov["samples"].append(x)

    def write_evidence(self, level="model_checking"):
        os.makedirs(EVID, exist_ok=True)
        cov = dict(self.cov)
        cov.update(self.notes)
        if not cov["samples"]:
            cov["samples"] = ["(no sample recorded)"]
        ev = {
            "property_id": self.prop, "tier": self.tier, "seed": self.seed, "level": level,
            "coverage": cov, "assumptions": self.assumptions, "wall_s": round(time.time() - self.t0, 2),
            "violations": len(self.violations), "known_findings_printed": self.known_printed,
        }
        with open(os.path.join(EVID, "%s.json" % self.prop), "w") as f:
            json.dump(ev, f, indent=1, default=str)


def key_matches(pattern, key):
    if pattern == key:
        return True
    if pattern.endswith("*") and key.startswith(pattern[:-1]):
        return True
    return False


def load_findings():
    p = os.path.join(VERIF, "known_findings.json")
    if not os.path.exists(p):
        return []
    with open(p) as f:
        return json.load(f).get("findings", [])


def read_ndjson(path):
    out = []
    with open(path) as f:
        for l in f:
            l = l.strip()
            if l:
                out.append(json.loads(l))
    return out


def write_ndjson(path, rows):
    with open(path, "w") as f:
        for r in rows:
            f.write(json.dumps(r, separators=(",", ":")) + "\n")


def main(checks):
    if len(sys.argv) < 2:
        print("usage: check <property> [quick|thorough]", file=sys.stderr)
        sys.exit(2)
    prop = sys.argv[1]
    tier = os.environ.get("VERIF_TIER") or "quick"
    if len(sys.argv) > 2 and sys.argv[2] in ("quick", "thorough"):
        tier = sys.argv[2]
    try:
        seed = int(os.environ.get("VERIF_SEED", "1"))
    except ValueError:
        seed = 1
    if prop not in checks:
        print("unknown property", prop, file=sys.stderr)
        sys.exit(2)
    ctx = Ctx(prop, tier, seed)
    rc = 0
    try:
        level = checks[prop](ctx) or "model_checking"
        ctx.write_evidence(level)
        rc = 1 if ctx.violations else 0
    except Inconclusive as e:
        print("INCONCLUSIVE property=%s: %s" % (prop, e), flush=True)
        ctx.notes["inconclusive"] = str(e)[:2000]
        try:
            ctx.write_evidence()
        except Exception:
            pass
        rc = 1 if ctx.violations else 2
    finally:
        if not os.environ.get("VERIF_KEEP"):
            ctx.cleanup()
        else:
            print("scratch kept:", ctx.scratch)
    print("RESULT property=%s tier=%s seed=%d exit=%d wall=%.1fs" % (prop, tier, seed, rc, time.time() - ctx.t0), flush=True)
    sys.exit(rc)
