// Package devmodx (C10): scripted sequences of devmod messages from a device that has proven itself.
// The mutant families of C10 alter one honest message at a time; here the first
// TO2.DeviceServiceInfo (68) of an otherwise honest TO2 run is replaced, at the plaintext layer (a
// wrapping responder behind the real http.Handler, so encryption and session state are the real
// ones), by a devmod script whose parts are individually well-formed and jointly inconsistent:
// nummodules = N followed by one or two devmod:modules chunks with any start index, any announced
// length and a matching or non-matching number of names. The owner answers 69 or an error message;
// a panic or a hang is a step of no action of Server.tla.
package devmodx

import (
	"bytes"
	"context"
	"fmt"
	"io"
	"sync/atomic"
	"time"

	fdo "github.com/fido-device-onboard/go-fdo"
	fdohttp "github.com/fido-device-onboard/go-fdo/http"
	"github.com/fido-device-onboard/go-fdo/kex"
	"github.com/fido-device-onboard/go-fdo/protocol"

	"verifharness/cb"
	"verifharness/world"
)

// Chunk is one devmod:modules value [start, len, names...].
type Chunk struct {
	Start, Len, Names int
}

// Script is one replacement for the device's first 68.
type Script struct {
	ID     int     `json:"id"`
	N      int     `json:"n"` // nummodules; -1: not sent
	Chunks []Chunk `json:"chunks"`
	Split  bool    `json:"split"` // the second chunk travels in a second 68 message
}

// Result of one run.
type Result struct {
	Script  Script `json:"script"`
	Resp    []int  `json:"resp"` // response types to the scripted messages
	Panic   string `json:"panic,omitempty"`
	Hang    bool   `json:"hang,omitempty"`
	Reached bool   `json:"reached"` // the scripted message reached the responder
	Err     string `json:"err,omitempty"`
}

// Scripts enumerates the sequences (N in 0..3, chunks over start/len/names in 0..N+1).
func Scripts() []Script {
	var out []Script
	add := func(s Script) { s.ID = len(out) + 1; out = append(out, s) }
	for n := 0; n <= 3; n++ {
		var one []Chunk
		for st := 0; st <= n+1; st++ {
			for l := 0; l <= n+1; l++ {
				for _, names := range []int{l, l + 1} {
					one = append(one, Chunk{st, l, names})
				}
			}
		}
		for _, c := range one {
			add(Script{N: n, Chunks: []Chunk{c}})
		}
		for i, a := range one {
			for j, b := range one {
				if (i*7+j*3)%5 != 0 && !(a.Names == a.Len && b.Names == b.Len) {
					continue // all pairs of well-formed chunks, a fifth of the others
				}
				add(Script{N: n, Chunks: []Chunk{a, b}, Split: (i+j)%2 == 0})
			}
		}
	}
	add(Script{N: -1, Chunks: []Chunk{{0, 1, 1}}})
	return out
}

func kv(key string, val *cb.Node) *cb.Node { return cb.Arr(cb.Tstr(key), cb.Bstr(val.Encode())) }

func chunkNode(c Chunk, base int) *cb.Node {
	kids := []*cb.Node{cb.Uint(uint64(c.Start)), cb.Uint(uint64(c.Len))}
	for i := 0; i < c.Names; i++ {
		kids = append(kids, cb.Tstr(fmt.Sprintf("mod%d", base+i)))
	}
	return cb.Arr(kids...)
}

// bodies builds the plaintext 68 message(s) of a script: a complete devmod followed by the chunks.
func bodies(s Script) [][]byte {
	kvs := []*cb.Node{
		kv("devmod:active", cb.Bool(true)), kv("devmod:os", cb.Tstr("linux")), kv("devmod:arch", cb.Tstr("amd64")),
		kv("devmod:version", cb.Tstr("v")), kv("devmod:device", cb.Tstr("d")), kv("devmod:sep", cb.Tstr("/")), kv("devmod:bin", cb.Tstr("amd64")),
	}
	if s.N >= 0 {
		kvs = append(kvs, kv("devmod:nummodules", cb.Uint(uint64(s.N))))
	}
	var second []*cb.Node
	for i, c := range s.Chunks {
		n := kv("devmod:modules", chunkNode(c, 10*i))
		if i == 1 && s.Split {
			second = append(second, n)
		} else {
			kvs = append(kvs, n)
		}
	}
	msg := func(more bool, list []*cb.Node) []byte { return cb.Arr(cb.Bool(more), cb.Arr(list...)).Encode() }
	if second != nil {
		return [][]byte{msg(true, kvs), msg(false, second)}
	}
	return [][]byte{msg(false, kvs)}
}

// swapResponder replaces the plaintext of the device's 68 messages by the scripted ones.
type swapResponder struct {
	inner  *fdo.TO2Server
	bodies [][]byte
	n      int32
	resp   []int
}

func (r *swapResponder) Respond(ctx context.Context, msgType uint8, msg io.Reader) (uint8, any) {
	if msgType == 68 {
		i := int(atomic.AddInt32(&r.n, 1)) - 1
		if i < len(r.bodies) {
			_, _ = io.Copy(io.Discard, msg)
			rt, resp := r.inner.Respond(ctx, msgType, bytes.NewReader(r.bodies[i]))
			r.resp = append(r.resp, int(rt))
			return rt, resp
		}
	}
	return r.inner.Respond(ctx, msgType, msg)
}
func (r *swapResponder) HandleError(ctx context.Context, e protocol.ErrorMessage) {
	r.inner.HandleError(ctx, e)
}
func (r *swapResponder) CryptSession(ctx context.Context) (kex.Session, error) {
	return r.inner.CryptSession(ctx)
}

// Run executes one script in a world of its own.
func Run(s Script) (res Result) {
	res.Script = s
	w := world.New(world.Options{})
	defer w.Close()
	ctx, cancel := context.WithTimeout(context.Background(), 60*time.Second)
	defer cancel()
	dev, err := w.Onboard0(ctx, "")
	if err != nil {
		res.Err = "onboard: " + err.Error()
		return
	}
	sr := &swapResponder{inner: w.TO2, bodies: bodies(s)}
	h := &fdohttp.Handler{Tokens: w.OwnerStore, TO2Responder: sr}
	t, rt := world.Transport(h, nil)
	rt.Keep = true
	done := make(chan struct{})
	go func() {
		defer close(done)
		defer func() { _ = recover() }()
		_, _ = w.RunTO2On(ctx, t, dev, nil, world.TO2Opts{})
	}()
	select {
	case <-done:
	case <-time.After(90 * time.Second):
		res.Hang = true
	}
	res.Resp = sr.resp
	res.Reached = atomic.LoadInt32(&sr.n) > 0
	for _, x := range rt.Log {
		if x.Panic != nil {
			res.Panic = fmt.Sprintf("%v @ %s", x.Panic, x.PanicAt)
		}
	}
	return
}
