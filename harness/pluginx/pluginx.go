// Package pluginx replays the conversations of spec/Plugin.tla on the real module adapters of
// go-fdo/plugin (plugin.DeviceModule.Yield / Receive, plugin.OwnerModule.ProduceInfo / HandleInfo)
// with an in-process plugin: the plugin's whole output is prepared from the abstract tokens of the
// behaviour, what the adapter hands to the peer (messages, yields, return values) is projected on
// the observables of the specification, and what the adapter writes to the plugin is captured and
// parsed back by the harness' own reader of the line protocol.
package pluginx

import (
	"bytes"
	"context"
	"encoding/base64"
	"encoding/hex"
	"fmt"
	"io"
	"strings"
	"time"

	"github.com/fido-device-onboard/go-fdo/plugin"
	"github.com/fido-device-onboard/go-fdo/serviceinfo"

	"verifharness/cb"
	"verifharness/world"
)

// Val is an abstract value of Plugin.tla.
type Val struct {
	T string `json:"t"`
	V any    `json:"v"`
}

// Obs is one observation.
type Obs struct {
	O    string `json:"o"`
	Name string `json:"name"`
	Val  Val    `json:"val"`
}

// Behaviour is one conversation printed by TLC.
type Behaviour struct {
	Role  string   `json:"role"`
	Lines []string `json:"lines"`
	Obs   []Obs    `json:"obs"`
	Res   string   `json:"res"`
}

// Result is what the real adapter did.
type Result struct {
	I        int      `json:"i"`
	Role     string   `json:"role"`
	Lines    []string `json:"lines"`
	Res      string   `json:"res"`
	Obs      []string `json:"obs"`      // "yield" or "msg:<name>:<hex of CBOR>"
	Expected []string `json:"expected"` // same form, from the specification
	ExpRes   string   `json:"expres"`
	Err      string   `json:"err,omitempty"`
	Panic    string   `json:"panic,omitempty"`
	Hang     bool     `json:"hang,omitempty"`
	Match    bool     `json:"match"`
}

func b64(s string) string { return base64.StdEncoding.EncodeToString([]byte(s)) }

// concrete maps an abstract token to its line.
func concrete(tok string) (string, bool) {
	switch tok {
	case "Y":
		return "Y", true
	case "B":
		return "B", true
	case "D":
		return "D", true
	case "E":
		return "E" + b64("boom"), true
	case "Ka":
		return "K" + b64("a"), true
	case "Kb":
		return "K" + b64("b"), true
	case "I5":
		return "15", true
	case "Im1":
		return "1-1", true
	case "T":
		return "71", true
	case "N":
		return "8", true
	case "S":
		return "3" + b64("s"), true
	case "X":
		return "2" + b64("x"), true
	case "A":
		return "4", true
	case "M":
		return "5", true
	case "G":
		return "67", true
	case "Z":
		return "9", true
	case "EMPTY":
		return "", true
	case "BADCMD":
		return "%oops", true
	case "BADB64":
		return "3!!!not-base64!!!", true
	case "BADINT":
		return "1abc", true
	case "BADBOOL":
		return "72", true
	case "MOD":
		return "M", true
	case "EOF":
		return "", false
	}
	panic("unknown token " + tok)
}

// node converts an abstract value into a CBOR tree (maps: a later pair with the same key wins,
// as in any map).
func node(v Val) *cb.Node {
	switch v.T {
	case "int":
		if v.V.(string) == "5" {
			return cb.Uint(5)
		}
		return cb.Int(-1)
	case "bool":
		return cb.Bool(true)
	case "null":
		return cb.Null()
	case "str":
		return cb.Tstr("s")
	case "bytes":
		return cb.Bstr([]byte("x"))
	case "arr":
		var kids []*cb.Node
		for _, e := range v.V.([]any) {
			kids = append(kids, node(toVal(e)))
		}
		return cb.Arr(kids...)
	case "map":
		var keys, vals []*cb.Node
		for _, p := range v.V.([]any) {
			pr := p.([]any)
			k, x := node(toVal(pr[0])), node(toVal(pr[1]))
			found := false
			for i := range keys {
				if cb.Equal(keys[i], k) {
					vals[i] = x
					found = true
				}
			}
			if !found {
				keys, vals = append(keys, k), append(vals, x)
			}
		}
		var kv []*cb.Node
		for i := range keys {
			kv = append(kv, keys[i], vals[i])
		}
		return cb.Map(kv...)
	case "tag":
		return cb.Tag(7, node(toVal(v.V)))
	}
	panic("unknown value type " + v.T)
}

func toVal(x any) Val {
	m := x.(map[string]any)
	return Val{T: m["t"].(string), V: m["v"]}
}

func canonHex(n *cb.Node) string { return hex.EncodeToString(n.Canon().Encode()) }

// fake is an in-process plugin whose output is fixed in advance.
type fake struct {
	out *bytes.Reader
	in  bytes.Buffer
}

func (f *fake) Start() (io.Writer, io.Reader, error) { return &f.in, f.out, nil }
func (f *fake) Stop() error                          { return nil }
func (f *fake) GracefulStop(context.Context) error   { return nil }
func newFake(lines []string) *fake {
	var b strings.Builder
	b.WriteString("M" + b64("plug") + "\n")
	for _, t := range lines {
		l, ok := concrete(t)
		if !ok {
			break // EOF: the output ends here
		}
		b.WriteString(l + "\n")
	}
	return &fake{out: bytes.NewReader([]byte(b.String()))}
}

type capWriter struct {
	name string
	buf  bytes.Buffer
}

// Run executes one behaviour.
func Run(i int, b Behaviour) Result {
	r := Result{I: i, Role: b.Role, Lines: b.Lines, ExpRes: b.Res}
	for _, o := range b.Obs {
		if o.O == "yield" {
			r.Expected = append(r.Expected, "yield")
		} else {
			r.Expected = append(r.Expected, "msg:"+o.Name+":"+canonHex(node(o.Val)))
		}
	}
	f := newFake(b.Lines)
	done := make(chan struct{})
	go func() {
		defer close(done)
		defer func() {
			if p := recover(); p != nil {
				r.Panic = fmt.Sprintf("%v @ %s", p, world.TopLibFrame())
				r.Res = "crash"
			}
		}()
		ctx, cancel := context.WithTimeout(context.Background(), 5*time.Second)
		defer cancel()
		switch b.Role {
		case "device":
			var caps []*capWriter
			var order []any
			m := &plugin.DeviceModule{Module: f}
			err := m.Yield(ctx, func(name string) io.Writer {
				c := &capWriter{name: name}
				caps = append(caps, c)
				order = append(order, c)
				return &c.buf
			}, func() { order = append(order, "yield") })
			for _, o := range order {
				if c, ok := o.(*capWriter); ok {
					if c.buf.Len() == 0 {
						// respond() was called for the name, the value never arrived (the run is failing)
						continue
					}
					r.Obs = append(r.Obs, "msg:"+c.name+":"+reHex(c.buf.Bytes()))
				} else {
					r.Obs = append(r.Obs, "yield")
				}
			}
			if err != nil {
				r.Res, r.Err = "error", err.Error()
			} else {
				r.Res = "yield"
			}
		case "owner":
			m := &plugin.OwnerModule{Module: f}
			p := serviceinfo.NewProducer("plug", 1300)
			block, mdone, err := m.ProduceInfo(ctx, p)
			for _, kv := range p.ServiceInfo() {
				r.Obs = append(r.Obs, "msg:"+strings.TrimPrefix(kv.Key, "plug:")+":"+reHex(kv.Val))
			}
			switch {
			case err != nil:
				r.Res, r.Err = "error", err.Error()
			case block && !mdone:
				r.Res = "break"
			case mdone && !block:
				r.Res = "done"
			case !block && !mdone:
				r.Res = "yield"
			default:
				r.Res = "block+done"
			}
		}
	}()
	select {
	case <-done:
	case <-time.After(10 * time.Second):
		r.Hang = true
		r.Res = "hang"
	}
	// An error ends the module (and TO2): messages handed over before the error are not judged
	// beyond being a prefix of what the specification lists.
	r.Match = r.Res == r.ExpRes && sameObs(r.Obs, r.Expected, r.Res == "error")
	return r
}

func sameObs(got, want []string, prefixOK bool) bool {
	if len(got) != len(want) {
		if !(prefixOK && len(got) < len(want)) {
			return false
		}
	}
	for i := range got {
		if got[i] != want[i] {
			return false
		}
	}
	return true
}

// reHex canonicalises CBOR bytes through the reference codec.
func reHex(b []byte) string {
	n, err := cb.DecodeAll(b)
	if err != nil {
		return "undecodable:" + hex.EncodeToString(b)
	}
	return canonHex(n)
}

// ---- host -> plugin direction ------------------------------------------------------------------

// SendResult is the outcome of handing one value to the adapter for the plugin.
type SendResult struct {
	I     int    `json:"i"`
	Role  string `json:"role"`
	Value string `json:"value"` // hex of the CBOR handed to the adapter
	Back  string `json:"back"`  // hex of the value parsed back from the lines the plugin received
	Lines string `json:"lines"`
	Err   string `json:"err,omitempty"`
	Panic string `json:"panic,omitempty"`
	Match bool   `json:"match"`
}

// Send hands CBOR(v) to Receive / HandleInfo under message name "a" and parses what the plugin got.
func Send(i int, role string, v Val) SendResult {
	n := node(v)
	r := SendResult{I: i, Role: role, Value: canonHex(n)}
	f := newFake([]string{"Y"})
	func() {
		defer func() {
			if p := recover(); p != nil {
				r.Panic = fmt.Sprintf("%v @ %s", p, world.TopLibFrame())
			}
		}()
		ctx := context.Background()
		var err error
		switch role {
		case "device":
			m := &plugin.DeviceModule{Module: f}
			err = m.Receive(ctx, "a", bytes.NewReader(n.Encode()), func(string) io.Writer { return io.Discard }, func() {})
		case "owner":
			m := &plugin.OwnerModule{Module: f}
			// the owner adapter starts its plugin in ProduceInfo
			if _, _, perr := m.ProduceInfo(ctx, serviceinfo.NewProducer("plug", 1300)); perr != nil {
				err = perr
				break
			}
			err = m.HandleInfo(ctx, "a", bytes.NewReader(n.Encode()))
		}
		if err != nil {
			r.Err = err.Error()
		}
	}()
	r.Lines = f.in.String()
	if r.Panic != "" || r.Err != "" {
		return r
	}
	// what the plugin received: M (name request), [Y for the owner], then K a and the value
	ls := strings.Split(strings.TrimSpace(r.Lines), "\n")
	var rest []string
	seenK := false
	for _, l := range ls {
		if l == "" {
			continue // the protocol skips empty lines (integers and booleans are followed by one)
		}
		if seenK {
			rest = append(rest, l)
		} else if l == "K"+b64("a") {
			seenK = true
		}
	}
	if !seenK {
		r.Err = "plugin did not receive the message name"
		return r
	}
	back, used, err := parse(rest)
	if err != nil {
		r.Err = "lines do not parse: " + err.Error()
		return r
	}
	if used != len(rest) {
		r.Err = fmt.Sprintf("%d surplus lines after the value", len(rest)-used)
		return r
	}
	r.Back = canonHex(back)
	r.Match = r.Back == r.Value
	return r
}

// parse is the harness' own reader of the value grammar of the line protocol.
func parse(ls []string) (*cb.Node, int, error) {
	if len(ls) == 0 {
		return nil, 0, fmt.Errorf("no line")
	}
	l := ls[0]
	if l == "" {
		return nil, 0, fmt.Errorf("empty line")
	}
	arg := l[1:]
	switch l[0] {
	case '1':
		var v int64
		var u uint64
		if strings.HasPrefix(arg, "-") {
			if _, err := fmt.Sscanf(arg, "%d", &v); err != nil {
				return nil, 0, err
			}
			return cb.Int(v), 1, nil
		}
		if _, err := fmt.Sscanf(arg, "%d", &u); err != nil {
			return nil, 0, err
		}
		return cb.Uint(u), 1, nil
	case '2':
		d, err := base64.StdEncoding.DecodeString(arg)
		return cb.Bstr(d), 1, err
	case '3':
		d, err := base64.StdEncoding.DecodeString(arg)
		return cb.Tstr(string(d)), 1, err
	case '7':
		if arg == "1" {
			return cb.Bool(true), 1, nil
		}
		if arg == "0" {
			return cb.Bool(false), 1, nil
		}
		return nil, 0, fmt.Errorf("bad bool %q", arg)
	case '8':
		return cb.Null(), 1, nil
	case '6':
		var t uint64
		if _, err := fmt.Sscanf(arg, "%d", &t); err != nil {
			return nil, 0, err
		}
		kid, n, err := parse(ls[1:])
		if err != nil {
			return nil, 0, err
		}
		return cb.Tag(t, kid), n + 1, nil
	case '4', '5':
		var kids []*cb.Node
		i := 1
		for {
			if i >= len(ls) {
				return nil, 0, fmt.Errorf("collection not closed")
			}
			if ls[i] == "9" {
				i++
				break
			}
			kid, n, err := parse(ls[i:])
			if err != nil {
				return nil, 0, err
			}
			kids = append(kids, kid)
			i += n
		}
		if l[0] == '4' {
			return cb.Arr(kids...), i, nil
		}
		if len(kids)%2 != 0 {
			return nil, 0, fmt.Errorf("map with a dangling key")
		}
		return cb.Map(kids...), i, nil
	}
	return nil, 0, fmt.Errorf("unexpected line %q", l)
}

// ---- peer-supplied values (C10): whatever CBOR a peer puts into a service-info value, the adapter
// of a plugin-backed module returns an error or hands the plugin lines that parse back to the value.

// RandNode builds a random CBOR tree from a small seeded generator (depth-bounded).
func RandNode(next func(int) int, depth int) *cb.Node {
	k := next(14)
	if depth <= 0 && k >= 8 {
		k = next(8)
	}
	switch k {
	case 0:
		return cb.Uint(uint64(next(1000)))
	case 1:
		return cb.Uint(^uint64(0) - uint64(next(3))) // beyond int64
	case 2:
		return cb.Nint(uint64(next(1000)))
	case 3:
		return cb.Nint(^uint64(0) - uint64(next(3))) // below int64
	case 4:
		return cb.Bstr(bytes.Repeat([]byte{byte(next(256))}, next(40)))
	case 5:
		return cb.Tstr(strings.Repeat(string(rune('a'+next(26))), next(40)))
	case 6:
		return cb.Bool(next(2) == 0)
	case 7:
		switch next(4) {
		case 0:
			return cb.Null()
		case 1:
			return cb.Undefined()
		case 2:
			return &cb.Node{Major: 7, AI: 0xff, Val: uint64(next(20))} // simple value
		default:
			return &cb.Node{Major: 7, AI: 27, Val: 0x3ff8000000000000} // float64 1.5
		}
	case 8, 9:
		var kids []*cb.Node
		for i := next(5); i > 0; i-- {
			kids = append(kids, RandNode(next, depth-1))
		}
		return cb.Arr(kids...)
	case 10, 11:
		var kv []*cb.Node
		for i := next(4); i > 0; i-- {
			kv = append(kv, RandNode(next, depth-1), RandNode(next, depth-1)) // any key type
		}
		return cb.Map(kv...)
	default:
		return cb.Tag(uint64(next(3000)), RandNode(next, depth-1))
	}
}

// PeerResult is the outcome of one peer-supplied value.
type PeerResult struct {
	Role    string `json:"role"`
	Value   string `json:"value"`
	Outcome string `json:"outcome"` // error | delivered | altered | crash | hang
	Detail  string `json:"detail,omitempty"`
}

// Peer hands an arbitrary CBOR item to Receive / HandleInfo.
func Peer(role string, n *cb.Node) PeerResult {
	r := PeerResult{Role: role, Value: hex.EncodeToString(n.Encode())}
	f := newFake([]string{"Y"})
	done := make(chan struct{})
	var err error
	go func() {
		defer close(done)
		defer func() {
			if p := recover(); p != nil {
				r.Outcome = "crash"
				r.Detail = fmt.Sprintf("%v @ %s", p, world.TopLibFrame())
			}
		}()
		ctx := context.Background()
		switch role {
		case "device":
			m := &plugin.DeviceModule{Module: f}
			err = m.Receive(ctx, "a", bytes.NewReader(n.Encode()), func(string) io.Writer { return io.Discard }, func() {})
		case "owner":
			m := &plugin.OwnerModule{Module: f}
			if _, _, perr := m.ProduceInfo(ctx, serviceinfo.NewProducer("plug", 1300)); perr != nil {
				err = perr
				return
			}
			err = m.HandleInfo(ctx, "a", bytes.NewReader(n.Encode()))
		}
	}()
	select {
	case <-done:
	case <-time.After(20 * time.Second):
		r.Outcome = "hang"
		return r
	}
	if r.Outcome == "crash" {
		return r
	}
	if err != nil {
		r.Outcome, r.Detail = "error", err.Error()
		return r
	}
	var rest []string
	seenK := false
	for _, l := range strings.Split(strings.TrimSpace(f.in.String()), "\n") {
		if l == "" {
			continue
		}
		if seenK {
			rest = append(rest, l)
		} else if l == "K"+b64("a") {
			seenK = true
		}
	}
	back, used, perr := parse(rest)
	switch {
	case !seenK || perr != nil || used != len(rest):
		r.Outcome, r.Detail = "altered", fmt.Sprintf("lines do not parse back (%v)", perr)
	case canonHex(back) != canonHex(n):
		// undefined is documented to decode as null
		r.Outcome, r.Detail = "altered", "plugin received "+canonHex(back)
	default:
		r.Outcome = "delivered"
	}
	return r
}
