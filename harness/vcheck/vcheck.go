// Package vcheck replays the behaviours of spec/Voucher.tla (C04) against voucher.go: each
// symbolic adversary step is concretised on a real voucher (CBOR tree level, harness-owned keys),
// the library's verifiers are run, and the conjunction / owner key / extension outcome is compared
// with the verdict of the specification.
package vcheck

import (
	"bytes"
	"context"
	"crypto"
	"fmt"
	"sync"

	fdo "github.com/fido-device-onboard/go-fdo"
	"github.com/fido-device-onboard/go-fdo/cbor"
	"github.com/fido-device-onboard/go-fdo/protocol"

	"verifharness/cb"
	"verifharness/vforge"
	"verifharness/world"
)

// Op is one adversary step (as printed by Voucher_Gen.tla).
type Op struct {
	Op string `json:"op"`
	N  int    `json:"n,omitempty"`
	F  string `json:"f,omitempty"`
	I  int    `json:"i,omitempty"`
	J  int    `json:"j,omitempty"`
}

// Behaviour is one verdict line of the specification.
type Behaviour struct {
	Ops     []Op   `json:"ops"`
	Verify  bool   `json:"verify"`
	Owner   string `json:"owner"`
	Secrets bool   `json:"secrets"`
	Len     int    `json:"len"`
}

// Result of replaying one behaviour in one configuration.
type Result struct {
	Idx      int      `json:"idx"`
	Cfg      string   `json:"cfg"`
	Verify   bool     `json:"verify"`
	Vec      []string `json:"vec"` // failing verifiers
	Owner    string   `json:"owner"`
	Panic    string   `json:"panic,omitempty"`
	Decode   string   `json:"decode,omitempty"`
	Skipped  string   `json:"skipped,omitempty"`
	Mismatch string   `json:"mismatch,omitempty"`
}

// Env holds the real vouchers of one key configuration.
type Env struct {
	Name     string
	W        *world.World
	Dev      *world.Device
	Parties  map[string]*world.Party // mfg o1 o2 o3 stranger
	Honest   []*vforge.V             // by chain length 0..3
	Other    *vforge.V               // other device's voucher, length 3
	OtherDev *world.Device
	CredHash protocol.Hash
}

// NewEnv builds honest vouchers for a key kind and encoding.
func NewEnv(kind world.KeyKind, enc protocol.KeyEncoding, maxLen int) (*Env, error) {
	return NewEnvWith(world.Options{Kind: kind, Enc: enc}, maxLen)
}

// NewEnvWith is NewEnv with explicit world options.
func NewEnvWith(opt world.Options, maxLen int) (*Env, error) {
	ctx := context.Background()
	kind, enc := opt.Kind, opt.Enc
	w := world.New(opt)
	e := &Env{Name: fmt.Sprintf("%s/enc%d", kind, enc), W: w, Parties: map[string]*world.Party{"mfg": w.Mfg}}
	for _, n := range []string{"o1", "o2", "o3", "stranger"} {
		e.Parties[n] = w.Keys.NewParty(n, kind)
	}
	mk := func() (*world.Device, []*vforge.V, error) {
		d := w.NewDevice("")
		if _, err := w.RunDI(ctx, d, nil); err != nil {
			return nil, nil, err
		}
		ov, err := w.MfgStore.DB.Voucher(ctx, d.Cred.GUID)
		if err != nil {
			return nil, nil, err
		}
		var vs []*vforge.V
		chain := []*world.Party{w.Mfg, e.Parties["o1"], e.Parties["o2"], e.Parties["o3"]}
		for n := 0; n <= maxLen; n++ {
			if n > 0 {
				if ov, err = world.ExtendTo(ov, chain[n-1], chain[n]); err != nil {
					return nil, nil, err
				}
			}
			v, err := vforge.From(ov)
			if err != nil {
				return nil, nil, err
			}
			vs = append(vs, v)
		}
		return d, vs, nil
	}
	var err error
	if e.Dev, e.Honest, err = mk(); err != nil {
		return nil, err
	}
	var others []*vforge.V
	if e.OtherDev, others, err = mk(); err != nil {
		return nil, err
	}
	e.Other = others[len(others)-1]
	e.CredHash = e.Dev.Cred.PublicKeyHash
	return e, nil
}

// Close releases the world.
func (e *Env) Close() { e.W.Close() }

func (e *Env) partyOfKey(pk *cb.Node) string {
	for name, p := range e.Parties {
		for _, enc := range []protocol.KeyEncoding{protocol.X509KeyEnc, protocol.X5ChainKeyEnc, protocol.CoseKeyEnc} {
			if enc == protocol.CoseKeyEnc && p.Kind.IsRSA() {
				continue
			}
			b, err := cbor.Marshal(p.PublicKey(enc))
			if err == nil && bytes.Equal(b, pk.Canon().Encode()) {
				return name
			}
		}
	}
	return ""
}

func (e *Env) signerOf(v *vforge.V, i int) (vforge.Signer, bool) {
	var pk *cb.Node
	if i == 0 {
		pk = v.Header().Kids[4]
	} else {
		pk = v.EntryPayload(i - 1).Kids[3]
	}
	name := e.partyOfKey(pk)
	if name == "" {
		return vforge.Signer{}, false
	}
	p := e.Parties[name]
	return vforge.Signer{Key: p.Key, PSS: p.Kind.PSS()}, true
}

func flipAt(b []byte, at int) []byte {
	o := append([]byte(nil), b...)
	if len(o) == 0 {
		return []byte{1}
	}
	o[at%len(o)] ^= 0x01
	return o
}

func (e *Env) pubNode(name string, like *cb.Node) *cb.Node {
	enc := protocol.KeyEncoding(like.Kids[1].Val)
	b, _ := cbor.Marshal(e.Parties[name].PublicKey(enc))
	n, _ := cb.DecodeAll(b)
	return n
}

// Apply concretises one adversary step (i, j are 1-based as in the specification).
func (e *Env) Apply(v *vforge.V, op Op, ord int) error {
	ents := v.T.Kids[4]
	flip := func(b []byte, at int) []byte { return flipAt(b, at+3*ord) }
	switch op.Op {
	case "alter_hdr":
		h := v.Header()
		switch op.F {
		case "hver":
			h.Kids[0] = cb.Uint(e.Honest[0].Header().Kids[0].Val + 1)
		case "guid":
			// derived from the honest value, not from the current one: applying the alteration twice
			// (Voucher.tla: alterations are idempotent) gives the same header, also with a Remac between
			h.Kids[1] = cb.Bstr(flipAt(e.Honest[0].Header().Kids[1].Bytes, 5))
		case "rv":
			h.Kids[2] = cb.Arr(cb.Arr(cb.Arr(cb.Uint(3), cb.Bstr([]byte{0x19, 0x01, 0xbb}))))
		case "info":
			h.Kids[3] = cb.Tstr(string(e.Honest[0].Header().Kids[3].Bytes) + "x")
		case "mfgKey":
			h.Kids[4] = e.pubNode("stranger", h.Kids[4])
		case "cchash":
			h.Kids[5].Kids[1] = cb.Bstr(flipAt(e.Honest[0].Header().Kids[5].Kids[1].Bytes, 2))
		}
		v.SetHeader(h)
	case "alter_outer":
		v.T.Kids[0] = cb.Uint(e.Honest[0].T.Kids[0].Val - 1)
	case "alter_hmac":
		if op.F == "val" {
			v.Hmac().Kids[1] = cb.Bstr(flip(v.Hmac().Kids[1].Bytes, 7))
		} else {
			// declare the other HMAC algorithm than the honest voucher does (idempotent)
			if e.Honest[0].Hmac().Kids[0].Val == 5 {
				v.Hmac().Kids[0] = cb.Uint(6)
			} else {
				v.Hmac().Kids[0] = cb.Uint(5)
			}
		}
	case "alter_chain":
		v.T.Kids[3] = e.Other.T.Kids[3].Clone()
	case "alter_entry":
		i := op.I - 1
		if i >= len(ents.Kids) {
			return fmt.Errorf("no entry %d", op.I)
		}
		ent := v.Entry(i).Untag()
		switch op.F {
		case "sig":
			ent.Kids[3] = cb.Bstr(flip(ent.Kids[3].Bytes, 9))
		case "prot":
			m := ent.Kids[0].MustInner()
			m.MapSet(99, cb.Uint(1))
			ent.Kids[0].SetInner(m.Canon())
		case "uhdr":
			ent.Kids[1].MapSet(99, cb.Uint(1))
		default:
			p := v.EntryPayload(i)
			switch op.F {
			case "prev":
				p.Kids[0].Kids[1] = cb.Bstr(flip(p.Kids[0].Kids[1].Bytes, 3))
			case "hh":
				p.Kids[1].Kids[1] = cb.Bstr(flip(p.Kids[1].Kids[1].Bytes, 3))
			case "extra":
				p.Kids[2] = cb.Wrap(cb.Map(cb.Uint(1), cb.Bstr([]byte{0})))
			case "pub":
				p.Kids[3] = e.pubNode("stranger", p.Kids[3])
			}
			v.SetEntryPayload(i, p)
		}
	case "swap":
		i, j := op.I-1, op.J-1
		ents.Kids[i], ents.Kids[j] = ents.Kids[j], ents.Kids[i]
	case "dup":
		ents.Kids = append(ents.Kids, ents.Kids[op.I-1].Clone())
		ents.AI = 0xff
	case "drop":
		i := op.I - 1
		ents.Kids = append(append([]*cb.Node(nil), ents.Kids[:i]...), ents.Kids[i+1:]...)
		ents.AI = 0xff
	case "splice_entry":
		ents.Kids[op.I-1] = e.Other.Entry(op.I - 1).Clone()
	case "splice_header":
		v.T.Kids[1] = e.Other.T.Kids[1].Clone()
		v.T.Kids[2] = e.Other.T.Kids[2].Clone()
	case "remac":
		return v.Remac(e.Dev.Secret)
	case "repair", "fixsig":
		for k := op.I - 1; k < v.NumEntries(); k++ {
			if op.Op == "fixsig" && k == op.I-1 {
				// keep the (altered) payload of this entry, only sign it
			} else if err := v.Rehash(k); err != nil {
				return err
			}
			s, ok := e.signerOf(v, k)
			if !ok {
				return fmt.Errorf("unknown signer for entry %d", k+1)
			}
			if err := v.Resign(k, s); err != nil {
				return err
			}
		}
		return nil
	default:
		return fmt.Errorf("unknown op %q", op.Op)
	}
	return nil
}

func guard(name string, out *[]string, pan *string, f func() error) {
	defer func() {
		if r := recover(); r != nil {
			*pan = fmt.Sprintf("%s: %v @ %s", name, r, world.TopLibFrame())
			*out = append(*out, name)
		}
	}()
	if err := f(); err != nil {
		*out = append(*out, name)
	}
}

// Verdict runs the library's verifiers on the encoded voucher.
func (e *Env) Verdict(enc []byte) (ok bool, failing []string, owner string, pan string, decodeErr string) {
	var ov fdo.Voucher
	func() {
		defer func() {
			if r := recover(); r != nil {
				pan = fmt.Sprintf("decode: %v @ %s", r, world.TopLibFrame())
			}
		}()
		if err := cbor.Unmarshal(enc, &ov); err != nil {
			decodeErr = err.Error()
		}
	}()
	if pan != "" || decodeErr != "" {
		return false, []string{"decode"}, "", pan, decodeErr
	}
	h256, h384 := e.Dev.Hmacs()
	guard("VerifyHeader", &failing, &pan, func() error { return ov.VerifyHeader(h256, h384) })
	guard("VerifyManufacturerKey", &failing, &pan, func() error { return ov.VerifyManufacturerKey(e.CredHash) })
	guard("VerifyCertChainHash", &failing, &pan, func() error { return ov.VerifyCertChainHash() })
	guard("VerifyDeviceCertChain", &failing, &pan, func() error { return ov.VerifyDeviceCertChain(nil) })
	guard("VerifyEntries", &failing, &pan, func() error { return ov.VerifyEntries() })
	var dummy []string
	guard("OwnerPublicKey", &dummy, &pan, func() error {
		pk, err := ov.OwnerPublicKey()
		if err != nil {
			return err
		}
		for name, p := range e.Parties {
			if eq, ok := p.Key.Public().(interface{ Equal(crypto.PublicKey) bool }); ok && eq.Equal(pk) {
				owner = name
			}
		}
		return nil
	})
	return len(failing) == 0, failing, owner, pan, ""
}

// Replay runs all behaviours in the environment.
func (e *Env) Replay(bs []Behaviour, workers int) []Result {
	res := make([]Result, len(bs))
	var wg sync.WaitGroup
	ch := make(chan int)
	for w := 0; w < workers; w++ {
		wg.Add(1)
		go func() {
			defer wg.Done()
			for i := range ch {
				res[i] = e.one(i, bs[i])
			}
		}()
	}
	for i := range bs {
		ch <- i
	}
	close(ch)
	wg.Wait()
	return res
}

func (e *Env) one(idx int, b Behaviour) Result {
	r := Result{Idx: idx, Cfg: e.Name}
	if len(b.Ops) == 0 || b.Ops[0].Op != "init" || b.Ops[0].N >= len(e.Honest) {
		r.Skipped = "bad init"
		return r
	}
	v := e.Honest[b.Ops[0].N].Clone()
	for k, op := range b.Ops[1:] {
		if err := e.Apply(v, op, k); err != nil {
			r.Skipped = err.Error()
			return r
		}
	}
	ok, failing, owner, pan, dec := e.Verdict(v.Bytes())
	r.Verify, r.Vec, r.Owner, r.Panic, r.Decode = ok, failing, owner, pan, dec
	switch {
	case pan != "":
		r.Mismatch = "panic"
	case ok != b.Verify:
		r.Mismatch = fmt.Sprintf("verify: spec=%v impl=%v failing=%v", b.Verify, ok, failing)
	case ok && owner != b.Owner:
		r.Mismatch = fmt.Sprintf("owner: spec=%s impl=%s", b.Owner, owner)
	}
	return r
}
