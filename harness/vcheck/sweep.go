package vcheck

import (
	"bytes"
	"crypto/ecdsa"
	"crypto/elliptic"
	"crypto/rand"
	"fmt"
	mrand "math/rand"
	"sync"

	fdo "github.com/fido-device-onboard/go-fdo"
	"github.com/fido-device-onboard/go-fdo/cbor"

	"verifharness/cb"
	"verifharness/vforge"
	"verifharness/world"
)

// SweepResult summarises the bit-level data layer for one voucher.
type SweepResult struct {
	Cfg       string   `json:"cfg"`
	Len       int      `json:"len"`
	Bytes     int      `json:"bytes"`
	Flips     int      `json:"flips"`
	Bound     int      `json:"bound"`
	Unbound   int      `json:"unbound"`
	Noops     int      `json:"noops"`
	Rejected  int      `json:"rejected"`
	Accepted  []string `json:"accepted"` // bound bit flips that still verify: violations
	Panics    []string `json:"panics"`
}

type span struct{ a, b int }

// unboundSpans returns the byte ranges the property declares unbound: the outer protocol version
// and the entries' unprotected header maps.
func unboundSpans(v *vforge.V, raw []byte) ([]span, error) {
	t, err := cb.DecodeAll(raw)
	if err != nil {
		return nil, err
	}
	sp := []span{{t.Kids[0].Start, t.Kids[0].End}}
	for _, e := range t.Kids[4].Kids {
		u := e.Untag().Kids[1]
		sp = append(sp, span{u.Start, u.End})
	}
	return sp, nil
}

// BitSweep flips single bits of the encoded honest voucher of length n (every bit when step = 1,
// otherwise a seeded sample of every step-th bit) and requires every bound flip to be rejected.
func (e *Env) BitSweep(n int, step int, seed int64, workers int) (*SweepResult, error) {
	v := e.Honest[n]
	raw := v.Bytes()
	sp, err := unboundSpans(v, raw)
	if err != nil {
		return nil, err
	}
	isUnbound := func(off int) bool {
		for _, s := range sp {
			if off >= s.a && off < s.b {
				return true
			}
		}
		return false
	}
	res := &SweepResult{Cfg: e.Name, Len: n, Bytes: len(raw)}
	rng := mrand.New(mrand.NewSource(seed))
	var bits []int
	for bit := 0; bit < len(raw)*8; bit++ {
		if step <= 1 || rng.Intn(step) == 0 {
			bits = append(bits, bit)
		}
	}
	var mu sync.Mutex
	var wg sync.WaitGroup
	ch := make(chan int)
	for w := 0; w < workers; w++ {
		wg.Add(1)
		go func() {
			defer wg.Done()
			for bit := range ch {
				m := append([]byte(nil), raw...)
				m[bit/8] ^= 1 << (bit % 8)
				ok, _, _, pan, _ := e.Verdict(m)
				unb := isUnbound(bit / 8)
				noop := false
				if ok && !unb {
					// effective? (the code verifies re-encoded values: DESIGN 1.4 rule 3)
					var ov fdo.Voucher
					if err := cbor.Unmarshal(m, &ov); err == nil {
						if re, err := cbor.Marshal(&ov); err == nil && bytes.Equal(re, raw) {
							noop = true
						}
					}
				}
				mu.Lock()
				res.Flips++
				switch {
				case pan != "":
					res.Panics = append(res.Panics, fmt.Sprintf("bit %d: %s", bit, pan))
				case unb:
					res.Unbound++
				case noop:
					res.Noops++
				case ok:
					res.Bound++
					res.Accepted = append(res.Accepted, fmt.Sprintf("bit %d (byte %d of %d)", bit, bit/8, len(raw)))
				default:
					res.Bound++
					res.Rejected++
				}
				mu.Unlock()
			}
		}()
	}
	for _, b := range bits {
		ch <- b
	}
	close(ch)
	wg.Wait()
	return res, nil
}

// ExtCase is one extension attempt.
type ExtCase struct {
	Cfg      string `json:"cfg"`
	Len      int    `json:"len"`
	Signer   string `json:"signer"`
	Next     string `json:"next"`
	Expect   bool   `json:"expect"`
	Got      bool   `json:"got"`
	Verifies bool   `json:"verifies"`
	Err      string `json:"err,omitempty"`
	Panic    string `json:"panic,omitempty"`
}

// ExtendMatrix tries every signer and next-owner key class on every honest voucher:
// Voucher.tla CanExtend(w, signer, next) == signer = OwnerKey(w) /\ type(next) = type(mfg key).
func (e *Env) ExtendMatrix() []ExtCase {
	var out []ExtCase
	owners := []string{"mfg", "o1", "o2", "o3"}
	kind := e.W.Opt.Kind
	other := world.P384
	if kind == world.P384 {
		other = world.P256
	}
	otherSize := world.RSA2048
	if kind.Bits() == 2048 {
		otherSize = world.PKCS3072
	}
	nexts := map[string]*world.Party{
		"same":        world.NewParty("next", kind),
		"otherFamily": world.NewParty("nextF", map[bool]world.KeyKind{true: world.P256, false: world.RSA2048}[kind.IsRSA()]),
	}
	if kind.IsRSA() {
		nexts["otherSize"] = world.NewParty("nextS", otherSize)
	} else {
		nexts["otherSize"] = world.NewParty("nextS", other)
	}
	_ = ecdsa.PublicKey{}
	_ = elliptic.P256
	_ = rand.Reader
	for n, hv := range e.Honest {
		ov, err := hv.Voucher()
		if err != nil {
			continue
		}
		for signer, p := range e.Parties {
			for nname, next := range nexts {
				c := ExtCase{Cfg: e.Name, Len: n, Signer: signer, Next: nname}
				c.Expect = signer == owners[n] && nname == "same"
				func() {
					defer func() {
						if r := recover(); r != nil {
							c.Panic = fmt.Sprintf("%v @ %s", r, world.TopLibFrame())
						}
					}()
					x, err := world.ExtendTo(ov, p, next)
					if err != nil {
						c.Err = err.Error()
						return
					}
					c.Got = true
					b, err := cbor.Marshal(x)
					if err == nil {
						ok, _, owner, _, _ := e.Verdict(b)
						_ = owner
						c.Verifies = ok
					}
				}()
				out = append(out, c)
			}
		}
	}
	return out
}
