package main

import (
	"encoding/json"
	"flag"
	"fmt"
	mrand "math/rand"
	"os"
	"runtime"

	"verifharness/srvexec"
)

func init() {
	// vh srv-replay -in behaviours.json -out trace.ndjson
	commands["srv-replay"] = func(args []string) int {
		fs := flag.NewFlagSet("srv-replay", flag.ExitOnError)
		in := fs.String("in", "", "behaviours JSON")
		out := fs.String("out", "", "trace NDJSON")
		workers := fs.Int("workers", runtime.NumCPU(), "parallel worlds")
		_ = fs.Parse(args)
		data, err := os.ReadFile(*in)
		if err != nil {
			fmt.Fprintln(os.Stderr, err)
			return 2
		}
		var bs []srvexec.Behaviour
		if err := json.Unmarshal(data, &bs); err != nil {
			fmt.Fprintln(os.Stderr, err)
			return 2
		}
		if err := srvexec.RunBehaviours(bs, *out, *workers); err != nil {
			fmt.Fprintln(os.Stderr, err)
			return 2
		}
		return 0
	}
	// vh srv-random -n 200 -len 12 -seed 1 -cfgs cfgs.json -forge forge.json -out trace.ndjson -behaviours b.json
	commands["srv-random"] = func(args []string) int {
		fs := flag.NewFlagSet("srv-random", flag.ExitOnError)
		n := fs.Int("n", 100, "number of behaviours")
		ln := fs.Int("len", 12, "actions per behaviour")
		seed := fs.Int64("seed", 1, "seed")
		cfgs := fs.String("cfgs", "", "JSON list of configs")
		forge := fs.String("forge", "{}", "JSON map type -> atoms")
		out := fs.String("out", "", "trace NDJSON")
		bout := fs.String("behaviours", "", "where to save the drawn behaviours")
		workers := fs.Int("workers", runtime.NumCPU(), "parallel worlds")
		focus := fs.Int("focus", 0, "message type whose forgeries get extra weight (64, 22, 32)")
		restarts := fs.Int("restarts", 2, "percentage of steps that restart the server side")
		_ = fs.Parse(args)
		var cs []srvexec.Config
		if err := json.Unmarshal([]byte(*cfgs), &cs); err != nil || len(cs) == 0 {
			fmt.Fprintln(os.Stderr, "bad -cfgs", err)
			return 2
		}
		fm := map[string][]string{}
		if err := json.Unmarshal([]byte(*forge), &fm); err != nil {
			fmt.Fprintln(os.Stderr, "bad -forge", err)
			return 2
		}
		f2 := map[int][]string{}
		for k, v := range fm {
			var t int
			fmt.Sscan(k, &t)
			f2[t] = v
		}
		rng := mrand.New(mrand.NewSource(*seed))
		var bs []srvexec.Behaviour
		for i := 0; i < *n; i++ {
			c := cs[i%len(cs)]
			c.Seed = rng.Int63()
			bs = append(bs, srvexec.RandomBehaviour(rng, c, *ln, f2, *focus, *restarts))
		}
		if *bout != "" {
			data, _ := json.Marshal(bs)
			_ = os.WriteFile(*bout, data, 0o644)
		}
		if err := srvexec.RunBehaviours(bs, *out, *workers); err != nil {
			fmt.Fprintln(os.Stderr, err)
			return 2
		}
		return 0
	}
}
