package main

import (
	"bufio"
	"encoding/json"
	"flag"
	"fmt"
	"os"
	"runtime"
	"sync"

	"verifharness/cliexec"
	"verifharness/srvexec"
)

func init() {
	// vh cli-mutate -in cases.json -out events.ndjson
	commands["cli-mutate"] = func(args []string) int {
		fs := flag.NewFlagSet("cli-mutate", flag.ExitOnError)
		in := fs.String("in", "", "cases JSON")
		out := fs.String("out", "", "events NDJSON")
		workers := fs.Int("workers", runtime.NumCPU(), "parallel worlds")
		_ = fs.Parse(args)
		data, err := os.ReadFile(*in)
		if err != nil {
			fmt.Fprintln(os.Stderr, err)
			return 2
		}
		var cases []cliexec.Case
		if err := json.Unmarshal(data, &cases); err != nil {
			fmt.Fprintln(os.Stderr, err)
			return 2
		}
		res := make([]cliexec.Event, len(cases))
		ch := make(chan int)
		var wg sync.WaitGroup
		for w := 0; w < *workers; w++ {
			wg.Add(1)
			go func() {
				defer wg.Done()
				for i := range ch {
					res[i] = cliexec.Run(i+1, cases[i])
				}
			}()
		}
		for i := range cases {
			ch <- i
		}
		close(ch)
		wg.Wait()
		f, err := os.Create(*out)
		if err != nil {
			fmt.Fprintln(os.Stderr, err)
			return 2
		}
		defer f.Close()
		w := bufio.NewWriter(f)
		defer w.Flush()
		enc := json.NewEncoder(w)
		for _, ev := range res {
			_ = enc.Encode(ev)
		}
		return 0
	}
	// vh srv-meter -in behaviours.json -out trace.ndjson : like srv-replay, one world at a time, with
	// allocation metering around every handler call
	commands["srv-meter"] = func(args []string) int {
		fs := flag.NewFlagSet("srv-meter", flag.ExitOnError)
		in := fs.String("in", "", "behaviours JSON")
		out := fs.String("out", "", "trace NDJSON")
		_ = fs.Parse(args)
		data, err := os.ReadFile(*in)
		if err != nil {
			fmt.Fprintln(os.Stderr, err)
			return 2
		}
		var bs []srvexec.Behaviour
		if err := json.Unmarshal(data, &bs); err != nil {
			fmt.Fprintln(os.Stderr, err)
			return 2
		}
		srvexec.MeterAll = true
		if err := srvexec.RunBehaviours(bs, *out, 1); err != nil {
			fmt.Fprintln(os.Stderr, err)
			return 2
		}
		return 0
	}
}
