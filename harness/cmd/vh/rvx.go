package main

import (
	"flag"
	"fmt"
	"os"
	"strconv"

	"verifharness/rvx"
)

func init() {
	// vh rv-replay -in behaviours.json -out report.json [-rounds 2] [-fuzz 20000]
	// Replays RvInfo.tla behaviours against protocol.ParseDeviceRvInfo / ParseOwnerRvInfo (C20).
	commands["rv-replay"] = func(args []string) int {
		fs := flag.NewFlagSet("rv-replay", flag.ExitOnError)
		in := fs.String("in", "", "behaviours JSON (list)")
		out := fs.String("out", "", "report JSON")
		rounds := fs.Int("rounds", 2, "concretizations per behaviour of length >= 2")
		fuzz := fs.Int("fuzz", 20000, "totality-only random instruction lists")
		_ = fs.Parse(args)
		seed, _ := strconv.ParseInt(os.Getenv("VERIF_SEED"), 10, 64)
		if seed == 0 {
			seed = 1
		}
		if err := rvx.Run(*in, *out, seed, *rounds, *fuzz); err != nil {
			fmt.Fprintln(os.Stderr, err)
			return 2
		}
		return 0
	}
}
