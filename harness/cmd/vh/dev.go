package main

import (
	"encoding/json"
	"flag"
	"fmt"
	"os"
	"runtime"
	"strings"
	"sync"

	"github.com/fido-device-onboard/go-fdo/protocol"

	"verifharness/devexec"
	"verifharness/world"
)

func init() {
	// vh dev-replay -in cases.json -out outcomes.json   (each case names its configuration)
	commands["dev-replay"] = func(args []string) int {
		fs := flag.NewFlagSet("dev-replay", flag.ExitOnError)
		in := fs.String("in", "", "cases JSON")
		out := fs.String("out", "", "outcomes JSON")
		workers := fs.Int("workers", runtime.NumCPU(), "parallel environments")
		_ = fs.Parse(args)
		data, err := os.ReadFile(*in)
		if err != nil {
			fmt.Fprintln(os.Stderr, err)
			return 2
		}
		var cases []devexec.Case
		if err := json.Unmarshal(data, &cases); err != nil {
			fmt.Fprintln(os.Stderr, err)
			return 2
		}
		outs := make([]devexec.Outcome, len(cases))
		byCfg := map[string][]int{}
		for i, c := range cases {
			byCfg[c.Cfg] = append(byCfg[c.Cfg], i)
		}
		for cfg, idxs := range byCfg {
			parts := strings.Split(cfg, "/")
			var enc int
			fmt.Sscan(parts[1], &enc)
			n := *workers
			if n > len(idxs) {
				n = len(idxs)
			}
			ch := make(chan int)
			var wg sync.WaitGroup
			var failed error
			var mu sync.Mutex
			for w := 0; w < n; w++ {
				wg.Add(1)
				go func() {
					defer wg.Done()
					env, err := devexec.NewEnv(world.KeyKind(parts[0]), protocol.KeyEncoding(enc))
					if err != nil {
						mu.Lock()
						failed = err
						mu.Unlock()
						for range ch {
						}
						return
					}
					defer env.Close()
					for i := range ch {
						outs[i] = env.Run(i, cases[i])
					}
				}()
			}
			for _, i := range idxs {
				ch <- i
			}
			close(ch)
			wg.Wait()
			if failed != nil {
				fmt.Fprintln(os.Stderr, "env", cfg, failed)
				return 2
			}
		}
		data, _ = json.Marshal(outs)
		if err := os.WriteFile(*out, data, 0o644); err != nil {
			fmt.Fprintln(os.Stderr, err)
			return 2
		}
		return 0
	}
}
