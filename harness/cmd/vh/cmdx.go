package main

import (
	"encoding/json"
	"flag"
	"fmt"
	"os"
	"runtime"

	"verifharness/cmdx"
)

func init() {
	// vh cmd-replay -in cases.json -out trace.ndjson
	commands["cmd-replay"] = func(args []string) int {
		fs := flag.NewFlagSet("cmd-replay", flag.ExitOnError)
		in := fs.String("in", "", "cases JSON (sessions of commands: programs, requests, MTUs, device policy)")
		out := fs.String("out", "", "trace NDJSON")
		workers := fs.Int("workers", runtime.NumCPU(), "parallel worlds")
		_ = fs.Parse(args)
		data, err := os.ReadFile(*in)
		if err != nil {
			fmt.Fprintln(os.Stderr, err)
			return 2
		}
		var cs []cmdx.Case
		if err := json.Unmarshal(data, &cs); err != nil {
			fmt.Fprintln(os.Stderr, err)
			return 2
		}
		if err := cmdx.RunCases(cs, *out, *workers); err != nil {
			fmt.Fprintln(os.Stderr, err)
			return 2
		}
		return 0
	}
}
