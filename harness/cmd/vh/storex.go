package main

import (
	"bufio"
	"encoding/json"
	"flag"
	"fmt"
	mrand "math/rand"
	"os"
	"runtime"
	"sync"

	"verifharness/storex"
)

func init() {
	// vh store-run -n 100 -len 40 -seed 1 [-in histories.json] -out trace.ndjson
	commands["store-run"] = func(args []string) int {
		fs := flag.NewFlagSet("store-run", flag.ExitOnError)
		n := fs.Int("n", 50, "random histories")
		ln := fs.Int("len", 40, "operations per random history")
		seed := fs.Int64("seed", 1, "seed")
		in := fs.String("in", "", "optional JSON list of op lists (TLC-generated)")
		out := fs.String("out", "", "trace NDJSON")
		workers := fs.Int("workers", runtime.NumCPU(), "parallel stores")
		_ = fs.Parse(args)
		var hists [][]storex.Op
		if *in != "" {
			data, err := os.ReadFile(*in)
			if err != nil {
				fmt.Fprintln(os.Stderr, err)
				return 2
			}
			if err := json.Unmarshal(data, &hists); err != nil {
				fmt.Fprintln(os.Stderr, err)
				return 2
			}
		}
		rng := mrand.New(mrand.NewSource(*seed))
		for i := 0; i < *n; i++ {
			hists = append(hists, storex.RandomHistory(rng, *ln))
		}
		res := make([][]storex.Event, len(hists))
		var firstErr error
		var mu sync.Mutex
		ch := make(chan int)
		var wg sync.WaitGroup
		for w := 0; w < *workers; w++ {
			wg.Add(1)
			go func() {
				defer wg.Done()
				for i := range ch {
					e, err := storex.New(i+1, int(*seed)+i)
					if err != nil {
						mu.Lock()
						firstErr = err
						mu.Unlock()
						continue
					}
					for _, op := range hists[i] {
						e.Do(op)
					}
					res[i] = e.Events
					e.Close()
				}
			}()
		}
		for i := range hists {
			ch <- i
		}
		close(ch)
		wg.Wait()
		if firstErr != nil {
			fmt.Fprintln(os.Stderr, firstErr)
			return 2
		}
		f, err := os.Create(*out)
		if err != nil {
			fmt.Fprintln(os.Stderr, err)
			return 2
		}
		defer f.Close()
		w := bufio.NewWriter(f)
		defer w.Flush()
		enc := json.NewEncoder(w)
		for i, evs := range res {
			_ = enc.Encode(map[string]any{"op": "reset", "run": i + 1})
			for _, ev := range evs {
				_ = enc.Encode(ev)
			}
		}
		return 0
	}
}
