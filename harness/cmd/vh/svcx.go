package main

import (
	"encoding/json"
	"flag"
	"fmt"
	"os"
	"runtime"

	"verifharness/svcx"
)

func init() {
	// vh svc-replay -in cases.json -out trace.ndjson
	commands["svc-replay"] = func(args []string) int {
		fs := flag.NewFlagSet("svc-replay", flag.ExitOnError)
		in := fs.String("in", "", "cases JSON (module scripts with MTUs)")
		out := fs.String("out", "", "trace NDJSON")
		workers := fs.Int("workers", runtime.NumCPU(), "parallel worlds")
		_ = fs.Parse(args)
		data, err := os.ReadFile(*in)
		if err != nil {
			fmt.Fprintln(os.Stderr, err)
			return 2
		}
		var cs []svcx.Case
		if err := json.Unmarshal(data, &cs); err != nil {
			fmt.Fprintln(os.Stderr, err)
			return 2
		}
		if err := svcx.RunCases(cs, *out, *workers); err != nil {
			fmt.Fprintln(os.Stderr, err)
			return 2
		}
		return 0
	}
}
