// vh is the harness binary: one subcommand per conformance runner.
package main

import (
	"context"
	"fmt"
	"os"
	"time"

	"verifharness/world"
)

var commands = map[string]func(args []string) int{}

func main() {
	if len(os.Args) < 2 {
		fmt.Fprintln(os.Stderr, "usage: vh <command> [args]")
		os.Exit(2)
	}
	cmd, ok := commands[os.Args[1]]
	if !ok {
		fmt.Fprintln(os.Stderr, "unknown command", os.Args[1])
		os.Exit(2)
	}
	code := cmd(os.Args[2:])
	if os.Getenv("VERIF_SCRATCH") == "" {
		_ = os.RemoveAll(world.ScratchRoot())
	}
	os.Exit(code)
}

func init() {
	commands["smoke"] = func(args []string) int {
		ctx := context.Background()
		for _, kind := range world.AllKeyKinds {
			t0 := time.Now()
			w := world.New(world.Options{Kind: kind})
			d, err := w.Onboard0(ctx, "")
			if err != nil {
				fmt.Println(kind, "onboard0:", err)
				return 1
			}
			if _, err := w.RunTO0(ctx, d.Cred.GUID, 3600, nil); err != nil {
				fmt.Println(kind, "TO0:", err)
				return 1
			}
			to1d, err := w.RunTO1(ctx, d, nil)
			if err != nil {
				fmt.Println(kind, "TO1:", err)
				return 1
			}
			cred, err := w.RunTO2(ctx, d, to1d, world.TO2Opts{}, nil)
			if err != nil {
				fmt.Println(kind, "TO2:", err)
				return 1
			}
			fmt.Println(kind, "ok", cred != nil, time.Since(t0), len(w.J.Since(0)))
			w.Close()
		}
		return 0
	}
}
