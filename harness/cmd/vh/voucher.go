package main

import (
	"encoding/json"
	"flag"
	"fmt"
	"os"
	"runtime"
	"strings"

	"github.com/fido-device-onboard/go-fdo/protocol"

	"verifharness/vcheck"
	"verifharness/world"
)

func init() {
	// vh voucher-replay -in behaviours.json -out results.json -cfgs P256/1,P384/2 -sweep 1 -seed 1
	commands["voucher-replay"] = func(args []string) int {
		fs := flag.NewFlagSet("voucher-replay", flag.ExitOnError)
		in := fs.String("in", "", "behaviours JSON (list)")
		out := fs.String("out", "", "results JSON")
		cfgs := fs.String("cfgs", "P256/1", "comma separated kind/encoding")
		step := fs.Int("sweep", 64, "bit sweep: 1 = every bit, n = every n-th bit on average, 0 = off")
		extcfgs := fs.String("extcfgs", "", "comma separated kind/encoding for which only the extension matrix is run")
		seed := fs.Int64("seed", 1, "seed")
		full := fs.Int("full", 1000, "the first N configurations replay every behaviour; the others share them (each behaviour on one of them)")
		_ = fs.Parse(args)
		data, err := os.ReadFile(*in)
		if err != nil {
			fmt.Fprintln(os.Stderr, err)
			return 2
		}
		var bs []vcheck.Behaviour
		if err := json.Unmarshal(data, &bs); err != nil {
			fmt.Fprintln(os.Stderr, err)
			return 2
		}
		type outT struct {
			Results []vcheck.Result       `json:"results"`
			Sweeps  []*vcheck.SweepResult `json:"sweeps"`
			Extend  []vcheck.ExtCase      `json:"extend"`
			Replayed int                  `json:"replayed"`
		}
		var o outT
		cfgList := strings.Split(*cfgs, ",")
		for ci, c := range cfgList {
			var kind string
			var enc int
			parts := strings.Split(c, "/")
			kind = parts[0]
			fmt.Sscan(parts[1], &enc)
			env, err := vcheck.NewEnv(world.KeyKind(kind), protocol.KeyEncoding(enc), 3)
			if err != nil {
				fmt.Fprintln(os.Stderr, "env", c, err)
				return 2
			}
			mine, orig := bs, []int(nil)
			if ci >= *full && len(cfgList) > *full {
				mine = nil
				for i := range bs {
					if i%(len(cfgList)-*full) == ci-*full {
						mine = append(mine, bs[i])
						orig = append(orig, i)
					}
				}
			}
			rs := env.Replay(mine, runtime.NumCPU())
			for _, r := range rs {
				if orig != nil {
					r.Idx = orig[r.Idx]
				}
				if r.Skipped == "" {
					o.Replayed++
				}
				if r.Mismatch != "" || r.Skipped != "" {
					o.Results = append(o.Results, r)
				}
			}
			if *step > 0 {
				for n := range env.Honest {
					s, err := env.BitSweep(n, *step, *seed+int64(n), runtime.NumCPU())
					if err != nil {
						fmt.Fprintln(os.Stderr, "sweep", err)
						return 2
					}
					o.Sweeps = append(o.Sweeps, s)
				}
			}
			o.Extend = append(o.Extend, env.ExtendMatrix()...)
			env.Close()
		}
		for _, c := range strings.Split(*extcfgs, ",") {
			if c == "" || strings.Contains(","+*cfgs+",", ","+c+",") {
				continue
			}
			parts := strings.Split(c, "/")
			var enc int
			fmt.Sscan(parts[1], &enc)
			env, err := vcheck.NewEnv(world.KeyKind(parts[0]), protocol.KeyEncoding(enc), 3)
			if err != nil {
				fmt.Fprintln(os.Stderr, "env", c, err)
				return 2
			}
			o.Extend = append(o.Extend, env.ExtendMatrix()...)
			env.Close()
		}
		data, _ = json.Marshal(o)
		if err := os.WriteFile(*out, data, 0o644); err != nil {
			fmt.Fprintln(os.Stderr, err)
			return 2
		}
		return 0
	}
}
