package main

import (
	"encoding/json"
	"flag"
	"fmt"
	"os"
	"runtime"

	"verifharness/fsimx"
)

func init() {
	// vh fsim-replay -in cases.json -out trace.ndjson
	commands["fsim-replay"] = func(args []string) int {
		fs := flag.NewFlagSet("fsim-replay", flag.ExitOnError)
		in := fs.String("in", "", "cases JSON (transfers with sizes, MTUs and corruption)")
		out := fs.String("out", "", "trace NDJSON")
		workers := fs.Int("workers", runtime.NumCPU(), "parallel worlds")
		_ = fs.Parse(args)
		data, err := os.ReadFile(*in)
		if err != nil {
			fmt.Fprintln(os.Stderr, err)
			return 2
		}
		var cs []fsimx.Case
		if err := json.Unmarshal(data, &cs); err != nil {
			fmt.Fprintln(os.Stderr, err)
			return 2
		}
		if err := fsimx.RunCases(cs, *out, *workers); err != nil {
			fmt.Fprintln(os.Stderr, err)
			return 2
		}
		return 0
	}
}
