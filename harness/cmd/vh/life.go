package main

import (
	"bufio"
	"encoding/json"
	"flag"
	"fmt"
	"os"
	"runtime"
	"sync"

	"verifharness/lifeexec"
)

func init() {
	// vh life-replay -in histories.json -out trace.ndjson
	commands["life-replay"] = func(args []string) int {
		fs := flag.NewFlagSet("life-replay", flag.ExitOnError)
		in := fs.String("in", "", "histories JSON: [{cfg, actions}]")
		out := fs.String("out", "", "trace NDJSON")
		workers := fs.Int("workers", runtime.NumCPU(), "parallel worlds")
		_ = fs.Parse(args)
		data, err := os.ReadFile(*in)
		if err != nil {
			fmt.Fprintln(os.Stderr, err)
			return 2
		}
		type hist struct {
			Cfg     lifeexec.Config   `json:"cfg"`
			Actions []lifeexec.Action `json:"actions"`
		}
		var hs []hist
		if err := json.Unmarshal(data, &hs); err != nil {
			fmt.Fprintln(os.Stderr, err)
			return 2
		}
		res := make([][]lifeexec.Event, len(hs))
		ch := make(chan int)
		var wg sync.WaitGroup
		for w := 0; w < *workers; w++ {
			wg.Add(1)
			go func() {
				defer wg.Done()
				for i := range ch {
					e := lifeexec.New(hs[i].Cfg, i+1)
					for _, a := range hs[i].Actions {
						e.Do(a)
					}
					res[i] = e.Events
					e.Close()
				}
			}()
		}
		for i := range hs {
			ch <- i
		}
		close(ch)
		wg.Wait()
		f, err := os.Create(*out)
		if err != nil {
			fmt.Fprintln(os.Stderr, err)
			return 2
		}
		defer f.Close()
		w := bufio.NewWriter(f)
		defer w.Flush()
		enc := json.NewEncoder(w)
		for i, evs := range res {
			_ = enc.Encode(map[string]any{"a": "reset", "run": i + 1, "aio": hs[i].Cfg.AIO})
			for _, ev := range evs {
				_ = enc.Encode(ev)
			}
		}
		return 0
	}
}
