package main

import (
	"encoding/json"
	"flag"
	"fmt"
	"os"
	"runtime"
	"strconv"
	"strings"
	"time"

	"verifharness/chunkx"
)

func init() {
	// vh chunk-replay -in behaviours.json -out trace.ndjson -verdicts verdicts.json
	commands["chunk-replay"] = func(args []string) int {
		fs := flag.NewFlagSet("chunk-replay", flag.ExitOnError)
		in := fs.String("in", "", "behaviours JSON (from Chunk_Gen)")
		out := fs.String("out", "", "trace NDJSON")
		verd := fs.String("verdicts", "", "verdicts JSON")
		workers := fs.Int("workers", runtime.NumCPU(), "parallel runs")
		_ = fs.Parse(args)
		data, err := os.ReadFile(*in)
		if err != nil {
			fmt.Fprintln(os.Stderr, err)
			return 2
		}
		var bs []chunkx.Behaviour
		if err := json.Unmarshal(data, &bs); err != nil {
			fmt.Fprintln(os.Stderr, err)
			return 2
		}
		ps := make([]chunkx.Params, len(bs))
		for i := range bs {
			ps[i] = bs[i].Params
		}
		results, err := chunkx.RunAll(ps, *out, *workers, 10*time.Second)
		if err != nil {
			fmt.Fprintln(os.Stderr, err)
			return 2
		}
		if *verd != "" {
			if err := chunkx.WriteJSON(*verd, chunkx.Compare(bs, results)); err != nil {
				fmt.Fprintln(os.Stderr, err)
				return 2
			}
		}
		return 0
	}
	// vh chunk-sweep -out trace.ndjson -params params.json [-thorough] [-seed n] [-limit n] [-procs 1,4,16]
	commands["chunk-sweep"] = func(args []string) int {
		fs := flag.NewFlagSet("chunk-sweep", flag.ExitOnError)
		out := fs.String("out", "", "trace NDJSON")
		pout := fs.String("params", "", "where to save the parameters of the runs")
		thorough := fs.Bool("thorough", false, "dense grid")
		seed := fs.Int64("seed", 1, "seed")
		limit := fs.Int("limit", 0, "cap on the number of runs (random subset)")
		procs := fs.String("procs", "", "comma separated GOMAXPROCS values; the runs are split among them")
		workers := fs.Int("workers", runtime.NumCPU(), "parallel runs")
		_ = fs.Parse(args)
		ps := chunkx.SweepParams(*thorough, *seed, *limit)
		if *pout != "" {
			if err := chunkx.WriteJSON(*pout, ps); err != nil {
				fmt.Fprintln(os.Stderr, err)
				return 2
			}
		}
		var pv []int
		for _, s := range strings.Split(*procs, ",") {
			if n, err := strconv.Atoi(strings.TrimSpace(s)); err == nil && n > 0 {
				pv = append(pv, n)
			}
		}
		if len(pv) == 0 {
			pv = []int{runtime.GOMAXPROCS(0)}
		}
		// split the runs into consecutive slices, one per GOMAXPROCS value
		f, err := os.Create(*out)
		if err != nil {
			fmt.Fprintln(os.Stderr, err)
			return 2
		}
		defer f.Close()
		per := (len(ps) + len(pv) - 1) / len(pv)
		for i, n := range pv {
			lo, hi := i*per, (i+1)*per
			if lo > len(ps) {
				lo = len(ps)
			}
			if hi > len(ps) {
				hi = len(ps)
			}
			old := runtime.GOMAXPROCS(n)
			w := *workers
			if n < w {
				w = 2 * n
			}
			results, err := chunkx.RunAll(ps[lo:hi], "", w, 10*time.Second)
			runtime.GOMAXPROCS(old)
			if err != nil {
				fmt.Fprintln(os.Stderr, err)
				return 2
			}
			for _, r := range results {
				if _, err := f.Write(chunkx.MarshalEvents(r.Events)); err != nil {
					fmt.Fprintln(os.Stderr, err)
					return 2
				}
			}
		}
		fmt.Println("runs", len(ps))
		return 0
	}
	// vh chunk-cancel -n 200 -out outcomes.json: cancellation runs (Pipeline.tla with Cancel = TRUE)
	commands["chunk-cancel"] = func(args []string) int {
		fs := flag.NewFlagSet("chunk-cancel", flag.ExitOnError)
		n := fs.Int("n", 200, "runs per configuration")
		out := fs.String("out", "", "outcomes JSON")
		_ = fs.Parse(args)
		var all []chunkx.CancelOutcome
		hangs := 0
		for _, buffers := range []int{0, 1, 2, 1000} {
			for _, stop := range []bool{true, false} {
				for i := 0; i < *n && hangs < 5; i++ { // every hang costs a watchdog period
					o := chunkx.CancelRun(buffers, 1+i%3, stop, i%5, 6)
					if o.Outcome == "hang" {
						hangs++
					}
					all = append(all, o)
				}
			}
		}
		if err := chunkx.WriteJSON(*out, all); err != nil {
			fmt.Fprintln(os.Stderr, err)
			return 2
		}
		return 0
	}
}
