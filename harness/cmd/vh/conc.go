package main

import (
	"bufio"
	"encoding/json"
	"flag"
	"fmt"
	"os"

	"verifharness/concx"
)

func init() {
	// vh conc -n 16 -seed 1 -kind P256 -record -delays -out report.json -trace trace.ndjson
	commands["conc"] = func(args []string) int {
		fs := flag.NewFlagSet("conc", flag.ExitOnError)
		n := fs.Int("n", 8, "devices")
		seed := fs.Int64("seed", 1, "seed")
		kind := fs.String("kind", "P256", "key kind")
		record := fs.Bool("record", false, "record exchanges for trace validation")
		delays := fs.Bool("delays", true, "inject delays at transport and module callbacks")
		dis := fs.Int("dis", 4, "additional concurrent device initialisations")
		out := fs.String("out", "", "report JSON")
		trace := fs.String("trace", "", "trace NDJSON")
		_ = fs.Parse(args)
		rep, err := concx.Run(concx.Options{N: *n, Seed: *seed, Kind: *kind, Record: *record, Delays: *delays, ExtraDIs: *dis})
		if err != nil {
			fmt.Fprintln(os.Stderr, err)
			return 2
		}
		data, _ := json.Marshal(rep)
		if err := os.WriteFile(*out, data, 0o644); err != nil {
			fmt.Fprintln(os.Stderr, err)
			return 2
		}
		if *trace != "" {
			f, err := os.Create(*trace)
			if err != nil {
				fmt.Fprintln(os.Stderr, err)
				return 2
			}
			w := bufio.NewWriter(f)
			enc := json.NewEncoder(w)
			_ = enc.Encode(map[string]any{"kind": "reset", "run": 1, "reuse": false, "nmods": 1})
			for _, ev := range rep.Events {
				ev.Run = 1
				_ = enc.Encode(ev)
			}
			_ = w.Flush()
			_ = f.Close()
		}
		return 0
	}
}

func init() {
	// vh conc-iso -in mixes.json -out events.ndjson
	commands["conc-iso"] = func(args []string) int {
		fs := flag.NewFlagSet("conc-iso", flag.ExitOnError)
		in := fs.String("in", "", "mixes JSON (list of concx.IsoMix)")
		out := fs.String("out", "", "events NDJSON")
		_ = fs.Parse(args)
		data, err := os.ReadFile(*in)
		if err != nil {
			fmt.Fprintln(os.Stderr, err)
			return 2
		}
		var mixes []concx.IsoMix
		if err := json.Unmarshal(data, &mixes); err != nil {
			fmt.Fprintln(os.Stderr, err)
			return 2
		}
		if err := concx.RunIsoMixes(mixes, *out); err != nil {
			fmt.Fprintln(os.Stderr, err)
			return 2
		}
		return 0
	}
}

func init() {
	// vh conc-pipe -in cases.json -out events.ndjson -workers 6
	commands["conc-pipe"] = func(args []string) int {
		fs := flag.NewFlagSet("conc-pipe", flag.ExitOnError)
		in := fs.String("in", "", "cases JSON (list of concx.PipeCase)")
		out := fs.String("out", "", "events NDJSON")
		workers := fs.Int("workers", 6, "parallel worlds")
		_ = fs.Parse(args)
		data, err := os.ReadFile(*in)
		if err != nil {
			fmt.Fprintln(os.Stderr, err)
			return 2
		}
		var cases []concx.PipeCase
		if err := json.Unmarshal(data, &cases); err != nil {
			fmt.Fprintln(os.Stderr, err)
			return 2
		}
		if err := concx.RunPipeCases(cases, *out, *workers); err != nil {
			fmt.Fprintln(os.Stderr, err)
			return 2
		}
		return 0
	}
}
