package main

import (
	"flag"
	"fmt"
	"os"
	"runtime"
	"strconv"

	"verifharness/cosex"
)

func init() {
	// vh cose-replay -in behaviours.json -out report.json
	// Replays Cose.tla behaviours against cose.Sign1 / cose.Mac0 (C13). Tier from VERIF_TIER.
	commands["cose-replay"] = func(args []string) int {
		fs := flag.NewFlagSet("cose-replay", flag.ExitOnError)
		in := fs.String("in", "", "behaviours JSON (list)")
		out := fs.String("out", "", "report JSON")
		opts := fs.String("opts", "", "signer-options combinations JSON (list; Cose.tla SignOpts with the allowed outcomes)")
		workers := fs.Int("workers", runtime.NumCPU(), "parallel configurations")
		_ = fs.Parse(args)
		seed, _ := strconv.ParseInt(os.Getenv("VERIF_SEED"), 10, 64)
		if seed == 0 {
			seed = 1
		}
		if err := cosex.Run(*in, *opts, *out, seed, os.Getenv("VERIF_TIER") == "thorough", *workers); err != nil {
			fmt.Fprintln(os.Stderr, err)
			return 2
		}
		return 0
	}
}
