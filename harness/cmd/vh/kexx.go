package main

import (
	"encoding/json"
	"flag"
	"fmt"
	"os"
	"runtime"

	"verifharness/kexx"
)

func init() {
	// vh kex-replay -in scripts.json -out results.ndjson [-full] [-maxinst n]
	commands["kex-replay"] = func(args []string) int {
		fs := flag.NewFlagSet("kex-replay", flag.ExitOnError)
		in := fs.String("in", "", "scripts JSON (behaviours of Kex_Gen.tla)")
		out := fs.String("out", "", "results NDJSON")
		full := fs.Bool("full", false, "exhaustive expansion of the degenerate classes")
		maxInst := fs.Int("maxinst", 0, "cap on concrete instances per degenerate script (0: all)")
		workers := fs.Int("workers", runtime.NumCPU(), "parallel workers")
		_ = fs.Parse(args)
		data, err := os.ReadFile(*in)
		if err != nil {
			fmt.Fprintln(os.Stderr, err)
			return 2
		}
		var scripts []kexx.Script
		if err := json.Unmarshal(data, &scripts); err != nil {
			fmt.Fprintln(os.Stderr, err)
			return 2
		}
		if err := kexx.Replay(scripts, *out, *full, *maxInst, *workers); err != nil {
			fmt.Fprintln(os.Stderr, err)
			return 2
		}
		return 0
	}
	// vh kex-kdf -jobs jobs.json -out results.ndjson
	commands["kex-kdf"] = func(args []string) int {
		fs := flag.NewFlagSet("kex-kdf", flag.ExitOnError)
		in := fs.String("jobs", "", "JSON list of {Suite,Cipher,LibRole,Variant,OwnerIdx}")
		out := fs.String("out", "", "results NDJSON")
		workers := fs.Int("workers", runtime.NumCPU(), "parallel workers")
		_ = fs.Parse(args)
		if err := kexx.GroupCheck(); err != nil {
			fmt.Fprintln(os.Stderr, "reference self-test failed:", err)
			return 2
		}
		data, err := os.ReadFile(*in)
		if err != nil {
			fmt.Fprintln(os.Stderr, err)
			return 2
		}
		var jobs []kexx.KdfJob
		if err := json.Unmarshal(data, &jobs); err != nil {
			fmt.Fprintln(os.Stderr, err)
			return 2
		}
		if err := kexx.KdfRun(jobs, *out, *workers); err != nil {
			fmt.Fprintln(os.Stderr, err)
			return 2
		}
		return 0
	}
}
