package main

import (
	"encoding/json"
	"flag"
	"fmt"
	"math/rand"
	"os"
	"runtime"
	"sync"

	"verifharness/devmodx"
	"verifharness/pluginx"
)

func init() {
	// vh plugin-replay -in behaviours.json -out results.json
	commands["plugin-replay"] = func(args []string) int {
		fs := flag.NewFlagSet("plugin-replay", flag.ExitOnError)
		in := fs.String("in", "", "behaviours JSON (list printed by Plugin_Gen)")
		out := fs.String("out", "", "results JSON")
		_ = fs.Parse(args)
		data, err := os.ReadFile(*in)
		if err != nil {
			fmt.Fprintln(os.Stderr, err)
			return 2
		}
		var bs []pluginx.Behaviour
		if err := json.Unmarshal(data, &bs); err != nil {
			fmt.Fprintln(os.Stderr, err)
			return 2
		}
		res := make([]pluginx.Result, len(bs))
		var wg sync.WaitGroup
		ch := make(chan int)
		for w := 0; w < runtime.NumCPU(); w++ {
			wg.Add(1)
			go func() {
				defer wg.Done()
				for i := range ch {
					res[i] = pluginx.Run(i, bs[i])
				}
			}()
		}
		for i := range bs {
			ch <- i
		}
		close(ch)
		wg.Wait()
		// host -> plugin direction: every distinct value the specification delivered
		seen := map[string]bool{}
		var sends []pluginx.SendResult
		for _, b := range bs {
			for _, o := range b.Obs {
				if o.O != "msg" {
					continue
				}
				k, _ := json.Marshal(o.Val)
				if seen[string(k)] {
					continue
				}
				seen[string(k)] = true
				for _, role := range []string{"device", "owner"} {
					sends = append(sends, pluginx.Send(len(sends), role, o.Val))
				}
			}
		}
		f, err := os.Create(*out)
		if err != nil {
			fmt.Fprintln(os.Stderr, err)
			return 2
		}
		defer f.Close()
		if err := json.NewEncoder(f).Encode(map[string]any{"results": res, "sends": sends}); err != nil {
			fmt.Fprintln(os.Stderr, err)
			return 2
		}
		return 0
	}
}

func init() {
	// vh plugin-peer -n N -seed S -out results.json : peer-supplied CBOR values into plugin-backed modules
	commands["plugin-peer"] = func(args []string) int {
		fs := flag.NewFlagSet("plugin-peer", flag.ExitOnError)
		n := fs.Int("n", 2000, "values")
		seed := fs.Int64("seed", 1, "seed")
		out := fs.String("out", "", "results JSON")
		_ = fs.Parse(args)
		rng := rand.New(rand.NewSource(*seed))
		var res []pluginx.PeerResult
		for i := 0; i < *n; i++ {
			node := pluginx.RandNode(rng.Intn, 3)
			for _, role := range []string{"device", "owner"} {
				res = append(res, pluginx.Peer(role, node))
			}
		}
		f, err := os.Create(*out)
		if err != nil {
			fmt.Fprintln(os.Stderr, err)
			return 2
		}
		defer f.Close()
		_ = json.NewEncoder(f).Encode(res)
		return 0
	}
}

func init() {
	// vh devmod-seq -n N -seed S -out results.json : scripted devmod sequences from a proven device (C10)
	commands["devmod-seq"] = func(args []string) int {
		fs := flag.NewFlagSet("devmod-seq", flag.ExitOnError)
		n := fs.Int("n", 0, "number of scripts (0: all)")
		seed := fs.Int64("seed", 1, "seed")
		out := fs.String("out", "", "results JSON")
		_ = fs.Parse(args)
		all := devmodx.Scripts()
		rng := rand.New(rand.NewSource(*seed))
		rng.Shuffle(len(all), func(i, j int) { all[i], all[j] = all[j], all[i] })
		if *n > 0 && *n < len(all) {
			all = all[:*n]
		}
		res := make([]devmodx.Result, len(all))
		var wg sync.WaitGroup
		ch := make(chan int)
		for w := 0; w < runtime.NumCPU(); w++ {
			wg.Add(1)
			go func() {
				defer wg.Done()
				for i := range ch {
					res[i] = devmodx.Run(all[i])
				}
			}()
		}
		for i := range all {
			ch <- i
		}
		close(ch)
		wg.Wait()
		f, err := os.Create(*out)
		if err != nil {
			fmt.Fprintln(os.Stderr, err)
			return 2
		}
		defer f.Close()
		_ = json.NewEncoder(f).Encode(map[string]any{"total": len(devmodx.Scripts()), "results": res})
		return 0
	}
}
