package main

import (
	"encoding/json"
	"flag"
	"fmt"
	"os"
	"runtime"

	"verifharness/cborx"
)

func writeJSON(path string, v any) int {
	data, err := json.Marshal(v)
	if err != nil {
		fmt.Fprintln(os.Stderr, err)
		return 2
	}
	if err := os.WriteFile(path, data, 0o644); err != nil {
		fmt.Fprintln(os.Stderr, err)
		return 2
	}
	return 0
}

func init() {
	// vh cbor-replay -in behaviours.json -out results.json [-messages N] [-seed S]
	// C11: replay TLC behaviours (script, expected canonical bytes) into go-fdo/cbor in every Go shape,
	// then seeded message structures (encode/decode/encode stability, reference codec agreement).
	commands["cbor-replay"] = func(args []string) int {
		fs := flag.NewFlagSet("cbor-replay", flag.ExitOnError)
		in := fs.String("in", "", "behaviours JSON (list of {script, bytes})")
		out := fs.String("out", "", "results JSON")
		msgs := fs.Int("messages", 50, "instances per message type")
		seed := fs.Int64("seed", 1, "seed for the message generators")
		workers := fs.Int("workers", runtime.NumCPU(), "parallel workers")
		_ = fs.Parse(args)
		data, err := os.ReadFile(*in)
		if err != nil {
			fmt.Fprintln(os.Stderr, err)
			return 2
		}
		var bs []cborx.Behaviour
		if err := json.Unmarshal(data, &bs); err != nil {
			fmt.Fprintln(os.Stderr, err)
			return 2
		}
		res := cborx.Replay(bs, *workers)
		if *msgs > 0 {
			if err := cborx.ReplayMessages(res, *seed, *msgs); err != nil {
				fmt.Fprintln(os.Stderr, err)
				return 2
			}
		}
		return writeJSON(*out, res)
	}
}
