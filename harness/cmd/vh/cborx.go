package main

import (
	"encoding/json"
	"flag"
	"fmt"
	"os"
	"path/filepath"
	"runtime"
	"strings"

	"verifharness/cborx"
)

func writeJSON(path string, v any) int {
	data, err := json.Marshal(v)
	if err != nil {
		fmt.Fprintln(os.Stderr, err)
		return 2
	}
	if err := os.WriteFile(path, data, 0o644); err != nil {
		fmt.Fprintln(os.Stderr, err)
		return 2
	}
	return 0
}

func init() {
	// vh cbor-replay -in behaviours.json -out results.json [-messages N] [-seed S]
	// C11: replay TLC behaviours (script, expected canonical bytes) into go-fdo/cbor in every Go shape,
	// then seeded message structures (encode/decode/encode stability, reference codec agreement).
	commands["cbor-replay"] = func(args []string) int {
		fs := flag.NewFlagSet("cbor-replay", flag.ExitOnError)
		in := fs.String("in", "", "behaviours JSON (list of {script, bytes})")
		out := fs.String("out", "", "results JSON")
		msgs := fs.Int("messages", 50, "instances per message type")
		seed := fs.Int64("seed", 1, "seed for the message generators")
		workers := fs.Int("workers", runtime.NumCPU(), "parallel workers")
		_ = fs.Parse(args)
		data, err := os.ReadFile(*in)
		if err != nil {
			fmt.Fprintln(os.Stderr, err)
			return 2
		}
		var bs []cborx.Behaviour
		if err := json.Unmarshal(data, &bs); err != nil {
			fmt.Fprintln(os.Stderr, err)
			return 2
		}
		res := cborx.Replay(bs, *workers)
		if *msgs > 0 {
			if err := cborx.ReplayMessages(res, *seed, *msgs); err != nil {
				fmt.Fprintln(os.Stderr, err)
				return 2
			}
		}
		return writeJSON(*out, res)
	}

	// vh cbor-decode-sweep -out results.json [-table table.json] [-tier quick|thorough] [-seed S] [-workers N]
	// C12: every byte string of length <= 3 (thorough) or <= 2 plus samples (quick), the inputs of the TLC
	// verdict table, seeded random/mutated/adversarial strings up to 64 KiB, against every decode target in
	// stream and whole-buffer mode; each call under recover, a watchdog and an allocation meter. The work is
	// done by single-threaded child processes (the allocation meter is process wide).
	commands["cbor-decode-sweep"] = func(args []string) int {
		fs := flag.NewFlagSet("cbor-decode-sweep", flag.ExitOnError)
		out := fs.String("out", "", "results JSON")
		table := fs.String("table", "", "TLC verdict table (JSON list of BEHAVIOUR objects of Cbor_Tab.tla)")
		nest := fs.String("nest", "", "output of Cbor_Nest.tla (JSON list of BEHAVIOUR objects): schemas of the targets and nested-item cases")
		tier := fs.String("tier", os.Getenv("VERIF_TIER"), "quick | thorough")
		seed := fs.Int64("seed", 1, "seed")
		workers := fs.Int("workers", runtime.NumCPU(), "child processes")
		sample3 := fs.Int("sample3", 2048, "quick tier: number of random 2-byte prefixes whose 256 extensions are run")
		nseeded := fs.Int("nseeded", 0, "number of seeded random/mutated/adversarial inputs (0: by tier)")
		isChild := fs.Bool("child", false, "internal: run one shard")
		job := fs.String("job", "", "internal")
		shard := fs.Int("shard", 0, "internal")
		of := fs.Int("of", 1, "internal")
		from := fs.Int("from", 0, "internal")
		partial := fs.String("partial", "", "internal")
		status := fs.String("status", "", "internal")
		skip := fs.String("skip", "", "internal")
		bad := fs.String("bad", "", "internal")
		_ = fs.Parse(args)
		if *isChild {
			var sk []string
			if *skip != "" {
				sk = strings.Split(*skip, ",")
			}
			return cborx.RunChild(*job, *shard, *of, *from, sk, *partial, *status, *bad)
		}
		if *tier == "" {
			*tier = "quick"
		}
		if *nseeded == 0 {
			*nseeded = 3000
			if *tier == "thorough" {
				*nseeded = 60000
			}
		}
		self, err := os.Executable()
		if err != nil {
			fmt.Fprintln(os.Stderr, err)
			return 2
		}
		dir, err := os.MkdirTemp(filepath.Dir(*out), "sweep-")
		if err != nil {
			fmt.Fprintln(os.Stderr, err)
			return 2
		}
		defer os.RemoveAll(dir)
		res, err := cborx.RunSweep(cborx.SweepOpts{Tier: *tier, Seed: *seed, Table: *table, Nest: *nest, Out: *out, Workers: *workers,
			Sample3: *sample3, NSeeded: *nseeded, Self: self, Dir: dir})
		if err != nil {
			fmt.Fprintln(os.Stderr, err)
			return 2
		}
		return writeJSON(*out, res)
	}
}
