package main

import (
	"encoding/json"
	"flag"
	"fmt"
	"os"
	"runtime"

	"verifharness/tunnelx"
)

func init() {
	// vh tunnel-replay -jobs jobs.json -out results.ndjson
	commands["tunnel-replay"] = func(args []string) int {
		fs := flag.NewFlagSet("tunnel-replay", flag.ExitOnError)
		in := fs.String("jobs", "", "JSON list of unit jobs (suite, cipher, classes, seed, full, k)")
		out := fs.String("out", "", "results NDJSON")
		workers := fs.Int("workers", runtime.NumCPU(), "parallel workers")
		_ = fs.Parse(args)
		data, err := os.ReadFile(*in)
		if err != nil {
			fmt.Fprintln(os.Stderr, err)
			return 2
		}
		var jobs []tunnelx.UnitJob
		if err := json.Unmarshal(data, &jobs); err != nil {
			fmt.Fprintln(os.Stderr, err)
			return 2
		}
		if err := tunnelx.RunUnits(jobs, *out, *workers); err != nil {
			fmt.Fprintln(os.Stderr, err)
			return 2
		}
		return 0
	}
	// vh tunnel-system -runs runs.json -out events.ndjson
	commands["tunnel-system"] = func(args []string) int {
		fs := flag.NewFlagSet("tunnel-system", flag.ExitOnError)
		in := fs.String("runs", "", "JSON list of runs (suite, cipher, type, occ, class, seed)")
		out := fs.String("out", "", "events NDJSON")
		workers := fs.Int("workers", runtime.NumCPU(), "parallel workers")
		_ = fs.Parse(args)
		data, err := os.ReadFile(*in)
		if err != nil {
			fmt.Fprintln(os.Stderr, err)
			return 2
		}
		var runs []tunnelx.SysRun
		if err := json.Unmarshal(data, &runs); err != nil {
			fmt.Fprintln(os.Stderr, err)
			return 2
		}
		if err := tunnelx.RunSystem(runs, *out, *workers); err != nil {
			fmt.Fprintln(os.Stderr, err)
			return 2
		}
		return 0
	}
}
