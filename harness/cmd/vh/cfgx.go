package main

import (
	"encoding/json"
	"flag"
	"fmt"
	"os"
	"runtime"
	"sync"

	"verifharness/cfgx"
)

func init() {
	// vh cfg-replay -in cases.json -out results.json
	commands["cfg-replay"] = func(args []string) int {
		fs := flag.NewFlagSet("cfg-replay", flag.ExitOnError)
		in := fs.String("in", "", "cases JSON")
		out := fs.String("out", "", "results JSON")
		workers := fs.Int("workers", runtime.NumCPU(), "parallel chains")
		_ = fs.Parse(args)
		data, err := os.ReadFile(*in)
		if err != nil {
			fmt.Fprintln(os.Stderr, err)
			return 2
		}
		var cases []cfgx.Case
		if err := json.Unmarshal(data, &cases); err != nil {
			fmt.Fprintln(os.Stderr, err)
			return 2
		}
		res := make([]cfgx.Result, len(cases))
		ch := make(chan int)
		var wg sync.WaitGroup
		for w := 0; w < *workers; w++ {
			wg.Add(1)
			go func() {
				defer wg.Done()
				for i := range ch {
					res[i] = cfgx.Run(i, cases[i])
				}
			}()
		}
		for i := range cases {
			ch <- i
		}
		close(ch)
		wg.Wait()
		data, _ = json.Marshal(res)
		if err := os.WriteFile(*out, data, 0o644); err != nil {
			fmt.Fprintln(os.Stderr, err)
			return 2
		}
		return 0
	}
}
