// genkeys writes the RSA key pool used by the harness (one-off; the PEM files are committed).
package main

import (
	"crypto/rand"
	"crypto/rsa"
	"crypto/x509"
	"encoding/pem"
	"fmt"
	"os"
	"sync"
)

func main() {
	dir := os.Args[1]
	var wg sync.WaitGroup
	for _, bits := range []int{2048, 3072} {
		for i := 0; i < 16; i++ {
			wg.Add(1)
			go func() {
				defer wg.Done()
				k, err := rsa.GenerateKey(rand.Reader, bits)
				if err != nil {
					panic(err)
				}
				der, _ := x509.MarshalPKCS8PrivateKey(k)
				_ = os.WriteFile(fmt.Sprintf("%s/rsa%d_%d.pem", dir, bits, i), pem.EncodeToMemory(&pem.Block{Type: "PRIVATE KEY", Bytes: der}), 0o644)
			}()
		}
	}
	wg.Wait()
}
