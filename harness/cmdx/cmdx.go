// Package cmdx runs the real fdo.command module pair (fsim.RunCommand owner module, fsim.Command device
// module) inside a real fdo.TO2 / fdo.TO2Server pair with real processes (check X02, Command.tla).
//
// One case is one TO2 SESSION: a sequence of commands (one fsim.RunCommand owner module each) through ONE
// instance of fsim.Command, as TO2 does it. Every command is a `/bin/sh -c` script generated here from a
// list of write operations (which stream, how many complete lines, how long, an unterminated tail), the way
// it ends (exit code, killing itself with a signal, waiting for a signal the owner sends) and its
// arguments, so the harness knows exactly which bytes the command wrote to which stream. Wrappers between
// the library and the two modules record every message either module is handed and every message it sends,
// the device records whether the command had begun to run when a message arrived (a marker file the script
// creates first), and at the end of every command what the owner's Stdout / Stderr writers and ExitChan
// received. The events go to an NDJSON trace for Command_Trace.tla.
//
// Ordering: events of one side are recorded in the order that side makes its calls; the two sides are
// ordered only by causality (one recorder lock). Nothing is ordered by wall-clock time; the only timers are
// watchdogs: Case.TimeoutMs for the whole TO2 (default 120 s), Case.CmdTimeoutMs for fsim.Command.Timeout
// (default 60 s) and the bound of a script that waits for a signal (40 s), all far above what a case needs
// (tens of milliseconds) and reaching any of them is reported as such (`watchdog`).
package cmdx

import (
	"bufio"
	"bytes"
	"context"
	"encoding/json"
	"fmt"
	"io"
	"os"
	"path/filepath"
	"strings"
	"sync"
	"time"

	fdo "github.com/fido-device-onboard/go-fdo"
	"github.com/fido-device-onboard/go-fdo/cbor"
	"github.com/fido-device-onboard/go-fdo/fsim"
	"github.com/fido-device-onboard/go-fdo/serviceinfo"

	"verifharness/world"
)

// Op is one write operation of a command's program: Lines complete lines of Len bytes each (newline
// included) followed by Tail bytes without a newline, written to stream Fd with one write.
type Op struct {
	Fd    int `json:"fd"` // 1 stdout | 2 stderr
	Lines int `json:"lines"`
	Len   int `json:"len"`
	Tail  int `json:"tail"`
}

// Cmd is one command of a session.
type Cmd struct {
	Ops []Op `json:"ops"`
	// End: "code" (exit Code) | "selfkill" (the script kills itself with signal Sig) | "wait" (the script
	// waits for a signal; with Trap it handles TERM by writing a line to stdout and exiting with Code)
	End  string `json:"end"`
	Code int    `json:"code"`
	Sig  int    `json:"sig"`
	Trap bool   `json:"trap"`
	// OwnerSig: the signal put on RunCommand.Signals once the script is waiting (0: none)
	OwnerSig int  `json:"owner_sig"`
	MayFail  bool `json:"may_fail"`
	WantOut  bool `json:"want_out"`
	WantErr  bool `json:"want_err"`
	// Name: "sh" (the generated script) | "empty" (RunCommand.Command = "") | "nosuch" (a program that does
	// not exist on the device)
	Name   string `json:"name"`
	NArgs  int    `json:"nargs"`  // extra arguments after the script
	ArgLen int    `json:"arglen"` // bytes per extra argument
	// ArgMode pads the args with further arguments until their marshalled size is: "" as it is | "reserve"
	// just below what the first 69 can carry (the args fit, the flags do not: fewer than 100 bytes are left) |
	// "chunk2" / "chunk3" what two / three 69s carry
	ArgMode string `json:"argmode"`
	// passed through to the trace: the abstract way the command ends (Command.tla: exit0 | exitN | selfkill |
	// sigtrap | sigkill | timeout), the scenario class, the verdict of the specification
	Kind   string `json:"kind"`
	Class  string `json:"class"`
	Expect string `json:"expect"`
}

// Case is one TO2 session.
type Case struct {
	ID     int    `json:"id"`
	DevMTU uint16 `json:"dev_mtu"` // device receive MTU (owner -> device), 0 = default
	OwnMTU uint16 `json:"own_mtu"` // owner announced MTU (device -> owner), 0 = default
	// Policy of the device (fsim.Command.Transform): "none" (no hook) | "wrap" (the hook runs the command
	// through a wrapper that leaves a mark) | "refuse" (the hook turns every command into one that cannot be
	// started)
	Policy       string `json:"policy"`
	TimeoutMs    int    `json:"timeout_ms"`
	CmdTimeoutMs int    `json:"cmd_timeout_ms"`
	Cmds         []Cmd  `json:"cmds"`
}

type recorder struct {
	mu  sync.Mutex
	run int
	evs []map[string]any
}

func (r *recorder) add(ev string, kv ...any) {
	m := map[string]any{"ev": ev, "run": r.run}
	for i := 0; i+1 < len(kv); i += 2 {
		m[kv[i].(string)] = kv[i+1]
	}
	r.mu.Lock()
	m["seq"] = len(r.evs) + 1
	r.evs = append(r.evs, m)
	r.mu.Unlock()
}

// sink is an owner-side Stdout / Stderr writer.
type sink struct {
	mu     sync.Mutex
	buf    bytes.Buffer
	writes int
}

func (s *sink) Write(p []byte) (int, error) {
	s.mu.Lock()
	defer s.mu.Unlock()
	s.writes++
	return s.buf.Write(p)
}

func (s *sink) bytes() []byte {
	s.mu.Lock()
	defer s.mu.Unlock()
	return append([]byte(nil), s.buf.Bytes()...)
}

// obs is what the harness knows and sees of one command.
type obs struct {
	i       int
	c       Cmd
	wrote   [3][]byte // bytes the script writes to fd 1 / 2 (before a trap handler runs)
	trapOut []byte    // what the TERM handler writes to stdout
	args    []string  // RunCommand.Args
	out     *sink
	err     *sink
	exit    chan int
	sigs    chan int
	mu      sync.Mutex
	sigSent bool
	done    bool
	ownErr  string
	devErr  string
	// device-side offsets of what the device module handed on per stream (payload bytes)
	devOff [3]int
	ownOff [3]int
}

type session struct {
	rec    *recorder
	c      Case
	dir    string
	xs     []*obs
	mu     sync.Mutex
	cur    int
	polls  int // owner ProduceInfo calls that produced nothing
	yields int // device Yield calls that responded nothing
	// ymu is held while the device module is inside Receive / Yield and until what it did is recorded; the
	// owner wrapper passes through it before it records: an event of the owner that is caused by a Yield
	// (a 68 that left while Yield was still writing) is recorded after the event of that Yield. The
	// module never blocks on the network inside Yield (its pipe is buffered), so this cannot deadlock.
	ymu sync.Mutex
}

func (s *session) barrier() {
	s.ymu.Lock()
	//nolint:staticcheck // a barrier
	s.ymu.Unlock()
}

func (s *session) devMTU() uint16 {
	if s.c.DevMTU != 0 {
		return s.c.DevMTU
	}
	return serviceinfo.DefaultMTU
}

func (s *session) current() *obs {
	s.mu.Lock()
	defer s.mu.Unlock()
	if s.cur == 0 {
		return nil
	}
	return s.xs[s.cur-1]
}

func (s *session) path(i int, what string) string {
	return filepath.Join(s.dir, fmt.Sprintf("c%d.%s", i, what))
}

func exists(p string) bool {
	_, err := os.Stat(p)
	return err == nil
}

// begin is called by owner module i whenever the library calls it: owner module i is first called only after
// owner module i-1 completed.
func (s *session) begin(i int) {
	s.mu.Lock()
	if i <= s.cur {
		s.mu.Unlock()
		return
	}
	prev := s.cur
	s.cur = i
	s.mu.Unlock()
	if prev > 0 {
		s.cend(prev, false, false, "")
	}
	o := s.xs[i-1]
	c := o.c
	argBody, _ := cbor.Marshal(*cbor.NewBstr(o.args))
	s.rec.add("cmd", "i", i, "args_n", len(argBody), "kind", c.Kind, "name", c.Name, "may_fail", c.MayFail, "want_out", c.WantOut, "want_err", c.WantErr,
		"end", c.End, "code", c.Code, "sig", c.Sig, "trap", c.Trap, "owner_sig", c.OwnerSig,
		"out_n", len(o.wrote[1]), "err_n", len(o.wrote[2]), "nargs", c.NArgs, "class", c.Class, "expect", c.Expect)
}

// isSubsequence: a can be obtained from b by deleting bytes
func isSubsequence(a, b []byte) bool {
	j := 0
	for i := 0; i < len(b) && j < len(a); i++ {
		if b[i] == a[j] {
			j++
		}
	}
	return j == len(a)
}

// lossClass names how got falls short of wrote (got != wrote)
func lossClass(got, wrote []byte) string {
	switch {
	case len(got) == 0:
		return "nothing-delivered"
	case bytes.HasPrefix(wrote, got):
		if i := bytes.LastIndexByte(wrote, '\n'); i >= 0 && len(got) == i+1 {
			return "unterminated-last-line-lost"
		}
		return "tail-lost"
	case len(got) < len(wrote) && isSubsequence(got, wrote):
		return "bytes-lost-inside"
	case len(got) > len(wrote) && bytes.HasPrefix(got, wrote):
		return "extra-bytes-appended"
	case len(got) == len(wrote):
		return "same-length-different-bytes"
	}
	return "different"
}

// relation of what a writer got to what the command wrote: rel is what the specification judges (equal |
// prefix | nothing | other), diag names the difference for the key of a finding
func relation(got, wrote []byte) (rel, diag string) {
	switch {
	case bytes.Equal(got, wrote):
		return "equal", "equal"
	case len(got) == 0:
		return "nothing", "nothing-delivered"
	case bytes.HasPrefix(wrote, got):
		return "prefix", lossClass(got, wrote)
	}
	// every newline twice?
	if bytes.Contains(got, []byte("\n\n")) && !bytes.Contains(wrote, []byte("\n\n")) {
		un := bytes.ReplaceAll(got, []byte("\n\n"), []byte("\n"))
		if bytes.Equal(un, wrote) {
			return "other", "every-newline-doubled"
		}
		if c := lossClass(un, wrote); c != "different" && c != "same-length-different-bytes" && c != "extra-bytes-appended" {
			return "other", "every-newline-doubled-and-" + c
		}
	}
	return "other", lossClass(got, wrote)
}

// cend records what command i left behind, seen when the next command begins or when the session is over.
func (s *session) cend(i int, last, to2err bool, to2msg string) {
	o := s.xs[i-1]
	ran := exists(s.path(i, "ran"))
	marked := exists(s.path(i, "wrapped"))
	argv := "absent"
	if b, err := os.ReadFile(s.path(i, "argv")); err == nil {
		want := ""
		for _, a := range o.args[3:] {
			want += a + "\n"
		}
		if string(b) == want {
			argv = "same"
		} else {
			argv = "other"
		}
	}
	trapped := exists(s.path(i, "trapped"))
	wout := o.wrote[1]
	if trapped {
		wout = append(append([]byte(nil), wout...), o.trapOut...)
	}
	if !ran {
		wout = nil
	}
	werr := o.wrote[2]
	if !ran {
		werr = nil
	}
	var gout, gerr []byte
	if o.out != nil {
		gout = o.out.bytes()
	}
	if o.err != nil {
		gerr = o.err.bytes()
	}
	orel, odiag := relation(gout, wout)
	erel, ediag := relation(gerr, werr)
	// ExitChan: a value, closed without a value, or still open and empty
	exit, code := "open", 0
	select {
	case v, ok := <-o.exit:
		if ok {
			exit, code = "value", v
			select {
			case v2, ok2 := <-o.exit:
				if ok2 {
					exit, code = "two-values", v2
				}
			default:
			}
		} else {
			exit = "closed"
		}
	default:
	}
	o.mu.Lock()
	done, ownErr, devErr := o.done, o.ownErr, o.devErr
	o.mu.Unlock()
	cut := func(x string) string {
		if len(x) > 240 {
			return x[:240]
		}
		return x
	}
	s.rec.add("cend", "i", i, "last", last, "ran", ran, "wrapped", marked, "argv", argv, "trapped", trapped,
		"out_rel", orel, "out_diag", odiag, "out_got", len(gout), "out_wrote", len(wout),
		"err_rel", erel, "err_diag", ediag, "err_got", len(gerr), "err_wrote", len(werr),
		"exit", exit, "code", code, "done", done, "to2_err", to2err,
		"own_err", cut(ownErr), "dev_err", cut(devErr), "msg", cut(to2msg))
}

// payload of a sequence of complete CBOR byte strings; whole = false if the bytes are not that
func bstrPayload(b []byte) (payload []byte, n int, whole bool) {
	dec := cbor.NewDecoder(bytes.NewReader(b))
	for {
		var chunk []byte
		err := dec.Decode(&chunk)
		if err == io.EOF {
			return payload, n, true
		}
		if err != nil {
			return payload, n, false
		}
		n++
		payload = append(payload, chunk...)
	}
}

// devWrap sits between the library and THE fsim.Command of the session.
type devWrap struct {
	inner serviceinfo.DeviceModule
	s     *session
}

func (w *devWrap) Transition(active bool) error {
	w.s.rec.add("dev_transition", "active", active)
	return w.inner.Transition(active)
}

func (w *devWrap) Receive(ctx context.Context, name string, body io.Reader, respond func(string) io.Writer, yield func()) error {
	b, err := io.ReadAll(body)
	if err != nil {
		return err
	}
	w.s.ymu.Lock()
	defer w.s.ymu.Unlock()
	o := w.s.current()
	i, ran := 0, false
	if o != nil {
		i = o.i
		ran = exists(w.s.path(i, "ran"))
	}
	responded := false
	rd := bytes.NewReader(b)
	func() {
		// a panic of the module is recorded (the library runs the module in a goroutine of its own: it would
		// end the process) and handed on as an error
		defer func() {
			if r := recover(); r != nil {
				w.s.rec.add("crash", "i", i, "where", "device Receive "+name, "what", fmt.Sprint(r), "frame", world.TopLibFrame())
				err = fmt.Errorf("panic in device module: %v", r)
			}
		}()
		err = w.inner.Receive(ctx, name, rd, func(m string) io.Writer {
			responded = true
			return respond(m)
		}, yield)
	}()
	if err == nil && rd.Len() > 0 {
		// the module was handed a copy of the body: the library's rule for what it leaves unread is applied here
		err = fmt.Errorf("device module did not read full body of message 'fdo.command:%s'", name)
	}
	msg := ""
	if err != nil {
		msg = err.Error()
		if o != nil {
			o.mu.Lock()
			o.devErr = msg
			o.mu.Unlock()
		}
	}
	started := o != nil && name == "execute" && err == nil
	w.s.rec.add("dev_recv", "i", i, "msg", name, "n", len(b), "ran_before", ran, "ok", err == nil, "responded", responded, "started", started, "err", cutErr(msg))
	return err
}

func cutErr(x string) string {
	if len(x) > 200 {
		return x[:200]
	}
	return x
}

type tee struct {
	w   io.Writer
	buf *bytes.Buffer
}

func (t *tee) Write(p []byte) (int, error) {
	t.buf.Write(p)
	return t.w.Write(p)
}

func (w *devWrap) Yield(ctx context.Context, respond func(string) io.Writer, yield func()) error {
	type sent struct {
		msg string
		buf *bytes.Buffer
	}
	w.s.ymu.Lock()
	defer w.s.ymu.Unlock()
	var sends []*sent
	o := w.s.current()
	i := 0
	if o != nil {
		i = o.i
	}
	var err error
	func() {
		defer func() {
			if r := recover(); r != nil {
				w.s.rec.add("crash", "i", i, "where", "device Yield", "what", fmt.Sprint(r), "frame", world.TopLibFrame())
				err = fmt.Errorf("panic in device module: %v", r)
			}
		}()
		err = w.inner.Yield(ctx, func(m string) io.Writer {
			x := &sent{msg: m, buf: &bytes.Buffer{}}
			sends = append(sends, x)
			return &tee{w: respond(m), buf: x.buf}
		}, yield)
	}()
	// one event per Yield: what it handed on per stream (payload bytes of the byte strings), the exit code
	var n [3]int
	var items [3]int
	whole := true
	order := []string{}
	exit, code, other := false, 0, ""
	for _, x := range sends {
		if x.buf.Len() == 0 {
			continue // a message without a value is never put on the wire (serviceinfo.ChunkReader)
		}
		order = append(order, x.msg)
		switch x.msg {
		case "stdout", "stderr":
			fd := 1
			if x.msg == "stderr" {
				fd = 2
			}
			payload, it, wh := bstrPayload(x.buf.Bytes())
			n[fd] += len(payload)
			items[fd] += it
			whole = whole && wh
		case "exitcode":
			if exit || cbor.Unmarshal(x.buf.Bytes(), &code) != nil {
				whole = false
			}
			exit = true
		default:
			other = x.msg
		}
	}
	msg := ""
	if err != nil {
		msg = err.Error()
		if o != nil {
			o.mu.Lock()
			o.devErr = msg
			o.mu.Unlock()
		}
	}
	if len(order) > 0 || err != nil {
		w.s.rec.add("dev_yield", "i", i, "out_n", n[1], "err_n", n[2], "out_items", items[1], "err_items", items[2],
			"whole", whole, "exit", exit, "exit_last", !exit || order[len(order)-1] == "exitcode", "code", code,
			"order", strings.Join(order, ","), "other", other,
			"ok", err == nil, "err", cutErr(msg))
	} else {
		w.s.mu.Lock()
		w.s.yields++
		w.s.mu.Unlock()
	}
	return err
}

// ownWrap sits between the library and the fsim.RunCommand of one command.
type ownWrap struct {
	inner serviceinfo.OwnerModule
	s     *session
	o     *obs
}

func (w *ownWrap) HandleInfo(ctx context.Context, name string, body io.Reader) error {
	w.s.barrier()
	w.s.begin(w.o.i)
	b, err := io.ReadAll(body)
	if err != nil {
		return err
	}
	kv := []any{"i", w.o.i, "msg", name, "n", len(b)}
	switch name {
	case "stdout", "stderr":
		payload, items, whole := bstrPayload(b)
		kv = append(kv, "payload", len(payload), "items", items, "whole", whole)
	case "exitcode":
		var code int
		ok := cbor.Unmarshal(b, &code) == nil
		kv = append(kv, "code", code, "whole", ok)
	case "active":
		var a bool
		ok := cbor.Unmarshal(b, &a) == nil
		kv = append(kv, "active", a, "whole", ok)
	}
	rd := bytes.NewReader(b)
	var before [3]int
	if w.o.out != nil {
		before[1] = len(w.o.out.bytes())
	}
	if w.o.err != nil {
		before[2] = len(w.o.err.bytes())
	}
	err = w.inner.HandleInfo(ctx, name, rd)
	unread := rd.Len()
	if err == nil && unread > 0 {
		// the module was handed a copy of the body: the library's rule for what it leaves unread is applied here
		err = fmt.Errorf("owner module did not read full body of message 'fdo.command:%s'", name)
	}
	written := 0
	if name == "stdout" && w.o.out != nil {
		written = len(w.o.out.bytes()) - before[1]
	}
	if name == "stderr" && w.o.err != nil {
		written = len(w.o.err.bytes()) - before[2]
	}
	kv = append(kv, "unread", unread, "written", written)
	msg := ""
	if err != nil {
		msg = err.Error()
		w.o.mu.Lock()
		w.o.ownErr = msg
		w.o.mu.Unlock()
	}
	kv = append(kv, "ok", err == nil, "err", cutErr(msg))
	w.s.rec.add("own_recv", kv...)
	return err
}

func (w *ownWrap) ProduceInfo(ctx context.Context, p *serviceinfo.Producer) (bool, bool, error) {
	w.s.barrier()
	w.s.begin(w.o.i)
	// the owner application sends its signal once the command is waiting for it (event order, not time)
	o := w.o
	if o.c.OwnerSig != 0 && !o.sigSent && exists(w.s.path(o.i, "ready")) {
		o.sigSent = true
		o.sigs <- o.c.OwnerSig
		w.s.rec.add("own_signal_queued", "i", o.i, "sig", o.c.OwnerSig)
	}
	before := len(p.ServiceInfo())
	block, done, err := w.inner.ProduceInfo(ctx, p)
	kvs := p.ServiceInfo()[before:]
	if len(kvs) == 0 && !done && err == nil {
		w.s.mu.Lock()
		w.s.polls++
		w.s.mu.Unlock()
		return block, done, err
	}
	w.s.rec.add("own_call", "i", o.i)
	// what Producer.Available answered when the module asked: a shadow producer is fed the same messages
	shadow := serviceinfo.NewProducer("fdo.command", w.s.devMTU())
	for _, kv := range p.ServiceInfo()[:before] {
		_ = shadow.WriteChunk(strings.TrimPrefix(kv.Key, "fdo.command:"), kv.Val)
	}
	for _, kv := range kvs {
		_, m, _ := strings.Cut(kv.Key, ":")
		ev := []any{"i", o.i, "msg", m, "n", len(kv.Val)}
		room := 0
		if m == "args" {
			room = shadow.Available("args")
		}
		_ = shadow.WriteChunk(m, kv.Val)
		switch m {
		case "sig":
			var sg int
			_ = cbor.Unmarshal(kv.Val, &sg)
			ev = append(ev, "sig", sg)
		case "args":
			ev = append(ev, "room", room, "after", shadow.Available(""))
		}
		w.s.rec.add("own_send", ev...)
	}
	msg := ""
	if err != nil {
		msg = err.Error()
		o.mu.Lock()
		o.ownErr = msg
		o.mu.Unlock()
	}
	if done {
		o.mu.Lock()
		o.done = true
		o.mu.Unlock()
	}
	w.s.rec.add("own_ret", "i", o.i, "block", block, "done", done, "kvs", len(kvs), "room", shadow.Available("args"),
		"ok", err == nil, "err", cutErr(msg))
	return block, done, err
}

// line j of stream fd: distinct for every position, n bytes with the newline
func line(fd, j, n int) []byte {
	tag := "o"
	if fd == 2 {
		tag = "e"
	}
	s := fmt.Sprintf("%s%d:", tag, j)
	for len(s) < n-1 {
		s += string(rune('a' + (j+len(s))%26))
	}
	if n >= 1 {
		s = s[:n-1]
	}
	return []byte(s + "\n")
}

// script builds the program of command o and the bytes it writes.
func (s *session) script(o *obs) (string, error) {
	c, i := o.c, o.i
	var sb strings.Builder
	q := func(p string) string { return "'" + p + "'" }
	fmt.Fprintf(&sb, ": > %s\n", q(s.path(i, "ran")))
	fmt.Fprintf(&sb, "for a in \"$@\"; do printf '%%s\\n' \"$a\"; done > %s\n", q(s.path(i, "argv")))
	nline := [3]int{}
	for k, op := range c.Ops {
		if op.Fd != 1 && op.Fd != 2 {
			return "", fmt.Errorf("op %d: fd %d", k, op.Fd)
		}
		var data []byte
		for j := 0; j < op.Lines; j++ {
			nline[op.Fd]++
			data = append(data, line(op.Fd, nline[op.Fd], max(2, op.Len))...)
		}
		if op.Tail > 0 {
			nline[op.Fd]++
			t := line(op.Fd, nline[op.Fd], op.Tail+1)
			data = append(data, t[:len(t)-1]...)
		}
		if len(data) == 0 {
			continue
		}
		o.wrote[op.Fd] = append(o.wrote[op.Fd], data...)
		redir := ""
		if op.Fd == 2 {
			redir = " >&2"
		}
		if len(data) <= 160 {
			// one write of the shell's builtin (the data has no quote, backslash or percent sign)
			esc := strings.ReplaceAll(string(data), "\n", "\\n")
			fmt.Fprintf(&sb, "printf '%s'%s\n", esc, redir)
		} else {
			f := s.path(i, fmt.Sprintf("op%d", k))
			if err := os.WriteFile(f, data, 0o644); err != nil {
				return "", err
			}
			fmt.Fprintf(&sb, "cat %s%s\n", q(f), redir)
		}
	}
	switch c.End {
	case "code":
		fmt.Fprintf(&sb, "exit %d\n", c.Code)
	case "selfkill":
		fmt.Fprintf(&sb, "kill -%d $$\nwhile :; do sleep 0.01; done\n", c.Sig)
	case "wait":
		if c.Trap {
			o.trapOut = []byte("trapped:TERM\n")
			fmt.Fprintf(&sb, "trap ': > %s; printf \"trapped:TERM\\\\n\"; exit %d' TERM\n", s.path(i, "trapped"), c.Code)
		}
		fmt.Fprintf(&sb, ": > %s\n", q(s.path(i, "ready")))
		// watchdog of the script: 2000 * 20 ms
		sb.WriteString("n=0\nwhile [ $n -lt 2000 ]; do sleep 0.02; n=$((n+1)); done\n")
		fmt.Fprintf(&sb, ": > %s\nexit 99\n", q(s.path(i, "watchdog")))
	default:
		return "", fmt.Errorf("unknown end %q", c.End)
	}
	return sb.String(), nil
}

// env is the deployment a worker runs its sessions in, one after the other: one world (manufacturer,
// owner service with its database), a fresh device per session.
type env struct {
	w      *world.World
	owners []world.NamedOwnerModule
}

func newEnv() *env {
	e := &env{}
	e.w = world.New(world.Options{
		OwnerModules: func(context.Context, string, serviceinfo.Devmod, []string) []world.NamedOwnerModule {
			return e.owners
		},
	})
	e.w.OwnerHandler.MaxContentLength = 1 << 20
	return e
}

func (e *env) close() {
	if e != nil && e.w != nil {
		e.w.Close()
	}
}

// Run executes one session in a world of its own.
func Run(c Case, run int) []map[string]any {
	e := newEnv()
	defer e.close()
	return e.run(c, run)
}

func (e *env) run(c Case, run int) (evs []map[string]any) {
	rec := &recorder{run: run}
	defer func() {
		if r := recover(); r != nil {
			rec.add("crash", "what", fmt.Sprint(r), "frame", world.TopLibFrame())
		}
		evs = rec.evs
	}()
	t0 := time.Now()
	root, err := os.MkdirTemp(world.ScratchRoot(), fmt.Sprintf("cmdx-%d-", c.ID))
	if err != nil {
		rec.add("harness_err", "what", err.Error())
		return
	}
	defer os.RemoveAll(root)
	rec.add("start", "id", c.ID, "policy", c.Policy, "n", len(c.Cmds), "dev_mtu", int(c.DevMTU), "own_mtu", int(c.OwnMTU))
	if len(c.Cmds) == 0 {
		rec.add("harness_err", "what", "session without commands")
		return
	}
	s := &session{rec: rec, c: c, dir: root}
	var owners []world.NamedOwnerModule
	for k, cm := range c.Cmds {
		o := &obs{i: k + 1, c: cm, exit: make(chan int, 1), sigs: make(chan int, 1)}
		sc, err := s.script(o)
		if err != nil {
			rec.add("harness_err", "what", err.Error())
			return
		}
		o.args = []string{"-c", sc, "x02"}
		for a := 0; a < cm.NArgs; a++ {
			arg := fmt.Sprintf("a%d-", a)
			for len(arg) < cm.ArgLen {
				arg += string(rune('A' + (a+len(arg))%26))
			}
			o.args = append(o.args, arg)
		}
		name := "/bin/sh"
		switch cm.Name {
		case "empty":
			name = ""
		case "nosuch":
			name = filepath.Join(root, "no-such-program")
		}
		if cm.ArgMode != "" {
			// what Producer.Available("args") answers in the first ProduceInfo call of the module
			sh := serviceinfo.NewProducer("fdo.command", s.devMTU())
			_ = sh.WriteChunk("active", []byte{0xf5})
			nb, _ := cbor.Marshal(name)
			_ = sh.WriteChunk("command", nb)
			room := sh.Available("args")
			target := 0
			switch cm.ArgMode {
			case "reserve":
				target = room - 40
			case "chunk2":
				target = room + room/2
			case "chunk3":
				target = 2*room + room/2
			default:
				rec.add("harness_err", "what", "unknown argmode "+cm.ArgMode)
				return
			}
			for a := len(o.args); a < 400; a++ {
				body, _ := cbor.Marshal(*cbor.NewBstr(o.args))
				left := target - len(body)
				if left < 8 {
					break
				}
				arg := fmt.Sprintf("p%d-", a)
				for len(arg) < min(left-4, 180) {
					arg += string(rune('a' + (a+len(arg))%26))
				}
				o.args = append(o.args, arg)
			}
		}
		rc := &fsim.RunCommand{Command: name, Args: o.args, MayFail: cm.MayFail, ExitChan: o.exit, Signals: o.sigs}
		if cm.WantOut {
			o.out = &sink{}
			rc.Stdout = o.out
		}
		if cm.WantErr {
			o.err = &sink{}
			rc.Stderr = o.err
		}
		s.xs = append(s.xs, o)
		owners = append(owners, world.NamedOwnerModule{Name: "fdo.command", Mod: &ownWrap{inner: rc, s: s, o: o}})
	}
	cto := time.Duration(c.CmdTimeoutMs) * time.Millisecond
	if cto <= 0 {
		cto = 60 * time.Second
	}
	dev := &fsim.Command{Timeout: cto}
	switch c.Policy {
	case "", "none":
	case "wrap":
		// the device runs what it is asked to, through its own wrapper, which leaves a mark
		dev.Transform = func(name string, arg []string) (string, []string) {
			i := 0
			if o := s.current(); o != nil {
				i = o.i
			}
			pre := fmt.Sprintf(": > '%s'; exec \"$0\" \"$@\"", s.path(i, "wrapped"))
			return "/bin/sh", append([]string{"-c", pre, name}, arg...)
		}
	case "refuse":
		dev.Transform = func(name string, arg []string) (string, []string) {
			return filepath.Join(root, "refused-by-device-policy"), nil
		}
	default:
		rec.add("harness_err", "what", "unknown policy "+c.Policy)
		return
	}
	w := e.w
	e.owners = owners
	w.TO2.MaxDeviceServiceInfoSize = nil
	if c.OwnMTU != 0 {
		w.TO2.MaxDeviceServiceInfoSize = func(context.Context, fdo.Voucher) (uint16, error) { return c.OwnMTU, nil }
	}
	ctx := context.Background()
	d, err := w.Onboard0(ctx, "")
	if err != nil {
		rec.add("harness_err", "what", "onboard: "+err.Error())
		return
	}
	to := time.Duration(c.TimeoutMs) * time.Millisecond
	if to <= 0 {
		to = 120 * time.Second
	}
	tctx, cancel := context.WithTimeout(ctx, to)
	defer cancel()
	tr, _ := world.Transport(w.OwnerHandler, nil)
	tr.MaxContentLength = 1 << 20
	_, err = w.RunTO2On(tctx, tr, d, nil, world.TO2Opts{
		Modules: map[string]serviceinfo.DeviceModule{"fdo.command": &devWrap{inner: dev, s: s}}, MTU: c.DevMTU})
	watchdog := tctx.Err() != nil
	cancel()
	msg := ""
	if err != nil {
		msg = err.Error()
	}
	s.mu.Lock()
	started := s.cur
	s.mu.Unlock()
	// a command that is still running was started with a context derived from the one TO2 ran in, which is
	// cancelled now (exec.CommandContext kills it); a waiting script also ends by itself (its own watchdog)
	for i := 1; i <= len(s.xs); i++ {
		if exists(s.path(i, "watchdog")) {
			watchdog = true
		}
	}
	if started > 0 {
		s.cend(started, true, err != nil, msg)
	}
	if len(msg) > 300 {
		msg = msg[len(msg)-300:]
	}
	rec.add("end", "started", started, "to2_err", err != nil, "watchdog", watchdog, "msg", msg,
		"polls", s.polls, "yields", s.yields, "ms", time.Since(t0).Milliseconds())
	return
}

// RunCases executes the cases in parallel worlds and writes all events to out, run by run.
func RunCases(cases []Case, out string, workers int) error {
	res := make([][]map[string]any, len(cases))
	ch := make(chan int)
	var wg sync.WaitGroup
	for i := 0; i < workers; i++ {
		wg.Add(1)
		go func() {
			defer wg.Done()
			var e *env
			defer func() { e.close() }()
			for k := range ch {
				if e == nil {
					e = newEnv()
				}
				res[k] = e.run(cases[k], k+1)
				// after anything unusual the next session gets a fresh world
				for _, ev := range res[k] {
					if ev["ev"] == "crash" || ev["ev"] == "harness_err" {
						e.close()
						e = nil
						break
					}
				}
			}
		}()
	}
	for k := range cases {
		ch <- k
	}
	close(ch)
	wg.Wait()
	f, err := os.Create(out)
	if err != nil {
		return err
	}
	defer f.Close()
	bw := bufio.NewWriter(f)
	defer bw.Flush()
	enc := json.NewEncoder(bw)
	for _, evs := range res {
		for _, ev := range evs {
			if err := enc.Encode(ev); err != nil {
				return err
			}
		}
	}
	return nil
}
