// Package lifeexec executes the histories of spec/Lifecycle.tla (C03) against the real stack:
// fdo.DI / fdo.TO2 over the HTTP handler with a cut-injecting transport, separate manufacturer
// and owner databases, TO2Server.Resell, and the blob encoding of the credential. After every
// action the real state is projected onto the abstract one (who holds a voucher that agrees with
// the device's credential), using the library's own verifiers with the device's real HMAC secret.
package lifeexec

import (
	"bytes"
	"context"
	"crypto"
	"fmt"
	"io"
	"reflect"
	"sync/atomic"
	"time"

	fdo "github.com/fido-device-onboard/go-fdo"
	"github.com/fido-device-onboard/go-fdo/blob"
	"github.com/fido-device-onboard/go-fdo/cbor"
	"github.com/fido-device-onboard/go-fdo/cose"
	"github.com/fido-device-onboard/go-fdo/kex"
	"github.com/fido-device-onboard/go-fdo/protocol"
	"github.com/fido-device-onboard/go-fdo/serviceinfo"

	"verifharness/world"
)

// Cut describes where a run is cut.
type Cut struct {
	Kind string `json:"kind"` // none reqlost resplost err255
	T    int    `json:"t"`
}

// Action is one step of a history.
type Action struct {
	A     string `json:"a"` // di handover to2 resell persist
	K     int    `json:"k,omitempty"`
	Reuse bool   `json:"reuse,omitempty"`
	Cut   Cut    `json:"cut"`
	// UseBlob: TO2 is given the rendezvous blob of the last TO1
	UseBlob bool `json:"useblob,omitempty"`
}

// Event is the projection after an action.
type Event struct {
	Run     int    `json:"run"`
	I       int    `json:"i"`
	A       string `json:"a"`
	K       int    `json:"k"`
	Reuse   bool   `json:"reuse"`
	CutKind string `json:"cutkind"`
	CutT    int    `json:"cutt"`
	OK      bool   `json:"ok"`
	HasCred bool   `json:"hasCred"`
	MfgN    int    `json:"mfgN"`
	OwnerN  int    `json:"ownerN"`
	AgreeM  bool   `json:"agreeM"`
	AgreeO  bool   `json:"agreeO"`
	UseBlob bool   `json:"useblob"`
	RvLive  bool   `json:"rvLive"`  // a registration for the credential's GUID exists and has not expired (SQL probe)
	HasBlob bool   `json:"hasBlob"` // the device holds a blob from its last TO1
	Err     string `json:"err,omitempty"`
	Note    string `json:"note,omitempty"`
	Panic   string `json:"panic,omitempty"`
}

// Config selects the crypto configuration of a history.
type Config struct {
	Mods   int    `json:"mods,omitempty"` // number of owner service-info modules (each with a device counterpart)
	Kind   string `json:"kind"`
	Enc    int    `json:"enc"`
	Kex    string `json:"kex,omitempty"`
	Cipher int    `json:"cipher,omitempty"`
	RvInfo bool   `json:"rvinfo,omitempty"` // non-empty rendezvous info in credentials
	AIO    bool   `json:"aio,omitempty"`    // all-in-one deployment: one database, fdo.AllInOne callbacks in DI
	// AltChain: the certificate chain configured in the owner service's key store is not the chain
	// vouchers were extended to (same key, certificate issued again): what X5CHAIN vouchers name
	// and what the service sends differ byte-wise while the key is the same.
	AltChain bool `json:"altchain,omitempty"`
}

type lifeOwnerMod struct{}

func (lifeOwnerMod) HandleInfo(_ context.Context, _ string, body io.Reader) error {
	_, _ = io.Copy(io.Discard, body)
	return nil
}
func (lifeOwnerMod) ProduceInfo(_ context.Context, p *serviceinfo.Producer) (bool, bool, error) {
	_ = p.WriteChunk("active", []byte{0xf5})
	_ = p.WriteChunk("ping", []byte{0x01})
	return false, true, nil
}

type lifeDevMod struct{}

func (lifeDevMod) Transition(bool) error { return nil }
func (lifeDevMod) Receive(_ context.Context, _ string, body io.Reader, _ func(string) io.Writer, _ func()) error {
	_, _ = io.Copy(io.Discard, body)
	return nil
}
func (lifeDevMod) Yield(context.Context, func(string) io.Writer, func()) error { return nil }

// Exec runs one history.
type Exec struct {
	Cfg    Config
	W      *world.World
	Dev    *world.Device
	owners []*world.Party
	oidx   int
	Events []Event
	run    int
	blob   *cose.Sign1[protocol.To1d, []byte] // from the last TO1
	held   *fdo.Voucher                       // returned by a failed resale
}

// New creates the world (separate manufacturer / owner databases).
func New(cfg Config, run int) *Exec {
	opt := world.Options{Kind: world.KeyKind(cfg.Kind), Enc: protocol.KeyEncoding(cfg.Enc), Separate: !cfg.AIO, AIO: cfg.AIO}
	opt.OwnerModules = func(context.Context, string, serviceinfo.Devmod, []string) []world.NamedOwnerModule {
		var ms []world.NamedOwnerModule
		for i := 1; i <= cfg.Mods; i++ {
			ms = append(ms, world.NamedOwnerModule{Name: fmt.Sprintf("m%d", i), Mod: lifeOwnerMod{}})
		}
		return ms
	}
	if cfg.RvInfo {
		opt.RvInfo = [][]protocol.RvInstruction{{{Variable: protocol.RVDns, Value: mustCBOR("rv.verif")}, {Variable: protocol.RVDevPort, Value: mustCBOR(uint16(8041))}}}
	}
	// replacement credentials always carry rendezvous info that differs from the original
	opt.RvInfo2 = [][]protocol.RvInstruction{{{Variable: protocol.RVDns, Value: mustCBOR("rv2.verif")}, {Variable: protocol.RVOwnerPort, Value: mustCBOR(uint16(8042))}}}
	w := world.New(opt)
	e := &Exec{Cfg: cfg, W: w, run: run, owners: []*world.Party{w.Owner}}
	e.Dev = w.NewDevice("")
	e.serveAs(w.Owner)
	return e
}

// serveAs configures the key the owner service signs with.
func (e *Exec) serveAs(p *world.Party) {
	if e.Cfg.AltChain {
		p = &world.Party{Name: p.Name, Kind: p.Kind, Key: p.Key, Chain: world.SelfSigned(p.Key, p.Name+"-reissued")}
	}
	e.W.OwnerKeys.Set(p)
}

// delFail makes the first DELETE on the vouchers table fail (once) until the returned function runs.
func delFail(s *world.Store) func() {
	db := s.DB.DB()
	for _, q := range []string{
		`CREATE TABLE IF NOT EXISTS verif_cnt (n INTEGER)`,
		`DELETE FROM verif_cnt`,
		`INSERT INTO verif_cnt VALUES (0)`,
		`CREATE TRIGGER verif_delfail BEFORE DELETE ON vouchers WHEN (SELECT n FROM verif_cnt) = 0 BEGIN UPDATE verif_cnt SET n = 1; SELECT RAISE(FAIL, 'verif: delete refused'); END`,
	} {
		if _, err := db.Exec(q); err != nil {
			panic("harness: cannot install the delete fault: " + err.Error())
		}
	}
	return func() {
		_, _ = db.Exec(`DROP TRIGGER IF EXISTS verif_delfail`)
		_, _ = db.Exec(`DROP TABLE IF EXISTS verif_cnt`)
	}
}

// storeFail makes the vouchers table of the store refuse inserts until the returned function runs.
func storeFail(s *world.Store) func() {
	_, err := s.DB.DB().Exec(`CREATE TRIGGER verif_storefail BEFORE INSERT ON vouchers BEGIN SELECT RAISE(FAIL, 'verif: storage full'); END`)
	if err != nil {
		panic("harness: cannot install the storage fault: " + err.Error())
	}
	return func() { _, _ = s.DB.DB().Exec(`DROP TRIGGER IF EXISTS verif_storefail`) }
}

func mustCBOR(v any) []byte {
	b, err := cbor.Marshal(v)
	if err != nil {
		panic(err)
	}
	return b
}

// Close releases the world.
func (e *Exec) Close() { e.W.Close() }

func (e *Exec) owner(i int) *world.Party {
	for len(e.owners) <= i {
		e.owners = append(e.owners, e.W.Keys.NewParty(fmt.Sprintf("owner%d", len(e.owners)+1), e.W.Opt.Kind))
	}
	return e.owners[i]
}

// cutHook cuts the first exchange whose request has type c.T.
func cutHook(c Cut) *world.Hook {
	if c.Kind == "" || c.Kind == "none" || c.Kind == "storefail" || c.Kind == "delfail" {
		return nil // a storage fault is injected in the database, not on the wire
	}
	var done int32
	hit := func(x *world.Exchange) bool {
		return int(x.ReqType) == c.T && atomic.LoadInt32(&done) == 0
	}
	return &world.Hook{
		Request: func(x *world.Exchange) bool {
			if c.Kind == "reqlost" && hit(x) {
				atomic.StoreInt32(&done, 1)
				return true
			}
			return false
		},
		Response: func(x *world.Exchange) bool {
			if !hit(x) {
				return false
			}
			switch c.Kind {
			case "resplost":
				atomic.StoreInt32(&done, 1)
				return true
			case "err255":
				atomic.StoreInt32(&done, 1)
				x.RespType = 255
				x.RespCode = 200
				x.RespBody, _ = cbor.Marshal(protocol.ErrorMessage{Code: 500, PrevMsgType: x.ReqType, ErrString: "verif cut", Timestamp: time.Now().Unix()})
			}
			return false
		},
	}
}

// Do executes an action and appends the projection.
func (e *Exec) Do(a Action) Event {
	ev := Event{Run: e.run, I: len(e.Events) + 1, A: a.A, K: a.K, Reuse: a.Reuse, CutKind: a.Cut.Kind, CutT: a.Cut.T, UseBlob: a.UseBlob}
	if ev.CutKind == "" {
		ev.CutKind = "none"
	}
	ctx, cancel := context.WithTimeout(context.Background(), 30*time.Second)
	defer cancel()
	func() {
		defer func() {
			if r := recover(); r != nil {
				ev.Panic = fmt.Sprintf("%v @ %s", r, world.TopLibFrame())
			}
		}()
		switch a.A {
		case "di":
			if a.Cut.Kind == "storefail" {
				defer storeFail(e.W.MfgStore)()
			}
			_, err := e.W.RunDI(ctx, e.Dev, cutHook(a.Cut))
			ev.OK = err == nil
			if err != nil {
				ev.Err = err.Error()
			}
		case "handover":
			var via []*world.Party
			for i := 0; i < a.K; i++ {
				via = append(via, e.W.Keys.NewParty("via", e.W.Opt.Kind))
			}
			_, err := e.W.Handover(ctx, e.Dev.Cred.GUID, via...)
			if err == nil {
				_, err = e.W.MfgStore.DB.RemoveVoucher(ctx, e.Dev.Cred.GUID)
			}
			ev.OK = err == nil
			if err != nil {
				ev.Err = err.Error()
			}
		case "to2":
			if a.Cut.Kind == "storefail" {
				defer storeFail(e.W.OwnerStore)()
			}
			if a.Cut.Kind == "delfail" {
				defer delFail(e.W.OwnerStore)()
			}
			e.W.Opt.Reuse = a.Reuse
			before := e.Dev.Cred
			mods := map[string]serviceinfo.DeviceModule{}
			for i := 1; i <= e.Cfg.Mods; i++ {
				mods[fmt.Sprintf("m%d", i)] = lifeDevMod{}
			}
			var to1d *cose.Sign1[protocol.To1d, []byte]
			if a.UseBlob {
				if e.blob == nil {
					ev.Note = "harness: useblob without a blob"
				}
				to1d = e.blob
			}
			// a run that is cut must still come back: TO2 that never returns (also after its context
			// expired) is a hang, which no action of the specification produces
			type to2res struct {
				cred *fdo.DeviceCredential
				err  error
			}
			resc := make(chan to2res, 1)
			hook := cutHook(a.Cut)
			go func() {
				c, err := e.W.RunTO2(ctx, e.Dev, to1d, world.TO2Opts{Kex: kex.Suite(e.Cfg.Kex), Cipher: kex.CipherSuiteID(e.Cfg.Cipher), Modules: mods}, hook)
				resc <- to2res{c, err}
			}()
			var cred *fdo.DeviceCredential
			var err error
			select {
			case r := <-resc:
				cred, err = r.cred, r.err
			case <-time.After(120 * time.Second):
				err = fmt.Errorf("TO2 did not return")
				ev.Note = "TO2 did not return within 120 s (cut " + a.Cut.Kind + fmt.Sprintf("@%d", a.Cut.T) + "): the device role hangs"
			}
			ev.OK = err == nil
			if err != nil {
				ev.Err = err.Error()
				if cred != nil {
					ev.Note = "credential returned together with an error"
					e.Dev.Cred = before
					ev.HasCred = true
				}
			}
			if err == nil && a.Reuse && cred != nil {
				ev.Note = "reuse offered but a replacement credential was returned"
			}
			if err == nil && !a.Reuse && cred == nil {
				ev.Note = "replacement expected but credential reuse reported"
			}
		case "resell":
			next := e.owner(e.oidx + 1)
			var pub any = next.Key.Public()
			if e.W.Opt.Enc == protocol.X5ChainKeyEnc {
				pub = next.Chain
			}
			ov, err := e.W.TO2.Resell(ctx, e.Dev.Cred.GUID, pub.(crypto.PublicKey), nil)
			if err == nil {
				err = e.W.OwnerStore.DB.AddVoucher(ctx, ov)
			}
			if err == nil {
				e.oidx++
				e.W.Owner = next
				e.serveAs(next)
			}
			ev.OK = err == nil
			if err != nil {
				ev.Err = err.Error()
			}
		case "resellbad":
			// a next owner key the voucher cannot be extended to (other curve / other RSA size)
			other := map[world.KeyKind]world.KeyKind{world.P256: world.P384, world.P384: world.P256}[e.W.Opt.Kind]
			if other == "" {
				if e.W.Opt.Kind.Bits() == 2048 {
					other = world.PKCS3072
				} else {
					other = world.RSA2048
				}
			}
			bad := e.W.Keys.NewParty("badnext", other)
			ov, err := e.W.TO2.Resell(ctx, e.Dev.Cred.GUID, bad.Key.Public(), nil)
			ev.OK = err == nil
			if err != nil {
				ev.Err = err.Error()
				if ov == nil {
					ev.Note = "failed resale returned no voucher"
				}
				e.held = ov
			} else {
				ev.Note = "resale to a key of another type or size succeeded"
			}
		case "restore":
			err := fmt.Errorf("nothing held")
			if e.held != nil {
				err = e.W.OwnerStore.DB.AddVoucher(ctx, e.held)
				e.held = nil
			}
			ev.OK = err == nil
			if err != nil {
				ev.Err = err.Error()
			}
		case "resellmissing":
			next := e.owner(e.oidx + 1)
			ov, err := e.W.TO2.Resell(ctx, e.Dev.Cred.GUID, next.Key.Public(), nil)
			ev.OK = err == nil
			if err != nil {
				ev.Err = err.Error()
			}
			if ov != nil {
				ev.Note = "resale of an unknown device returned a voucher"
			}
		case "register":
			_, err := e.W.RunTO0(ctx, e.Dev.Cred.GUID, 3600, nil)
			ev.OK = err == nil
			if err != nil {
				ev.Err = err.Error()
			}
		case "expire":
			res, err := e.W.RVStore.DB.DB().Exec(`UPDATE rv_blobs SET exp = ? WHERE guid = ?`, time.Now().Unix()-10, e.Dev.Cred.GUID[:])
			ev.OK = err == nil
			if err == nil {
				if n, _ := res.RowsAffected(); n != 1 {
					ev.OK = false
					ev.Err = fmt.Sprintf("expire touched %d rows", n)
				}
			} else {
				ev.Err = err.Error()
			}
		case "locate":
			to1d, err := e.W.RunTO1(ctx, e.Dev, nil)
			ev.OK = err == nil
			e.blob = nil
			if err != nil {
				ev.Err = err.Error()
			} else {
				e.blob = to1d
			}
		case "persist":
			err := e.persist()
			ev.OK = err == nil
			if err != nil {
				ev.Err = err.Error()
			}
		}
	}()
	e.project(&ev)
	e.Events = append(e.Events, ev)
	return ev
}

// persist takes the credential through its blob encoding and continues with the decoded copy.
func (e *Exec) persist() error {
	bc := blob.DeviceCredential{Active: true, DeviceCredential: *e.Dev.Cred, HmacSecret: e.Dev.Secret, PrivateKey: blob.Pkcs8Key{Signer: e.Dev.Key}}
	data, err := cbor.Marshal(bc)
	if err != nil {
		return err
	}
	var back blob.DeviceCredential
	if err := cbor.Unmarshal(data, &back); err != nil {
		return err
	}
	if !back.PrivateKey.IsValid() {
		return fmt.Errorf("decoded private key invalid")
	}
	cred := back.DeviceCredential
	e.Dev.Cred = &cred
	e.Dev.Secret = back.HmacSecret
	e.Dev.Key = back.PrivateKey.Signer
	return nil
}

func (e *Exec) count(s *world.Store) int {
	var n int
	_ = s.DB.DB().QueryRow(`SELECT COUNT(*) FROM vouchers`).Scan(&n)
	return n
}

// agrees evaluates Agrees(v, cred) on the real objects with the library's verifiers and an
// independent field comparison.
func (e *Exec) agrees(s *world.Store) bool {
	c := e.Dev.Cred
	if c == nil {
		return false
	}
	ov, err := s.DB.Voucher(context.Background(), c.GUID)
	if err != nil {
		return false
	}
	h256, h384 := e.Dev.Hmacs()
	if ov.VerifyHeader(h256, h384) != nil || ov.VerifyManufacturerKey(c.PublicKeyHash) != nil ||
		ov.VerifyCertChainHash() != nil || ov.VerifyEntries() != nil {
		return false
	}
	h := ov.Header.Val
	if h.GUID != c.GUID || h.DeviceInfo != c.DeviceInfo || h.Version != c.Version {
		return false
	}
	a, _ := cbor.Marshal(h.RvInfo)
	b, _ := cbor.Marshal(c.RvInfo)
	if !bytes.Equal(a, b) && !(len(h.RvInfo) == 0 && len(c.RvInfo) == 0) {
		return false
	}
	dk, err := ov.DevicePublicKey()
	if err != nil || dk == nil {
		return false
	}
	if eq, ok := e.Dev.Key.Public().(interface{ Equal(crypto.PublicKey) bool }); !ok || !eq.Equal(dk) {
		return false
	}
	_ = reflect.DeepEqual
	return true
}

func (e *Exec) project(ev *Event) {
	if !ev.HasCred {
		ev.HasCred = e.Dev.Cred != nil
	}
	ev.MfgN = e.count(e.W.MfgStore)
	ev.OwnerN = e.count(e.W.OwnerStore)
	ev.AgreeM = e.agrees(e.W.MfgStore)
	ev.AgreeO = e.agrees(e.W.OwnerStore)
	ev.HasBlob = e.blob != nil
	if e.Dev.Cred != nil {
		var exp int64
		if err := e.W.RVStore.DB.DB().QueryRow(`SELECT exp FROM rv_blobs WHERE guid = ?`, e.Dev.Cred.GUID[:]).Scan(&exp); err == nil {
			ev.RvLive = exp > time.Now().Unix()
		}
	}
}

var _ = fdo.ErrNotFound
