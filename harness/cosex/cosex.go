// Package cosex replays the behaviours of spec/Cose.tla (configuration, alterations, expected
// verdict class) against cose.Sign1 / cose.Mac0 of go-fdo, with real keys, through
// cbor.Marshal -> (alteration of the wire bytes or of the verifier's arguments) -> cbor.Unmarshal ->
// Verify. The abstract alteration of the model is expanded into concrete ones here (every bit of
// signature, protected header, payload, external data; impossible lengths; foreign keys; unknown
// algorithm identifiers). An independent reference (harness/cb for the Sig_structure / MAC_structure,
// Go's crypto packages for the primitive) cross-checks what the library signs and accepts.
package cosex

import (
	"bytes"
	"crypto"
	"crypto/ecdsa"
	"crypto/elliptic"
	"crypto/hmac"
	"crypto/rand"
	"crypto/rsa"
	"crypto/sha256"
	"crypto/sha512"
	"encoding/hex"
	"encoding/json"
	"fmt"
	"hash"
	"math/big"
	mrand "math/rand"
	"os"
	"reflect"
	"regexp"
	"runtime"
	"sort"
	"strings"
	"sync"

	"github.com/fido-device-onboard/go-fdo/cbor"
	"github.com/fido-device-onboard/go-fdo/cose"

	"verifharness/cb"
	"verifharness/world"
)

// Cfg is the configuration record printed by Cose_Gen (table values included).
type Cfg struct {
	Alg     string `json:"alg"`
	AlgID   int64  `json:"algid"`
	Hash    string `json:"hash"`
	Family  string `json:"family"`
	Key     string `json:"key"`
	SigLen  int    `json:"siglen"`
	Struct  string `json:"struct"`
	Context string `json:"context"`
	Tag     uint64 `json:"tag"`
	PK      string `json:"pk"`
	Det     bool   `json:"det"`
	AAD     bool   `json:"aad"`
}

// Alter is one abstract alteration.
type Alter struct {
	Field string `json:"field"`
	Value string `json:"value"`
	ID    int64  `json:"id"`
}

// Behaviour is one line printed by Cose_Gen.
type Behaviour struct {
	Cfg    Cfg     `json:"cfg"`
	Alters []Alter `json:"alters"`
	Expect string  `json:"expect"` // "accept" | "reject"
}

func (c Cfg) id() string { return fmt.Sprintf("%s|pk=%s|det=%v|aad=%v", c.Alg, c.PK, c.Det, c.AAD) }

// ---- keys -------------------------------------------------------------------------------------

type keyset struct {
	signer  crypto.Signer // asymmetric
	opts    crypto.SignerOpts
	pub     crypto.PublicKey
	sym     []byte     // hmac
	foreign []namedKey // same kind
	other   []namedKey // other kinds
}

type namedKey struct {
	kind string
	pub  crypto.PublicKey
	sym  []byte
}

var (
	keyMu    sync.Mutex
	keyCache = map[string]*keyset{}
)

func ecKey(c elliptic.Curve) *ecdsa.PrivateKey {
	k, err := ecdsa.GenerateKey(c, rand.Reader)
	if err != nil {
		panic(err)
	}
	return k
}

func hashOf(name string) crypto.Hash {
	if name == "SHA384" {
		return crypto.SHA384
	}
	return crypto.SHA256
}

func newHash(name string) func() hash.Hash {
	if name == "SHA384" {
		return sha512.New384
	}
	return sha256.New
}

func keysFor(c Cfg) *keyset {
	keyMu.Lock()
	defer keyMu.Unlock()
	if ks, ok := keyCache[c.Alg]; ok {
		return ks
	}
	ks := &keyset{}
	switch c.Key {
	case "P-256", "P-384":
		cur, oc := elliptic.P256(), elliptic.P384()
		if c.Key == "P-384" {
			cur, oc = oc, cur
		}
		k := ecKey(cur)
		ks.signer, ks.pub = k, k.Public()
		ks.foreign = []namedKey{{"same-curve", ecKey(cur).Public(), nil}}
		ks.other = []namedKey{{"other-curve", ecKey(oc).Public(), nil}, {"rsa-2048", world.RSAKey(2048, 5).Public(), nil}}
	case "RSA-2048", "RSA-3072":
		bits, ob := 2048, 3072
		if c.Key == "RSA-3072" {
			bits, ob = ob, bits
		}
		k := world.RSAKey(bits, 0)
		ks.signer, ks.pub = k, k.Public()
		ks.foreign = []namedKey{{"same-size", world.RSAKey(bits, 1).Public(), nil}}
		ks.other = []namedKey{{"other-size", world.RSAKey(ob, 2).Public(), nil}, {"p-256", ecKey(elliptic.P256()).Public(), nil}}
		if c.Family == "rsa-pss" {
			ks.opts = &rsa.PSSOptions{SaltLength: rsa.PSSSaltLengthEqualsHash, Hash: hashOf(c.Hash)}
		} else {
			ks.opts = hashOf(c.Hash)
		}
	case "SYM-128", "SYM-256":
		n := 16
		if c.Key == "SYM-256" {
			n = 32
		}
		ks.sym = make([]byte, n)
		_, _ = rand.Read(ks.sym)
		f := make([]byte, n)
		_, _ = rand.Read(f)
		oneBit := append([]byte{}, ks.sym...)
		oneBit[n-1] ^= 1
		ks.foreign = []namedKey{{"same-length", nil, f}, {"one-bit-off", nil, oneBit}}
		ks.other = []namedKey{{"empty", nil, []byte{}}, {"one-byte-short", nil, append([]byte{}, ks.sym[:n-1]...)},
			{"one-byte-long", nil, append(append([]byte{}, ks.sym...), 0)}, {"double-length", nil, append(append([]byte{}, ks.sym...), ks.sym...)}}
	default:
		panic("unknown key kind " + c.Key)
	}
	keyCache[c.Alg] = ks
	return ks
}

// ---- payloads ---------------------------------------------------------------------------------

type inner struct {
	X uint16
	Y []byte
	Z *string
}

// nestedT is the "nested CBOR" payload kind: arrays, a map, byte and text strings, integers of
// both signs, booleans, null.
type nestedT struct {
	A int64
	B string
	C []byte
	D []uint16
	E map[int64]string
	F *inner
	G bool
	H inner
}

func innerNode(i inner) *cb.Node {
	z := cb.Null()
	if i.Z != nil {
		z = cb.Tstr(*i.Z)
	}
	return cb.Arr(cb.Uint(uint64(i.X)), cb.Bstr(i.Y), z)
}

// nestedNode is the independent encoding of nestedT (structs are arrays, map keys sorted).
func nestedNode(n nestedT) *cb.Node {
	d := cb.Arr()
	for _, x := range n.D {
		d.Kids = append(d.Kids, cb.Uint(uint64(x)))
	}
	var keys []int64
	for k := range n.E {
		keys = append(keys, k)
	}
	m := cb.Map()
	for _, k := range keys {
		m.Kids = append(m.Kids, cb.Int(k), cb.Tstr(n.E[k]))
	}
	f := cb.Null()
	if n.F != nil {
		f = innerNode(*n.F)
	}
	return cb.Arr(cb.Int(n.A), cb.Tstr(n.B), cb.Bstr(n.C), d, m, f, cb.Bool(n.G), innerNode(n.H)).Canon()
}

func randBytes(r *mrand.Rand, n int) []byte {
	b := make([]byte, n)
	for i := range b {
		b[i] = byte(r.Intn(256))
	}
	return b
}

func newNested(r *mrand.Rand) nestedT {
	z := "z-" + hex.EncodeToString(randBytes(r, 3))
	n := nestedT{A: -1 - int64(r.Intn(1<<30)), B: "payload-" + hex.EncodeToString(randBytes(r, 4)), C: randBytes(r, 1+r.Intn(40)),
		D: []uint16{0, 23, 24, 255, 256, 65535, uint16(r.Intn(65536))}, E: map[int64]string{1: "one", 5: "five", -1: "minus"},
		G: r.Intn(2) == 0, H: inner{X: uint16(r.Intn(65536)), Y: randBytes(r, r.Intn(8)), Z: &z}}
	if r.Intn(2) == 0 {
		n.F = &inner{X: 7, Y: []byte{}, Z: nil}
	}
	return n
}

// variant is an altered payload value for the detached mode.
type variant[P any] struct {
	kind string
	val  P
}

type payloadOps[P any] struct {
	val      P
	content  func(P) []byte // independent encoding of the payload bstr content
	variants func(r *mrand.Rand, v P, all bool, sample int) []variant[P]
	isBytes  bool
}

func bitPositions(r *mrand.Rand, nbytes int, all bool, sample int) []int {
	n := nbytes * 8
	if n == 0 {
		return nil
	}
	if all || n <= sample {
		out := make([]int, n)
		for i := range out {
			out[i] = i
		}
		return out
	}
	seen := map[int]bool{0: true, n - 1: true, 7: true}
	for len(seen) < sample {
		seen[r.Intn(n)] = true
	}
	out := make([]int, 0, len(seen))
	for k := range seen {
		if k < n {
			out = append(out, k)
		}
	}
	sort.Ints(out)
	return out
}

func flip(b []byte, bit int) []byte {
	o := append([]byte{}, b...)
	o[bit/8] ^= 1 << uint(7-bit%8)
	return o
}

func bytesOps(v []byte) payloadOps[[]byte] {
	return payloadOps[[]byte]{val: v, isBytes: true, content: func(p []byte) []byte { return p },
		variants: func(r *mrand.Rand, v []byte, all bool, sample int) []variant[[]byte] {
			var out []variant[[]byte]
			for _, bit := range bitPositions(r, len(v), all && len(v) <= 4096, sample) {
				out = append(out, variant[[]byte]{"bit", flip(v, bit)})
			}
			out = append(out, variant[[]byte]{"appended-byte", append(append([]byte{}, v...), 0)})
			if len(v) > 0 {
				out = append(out, variant[[]byte]{"truncated", append([]byte{}, v[:len(v)-1]...)}, variant[[]byte]{"emptied", []byte{}})
			}
			out = append(out, variant[[]byte]{"other", randBytes(r, len(v)+1)})
			return out
		}}
}

func nestedOps(v nestedT) payloadOps[nestedT] {
	return payloadOps[nestedT]{val: v, content: func(p nestedT) []byte { return nestedNode(p).Encode() },
		variants: func(r *mrand.Rand, v nestedT, all bool, sample int) []variant[nestedT] {
			var out []variant[nestedT]
			add := func(k string, f func(n *nestedT)) {
				c := v
				c.D = append([]uint16{}, v.D...)
				c.C = append([]byte{}, v.C...)
				c.E = map[int64]string{}
				for k, x := range v.E {
					c.E[k] = x
				}
				f(&c)
				out = append(out, variant[nestedT]{"field:" + k, c})
			}
			add("int", func(n *nestedT) { n.A++ })
			add("int-sign", func(n *nestedT) { n.A = -n.A })
			add("text", func(n *nestedT) { n.B += "x" })
			add("bytes", func(n *nestedT) { n.C[0] ^= 0x80 })
			add("array-append", func(n *nestedT) { n.D = append(n.D, 1) })
			add("array-elem", func(n *nestedT) { n.D[2]++ })
			add("map-value", func(n *nestedT) { n.E[5] = "fivf" })
			add("map-key", func(n *nestedT) { delete(n.E, 5); n.E[6] = "five" })
			add("null-toggle", func(n *nestedT) {
				if n.F == nil {
					n.F = &inner{}
				} else {
					n.F = nil
				}
			})
			add("bool", func(n *nestedT) { n.G = !n.G })
			add("inner", func(n *nestedT) { n.H.X ^= 1 })
			add("inner-null", func(n *nestedT) { n.H.Z = nil })
			// every bit of the encoding, as far as it still decodes to a different value
			encd := nestedNode(v).Encode()
			for _, bit := range bitPositions(r, len(encd), all, sample) {
				var alt nestedT
				if err := cbor.Unmarshal(flip(encd, bit), &alt); err != nil || reflect.DeepEqual(alt, v) {
					continue
				}
				out = append(out, variant[nestedT]{"bit", alt})
			}
			return out
		}}
}

// ---- library calls under recover ---------------------------------------------------------------

var typeArgs = regexp.MustCompile(`\[[^\]]*\]`)

// libFrame: innermost go-fdo frame of the panicking stack, type arguments stripped.
func libFrame() string {
	pcs := make([]uintptr, 64)
	n := runtime.Callers(2, pcs)
	frames := runtime.CallersFrames(pcs[:n])
	for {
		f, more := frames.Next()
		if strings.Contains(f.Function, "fido-device-onboard/go-fdo") {
			file := f.File
			if i := strings.LastIndex(file, "/cose/"); i >= 0 {
				file = file[i+1:]
			} else if i := strings.LastIndex(file, "/cbor/"); i >= 0 {
				file = file[i+1:]
			} else if i := strings.LastIndex(file, "go-fdo/"); i >= 0 {
				file = file[i+7:]
			}
			fn := f.Function
			for typeArgs.MatchString(fn) {
				fn = typeArgs.ReplaceAllString(fn, "")
			}
			if i := strings.LastIndex(fn, "/"); i >= 0 {
				fn = fn[i+1:]
			}
			return file + " " + fn
		}
		if !more {
			return world.TopLibFrame()
		}
	}
}

type outcome struct {
	verdict string // "true" | "false" | "error" | "decode-error" | "panic"
	detail  string
}

func verifySign1[P any](wire []byte, pub crypto.PublicKey, payload *P, aad []byte) (o outcome) {
	defer func() {
		if r := recover(); r != nil {
			o = outcome{"panic", libFrame() + " :: " + fmt.Sprint(r)}
		}
	}()
	var t cose.Sign1Tag[P, []byte]
	if err := cbor.Unmarshal(wire, &t); err != nil {
		return outcome{"decode-error", err.Error()}
	}
	ok, err := t.Verify(pub, payload, aad)
	fresh := outcome{"false", ""}
	switch {
	case err != nil:
		fresh = outcome{"error", err.Error()}
	case ok:
		fresh = outcome{"true", ""}
	}
	// the same object decoded into a variable that held another object before (receivers reuse
	// message structs): the outcome must not depend on what the variable held
	if re := reusedSign1[P](wire, pub, payload, aad); re.verdict != "" && re.verdict != fresh.verdict {
		re.detail = "decoded into a reused variable (fresh variable: " + fresh.verdict + ") " + re.detail
		return re
	}
	return fresh
}

// primerSign1 is an unrelated object with more header parameters than the objects under test.
func primerWire(tag uint64) []byte {
	prot := cb.Map(cb.Uint(1), cb.Nint(6), cb.Uint(4), cb.Bstr([]byte("primer-kid")), cb.Uint(3), cb.Tstr("application/primer"))
	un := cb.Map(cb.Uint(5), cb.Bstr(make([]byte, 12)), cb.Uint(4), cb.Bstr([]byte("unprotected-kid")))
	return cb.Arr(cb.Bstr(prot.Encode()), un, cb.Bstr([]byte{0x01}), cb.Bstr(make([]byte, 64))).Encode()
}

func untagged(wire []byte) []byte {
	n, err := cb.DecodeAll(wire)
	if err != nil || n.Major != 6 || len(n.Kids) != 1 {
		return nil
	}
	return wire[n.Kids[0].Start:n.Kids[0].End]
}

func reusedSign1[P any](wire []byte, pub crypto.PublicKey, payload *P, aad []byte) (o outcome) {
	defer func() {
		if r := recover(); r != nil {
			o = outcome{"panic", libFrame() + " :: " + fmt.Sprint(r)}
		}
	}()
	body := untagged(wire)
	if body == nil {
		return outcome{}
	}
	var t cose.Sign1[P, []byte]
	var primer cose.Sign1[cbor.RawBytes, []byte]
	if err := cbor.Unmarshal(primerWire(18), &primer); err != nil {
		return outcome{} // the primer itself must decode; if not, this path says nothing
	}
	t.Header = primer.Header
	if err := cbor.Unmarshal(body, &t); err != nil {
		return outcome{"decode-error", err.Error()}
	}
	ok, err := t.Verify(pub, payload, aad)
	if err != nil {
		return outcome{"error", err.Error()}
	}
	if ok {
		return outcome{"true", ""}
	}
	return outcome{"false", ""}
}

// verifyMac0 compares the tag the way the callers of the library do (kex/crypter.go Decrypt):
// decode, require the algorithm header to be the expected one, remember Value, recompute with
// Digest under the expected algorithm and key, bytes.Equal.
func verifyMac0[P any](wire []byte, alg cose.MacAlgorithm, key []byte, payload *P, aad []byte) (o outcome) {
	defer func() {
		if r := recover(); r != nil {
			o = outcome{"panic", libFrame() + " :: " + fmt.Sprint(r)}
		}
	}()
	var t cose.Mac0Tag[P, []byte]
	if err := cbor.Unmarshal(wire, &t); err != nil {
		return outcome{"decode-error", err.Error()}
	}
	var hdrAlg cose.MacAlgorithm
	if ok, err := t.Protected.Parse(cose.AlgLabel, &hdrAlg); err != nil || !ok || hdrAlg != alg {
		return outcome{"error", "algorithm header does not match the expected algorithm"}
	}
	expected := t.Value
	if err := t.Digest(alg, key, payload, aad); err != nil {
		return outcome{"error", err.Error()}
	}
	if bytes.Equal(t.Value, expected) {
		return outcome{"true", ""}
	}
	return outcome{"false", ""}
}

// ---- wire surgery -----------------------------------------------------------------------------

type parts struct {
	tag     uint64
	prot    []byte
	unprot  *cb.Node
	payload []byte
	null    bool // payload is null (detached)
	sig     []byte
}

func split(wire []byte) (parts, error) {
	n, err := cb.DecodeAll(wire)
	if err != nil {
		return parts{}, err
	}
	if n.Major != 6 || len(n.Kids) != 1 || n.Kids[0].Major != 4 || len(n.Kids[0].Kids) != 4 {
		return parts{}, fmt.Errorf("not a tagged 4-array: %s", n)
	}
	k := n.Kids[0].Kids
	if k[0].Major != 2 || k[3].Major != 2 {
		return parts{}, fmt.Errorf("unexpected layout: %s", n)
	}
	p := parts{tag: n.Val, prot: k[0].Bytes, unprot: k[1], sig: k[3].Bytes}
	if k[2].IsNull() {
		p.null = true
	} else if k[2].Major == 2 {
		p.payload = k[2].Bytes
	} else {
		return parts{}, fmt.Errorf("unexpected payload: %s", k[2])
	}
	if !bytes.Equal(p.join(), wire) {
		return parts{}, fmt.Errorf("library encoding is not the canonical one: %x", wire)
	}
	return p, nil
}

func (p parts) join() []byte {
	pl := cb.Null()
	if !p.null {
		pl = cb.Bstr(p.payload)
	}
	return cb.Tag(p.tag, cb.Arr(cb.Bstr(p.prot), p.unprot, pl, cb.Bstr(p.sig))).Encode()
}

// normal: canonical form with undefined read as null (the library documents this normalisation).
func normal(b []byte, retype bool) ([]byte, bool) {
	n, err := cb.DecodeAll(b)
	if err != nil {
		return nil, false
	}
	c := n.Canon()
	c.Walk(func(_ []int, x *cb.Node) {
		if x.Major == 7 && x.Val == 23 {
			x.Val = 22
		}
		if retype && x.Major == 3 {
			x.Major = 2
		}
	})
	return c.Canon().Encode(), true
}

// sameMeaning: the altered bytes decode (reference decoder) to the same canonical item: a no-op
// for a verifier that works on decoded values (DESIGN 1.4 rule 3).
func sameMeaning(a, b []byte, retype bool) bool {
	x, ok1 := normal(a, retype)
	y, ok2 := normal(b, retype)
	return ok1 && ok2 && bytes.Equal(x, y)
}

// algEntryOnly: two serialized protected headers differ in nothing but the entry of label 1 (alg).
func algEntryOnly(a, b []byte) bool {
	strip := func(x []byte) ([]byte, bool) {
		if len(x) == 0 {
			return cb.Map().Encode(), true
		}
		n, err := cb.DecodeAll(x)
		if err != nil || n.Major != 5 || n.Indef {
			return nil, false
		}
		// as a decoder into a map reads it: of duplicate keys the last one wins; then drop label 1
		last := map[string]int{}
		for i := 0; i+1 < len(n.Kids); i += 2 {
			last[string(n.Kids[i].Canon().Encode())] = i
		}
		c := cb.Map()
		for i := 0; i+1 < len(n.Kids); i += 2 {
			k := n.Kids[i]
			if last[string(k.Canon().Encode())] != i || (k.Major == 0 && k.Val == 1) {
				continue
			}
			c.Kids = append(c.Kids, k, n.Kids[i+1])
		}
		return c.Canon().Encode(), true
	}
	x, ok1 := strip(a)
	y, ok2 := strip(b)
	return ok1 && ok2 && bytes.Equal(x, y)
}

// stringHeads: offsets of the head bytes of all definite-length byte / text strings in an item.
func stringHeads(b []byte) []int {
	n, err := cb.DecodeAll(b)
	if err != nil {
		return nil
	}
	var out []int
	n.Walk(func(_ []int, x *cb.Node) {
		if (x.Major == 2 || x.Major == 3) && !x.Indef {
			out = append(out, x.Start)
		}
	})
	return out
}

// ---- reference ---------------------------------------------------------------------------------

func toBeSigned(context string, prot, aad, payload []byte) []byte {
	if aad == nil {
		aad = []byte{}
	}
	if payload == nil {
		payload = []byte{}
	}
	return cb.Arr(cb.Tstr(context), cb.Bstr(prot), cb.Bstr(aad), cb.Bstr(payload)).Encode()
}

func digest(hname string, msg []byte) []byte {
	h := newHash(hname)()
	h.Write(msg)
	return h.Sum(nil)
}

// refVerify verifies with Go's crypto directly, following RFC 8152 / 8230 and the tables of Cose.tla.
func refVerify(c Cfg, ks *keyset, prot, aad, payload, sig []byte) bool {
	tbs := toBeSigned(c.Context, prot, aad, payload)
	switch c.Family {
	case "hmac":
		m := hmac.New(newHash(c.Hash), ks.sym)
		m.Write(tbs)
		return hmac.Equal(m.Sum(nil), sig)
	case "ecdsa":
		if len(sig) != c.SigLen {
			return false
		}
		r, s := new(big.Int).SetBytes(sig[:c.SigLen/2]), new(big.Int).SetBytes(sig[c.SigLen/2:])
		return ecdsa.Verify(ks.pub.(*ecdsa.PublicKey), digest(c.Hash, tbs), r, s)
	case "rsa-pkcs1v15":
		return len(sig) == c.SigLen && rsa.VerifyPKCS1v15(ks.pub.(*rsa.PublicKey), hashOf(c.Hash), digest(c.Hash, tbs), sig) == nil
	case "rsa-pss":
		return len(sig) == c.SigLen && rsa.VerifyPSS(ks.pub.(*rsa.PublicKey), hashOf(c.Hash), digest(c.Hash, tbs), sig,
			&rsa.PSSOptions{SaltLength: hashOf(c.Hash).Size(), Hash: hashOf(c.Hash)}) == nil
	}
	return false
}

// refSign produces a signature / tag without the library.
func refSign(c Cfg, ks *keyset, prot, aad, payload []byte) ([]byte, error) {
	tbs := toBeSigned(c.Context, prot, aad, payload)
	switch c.Family {
	case "hmac":
		m := hmac.New(newHash(c.Hash), ks.sym)
		m.Write(tbs)
		return m.Sum(nil), nil
	case "ecdsa":
		r, s, err := ecdsa.Sign(rand.Reader, ks.signer.(*ecdsa.PrivateKey), digest(c.Hash, tbs))
		if err != nil {
			return nil, err
		}
		out := make([]byte, c.SigLen)
		r.FillBytes(out[:c.SigLen/2])
		s.FillBytes(out[c.SigLen/2:])
		return out, nil
	case "rsa-pkcs1v15":
		return rsa.SignPKCS1v15(rand.Reader, ks.signer.(*rsa.PrivateKey), hashOf(c.Hash), digest(c.Hash, tbs))
	case "rsa-pss":
		return rsa.SignPSS(rand.Reader, ks.signer.(*rsa.PrivateKey), hashOf(c.Hash), digest(c.Hash, tbs),
			&rsa.PSSOptions{SaltLength: hashOf(c.Hash).Size(), Hash: hashOf(c.Hash)})
	}
	return nil, fmt.Errorf("family %s", c.Family)
}

// ---- report -----------------------------------------------------------------------------------

// Finding is one deviation (grouped by key).
type Finding struct {
	Key     string   `json:"key"`
	What    string   `json:"what"`
	Count   int      `json:"count"`
	Cfg     Cfg      `json:"cfg"`
	Alters  string   `json:"alterations"`
	Classes []string `json:"classes,omitempty"`
	Wire    string   `json:"wire_hex,omitempty"`
	Payload string   `json:"payload_arg_hex,omitempty"`
	AAD     string   `json:"aad_hex,omitempty"`
	KeyKind string   `json:"verification_key,omitempty"`
	Outcome string   `json:"outcome"`
	Detail  string   `json:"detail,omitempty"`
}

// Report is the output file.
type Report struct {
	Behaviours   int            `json:"behaviours"`
	Evaluations  int            `json:"evaluations"`
	Distinct     int            `json:"distinct"`
	Noops        int            `json:"noop_alterations_skipped"`
	ByAlter      map[string]int `json:"by_alteration"`
	ByOutcome    map[string]int `json:"by_outcome"`
	LeadingZero  map[string]int `json:"leading_zero_signatures"`
	RefChecks    int            `json:"reference_cross_checks"`
	Findings     []*Finding     `json:"findings"`
	Samples      []any          `json:"samples"`
	BitsComplete bool           `json:"every_bit"`
	SignOpts     SignOptsReport `json:"signer_options"`
}

// SignOptsReport counts the signer-options runs (Cose.tla SignOpts).
type SignOptsReport struct {
	Combos      int             `json:"combinations"`
	Evaluations int             `json:"evaluations"`
	ByOutcome   map[string]int  `json:"by_outcome"`
	Classes     map[string]bool `json:"classes"` // key family | options class
	Panics      []string        `json:"sign_panics"`
}

type collector struct {
	mu       sync.Mutex
	rep      *Report
	finds    map[string]*Finding
	distinct map[string]bool

	panicSeen map[string]bool
}

func (cl *collector) finding(key string, f *Finding) {
	cl.mu.Lock()
	defer cl.mu.Unlock()
	if old, ok := cl.finds[key]; ok {
		old.Count++
		return
	}
	f.Key, f.Count = key, 1
	if len(f.Wire) > 1200 {
		f.Wire = f.Wire[:1200] + "..."
	}
	if len(f.Payload) > 400 {
		f.Payload = f.Payload[:400] + "..."
	}
	cl.finds[key] = f
}

func (cl *collector) count(alter, kind, verdict string, c Cfg) {
	cl.mu.Lock()
	cl.rep.Evaluations++
	cl.rep.ByAlter[alter]++
	cl.rep.ByOutcome[verdict]++
	cl.distinct[c.Alg+"|"+c.PK+fmt.Sprint(c.Det, c.AAD)+"|"+alter+"|"+kind] = true
	cl.mu.Unlock()
}

// ---- the concrete run ---------------------------------------------------------------------------

// conc is one concrete verification: wire bytes and verifier arguments.
type conc[P any] struct {
	desc       []string // instance kinds of the alterations applied
	wire       []byte
	key        namedKey
	payloadArg *P
	aad        []byte
}

type signedObj[P any] struct {
	c    Cfg
	ks   *keyset
	ops  payloadOps[P]
	aad  []byte
	wire []byte
	p    parts
}

func signWith[P any](c Cfg, ks *keyset, ops payloadOps[P], aad []byte, extra bool) ([]byte, error) {
	hdr := cose.Header{}
	if extra {
		hdr.Protected = cose.HeaderMap{cose.Label{Int64: 3}: "application/fdo+cbor", cose.Label{Int64: 4}: []byte("kid-7")}
	}
	var pa *P
	if c.Det {
		v := ops.val
		pa = &v
	}
	if c.Struct == "Mac0" {
		m := cose.Mac0[P, []byte]{Header: hdr}
		if !c.Det {
			m.Payload = cbor.NewByteWrap(ops.val)
		}
		if err := m.Digest(cose.MacAlgorithm(c.AlgID), ks.sym, pa, aad); err != nil {
			return nil, err
		}
		return cbor.Marshal(m.Tag())
	}
	s := cose.Sign1[P, []byte]{Header: hdr}
	if !c.Det {
		s.Payload = cbor.NewByteWrap(ops.val)
	}
	if err := s.Sign(ks.signer, pa, aad, ks.opts); err != nil {
		return nil, err
	}
	return cbor.Marshal(s.Tag())
}

func (so *signedObj[P]) base() conc[P] {
	b := conc[P]{wire: so.wire, key: namedKey{"signer", so.ks.pub, so.ks.sym}, aad: so.aad}
	if so.c.Det {
		v := so.ops.val
		b.payloadArg = &v
	}
	return b
}

func (so *signedObj[P]) verify(x conc[P]) outcome {
	if so.c.Struct == "Mac0" {
		return verifyMac0[P](x.wire, cose.MacAlgorithm(so.c.AlgID), x.key.sym, x.payloadArg, x.aad)
	}
	return verifySign1[P](x.wire, x.key.pub, x.payloadArg, x.aad)
}

type tiers struct {
	allBits bool
	sample  int
	pairCap int
}

func with[P any](b conc[P], kind string) conc[P] {
	c := b
	c.desc = append(append([]string{}, b.desc...), kind)
	return c
}

// apply expands one abstract alteration into concrete instances. noops counts alterations that
// do not change the meaning (skipped).
func (so *signedObj[P]) apply(b conc[P], a Alter, r *mrand.Rand, t tiers, noops *int) ([]conc[P], error) {
	var out []conc[P]
	p, err := split(b.wire)
	if err != nil {
		return nil, err
	}
	rewire := func(kind string, q parts) {
		c := with(b, kind)
		c.wire = q.join()
		out = append(out, c)
	}
	n := so.c.SigLen
	switch a.Field {
	case "sig":
		for _, bit := range bitPositions(r, len(p.sig), t.allBits, t.sample) {
			q := p
			q.sig = flip(p.sig, bit)
			rewire("sig:bit", q)
		}
		q := p
		q.sig = randBytes(r, len(p.sig))
		rewire("sig:random", q)
		q.sig = make([]byte, len(p.sig))
		rewire("sig:zeros", q)
		if so.c.Family == "ecdsa" && len(p.sig) == n {
			q.sig = append(append([]byte{}, p.sig[n/2:]...), p.sig[:n/2]...)
			rewire("sig:r-s-swapped", q)
			q.sig = append(append([]byte{}, p.sig[:n/2]...), make([]byte, n/2)...)
			rewire("sig:s-zero", q)
		}
	case "protected":
		if a.Value == "h0-inexact" {
			// the byte string holds the honest serialized map inexactly: followed by more bytes
			// (complete items, a truncated one, a break, a reserved byte, the map again), or cut short
			for _, junk := range [][]byte{{0x00}, {0xa0}, {0xf6}, {0x18}, {0xff}, {0x1c}, {0x01, 0x02, 0x03}, {0x82, 0x01}, p.prot, randBytes(r, 1+r.Intn(6))} {
				q := p
				q.prot = append(append([]byte{}, p.prot...), junk...)
				if sameMeaning(q.prot, p.prot, false) {
					*noops++
					continue
				}
				rewire("protected:trailing-inner-bytes", q)
			}
			for _, l := range []int{len(p.prot) - 1, len(p.prot) / 2, 1} {
				if l >= 1 && l < len(p.prot) {
					q := p
					q.prot = append([]byte{}, p.prot[:l]...)
					rewire("protected:inner-truncated", q)
				}
			}
			break
		}
		for _, bit := range bitPositions(r, len(p.prot), t.allBits, t.sample) {
			q := p
			q.prot = flip(p.prot, bit)
			if sameMeaning(q.prot, p.prot, false) {
				*noops++
				continue
			}
			if algEntryOnly(q.prot, p.prot) {
				rewire("algid:via-protected-bit", q) // the flipped bit is in the algorithm entry
			} else {
				rewire("protected:bit", q)
			}
		}
		m, err := cb.DecodeAll(p.prot)
		if err != nil || m.Major != 5 {
			break // an earlier alteration of this behaviour already broke the header
		}
		ed := func(kind string, f func(m *cb.Node)) {
			c := m.Clone()
			f(c)
			q := p
			q.prot = c.Canon().Encode()
			rewire(kind, q)
		}
		ed("protected:entry-added", func(m *cb.Node) { m.MapSet(33, cb.Bstr([]byte{1})) })
		ed("protected:content-type-added-or-changed", func(m *cb.Node) { m.MapSet(3, cb.Tstr("text/plain")) })
		if m.MapGet(4) != nil {
			ed("protected:entry-removed", func(m *cb.Node) { m.MapDel(4) })
		}
		q := p
		q.prot = []byte{}
		if algEntryOnly(q.prot, p.prot) {
			rewire("algid:via-protected-emptied", q)
		} else {
			rewire("protected:emptied", q)
		}
	case "payload":
		if a.Value == "nil" {
			if so.c.Det {
				c := with(b, "payload:not-supplied")
				c.payloadArg = nil
				out = append(out, c)
			} else {
				q := p
				q.null, q.payload = true, nil
				rewire("payload:stripped", q)
			}
			break
		}
		if so.c.Det {
			for _, v := range so.ops.variants(r, so.ops.val, t.allBits, t.sample) {
				c := with(b, "payload-arg:"+v.kind)
				vv := v.val
				c.payloadArg = &vv
				out = append(out, c)
			}
			break
		}
		for _, bit := range bitPositions(r, len(p.payload), t.allBits && len(p.payload) <= 4096, t.sample) {
			q := p
			q.payload = flip(p.payload, bit)
			if !so.ops.isBytes && sameMeaning(q.payload, p.payload, false) {
				*noops++
				continue
			}
			if !so.ops.isBytes && sameMeaning(q.payload, p.payload, true) {
				continue // enumerated below
			}
			rewire("payload:bit", q)
		}
		if !so.ops.isBytes {
			// the major-type bit of every string head (a one-bit change between tstr and bstr)
			for _, off := range stringHeads(p.payload) {
				q := p
				q.payload = append([]byte{}, p.payload...)
				q.payload[off] ^= 0x20
				rewire("payload:bit(tstr<->bstr-retyped)", q)
			}
		}
		for _, v := range so.ops.variants(r, so.ops.val, false, 4) {
			if v.kind == "bit" {
				continue
			}
			q := p
			q.payload = so.ops.content(v.val)
			rewire("payload:"+v.kind, q)
		}
	case "argpayload":
		// the object embeds its payload and the verifier passes another one: the argument is what gets verified
		for _, v := range so.ops.variants(r, so.ops.val, false, 6) {
			c := with(b, "payload-arg-over-embedded:"+v.kind)
			vv := v.val
			c.payloadArg = &vv
			out = append(out, c)
		}
	case "aad":
		set := func(kind string, v []byte) {
			c := with(b, kind)
			c.aad = v
			out = append(out, c)
		}
		switch {
		case a.Value == "none":
			set("aad:dropped", nil)
		case len(b.aad) == 0:
			set("aad:supplied-1-byte", []byte{0})
			set("aad:supplied", randBytes(r, 1+r.Intn(40)))
		default:
			for _, bit := range bitPositions(r, len(b.aad), t.allBits, t.sample) {
				set("aad:bit", flip(b.aad, bit))
			}
			set("aad:truncated", append([]byte{}, b.aad[:len(b.aad)-1]...))
			set("aad:extended", append(append([]byte{}, b.aad...), 0))
			set("aad:other", randBytes(r, len(b.aad)))
		}
	case "key":
		ks := so.ks.foreign
		if a.Value == "x" {
			ks = so.ks.other
		}
		for _, k := range ks {
			c := with(b, "key:"+k.kind)
			c.key = k
			out = append(out, c)
		}
	case "siglen":
		cut := func(kind string, l int, tail bool) {
			q := p
			src := p.sig
			for len(src) < l {
				src = append(append([]byte{}, src...), p.sig...)
			}
			if tail {
				q.sig = append([]byte{}, src[len(src)-l:]...)
			} else {
				q.sig = append([]byte{}, src[:l]...)
			}
			rewire(fmt.Sprintf("siglen:%s", kind), q)
		}
		switch a.Value {
		case "zero":
			cut("0", 0, false)
		case "one":
			cut("1", 1, false)
			cut("1", 1, true)
		case "odd":
			for _, l := range []int{3, n/2 - 1, n/2 + 1, n - 1, n + 1, 2*n + 1} {
				if l > 1 {
					cut("odd", l, false)
					cut("odd", l, true)
				}
			}
		case "short":
			for _, l := range []int{2, n/2 - 2, n / 2, n/2 + 2, n - 2} {
				if l >= 2 && l < n {
					cut("short", l, false)
					cut("short", l, true)
				}
			}
			if so.c.Family == "ecdsa" && len(p.sig) == n {
				// variable-width r||s (leading zero bytes stripped) is not RFC 8152 encoding
				q := p
				q.sig = append(append([]byte{}, p.sig[1:n/2]...), p.sig[n/2+1:]...)
				rewire("siglen:short", q)
			}
		case "long":
			for _, l := range []int{n + 2, 2 * n, 4 * n} {
				cut("long", l, false)
			}
			q := p
			q.sig = append(make([]byte, 2), p.sig...)
			rewire("siglen:long-zero-prefixed", q)
			q.sig = append(append([]byte{}, p.sig...), 0, 0)
			rewire("siglen:long-zero-suffixed", q)
			if so.c.Family == "ecdsa" && len(p.sig) == n {
				q.sig = append(append(append([]byte{0}, p.sig[:n/2]...), 0), p.sig[n/2:]...)
				rewire("siglen:long-padded-components", q)
			}
		}
	case "algid":
		m, err := cb.DecodeAll(p.prot)
		if err != nil || m.Major != 5 {
			// an earlier alteration of this behaviour already broke the header: replace it
			m = cb.Map(cb.Uint(1), cb.Int(so.c.AlgID))
		}
		set := func(kind string, v *cb.Node) {
			c := m.Clone()
			if v == nil {
				c.MapDel(1)
			} else {
				c.MapSet(1, v)
			}
			q := p
			q.prot = c.Canon().Encode()
			if len(c.Kids) == 0 {
				q.prot = []byte{}
			}
			rewire(kind, q)
		}
		if a.Value != "unknown" {
			set("algid:other-known", cb.Int(a.ID))
			break
		}
		for _, id := range []int64{0, 1, -1, 4, 7, 99, -8, -999, 1 << 40, -1 << 40} {
			set("algid:unknown-int", cb.Int(id))
		}
		set("algid:text", cb.Tstr(so.c.Alg))
		set("algid:bytes", cb.Bstr([]byte{7}))
		set("algid:null", cb.Null())
		set("algid:array", cb.Arr(cb.Int(so.c.AlgID)))
		set("algid:missing", nil)
	default:
		return nil, fmt.Errorf("unknown field %q", a.Field)
	}
	return out, nil
}

func descKinds(d []string) string { return strings.Join(d, "+") }

func (so *signedObj[P]) report(cl *collector, beh Behaviour, x conc[P], o outcome) {
	kinds := descKinds(x.desc)
	if kinds == "" {
		kinds = "none"
	}
	var fields []string
	for _, a := range beh.Alters {
		fields = append(fields, a.Field)
	}
	alter := strings.Join(fields, "+")
	if alter == "" {
		alter = "none"
	}
	cl.count(alter, kinds, o.verdict, so.c)
	f := &Finding{Cfg: so.c, Alters: kinds, Wire: hex.EncodeToString(x.wire), AAD: hex.EncodeToString(x.aad), KeyKind: x.key.kind, Outcome: o.verdict, Detail: o.detail}
	if x.payloadArg != nil {
		f.Payload = hex.EncodeToString(so.ops.content(*x.payloadArg))
	}
	pk := ""
	if strings.Contains(kinds, "payload") {
		pk = "|pk=" + so.c.PK
	}
	switch {
	case o.verdict == "panic":
		frame := o.detail
		if i := strings.Index(frame, " :: "); i >= 0 {
			frame = frame[:i]
		}
		f.What = fmt.Sprintf("%s verification panicked (%s) for alteration %s of a %s object", so.c.Struct, o.detail, kinds, so.c.Alg)
		cl.finding(fmt.Sprintf("panic|%s|alter=%s|%s", frame, kinds, so.c.Family), f)
	case beh.Expect == "accept" && o.verdict != "true":
		f.What = fmt.Sprintf("an unaltered %s object (%s) does not verify with the matching key after encode/decode: %s %s", so.c.Struct, so.c.id(), o.verdict, o.detail)
		cl.finding(fmt.Sprintf("rejected-honest|%s|%s|%s", so.c.Struct, so.c.id(), o.verdict), f)
	case beh.Expect == "reject" && o.verdict == "true":
		f.What = fmt.Sprintf("%s object (%s) verifies although altered: %s", so.c.Struct, so.c.Alg, kinds)
		// classes of difference: alterations of the protected header that leave everything but the
		// algorithm entry as it was are one class ("algid")
		algOnly := false
		if q, err := split(x.wire); err == nil {
			algOnly = algEntryOnly(q.prot, so.p.prot)
		}
		seen := map[string]bool{}
		var cls []string
		for _, d := range x.desc {
			if strings.HasPrefix(d, "algid:") || (algOnly && strings.HasPrefix(d, "protected:")) {
				d = "algid"
			}
			if !seen[d] {
				seen[d] = true
				cls = append(cls, d)
			}
		}
		sort.Strings(cls)
		kk := strings.Join(cls, "+")
		f.Classes = cls
		key := fmt.Sprintf("accepted|%s|alter=%s%s", so.c.Struct, kk, pk)
		if !strings.HasPrefix(kinds, "payload") && !strings.HasPrefix(kinds, "protected") && !strings.HasPrefix(kinds, "aad") && so.c.Struct != "Mac0" {
			key += "|" + so.c.Family // algorithm-specific alterations
		}
		cl.finding(key, f)
	}
}

// runCfg replays all behaviours of one configuration.
func runCfg[P any](c Cfg, behs []Behaviour, ops payloadOps[P], cl *collector, seed int64, t tiers, lz bool) error {
	r := mrand.New(mrand.NewSource(seed))
	ks := keysFor(c)
	var aad []byte
	if c.AAD {
		aad = randBytes(r, 1+r.Intn(48))
	}
	extra := r.Intn(2) == 0
	wire, err := signWith(c, ks, ops, aad, extra)
	if err != nil {
		return fmt.Errorf("%s: sign: %w", c.id(), err)
	}
	p, err := split(wire)
	if err != nil {
		return fmt.Errorf("%s: %w", c.id(), err)
	}
	so := &signedObj[P]{c: c, ks: ks, ops: ops, aad: aad, wire: wire, p: p}
	for _, beh := range behs {
		xs := []conc[P]{so.base()}
		noops := 0
		for i, a := range beh.Alters {
			var next []conc[P]
			tt := t
			if len(beh.Alters) > 1 {
				tt.allBits, tt.sample = false, 3
			}
			for _, x := range xs {
				ys, err := so.apply(x, a, r, tt, &noops)
				if err != nil {
					return fmt.Errorf("%s: alter %v: %w", c.id(), a, err)
				}
				if len(beh.Alters) > 1 && len(ys) > t.pairCap {
					r.Shuffle(len(ys), func(i, j int) { ys[i], ys[j] = ys[j], ys[i] })
					ys = ys[:t.pairCap]
				}
				next = append(next, ys...)
			}
			xs = next
			_ = i
		}
		cl.mu.Lock()
		cl.rep.Behaviours++
		cl.rep.Noops += noops
		cl.mu.Unlock()
		for _, x := range xs {
			so.report(cl, beh, x, so.verify(x))
		}
		if len(beh.Alters) == 0 {
			so.crossCheck(cl, r, extra)
			if lz && c.Family == "ecdsa" {
				so.leadingZeros(cl, beh, r)
			}
		}
	}
	return nil
}

// crossCheck: (1) what the library signed must verify under the reference construction of the
// Sig_structure / MAC_structure with the hash of the tables; (2) what the reference signs must
// verify in the library.
func (so *signedObj[P]) crossCheck(cl *collector, r *mrand.Rand, extra bool) {
	c := so.c
	content := so.ops.content(so.ops.val)
	cl.mu.Lock()
	cl.rep.RefChecks += 2
	cl.mu.Unlock()
	if !so.p.null && !bytes.Equal(so.p.payload, content) {
		cl.finding("ref-mismatch|payload-encoding|pk="+c.PK, &Finding{Cfg: c, What: "the payload byte string on the wire is not the encoding of the payload value", Wire: hex.EncodeToString(so.wire),
			Payload: hex.EncodeToString(content), Outcome: "differs"})
	}
	if !refVerify(c, so.ks, so.p.prot, so.aad, content, so.p.sig) {
		cl.finding(fmt.Sprintf("ref-mismatch|library-signature-not-over-sig-structure|%s", c.Alg), &Finding{Cfg: c, Wire: hex.EncodeToString(so.wire), AAD: hex.EncodeToString(so.aad),
			Payload: hex.EncodeToString(content), Outcome: "reference-rejects",
			What: fmt.Sprintf("the %s value produced by the library for %s does not verify over [%q, protected, external_aad, payload] with %s (reference: harness/cb + Go crypto)", c.Struct, c.Alg, c.Context, c.Hash)})
	}
	// reference-made object
	prot := cb.Map(cb.Uint(1), cb.Int(c.AlgID))
	if extra {
		prot.MapSet(4, cb.Bstr([]byte("ref-kid")))
	}
	pb := prot.Canon().Encode()
	sig, err := refSign(c, so.ks, pb, so.aad, content)
	if err != nil {
		return
	}
	q := parts{tag: c.Tag, prot: pb, unprot: cb.Map(), payload: content, null: c.Det, sig: sig}
	x := so.base()
	x.wire = q.join()
	o := so.verify(x)
	cl.count("none", "reference-signed", o.verdict, c)
	if o.verdict != "true" {
		cl.finding(fmt.Sprintf("ref-mismatch|reference-signature-rejected|%s|%s", c.Alg, o.verdict), &Finding{Cfg: c, Wire: hex.EncodeToString(x.wire), AAD: hex.EncodeToString(so.aad),
			Outcome: o.verdict, Detail: o.detail,
			What: fmt.Sprintf("a %s object made without the library (RFC 8152 structure, %s, %s) does not verify in the library: %s %s", c.Struct, c.Alg, c.Hash, o.verdict, o.detail)})
	}
}

// leadingZeros signs repeatedly until r and s each had a leading zero byte, and checks that such
// signatures keep their fixed width and verify (library and reference).
func (so *signedObj[P]) leadingZeros(cl *collector, beh Behaviour, r *mrand.Rand) {
	c := so.c
	n := c.SigLen
	found := map[string]bool{}
	for try := 0; try < 6000 && len(found) < 2; try++ {
		wire, err := signWith(c, so.ks, so.ops, so.aad, false)
		if err != nil {
			return
		}
		p, err := split(wire)
		if err != nil {
			return
		}
		which := ""
		switch {
		case len(p.sig) != n:
			which = fmt.Sprintf("len-%d", len(p.sig)) // variable-width encoding
		case p.sig[0] == 0 && !found["r"]:
			which = "r"
		case p.sig[n/2] == 0 && !found["s"]:
			which = "s"
		default:
			continue
		}
		if found[which] {
			continue
		}
		found[which] = true
		x := so.base()
		x.wire = wire
		x.desc = []string{"leading-zero-" + which}
		o := so.verify(x)
		cl.count("none", "leading-zero-"+which, o.verdict, c)
		cl.mu.Lock()
		cl.rep.LeadingZero[c.Alg+":"+which]++
		cl.mu.Unlock()
		okRef := refVerify(c, so.ks, p.prot, so.aad, so.ops.content(so.ops.val), p.sig)
		if o.verdict != "true" || !okRef || len(p.sig) != n {
			cl.finding(fmt.Sprintf("leading-zero|%s|%s|lib=%s|ref=%v|len=%d", c.Alg, strings.SplitN(which, "-", 2)[0], o.verdict, okRef, len(p.sig)), &Finding{Cfg: c, Wire: hex.EncodeToString(wire),
				Outcome: o.verdict, Detail: o.detail, Alters: "leading-zero-" + which,
				What: fmt.Sprintf("an honest %s signature with a leading zero byte in a component (%s): encoded length %d (RFC 8152 fixed width: %d), library verdict %s, reference verdict %v",
					c.Alg, which, len(p.sig), n, o.verdict, okRef)})
		}
		// alterations on top of it: flipping the zero byte, stripping it
		for _, alt := range []Alter{{Field: "sig", Value: "flipped"}, {Field: "siglen", Value: "short"}} {
			noops := 0
			ys, err := so.apply(x, alt, r, tiers{sample: 16, pairCap: 8}, &noops)
			if err != nil {
				continue
			}
			for _, y := range ys {
				so.report(cl, Behaviour{Cfg: c, Alters: []Alter{alt}, Expect: "reject"}, y, so.verify(y))
			}
		}
	}
}

// Run replays the behaviours and writes the report.
func Run(in, optsIn, out string, seed int64, thorough bool, workers int) error {
	data, err := os.ReadFile(in)
	if err != nil {
		return err
	}
	var bs []Behaviour
	if err := json.Unmarshal(data, &bs); err != nil {
		return err
	}
	groups := map[string][]Behaviour{}
	var order []string
	for _, b := range bs {
		k := b.Cfg.id()
		if _, ok := groups[k]; !ok {
			order = append(order, k)
		}
		groups[k] = append(groups[k], b)
	}
	sort.Strings(order)
	cl := &collector{rep: &Report{ByAlter: map[string]int{}, ByOutcome: map[string]int{}, LeadingZero: map[string]int{}, BitsComplete: thorough},
		finds: map[string]*Finding{}, distinct: map[string]bool{}, panicSeen: map[string]bool{}}
	cl.rep.SignOpts.ByOutcome, cl.rep.SignOpts.Classes = map[string]int{}, map[string]bool{}
	var combos []OptsCombo
	if optsIn != "" {
		data, err := os.ReadFile(optsIn)
		if err != nil {
			return err
		}
		if err := json.Unmarshal(data, &combos); err != nil {
			return err
		}
	}
	t := tiers{allBits: thorough, sample: 24, pairCap: 3}
	if thorough {
		t.sample, t.pairCap = 64, 3
	}
	large := 70000
	if thorough {
		large = cbor.MaxArrayDecodeLength - 1 // the library documents this decode limit
	}
	// warm the key cache sequentially (deterministic pool use)
	for _, k := range order {
		keysFor(groups[k][0].Cfg)
	}
	lzDone := map[string]bool{}
	type job struct {
		k  string
		i  int
		lz bool
	}
	jobs := make(chan job)
	errs := make(chan error, len(order))
	var wg sync.WaitGroup
	for w := 0; w < workers; w++ {
		wg.Add(1)
		go func() {
			defer wg.Done()
			for j := range jobs {
				c := groups[j.k][0].Cfg
				r := mrand.New(mrand.NewSource(seed*1000003 + int64(j.i)))
				var err error
				switch c.PK {
				case "empty":
					err = runCfg(c, groups[j.k], bytesOps([]byte{}), cl, seed+int64(j.i), t, j.lz)
				case "raw":
					err = runCfg(c, groups[j.k], bytesOps(randBytes(r, 1+r.Intn(200))), cl, seed+int64(j.i), t, j.lz)
				case "large":
					err = runCfg(c, groups[j.k], bytesOps(randBytes(r, large)), cl, seed+int64(j.i), t, j.lz)
				case "nested":
					err = runCfg(c, groups[j.k], nestedOps(newNested(r)), cl, seed+int64(j.i), t, j.lz)
				default:
					err = fmt.Errorf("unknown payload kind %q", c.PK)
				}
				if err != nil {
					errs <- err
				}
			}
		}()
	}
	for i, k := range order {
		c := groups[k][0].Cfg
		lz := false
		if c.Family == "ecdsa" && !lzDone[c.Alg+c.PK] && (c.PK == "raw" || c.PK == "nested") && (thorough || c.PK == "raw") {
			lz, lzDone[c.Alg+c.PK] = true, true
		}
		jobs <- job{k, i, lz}
	}
	close(jobs)
	wg.Wait()
	close(errs)
	for err := range errs {
		return err
	}
	if err := runSignOpts(combos, cl, seed, large, workers); err != nil {
		return err
	}
	for _, f := range cl.finds {
		cl.rep.Findings = append(cl.rep.Findings, f)
	}
	sort.Slice(cl.rep.Findings, func(i, j int) bool { return cl.rep.Findings[i].Key < cl.rep.Findings[j].Key })
	cl.rep.Distinct = len(cl.distinct)
	o, _ := json.MarshalIndent(cl.rep, "", " ")
	return os.WriteFile(out, o, 0o644)
}
