package cosex

// Signer options (Cose.tla SignOpts): for every key kind x class of crypto.SignerOpts x payload kind x
// payload mode that TLC enumerates, Sign1.Sign is called with concrete options of that class on a real
// key; the observed outcome -- "refused" (Sign returned an error), "verifies" (the product, encoded,
// decoded and verified with the matching key, verifies; with the algorithm label it carries),
// "signed-not-verifying" or "panic" -- must be one of the outcomes the specification allows for the
// combination (the lines TLC printed). An independent reference (Go's crypto with the parameters the
// label prescribes) verifies every product too.

import (
	"crypto"
	"crypto/ecdsa"
	"crypto/elliptic"
	"crypto/rsa"
	_ "crypto/sha1" // SHA-1 as an option class a caller can pass
	"encoding/hex"
	"fmt"
	"math/big"
	mrand "math/rand"
	"strings"
	"sync"

	"github.com/fido-device-onboard/go-fdo/cbor"
	"github.com/fido-device-onboard/go-fdo/cose"

	"verifharness/cb"
	"verifharness/world"
)

// OptsCombo is one (key, options class, payload kind, mode) with the outcomes Cose.tla allows.
type OptsCombo struct {
	Key     string  `json:"key"`
	Kind    string  `json:"kind"` // nil | hash | pss
	Hash    string  `json:"hash"`
	Salt    string  `json:"salt"`
	PK      string  `json:"pk"`
	Det     bool    `json:"det"`
	AAD     bool    `json:"aad"`
	Refuse  bool    `json:"refuse_allowed"`
	Labels  []int64 `json:"labels"` // algorithm ids a verifying product may carry
	Comment string  `json:"comment,omitempty"`
}

func (c OptsCombo) class() string { return fmt.Sprintf("%s:%s:%s", c.Kind, c.Hash, c.Salt) }

type labelInfo struct {
	family string
	hash   crypto.Hash
}

// the algorithm labels of Cose.tla (AlgId / ExtId) with what they prescribe
var labels = map[int64]labelInfo{
	-7: {"ecdsa", crypto.SHA256}, -35: {"ecdsa", crypto.SHA384}, -36: {"ecdsa", crypto.SHA512},
	-257: {"rsa-pkcs1v15", crypto.SHA256}, -258: {"rsa-pkcs1v15", crypto.SHA384}, -259: {"rsa-pkcs1v15", crypto.SHA512},
	-37: {"rsa-pss", crypto.SHA256}, -38: {"rsa-pss", crypto.SHA384}, -39: {"rsa-pss", crypto.SHA512},
}

var (
	optKeyMu sync.Mutex
	optKeys  = map[string]crypto.Signer{}
)

func optsKey(kind string) (crypto.Signer, string, error) {
	optKeyMu.Lock()
	defer optKeyMu.Unlock()
	fam := "ec"
	if strings.HasPrefix(kind, "RSA") {
		fam = "rsa"
	}
	if k, ok := optKeys[kind]; ok {
		return k, fam, nil
	}
	var k crypto.Signer
	switch kind {
	case "P-256":
		k = ecKey(elliptic.P256())
	case "P-384":
		k = ecKey(elliptic.P384())
	case "P-521":
		k = ecKey(elliptic.P521())
	case "RSA-2048":
		k = world.RSAKey(2048, 3)
	case "RSA-3072":
		k = world.RSAKey(3072, 3)
	default:
		return nil, "", fmt.Errorf("unknown key kind %q", kind)
	}
	optKeys[kind] = k
	return k, fam, nil
}

func optHash(name string) (crypto.Hash, error) {
	switch name {
	case "SHA256":
		return crypto.SHA256, nil
	case "SHA384":
		return crypto.SHA384, nil
	case "SHA512":
		return crypto.SHA512, nil
	case "SHA1":
		return crypto.SHA1, nil
	case "none":
		return crypto.Hash(0), nil
	}
	return 0, fmt.Errorf("unknown hash class %q", name)
}

type namedOpts struct {
	name string
	opts crypto.SignerOpts
}

// concreteOpts expands an options class into concrete crypto.SignerOpts values.
func concreteOpts(c OptsCombo, key crypto.Signer) ([]namedOpts, error) {
	if c.Kind == "nil" {
		return []namedOpts{{"nil", nil}}, nil
	}
	h, err := optHash(c.Hash)
	if err != nil {
		return nil, err
	}
	size := 32
	if h != 0 {
		size = h.Size()
	}
	switch c.Kind {
	case "hash":
		out := []namedOpts{{"crypto.Hash", h}}
		// any other SignerOpts naming that hash: the library's own algorithm identifiers (fdo.keyTypeFor passes them)
		switch h {
		case crypto.SHA256:
			out = append(out, namedOpts{"cose.RS256Alg", cose.RS256Alg})
		case crypto.SHA384:
			out = append(out, namedOpts{"cose.RS384Alg", cose.RS384Alg})
		case crypto.SHA512:
			out = append(out, namedOpts{"cose.RS512Alg", cose.RS512Alg})
		}
		return out, nil
	case "pss":
		var salts []int
		switch c.Salt {
		case "equalsHash":
			salts = []int{rsa.PSSSaltLengthEqualsHash}
		case "auto":
			salts = []int{rsa.PSSSaltLengthAuto}
		case "hashSize":
			salts = []int{size}
		case "otherPositive":
			salts = []int{1, 20, size - 1, size + 1}
			if pub, ok := key.Public().(*rsa.PublicKey); ok {
				salts = append(salts, pub.Size()-size-2) // the longest salt the key admits
			}
		case "otherNegative":
			salts = []int{-2, -100}
		default:
			return nil, fmt.Errorf("unknown salt class %q", c.Salt)
		}
		var out []namedOpts
		for _, s := range salts {
			out = append(out, namedOpts{fmt.Sprintf("&rsa.PSSOptions{SaltLength: %d, Hash: %s}", s, c.Hash), &rsa.PSSOptions{SaltLength: s, Hash: h}})
		}
		return out, nil
	}
	return nil, fmt.Errorf("unknown options kind %q", c.Kind)
}

// refVerifyLabel verifies a product without the library, with the parameters its label prescribes.
func refVerifyLabel(label int64, pub crypto.PublicKey, prot, aad, payload, sig []byte) bool {
	li, ok := labels[label]
	if !ok {
		return false
	}
	tbs := toBeSigned("Signature1", prot, aad, payload)
	hh := li.hash.New()
	hh.Write(tbs)
	d := hh.Sum(nil)
	switch p := pub.(type) {
	case *ecdsa.PublicKey:
		n := (p.Params().N.BitLen() + 7) / 8
		if li.family != "ecdsa" || len(sig) != 2*n {
			return false
		}
		return ecdsa.Verify(p, d, new(big.Int).SetBytes(sig[:n]), new(big.Int).SetBytes(sig[n:]))
	case *rsa.PublicKey:
		switch li.family {
		case "rsa-pkcs1v15":
			return rsa.VerifyPKCS1v15(p, li.hash, d, sig) == nil
		case "rsa-pss":
			return rsa.VerifyPSS(p, li.hash, d, sig, &rsa.PSSOptions{SaltLength: li.hash.Size(), Hash: li.hash}) == nil
		}
	}
	return false
}

type signResult struct {
	outcome string // refused | verifies | signed-not-verifying | panic
	label   int64
	detail  string
	wire    []byte
}

func signAndVerify[P any](key crypto.Signer, opts crypto.SignerOpts, ops payloadOps[P], det bool, aad []byte) (res signResult) {
	var pa *P
	s := cose.Sign1[P, []byte]{}
	if det {
		v := ops.val
		pa = &v
	} else {
		s.Payload = cbor.NewByteWrap(ops.val)
	}
	err := func() (err error) {
		defer func() {
			if r := recover(); r != nil {
				res = signResult{outcome: "panic", detail: libFrame() + " :: " + fmt.Sprint(r)}
			}
		}()
		return s.Sign(key, pa, aad, opts)
	}()
	if res.outcome == "panic" {
		return res
	}
	if err != nil {
		return signResult{outcome: "refused", detail: err.Error()}
	}
	wire, err := cbor.Marshal(s.Tag())
	if err != nil {
		return signResult{outcome: "signed-not-verifying", detail: "the product does not encode: " + err.Error()}
	}
	res.wire = wire
	p, err := split(wire)
	if err != nil {
		return signResult{outcome: "signed-not-verifying", detail: err.Error(), wire: wire}
	}
	if m, err := cb.DecodeAll(p.prot); err == nil && m.Major == 5 {
		if a := m.MapGet(1); a != nil {
			if a.Major == 0 {
				res.label = int64(a.Val)
			} else if a.Major == 1 {
				res.label = -1 - int64(a.Val)
			}
		}
	}
	o := verifySign1[P](wire, key.Public(), pa, aad)
	if o.verdict != "true" {
		res.outcome, res.detail = "signed-not-verifying", fmt.Sprintf("Verify with the matching key after encode/decode: %s %s", o.verdict, o.detail)
		return res
	}
	if !refVerifyLabel(res.label, key.Public(), p.prot, aad, ops.content(ops.val), p.sig) {
		res.outcome, res.detail = "signed-not-verifying", fmt.Sprintf("the library verifies its product, but the signature is not a signature of algorithm %d over the Sig_structure (reference: Go crypto with the parameters of the label)", res.label)
		return res
	}
	res.outcome = "verifies"
	return res
}

func runOptsCombo[P any](c OptsCombo, ops payloadOps[P], cl *collector, r *mrand.Rand) error {
	key, fam, err := optsKey(c.Key)
	if err != nil {
		return err
	}
	insts, err := concreteOpts(c, key)
	if err != nil {
		return err
	}
	var aad []byte
	if c.AAD {
		aad = randBytes(r, 1+r.Intn(48))
	}
	for _, in := range insts {
		res := signAndVerify(key, in.opts, ops, c.Det, aad)
		allowed := false
		switch res.outcome {
		case "refused":
			allowed = c.Refuse
		case "verifies":
			for _, l := range c.Labels {
				if l == res.label {
					allowed = true
				}
			}
		case "panic":
			// Sign panicking on the caller's own options is outside the statement of C13 (which forbids
			// panics of verification); it is counted and listed, and judged like a refusal
			allowed = c.Refuse
		}
		cl.mu.Lock()
		cl.rep.SignOpts.Evaluations++
		cl.rep.SignOpts.ByOutcome[res.outcome]++
		cl.rep.SignOpts.Classes[fam+"|"+c.class()] = true
		cl.distinct["signopts|"+c.Key+"|"+c.class()+"|"+c.PK+fmt.Sprint(c.Det)+"|"+res.outcome] = true
		if res.outcome == "panic" {
			k := fmt.Sprintf("%s key, %s: %s", fam, in.name, res.detail)
			if len(cl.rep.SignOpts.Panics) < 40 && !cl.panicSeen[k] {
				cl.panicSeen[k] = true
				cl.rep.SignOpts.Panics = append(cl.rep.SignOpts.Panics, k)
			}
		}
		cl.mu.Unlock()
		if allowed {
			continue
		}
		want := []string{}
		if c.Refuse {
			want = append(want, "Sign returns an error")
		}
		if len(c.Labels) > 0 {
			want = append(want, fmt.Sprintf("the product verifies with the matching key (label in %v)", c.Labels))
		}
		obs := res.outcome
		if res.outcome == "verifies" {
			obs = fmt.Sprintf("verifies-with-label-%d", res.label)
		}
		f := &Finding{Cfg: Cfg{Alg: fmt.Sprint(res.label), AlgID: res.label, Key: c.Key, Struct: "Sign1", PK: c.PK, Det: c.Det, AAD: c.AAD, Family: fam},
			Alters: "signer-options:" + in.name, Wire: hex.EncodeToString(res.wire), AAD: hex.EncodeToString(aad), KeyKind: "signer", Outcome: obs, Detail: res.detail,
			What: fmt.Sprintf("Sign1.Sign with a %s key and options %s: %s (%s); Cose.tla allows: %s", c.Key, in.name, obs, res.detail, strings.Join(want, " or "))}
		cl.finding(fmt.Sprintf("signopts|%s|%s|opts=%s", res.outcome, fam, c.class()), f)
	}
	return nil
}

// runSignOpts runs all combinations (grouped per key so that RSA work spreads over the workers).
func runSignOpts(combos []OptsCombo, cl *collector, seed int64, large int, workers int) error {
	jobs := make(chan int)
	errs := make(chan error, len(combos)+1)
	var wg sync.WaitGroup
	for w := 0; w < workers; w++ {
		wg.Add(1)
		go func() {
			defer wg.Done()
			for i := range jobs {
				c := combos[i]
				r := mrand.New(mrand.NewSource(seed*7919 + int64(i)))
				var err error
				switch c.PK {
				case "empty":
					err = runOptsCombo(c, bytesOps([]byte{}), cl, r)
				case "raw":
					err = runOptsCombo(c, bytesOps(randBytes(r, 1+r.Intn(200))), cl, r)
				case "large":
					err = runOptsCombo(c, bytesOps(randBytes(r, large)), cl, r)
				case "nested":
					err = runOptsCombo(c, nestedOps(newNested(r)), cl, r)
				default:
					err = fmt.Errorf("unknown payload kind %q", c.PK)
				}
				if err != nil {
					errs <- err
				}
				cl.mu.Lock()
				cl.rep.SignOpts.Combos++
				cl.mu.Unlock()
			}
		}()
	}
	for i := range combos {
		jobs <- i
	}
	close(jobs)
	wg.Wait()
	close(errs)
	for err := range errs {
		return err
	}
	return nil
}
