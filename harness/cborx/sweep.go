package cborx

import (
	"bufio"
	"bytes"
	"encoding/binary"
	"encoding/hex"
	"encoding/json"
	"fmt"
	mrand "math/rand"
	"os"
	"os/exec"
	"regexp"
	"runtime"
	"runtime/debug"
	"runtime/metrics"
	"sort"
	"strings"
	"sync"
	"sync/atomic"
	"syscall"
	"time"

	"github.com/fido-device-onboard/go-fdo/cbor"

	"verifharness/world"
)

// Budgets of DESIGN 1.4 rule 5.
const (
	allocSlack    = 4 << 20
	allocPerByte  = 64
	hangLimit     = 10 * time.Second
	batchHangLim  = 120 * time.Second
	seededPerUnit = 32
)

// TableLine is one BEHAVIOUR line of Cbor_Tab.tla.
type TableLine struct {
	P     []int  `json:"p"`
	Self  int    `json:"self"`
	SelfW int    `json:"selfw"`
	Reps  []int  `json:"reps"`
	Code  any    `json:"code"` // list (prefix lines) or int (shape lines)
	W     any    `json:"w"`
	Shape string `json:"shape"`
	Bytes []int  `json:"bytes"`
}

// Job is what the parent hands to its children.
type Job struct {
	Seed     int64    `json:"seed"`
	Tier     string   `json:"tier"`
	Prefixes []int    `json:"prefixes"` // 2-byte prefixes (b0<<8|b1) whose 256 extensions are run; nil = all
	All3     bool     `json:"all3"`
	Table3   []string `json:"table3"` // hex: 3-byte strings of the TLC table
	Shapes   []string `json:"shapes"` // hex: TLC shape inputs
	NSeeded  int      `json:"nseeded"`
	Corpus   []string `json:"corpus"` // hex: encoded messages (mutation bases)

	Nest      *NestTable `json:"nest,omitempty"`       // schemas and target -> schema table of Cbor_Nest.tla
	NestCases []NestCase `json:"nest_cases,omitempty"` // TLC cases with their verdict per schema
}

// Example is one concrete disagreement.
type Example struct {
	Target   string `json:"target"`
	Mode     string `json:"mode"`
	Input    string `json:"input_hex"`
	InputLen int    `json:"input_len"`
	Kind     string `json:"input_kind"`
	Observed string `json:"observed"`
	Expected string `json:"expected"`
}

// Disagreement aggregates the examples of one key.
type Disagreement struct {
	Key      string    `json:"key"`
	Count    int       `json:"count"`
	Targets  []string  `json:"targets"`
	Examples []Example `json:"examples"`
}

// SweepResult is the output of cbor-decode-sweep.
type SweepResult struct {
	Inputs        int            `json:"inputs"`
	Calls         int            `json:"calls"`
	OkCalls       int            `json:"ok_calls"`
	ErrCalls      int            `json:"err_calls"`
	ByClass       map[string]int `json:"inputs_by_class"`
	ByKind        map[string]int `json:"inputs_by_kind"`
	OkByTarget    map[string]int `json:"ok_by_target"`
	Targets       int            `json:"targets"`
	TableInputs   int            `json:"table_inputs"`
	RefMismatch   []RefMismatch  `json:"ref_mismatch"`
	Disagreements []Disagreement `json:"disagreements"`
	Incomplete    []string       `json:"incomplete"`
	Restarts      int            `json:"restarts"`
	MaxAlloc      uint64         `json:"max_alloc_bytes"`
	MaxAllocAt    string         `json:"max_alloc_at"`
	MaxCallMs     float64        `json:"max_call_ms"`
	Units         int            `json:"units"`
	Labels        map[string]int `json:"inputs_by_label"` // input family | class | first irregularity
	DistinctIn    int            `json:"distinct_input_classes"`
	Skipped       int            `json:"skipped_after_resource_finding"`
	Samples       []any          `json:"samples"`

	NestInputs      int            `json:"nest_inputs"`        // cases of Cbor_Nest.tla cross-checked and run
	NestControls    int            `json:"nest_controls"`      // (honest instance, target it is built for) pairs accepted by the library
	NestCtlFailed   []string       `json:"nest_control_failed"` // ... refused: the instance / schema does not describe the target
	NestMustRefuse  int            `json:"nest_must_refuse_calls"` // calls on (case, target) pairs the specification wants refused
	NestBySchema    map[string]int `json:"nest_must_refuse_by_schema"`
}

type agg struct {
	mu sync.Mutex
	m  map[string]*Disagreement
}

func (a *agg) add(key string, ex Example) {
	a.mu.Lock()
	defer a.mu.Unlock()
	d := a.m[key]
	if d == nil {
		d = &Disagreement{Key: key}
		a.m[key] = d
	}
	d.Count++
	found := false
	for _, t := range d.Targets {
		if t == ex.Target {
			found = true
		}
	}
	if !found {
		d.Targets = append(d.Targets, ex.Target)
	}
	// keep the three shortest examples
	d.Examples = append(d.Examples, ex)
	sort.SliceStable(d.Examples, func(i, j int) bool { return d.Examples[i].InputLen < d.Examples[j].InputLen })
	if len(d.Examples) > 3 {
		d.Examples = d.Examples[:3]
	}
}

func (a *agg) merge(ds []Disagreement) {
	for _, d := range ds {
		a.mu.Lock()
		x := a.m[d.Key]
		if x == nil {
			x = &Disagreement{Key: d.Key}
			a.m[d.Key] = x
		}
		x.Count += d.Count
		for _, t := range d.Targets {
			found := false
			for _, u := range x.Targets {
				if u == t {
					found = true
				}
			}
			if !found {
				x.Targets = append(x.Targets, t)
			}
		}
		x.Examples = append(x.Examples, d.Examples...)
		sort.SliceStable(x.Examples, func(i, j int) bool { return x.Examples[i].InputLen < x.Examples[j].InputLen })
		if len(x.Examples) > 3 {
			x.Examples = x.Examples[:3]
		}
		a.mu.Unlock()
	}
}

func (a *agg) list() []Disagreement {
	var out []Disagreement
	for _, d := range a.m {
		sort.Strings(d.Targets)
		out = append(out, *d)
	}
	sort.Slice(out, func(i, j int) bool { return out[i].Key < out[j].Key })
	return out
}

// ---- one call ------------------------------------------------------------------------------------

type outcome struct {
	ok       bool
	consumed int
	pan      string
	err      string
}

func decodeStream(t *Target, b []byte) (o outcome) {
	cr := &countingReader{r: bytes.NewReader(b)}
	defer func() {
		if r := recover(); r != nil {
			o = outcome{pan: world.TopLibFrame(), err: fmt.Sprint(r), consumed: cr.n}
		}
	}()
	err := cbor.NewDecoder(cr).Decode(t.New())
	o.ok, o.consumed = err == nil, cr.n
	if err != nil {
		o.err = err.Error()
		if len(o.err) > 120 {
			o.err = o.err[:120]
		}
	}
	return
}

func decodeWhole(t *Target, b []byte) (o outcome) {
	defer func() {
		if r := recover(); r != nil {
			o = outcome{pan: world.TopLibFrame(), err: fmt.Sprint(r)}
		}
	}()
	err := cbor.Unmarshal(b, t.New())
	o.ok, o.consumed = err == nil, len(b)
	if err != nil {
		o.err = err.Error()
		if len(o.err) > 120 {
			o.err = o.err[:120]
		}
	}
	return
}

func classLabel(b []byte, v V) string {
	if v.Irr != "" {
		return v.Irr
	}
	if len(b) == 0 {
		return "empty"
	}
	return "definite-" + majorName[b[0]>>5]
}

func expectText(v V) string {
	switch v.Class {
	case ClassBad:
		return "Error (no item starts the input: " + v.Irr + ")"
	case ClassDef:
		return fmt.Sprintf("Ok(consumed=%d) or Error", v.N)
	case ClassIndef:
		return fmt.Sprintf("Error (indefinite lengths are unsupported) or Ok(consumed=%d)", v.N)
	}
	return fmt.Sprintf("Error or Ok(consumed=%d) (two-byte simple value below 32)", v.N)
}

// judge applies the outcome rule of Cbor.tla (operator Allowed) plus the bstr .cbor rule.
func judge(t *Target, mode string, b []byte, v V, o outcome, nv []int) (kind string) {
	switch {
	case o.pan != "":
		return "panic"
	case !o.ok:
		return ""
	case v.Class == ClassBad:
		return "ok-malformed"
	case mode == "stream" && o.consumed != v.N:
		return "ok-wrong-consumed"
	case mode == "whole" && v.N != len(b):
		return "ok-trailing"
	case t.Wrap && len(b) > 0 && b[0]>>5 == 2 && !v.W:
		return "ok-wrap-inexact"
	case mustRefuseNested(t, b, v, nv):
		return "ok-nested-inexact"
	}
	return ""
}

// mustRefuseNested: Cbor_Nest.tla NestVerdict = 0 for the schema of the target: some nested position
// (bstr .cbor) does not hold exactly one item. nv is TLC's verdict vector for inputs TLC printed; all
// other inputs are judged by the schema interpreter (compared with TLC on every printed case).
func mustRefuseNested(t *Target, b []byte, v V, nv []int) bool {
	if t.Schema == nil {
		return false
	}
	if nv != nil {
		return nv[t.SchemaIdx] == 0
	}
	return NestVerdict(t.Schema, b, v) == 0
}

func keyOf(kind string, t *Target, b []byte, v V, o outcome) string {
	if kind == "panic" {
		return fmt.Sprintf("panic|%s|family=%s", o.pan, t.Family)
	}
	return fmt.Sprintf("decode|class=%s|%s|family=%s", classLabel(b, v), kind, t.Family)
}

func example(t *Target, mode string, in Input, v V, o outcome) Example {
	h := in.B
	trunc := ""
	if len(h) > 96 {
		trunc = fmt.Sprintf("... (%d bytes)", len(h))
		h = h[:96]
	}
	obs := fmt.Sprintf("Error(%s)", o.err)
	if o.pan != "" {
		obs = fmt.Sprintf("Crash at %s: %s", o.pan, o.err)
	} else if o.ok {
		obs = fmt.Sprintf("Ok(consumed=%d)", o.consumed)
	}
	return Example{Target: t.Name, Mode: mode, Input: hex.EncodeToString(h) + trunc, InputLen: len(in.B), Kind: in.Kind, Observed: obs, Expected: expectText(v)}
}

// ---- child -----------------------------------------------------------------------------------------

type unitResult struct {
	Unit       int            `json:"unit"`
	Inputs     int            `json:"inputs"`
	Calls      int            `json:"calls"`
	Ok         int            `json:"ok"`
	ByClass    map[string]int `json:"by_class"`
	ByKind     map[string]int `json:"by_kind"`
	ByLabel    map[string]int `json:"by_label"`
	OkByTarget map[string]int `json:"ok_by_target"`
	Dis        []Disagreement `json:"dis"`
	MaxAlloc   uint64         `json:"max_alloc"`
	MaxAllocAt string         `json:"max_alloc_at"`
	MaxCallMs  float64        `json:"max_call_ms"`
	Hang       *callPos       `json:"hang,omitempty"`
	Skipped    int            `json:"skipped"`

	NestControls   int            `json:"nest_controls,omitempty"`
	NestCtlFailed  []string       `json:"nest_ctl_failed,omitempty"`
	NestMustRefuse int            `json:"nest_must_refuse,omitempty"`
	NestBySchema   map[string]int `json:"nest_by_schema,omitempty"`
}

type callPos struct {
	Unit, Input, Target, Mode int
}

func (p callPos) String() string {
	return fmt.Sprintf("%d:%d:%d:%d", p.Unit, p.Input, p.Target, p.Mode)
}

var allocSample = []metrics.Sample{{Name: "/gc/heap/allocs:bytes"}}

func allocNow() uint64 {
	metrics.Read(allocSample)
	return allocSample[0].Value.Uint64()
}

// unitInputs enumerates the inputs of a unit. Units: [0, nShort) short strings (length <= 2), then the
// selected 3-byte batches, then the table strings, then the shapes, then the seeded inputs.
type plan struct {
	job      *Job
	prefixes []int
	nShort   int // 257 batches: {empty + 1-byte}, then 256 two-byte batches
	nThree   int
	nTable   int
	nShapes  int
	nNest    int
	nSeeded  int
	corpus   [][]byte
	table3   [][]byte
	shapes   [][]byte
	nest     []NestCase
	nestB    [][]byte
}

func newPlan(job *Job) *plan {
	p := &plan{job: job, nShort: 257}
	if job.All3 {
		p.prefixes = make([]int, 65536)
		for i := range p.prefixes {
			p.prefixes[i] = i
		}
	} else {
		p.prefixes = job.Prefixes
	}
	p.nThree = len(p.prefixes)
	for _, h := range job.Table3 {
		b, _ := hex.DecodeString(h)
		p.table3 = append(p.table3, b)
	}
	p.nTable = (len(p.table3) + 255) / 256
	for _, h := range job.Shapes {
		b, _ := hex.DecodeString(h)
		p.shapes = append(p.shapes, b)
	}
	if len(p.shapes) > 0 {
		p.nShapes = 1
	}
	for _, h := range job.Corpus {
		b, _ := hex.DecodeString(h)
		p.corpus = append(p.corpus, b)
	}
	for _, c := range job.NestCases {
		b, _ := hex.DecodeString(c.Hex)
		p.nest = append(p.nest, c)
		p.nestB = append(p.nestB, b)
	}
	p.nNest = (len(p.nest) + 127) / 128
	p.nSeeded = (job.NSeeded + seededPerUnit - 1) / seededPerUnit
	return p
}

func (p *plan) units() int { return p.nShort + p.nThree + p.nTable + p.nShapes + p.nNest + p.nSeeded }

// nestCases returns the TLC cases of unit u (nil: u is not a unit of Cbor_Nest.tla cases); they are the inputs of that unit.
func (p *plan) nestCases(u int) []NestCase {
	u -= p.nShort + p.nThree + p.nTable + p.nShapes
	if u < 0 || u >= p.nNest {
		return nil
	}
	hi := (u + 1) * 128
	if hi > len(p.nest) {
		hi = len(p.nest)
	}
	return p.nest[u*128 : hi]
}

// inputs returns the inputs of unit u and whether calls are metered one by one.
func (p *plan) inputs(u int) (ins []Input, perCall bool) {
	switch {
	case u == 0:
		ins = append(ins, Input{"exhaustive-len0", []byte{}})
		for i := 0; i < 256; i++ {
			ins = append(ins, Input{"exhaustive-len1", []byte{byte(i)}})
		}
		return ins, false
	case u < p.nShort:
		for i := 0; i < 256; i++ {
			ins = append(ins, Input{"exhaustive-len2", []byte{byte(u - 1), byte(i)}})
		}
		return ins, false
	}
	u -= p.nShort
	if u < p.nThree {
		pre := p.prefixes[u]
		for i := 0; i < 256; i++ {
			ins = append(ins, Input{"exhaustive-len3", []byte{byte(pre >> 8), byte(pre), byte(i)}})
		}
		return ins, false
	}
	u -= p.nThree
	if u < p.nTable {
		for i := u * 256; i < (u+1)*256 && i < len(p.table3); i++ {
			ins = append(ins, Input{"tlc-table-len3", p.table3[i]})
		}
		return ins, false
	}
	u -= p.nTable
	if u < p.nShapes {
		for _, b := range p.shapes {
			ins = append(ins, Input{"tlc-shape", b})
		}
		return ins, true
	}
	u -= p.nShapes
	if u < p.nNest {
		for i := u * 128; i < (u+1)*128 && i < len(p.nest); i++ {
			ins = append(ins, Input{"tlc-nest", p.nestB[i]})
		}
		return ins, false
	}
	u -= p.nNest
	for i := u * seededPerUnit; i < (u+1)*seededPerUnit && i < p.job.NSeeded; i++ {
		ins = append(ins, GenInput(p.job.Seed, i, p.corpus))
	}
	return ins, true
}

type child struct {
	plan    *plan
	targets []Target
	skip    map[string]bool
	status  []byte       // mmap: unit, input, target, mode (uint32 LE) + phase flag
	start   atomic.Int64 // wall clock at the start of the current call (0: idle)
	cpu0    atomic.Int64 // process CPU time at the start of the current call
	limit   atomic.Int64
	out     *bufio.Writer
	outMu   sync.Mutex
	cur     atomic.Pointer[callPos]
	bad     map[string]bool
	badSeen map[string]int
	badPath string
}

// resourceClass names the input class in keys of resource findings (allocation, hang, fatal).
func resourceClass(in Input, v V) string {
	switch in.Kind {
	case "deep-arrays", "deep-arrays-truncated", "deep-tags", "deep-maps", "deep-indefinite", "nested-arrays-claiming-n", "nested-maps-claiming-n", "inflated-partly-filled":
		return in.Kind
	}
	return classLabel(in.B, v)
}

// cpuNow is the CPU time (user+system) consumed by this process. The hang limit is applied to CPU
// time so that a loaded machine does not turn slow calls into hangs ("10 s on an idle core").
func cpuNow() time.Duration {
	var ru syscall.Rusage
	if err := syscall.Getrusage(syscall.RUSAGE_SELF, &ru); err != nil {
		return 0
	}
	return time.Duration(ru.Utime.Nano() + ru.Stime.Nano())
}

func badKey(in Input, v V, t *Target) string { return resourceClass(in, v) + "|" + t.Family }

// noteBad records that an (input class, target family) pair produced an expensive resource finding
// (hang, fatal, or an allocation of more than 64 MiB): after two of them the pair is not run again
// in this sweep (each costs seconds to minutes); the pair is already a violation. The set is shared
// between the child processes through an append-only file.
func (c *child) noteBad(in Input, v V, t *Target, expensive bool) {
	if !expensive || c.badPath == "" {
		return
	}
	k := badKey(in, v, t)
	c.badSeen[k]++
	if c.badSeen[k] >= 2 {
		c.bad[k] = true
		if f, err := os.OpenFile(c.badPath, os.O_CREATE|os.O_APPEND|os.O_WRONLY, 0o644); err == nil {
			fmt.Fprintln(f, k)
			f.Close()
		}
	}
}

func (c *child) loadBad() {
	if c.badPath == "" {
		return
	}
	data, err := os.ReadFile(c.badPath)
	if err != nil {
		return
	}
	for _, l := range strings.Split(string(data), "\n") {
		if l != "" {
			c.bad[l] = true
		}
	}
}

func (c *child) setStatus(p callPos) {
	if c.status != nil {
		binary.LittleEndian.PutUint32(c.status[0:], uint32(p.Unit))
		binary.LittleEndian.PutUint32(c.status[4:], uint32(p.Input))
		binary.LittleEndian.PutUint32(c.status[8:], uint32(p.Target))
		binary.LittleEndian.PutUint32(c.status[12:], uint32(p.Mode))
	}
	c.cur.Store(&p)
}

var modes = []string{"stream", "whole"}

func (c *child) runUnit(u int) *unitResult {
	c.loadBad()
	ins, perCall := c.plan.inputs(u)
	ncases := c.plan.nestCases(u)
	res := &unitResult{NestBySchema: map[string]int{}, Unit: u, Inputs: len(ins), ByClass: map[string]int{}, ByKind: map[string]int{}, ByLabel: map[string]int{}, OkByTarget: map[string]int{}}
	ag := &agg{m: map[string]*Disagreement{}}
	verd := make([]V, len(ins))
	className := [4]string{"bad", "def", "indef", "len"}
	for i, in := range ins {
		verd[i] = Verdict(in.B)
		res.ByClass[className[verd[i].Class]]++
		res.ByKind[in.Kind]++
		res.ByLabel[in.Kind+"|"+className[verd[i].Class]+"|"+verd[i].Irr]++
	}
	call := func(ii, ti, mi int, metered bool) {
		in, t := ins[ii], &c.targets[ti]
		pos := callPos{u, ii, ti, mi}
		if c.skip[pos.String()] {
			return
		}
		if metered && c.bad[badKey(in, verd[ii], t)] {
			res.Skipped++ // this (input class, target family) already produced a resource finding; see noteBad
			return
		}
		var a0 uint64
		var t0 time.Time
		var cpu0 time.Duration
		if metered {
			c.setStatus(pos)
			c.limit.Store(int64(hangLimit))
			c.cpu0.Store(int64(cpuNow()))
			c.start.Store(time.Now().UnixNano())
			t0 = time.Now()
			cpu0 = cpuNow()
			a0 = allocNow()
		}
		var o outcome
		if mi == 0 {
			o = decodeStream(t, in.B)
		} else {
			o = decodeWhole(t, in.B)
		}
		if metered {
			da := allocNow() - a0
			dt := cpuNow() - cpu0
			_ = t0
			c.start.Store(0)
			if da > res.MaxAlloc {
				res.MaxAlloc = da
				res.MaxAllocAt = fmt.Sprintf("%s %s %s len=%d", in.Kind, t.Name, modes[mi], len(in.B))
			}
			if ms := float64(dt.Microseconds()) / 1000; ms > res.MaxCallMs {
				res.MaxCallMs = ms
			}
			if da > uint64(allocPerByte*len(in.B)+allocSlack) && da < 1<<30 {
				// runtime/metrics accounts small objects per span (error up to about a MiB): confirm with
				// the exact, stop-the-world counter before reporting
				var m0, m1 runtime.MemStats
				runtime.ReadMemStats(&m0)
				if mi == 0 {
					_ = decodeStream(t, in.B)
				} else {
					_ = decodeWhole(t, in.B)
				}
				runtime.ReadMemStats(&m1)
				da = m1.TotalAlloc - m0.TotalAlloc
			}
			if da > uint64(allocPerByte*len(in.B)+allocSlack) {
				ex := example(t, modes[mi], in, verd[ii], o)
				ex.Observed = fmt.Sprintf("AllocExceeded: %d bytes allocated for %d input bytes (budget %d); result %s", da, len(in.B), allocPerByte*len(in.B)+allocSlack, ex.Observed)
				ag.add(fmt.Sprintf("alloc-exceeded|class=%s|family=%s", resourceClass(in, verd[ii]), t.Family), ex)
				c.noteBad(in, verd[ii], t, da > 64<<20)
			}
			if dt > hangLimit {
				ex := example(t, modes[mi], in, verd[ii], o)
				ex.Observed = fmt.Sprintf("Hang: call took %s of CPU time; result %s", dt, ex.Observed)
				ag.add(fmt.Sprintf("hang|class=%s|family=%s", resourceClass(in, verd[ii]), t.Family), ex)
				c.noteBad(in, verd[ii], t, true)
			} else if dt > 2*time.Second {
				c.noteBad(in, verd[ii], t, true)
			}
		}
		res.Calls++
		if o.ok {
			res.Ok++
			res.OkByTarget[t.Name]++
		}
		var nv []int
		if ncases != nil {
			nv = ncases[ii].V
			if nc := &ncases[ii]; nc.Ctl && mi == 1 && metered == perCall {
				for _, f := range nc.For {
					if f == t.Name {
						if o.ok {
							res.NestControls++
						} else {
							res.NestCtlFailed = append(res.NestCtlFailed, fmt.Sprintf("%s refuses the honest instance %s (%x): %s%s", t.Name, nc.Label, in.B, o.err, o.pan))
						}
					}
				}
			}
		}
		if metered == perCall && t.Schema != nil && verd[ii].Class != ClassBad && mustRefuseNested(t, in.B, verd[ii], nv) {
			res.NestMustRefuse++
			res.NestBySchema[t.SchemaName+"|"+in.Kind]++
		}
		if kind := judge(t, modes[mi], in.B, verd[ii], o, nv); kind != "" {
			ex := example(t, modes[mi], in, verd[ii], o)
			switch kind {
			case "ok-nested-inexact":
				ex.Expected = fmt.Sprintf("Error (schema %s of Cbor_Nest.tla: a byte string at a nested position of this target does not hold exactly one item)", t.SchemaName)
			case "ok-wrap-inexact":
				ex.Expected = "Error (the content of the byte string is not exactly one item: Cbor.tla WrappedExact)"
			}
			ag.add(keyOf(kind, t, in.B, verd[ii], o), ex)
		}
	}
	if perCall {
		for ii := range ins {
			for ti := range c.targets {
				for mi := range modes {
					call(ii, ti, mi, true)
				}
			}
		}
	} else {
		// short inputs: meter a whole batch (one target, one mode); only when the batch exceeds the
		// budget of a single call are the calls repeated one by one
		// exhaustive 3-byte batches: stream mode for every prefix, whole-buffer mode (which adds only the
		// trailing-data check of cbor.Unmarshal to what stream mode observes) for every fourth prefix
		thin := c.plan.job.All3 && len(ins) > 0 && ins[0].Kind == "exhaustive-len3" && (int(ins[0].B[0])<<8|int(ins[0].B[1]))%4 != 0
		// quick tier: the composite targets (COSE structures with typed payloads, message re-declarations: compositions
		// of decoders that are targets themselves) are not run on the bulk of 3-byte strings
		skipComposite := c.plan.job.Tier != "thorough" && len(ins) > 0 && (ins[0].Kind == "tlc-table-len3" || ins[0].Kind == "exhaustive-len3")
		for ti := range c.targets {
			if skipComposite && c.targets[ti].Composite {
				continue
			}
			for mi := range modes {
				if thin && mi == 1 {
					continue
				}
				c.setStatus(callPos{u, -1, ti, mi})
				c.limit.Store(int64(batchHangLim))
				c.cpu0.Store(int64(cpuNow()))
				c.start.Store(time.Now().UnixNano())
				a0 := allocNow()
				t0 := cpuNow()
				for ii := range ins {
					call(ii, ti, mi, false)
				}
				da, dt := allocNow()-a0, cpuNow()-t0
				c.start.Store(0)
				if da > allocSlack || dt > hangLimit {
					calls, ok := res.Calls, res.Ok
					okT := res.OkByTarget[c.targets[ti].Name]
					for ii := range ins {
						call(ii, ti, mi, true)
					}
					res.Calls, res.Ok = calls, ok
					res.OkByTarget[c.targets[ti].Name] = okT
				} else if da > res.MaxAlloc && len(ins) > 0 {
					// upper bound for every call of the batch
					res.MaxAlloc, res.MaxAllocAt = da, fmt.Sprintf("batch of %d short inputs, %s %s", len(ins), c.targets[ti].Name, modes[mi])
				}
			}
		}
	}
	res.Dis = ag.list()
	return res
}

func (c *child) emit(r *unitResult) {
	c.outMu.Lock()
	defer c.outMu.Unlock()
	data, _ := json.Marshal(r)
	c.out.Write(data)
	c.out.WriteByte('\n')
	c.out.Flush()
}

// RunChild executes the units of one shard. Exit code 0: all done; 3: a call exceeded the hang limit
// (the position is in the last line of the partial file; the parent restarts behind it).
func RunChild(jobPath string, shard, of, from int, skip []string, partial, statusPath, badPath string) int {
	runtime.GOMAXPROCS(2)
	debug.SetGCPercent(200)
	data, err := os.ReadFile(jobPath)
	if err != nil {
		fmt.Fprintln(os.Stderr, err)
		return 2
	}
	var job Job
	if err := json.Unmarshal(data, &job); err != nil {
		fmt.Fprintln(os.Stderr, err)
		return 2
	}
	c := &child{plan: newPlan(&job), targets: Targets(), skip: map[string]bool{}, bad: map[string]bool{}, badSeen: map[string]int{}, badPath: badPath}
	if job.Nest != nil {
		if err := BindSchemas(c.targets, job.Nest); err != nil {
			fmt.Fprintln(os.Stderr, err)
			return 2
		}
	}
	for _, s := range skip {
		c.skip[s] = true
	}
	f, err := os.OpenFile(partial, os.O_CREATE|os.O_APPEND|os.O_WRONLY, 0o644)
	if err != nil {
		fmt.Fprintln(os.Stderr, err)
		return 2
	}
	defer f.Close()
	c.out = bufio.NewWriter(f)
	if statusPath != "" {
		sf, err := os.OpenFile(statusPath, os.O_CREATE|os.O_RDWR, 0o644)
		if err == nil {
			_ = sf.Truncate(16)
			if m, err := syscall.Mmap(int(sf.Fd()), 0, 16, syscall.PROT_READ|syscall.PROT_WRITE, syscall.MAP_SHARED); err == nil {
				c.status = m
			}
			sf.Close()
		}
	}
	// watchdog
	go func() {
		for {
			time.Sleep(250 * time.Millisecond)
			st := c.start.Load()
			if st == 0 {
				continue
			}
			// CPU time beyond the limit, or (backstop for a blocked call) 12x the limit in wall time
			if int64(cpuNow())-c.cpu0.Load() > c.limit.Load()+int64(time.Second) || time.Now().UnixNano()-st > 12*c.limit.Load() {
				p := c.cur.Load()
				c.emit(&unitResult{Unit: p.Unit, Hang: p})
				os.Exit(3)
			}
		}
	}()
	n := c.plan.units()
	for u := from; u < n; u++ {
		if u%of != shard {
			continue
		}
		c.emit(c.runUnit(u))
	}
	return 0
}

// ---- parent ----------------------------------------------------------------------------------------

// SweepOpts configures RunSweep.
type SweepOpts struct {
	Tier    string
	Seed    int64
	Table   string // JSON list of TableLine (optional)
	Nest    string // JSON list of NestLine: output of Cbor_Nest.tla (optional)
	Out     string
	Workers int
	Sample3 int // number of random 2-byte prefixes in the quick tier
	NSeeded int
	Self    string // path of the vh binary
	Dir     string // scratch directory
}

var frameRe = regexp.MustCompile(`go-fdo/([a-z]+\.(?:\(\*?[A-Za-z0-9_\[\]\.·,]+\)\.)?[A-Za-z0-9_]+)`)

func codeList(x any) []int {
	switch x := x.(type) {
	case []any:
		out := make([]int, len(x))
		for i, v := range x {
			out[i] = int(v.(float64))
		}
		return out
	case float64:
		return []int{int(x)}
	}
	return nil
}

// CrossCheckTable compares the Go reference (Verdict and harness/cb) with the TLC verdict table.
func CrossCheckTable(lines []TableLine, res *SweepResult) (table3, shapes [][]byte) {
	check := func(b []byte, code, w int) {
		res.TableInputs++
		v := Verdict(b)
		gw := 0
		if v.W {
			gw = 1
		}
		if v.Code() != code || gw != w {
			if len(res.RefMismatch) < 50 {
				res.RefMismatch = append(res.RefMismatch, RefMismatch{What: fmt.Sprintf("Verdict(%x) = code %d w %d, Cbor_Tab.tla says code %d w %d", b, v.Code(), gw, code, w)})
			}
			return
		}
		if d := CrossCheckCB(b, v); d != "" && len(res.RefMismatch) < 50 {
			res.RefMismatch = append(res.RefMismatch, RefMismatch{What: fmt.Sprintf("harness/cb on %x: %s", b, d)})
		}
	}
	for _, l := range lines {
		if l.Shape != "" {
			b := toBytes(l.Bytes)
			check(b, codeList(l.Code)[0], codeList(l.W)[0])
			shapes = append(shapes, b)
			continue
		}
		p := toBytes(l.P)
		check(p, l.Self, l.SelfW)
		codes, ws := codeList(l.Code), codeList(l.W)
		for i, r := range l.Reps {
			b := append(append([]byte{}, p...), byte(r))
			check(b, codes[i], ws[i])
			if len(b) == 3 {
				table3 = append(table3, b)
			}
		}
	}
	return
}

// RunSweep is the parent: plans the units, runs the children, merges their results.
func RunSweep(o SweepOpts) (*SweepResult, error) {
	res := &SweepResult{ByClass: map[string]int{}, ByKind: map[string]int{}, Labels: map[string]int{}, OkByTarget: map[string]int{}, Targets: len(Targets()), NestBySchema: map[string]int{}}
	job := &Job{Seed: o.Seed, Tier: o.Tier, NSeeded: o.NSeeded}
	if o.Table != "" {
		data, err := os.ReadFile(o.Table)
		if err != nil {
			return nil, err
		}
		var lines []TableLine
		if err := json.Unmarshal(data, &lines); err != nil {
			return nil, err
		}
		t3, sh := CrossCheckTable(lines, res)
		for _, b := range sh {
			job.Shapes = append(job.Shapes, hex.EncodeToString(b))
		}
		if o.Tier != "thorough" { // in the thorough tier every 3-byte string is run anyway
			for _, b := range t3 {
				job.Table3 = append(job.Table3, hex.EncodeToString(b))
			}
		}
	}
	if o.Nest != "" {
		nt, lines, err := LoadNest(o.Nest)
		if err != nil {
			return nil, err
		}
		if err := BindSchemas(Targets(), nt); err != nil {
			return nil, err
		}
		job.Nest, job.NestCases = nt, CrossCheckNest(nt, lines, res)
	}
	if o.Tier == "thorough" {
		job.All3 = true
	} else {
		r := mrand.New(mrand.NewSource(o.Seed))
		seen := map[int]bool{}
		for len(job.Prefixes) < o.Sample3 {
			p := r.Intn(65536)
			if !seen[p] {
				seen[p] = true
				job.Prefixes = append(job.Prefixes, p)
			}
		}
	}
	// corpus of encoded messages (mutation bases), created once so that every child sees the same
	env, err := NewEnv()
	if err != nil {
		return nil, err
	}
	cr := mrand.New(mrand.NewSource(o.Seed + 99))
	for _, mt := range MsgTypes() {
		for i := 0; i < 6; i++ {
			if b, err, pan := safeMarshal(mt.Gen(cr, env)); err == nil && pan == "" {
				job.Corpus = append(job.Corpus, hex.EncodeToString(b))
			}
		}
	}
	for _, b := range NestMsgs(cr, env) {
		job.Corpus = append(job.Corpus, hex.EncodeToString(b))
	}
	jobPath := o.Dir + "/sweep-job.json"
	data, _ := json.Marshal(job)
	if err := os.WriteFile(jobPath, data, 0o644); err != nil {
		return nil, err
	}
	pl := newPlan(job)
	res.Units = pl.units()
	targets := Targets()
	if job.Nest != nil {
		_ = BindSchemas(targets, job.Nest)
	}

	ag := &agg{m: map[string]*Disagreement{}}
	badPath := o.Dir + "/sweep-bad.txt"
	badSeen := map[string]int{}
	var mu sync.Mutex
	var wg sync.WaitGroup
	for k := 0; k < o.Workers; k++ {
		wg.Add(1)
		go func(k int) {
			defer wg.Done()
			partial := fmt.Sprintf("%s/sweep-part-%d.ndjson", o.Dir, k)
			status := fmt.Sprintf("%s/sweep-status-%d.bin", o.Dir, k)
			_ = os.Remove(partial)
			var skip []string
			from := 0
			for attempt := 0; attempt < 400; attempt++ {
				args := []string{"cbor-decode-sweep", "-child", "-job", jobPath, "-shard", fmt.Sprint(k), "-of", fmt.Sprint(o.Workers),
					"-from", fmt.Sprint(from), "-partial", partial, "-status", status, "-bad", badPath, "-skip", strings.Join(skip, ",")}
				cmd := exec.Command(o.Self, args...)
				var stderr bytes.Buffer
				cmd.Stderr = &stderr
				err := cmd.Run()
				if err == nil {
					return
				}
				code := -1
				if ee, ok := err.(*exec.ExitError); ok {
					code = ee.ExitCode()
				}
				mu.Lock()
				res.Restarts++
				mu.Unlock()
				// where was it?
				var pos callPos
				if st, err := os.ReadFile(status); err == nil && len(st) >= 16 {
					pos = callPos{int(binary.LittleEndian.Uint32(st[0:])), int(int32(binary.LittleEndian.Uint32(st[4:]))), int(binary.LittleEndian.Uint32(st[8:])), int(binary.LittleEndian.Uint32(st[12:]))}
				}
				ins, _ := pl.inputs(pos.Unit)
				if pos.Input < 0 || pos.Input >= len(ins) || pos.Target >= len(targets) || pos.Mode > 1 {
					mu.Lock()
					res.Incomplete = append(res.Incomplete, fmt.Sprintf("shard %d died (exit %d) at %v: %s", k, code, pos, tail(stderr.String(), 600)))
					mu.Unlock()
					return
				}
				in, t := ins[pos.Input], &targets[pos.Target]
				v := Verdict(in.B)
				ex := example(t, modes[pos.Mode], in, v, outcome{})
				mu.Lock()
				bk := badKey(in, v, t)
				badSeen[bk]++
				if badSeen[bk] >= 2 {
					if f, err := os.OpenFile(badPath, os.O_CREATE|os.O_APPEND|os.O_WRONLY, 0o644); err == nil {
						fmt.Fprintln(f, bk)
						f.Close()
					}
				}
				mu.Unlock()
				if code == 3 {
					ex.Observed = fmt.Sprintf("Hang: no return within %s of CPU time", hangLimit)
					ag.add(fmt.Sprintf("hang|class=%s|family=%s", resourceClass(in, v), t.Family), ex)
				} else {
					frame := "unknown"
					if m := frameRe.FindStringSubmatch(stderr.String()); m != nil {
						frame = m[1]
					}
					first := strings.SplitN(strings.TrimSpace(stderr.String()), "\n", 2)[0]
					ex.Observed = fmt.Sprintf("Crash (process died, exit %d): %s", code, first)
					ag.add(fmt.Sprintf("fatal|%s|class=%s|family=%s", frame, resourceClass(in, v), t.Family), ex)
				}
				skip = append(skip, pos.String())
				from = pos.Unit
				// drop the lines of the unit that is going to be repeated (none: units are emitted when complete)
			}
			mu.Lock()
			res.Incomplete = append(res.Incomplete, fmt.Sprintf("shard %d: too many restarts", k))
			mu.Unlock()
		}(k)
	}
	wg.Wait()
	// merge
	done := map[int]bool{}
	for k := 0; k < o.Workers; k++ {
		f, err := os.Open(fmt.Sprintf("%s/sweep-part-%d.ndjson", o.Dir, k))
		if err != nil {
			continue
		}
		sc := bufio.NewScanner(f)
		sc.Buffer(make([]byte, 1<<20), 64<<20)
		for sc.Scan() {
			var ur unitResult
			if err := json.Unmarshal(sc.Bytes(), &ur); err != nil || ur.Hang != nil || done[ur.Unit] {
				continue
			}
			done[ur.Unit] = true
			res.Inputs += ur.Inputs
			res.Calls += ur.Calls
			res.OkCalls += ur.Ok
			for c, n := range ur.ByClass {
				res.ByClass[c] += n
			}
			for c, n := range ur.ByKind {
				res.ByKind[c] += n
			}
			for c, n := range ur.ByLabel {
				res.Labels[c] += n
			}
			for c, n := range ur.OkByTarget {
				res.OkByTarget[c] += n
			}
			ag.merge(ur.Dis)
			if ur.MaxAlloc > res.MaxAlloc {
				res.MaxAlloc, res.MaxAllocAt = ur.MaxAlloc, ur.MaxAllocAt
			}
			if ur.MaxCallMs > res.MaxCallMs {
				res.MaxCallMs = ur.MaxCallMs
			}
			res.Skipped += ur.Skipped
			res.NestControls += ur.NestControls
			res.NestCtlFailed = append(res.NestCtlFailed, ur.NestCtlFailed...)
			res.NestMustRefuse += ur.NestMustRefuse
			for c, n := range ur.NestBySchema {
				res.NestBySchema[c] += n
			}
		}
		f.Close()
	}
	res.ErrCalls = res.Calls - res.OkCalls
	res.DistinctIn = len(res.Labels)
	if len(done) != res.Units {
		res.Incomplete = append(res.Incomplete, fmt.Sprintf("%d of %d units completed", len(done), res.Units))
	}
	res.Disagreements = ag.list()
	return res, nil
}

func tail(s string, n int) string {
	if len(s) > n {
		return s[len(s)-n:]
	}
	return s
}
