package cborx

import (
	"bytes"
	"encoding/binary"
	"fmt"
	"io"
	"math"
	"reflect"
	"sort"
	"strings"

	"github.com/fido-device-onboard/go-fdo/cbor"

	"verifharness/cb"
)

// Val is a data item of Cbor.tla (operator V): t kind, n magnitude, b string content, kids.
type Val struct {
	T    string `json:"t"`
	N    []int  `json:"n"`
	B    []int  `json:"b"`
	Kids []*Val `json:"kids"`
}

// Op is one constructor action of the builder machine (Cbor_Gen.tla).
type Op struct {
	Op string `json:"op"` // push | arr | map | tag | wrap
	V  *Val   `json:"v"`
	K  int    `json:"k"`
	N  []int  `json:"n"`
}

// Behaviour is one TLC-generated behaviour: the script and the canonical bytes the spec expects.
type Behaviour struct {
	Script []Op  `json:"script"`
	Bytes  []int `json:"bytes"`
}

func toBytes(xs []int) []byte {
	out := make([]byte, len(xs))
	for i, x := range xs {
		out[i] = byte(x)
	}
	return out
}

// U64 is the value of a magnitude.
func magU64(m []int) uint64 {
	var v uint64
	for _, x := range m {
		v = v<<8 | uint64(x)
	}
	return v
}

func (v *Val) mag() uint64 { return magU64(v.N) }

// Run executes the script on a stack, exactly like the builder of Cbor.tla, and returns the item.
func Run(script []Op) (*Val, error) {
	var st []*Val
	pop := func(k int) ([]*Val, error) {
		if k > len(st) {
			return nil, fmt.Errorf("script pops %d of %d", k, len(st))
		}
		kids := append([]*Val(nil), st[len(st)-k:]...)
		st = st[:len(st)-k]
		return kids, nil
	}
	for _, op := range script {
		switch op.Op {
		case "push":
			st = append(st, op.V)
		case "arr":
			kids, err := pop(op.K)
			if err != nil {
				return nil, err
			}
			st = append(st, &Val{T: "arr", Kids: kids})
		case "map":
			kids, err := pop(2 * op.K)
			if err != nil {
				return nil, err
			}
			st = append(st, &Val{T: "map", Kids: kids})
		case "tag":
			kids, err := pop(1)
			if err != nil {
				return nil, err
			}
			st = append(st, &Val{T: "tag", N: op.N, Kids: kids})
		case "wrap":
			kids, err := pop(1)
			if err != nil {
				return nil, err
			}
			st = append(st, &Val{T: "wrap", Kids: kids})
		default:
			return nil, fmt.Errorf("unknown op %q", op.Op)
		}
	}
	if len(st) != 1 {
		return nil, fmt.Errorf("script leaves %d items", len(st))
	}
	return st[0], nil
}

// Node converts the item to the reference codec's tree (minimal heads; maps are sorted by Canon).
func (v *Val) Node() *cb.Node {
	switch v.T {
	case "uint":
		return cb.Uint(v.mag())
	case "nint":
		return cb.Nint(v.mag())
	case "bstr":
		return cb.Bstr(toBytes(v.B))
	case "tstr":
		return cb.Tstr(string(toBytes(v.B)))
	case "arr", "map":
		kids := make([]*cb.Node, len(v.Kids))
		for i, k := range v.Kids {
			kids[i] = k.Node()
		}
		if v.T == "arr" {
			return cb.Arr(kids...)
		}
		return cb.Map(kids...)
	case "tag":
		return cb.Tag(v.mag(), v.Kids[0].Node())
	case "wrap":
		return cb.Bstr(v.Kids[0].RefBytes())
	case "false":
		return cb.Bool(false)
	case "true":
		return cb.Bool(true)
	case "null":
		return cb.Null()
	}
	panic("unknown kind " + v.T)
}

// RefBytes is the canonical encoding according to the reference codec.
func (v *Val) RefBytes() []byte { return v.Node().Canon().Encode() }

// Sig is a short class name of the item used in finding keys.
func (v *Val) Sig() string {
	switch v.T {
	case "uint", "nint":
		w := 0
		m := v.mag()
		switch {
		case m < 24:
			w = 0
		case m <= 0xff:
			w = 1
		case m <= 0xffff:
			w = 2
		case m <= 0xffffffff:
			w = 4
		default:
			w = 8
		}
		s := fmt.Sprintf("%s/%d", v.T, w)
		switch {
		case v.T == "nint" && m == math.MaxInt64:
			s += ":minint64"
		case v.T == "nint" && m > math.MaxInt64:
			s += ":below-int64"
		case v.T == "uint" && m == math.MaxInt64:
			s += ":maxint64"
		case v.T == "uint" && m == math.MaxUint64:
			s += ":maxuint64"
		case v.T == "uint" && m > math.MaxInt64:
			s += ":above-int64"
		}
		return s
	case "bstr", "tstr":
		n := len(v.B)
		switch {
		case n < 24:
			return v.T + "/0"
		case n <= 0xff:
			return v.T + "/1"
		default:
			return v.T + "/2"
		}
	case "arr", "map":
		parts := make([]string, 0, len(v.Kids))
		for _, k := range v.Kids {
			parts = append(parts, k.Sig())
		}
		s := v.T + "[" + strings.Join(parts, ",") + "]"
		if len(s) > 60 {
			s = s[:60] + "..."
		}
		return s
	case "tag":
		return fmt.Sprintf("tag(%s)", v.Kids[0].Sig())
	case "wrap":
		return fmt.Sprintf("wrap(%s)", v.Kids[0].Sig())
	}
	return v.T
}

// ---- Go values ---------------------------------------------------------------------------------

// errShape means the item cannot be expressed in the requested Go shape (not a failure).
type errShape struct{ why string }

func (e errShape) Error() string { return "shape not applicable: " + e.why }

func na(format string, a ...any) error { return errShape{fmt.Sprintf(format, a...)} }

// AnyOrig builds the item from the Go types a caller would naturally use: int64 (uint64 above
// MaxInt64), []byte, string, []any, map[any]any, cbor.Tag[any], cbor.Bstr[any], bool, nil.
func (v *Val) AnyOrig() (any, error) {
	switch v.T {
	case "uint":
		if m := v.mag(); m > math.MaxInt64 {
			return m, nil
		}
		return int64(v.mag()), nil
	case "nint":
		m := v.mag()
		if m > math.MaxInt64 {
			return nil, na("integer below int64")
		}
		return -1 - int64(m), nil
	case "bstr":
		return toBytes(v.B), nil
	case "tstr":
		return string(toBytes(v.B)), nil
	case "arr":
		out := make([]any, len(v.Kids))
		for i, k := range v.Kids {
			x, err := k.AnyOrig()
			if err != nil {
				return nil, err
			}
			out[i] = x
		}
		return out, nil
	case "map":
		out := make(map[any]any, len(v.Kids)/2)
		for i := 0; i+1 < len(v.Kids); i += 2 {
			k, err := v.Kids[i].AnyOrig()
			if err != nil {
				return nil, err
			}
			x, err := v.Kids[i+1].AnyOrig()
			if err != nil {
				return nil, err
			}
			out[k] = x
		}
		return out, nil
	case "tag":
		x, err := v.Kids[0].AnyOrig()
		if err != nil {
			return nil, err
		}
		return cbor.Tag[any]{Num: v.mag(), Val: x}, nil
	case "wrap":
		x, err := v.Kids[0].AnyOrig()
		if err != nil {
			return nil, err
		}
		return cbor.Bstr[any]{Val: x}, nil
	case "false":
		return false, nil
	case "true":
		return true, nil
	case "null":
		return nil, nil
	}
	panic("unknown kind " + v.T)
}

// AnyDecoded is what cbor.Unmarshal into an `any` must produce for the item according to the
// documented mapping (doc.go): integers int64, tags cbor.Tag[cbor.RawBytes], a bstr-wrapped item is
// just a byte string. Unsigned integers above MaxInt64 have no representation in that mapping.
func (v *Val) AnyDecoded() (any, error) {
	switch v.T {
	case "uint":
		if v.mag() > math.MaxInt64 {
			return nil, na("unsigned above int64 has no `any` representation")
		}
		return int64(v.mag()), nil
	case "nint":
		m := v.mag()
		if m > math.MaxInt64 {
			return nil, na("integer below int64")
		}
		return -1 - int64(m), nil
	case "arr":
		out := make([]any, len(v.Kids))
		for i, k := range v.Kids {
			x, err := k.AnyDecoded()
			if err != nil {
				return nil, err
			}
			out[i] = x
		}
		return out, nil
	case "map":
		out := make(map[any]any, len(v.Kids)/2)
		for i := 0; i+1 < len(v.Kids); i += 2 {
			k, err := v.Kids[i].AnyDecoded()
			if err != nil {
				return nil, err
			}
			x, err := v.Kids[i+1].AnyDecoded()
			if err != nil {
				return nil, err
			}
			out[k] = x
		}
		return out, nil
	case "tag":
		if !v.Kids[0].goRepresentable() {
			return nil, na("integer below int64")
		}
		return cbor.Tag[cbor.RawBytes]{Num: v.mag(), Val: cbor.RawBytes(v.Kids[0].RefBytes())}, nil
	case "wrap":
		if !v.Kids[0].goRepresentable() {
			return nil, na("integer below int64")
		}
		return v.Kids[0].RefBytes(), nil
	}
	return v.AnyOrig()
}

func (v *Val) goRepresentable() bool {
	if v.T == "nint" && v.mag() > math.MaxInt64 {
		return false
	}
	for _, k := range v.Kids {
		if !k.goRepresentable() {
			return false
		}
	}
	return true
}

// Mode selects a typed Go shape for an item.
type Mode struct {
	Name    string
	Narrow  bool // narrowest integer types that hold the value, fixed-size arrays
	Signed  bool // signed integer types for unsigned items that fit
	Ptr     bool // pointers at the top and in struct fields
	Struct  bool // arrays become structs even when homogeneous
	Weights bool // struct fields declared in reverse order, restored by cbor weights
	Omit    bool // trailing `omitempty` field (zero, so omitted)
	OmitSet bool // the last field carries `omitempty` and is set
	Embed   bool // first half of the fields live in an embedded struct
	Flat    bool // two middle fields come from one `flat2` StreamMarshaler field
}

// Modes are the typed shapes replayed for every behaviour.
var Modes = []Mode{
	{Name: "typed/wide"},
	{Name: "typed/narrow", Narrow: true},
	{Name: "typed/signed", Signed: true, Narrow: true},
	{Name: "typed/ptr", Ptr: true},
	{Name: "struct", Struct: true},
	{Name: "struct/weights", Struct: true, Weights: true},
	{Name: "struct/omitempty-absent", Struct: true, Omit: true},
	{Name: "struct/omitempty-present", Struct: true, OmitSet: true},
	{Name: "struct/embedded", Struct: true, Embed: true},
	{Name: "struct/flat2", Struct: true, Flat: true},
	{Name: "struct/ptr-fields", Struct: true, Ptr: true},
}

var (
	tAny    = reflect.TypeOf((*any)(nil)).Elem()
	tBytes  = reflect.TypeOf([]byte(nil))
	tString = reflect.TypeOf("")
	tBool   = reflect.TypeOf(false)
	tInt64  = reflect.TypeOf(int64(0))
	tUint64 = reflect.TypeOf(uint64(0))
	tRaw    = reflect.TypeOf(cbor.RawBytes(nil))
	tFlat2  = reflect.TypeOf(Flat2{})
)

// generic instantiations available to reflection: inner type -> Tag[T] / Bstr[T] / ByteWrap[T]
var tagTypes, bstrTypes, wrapTypes = map[reflect.Type]reflect.Type{}, map[reflect.Type]reflect.Type{}, map[reflect.Type]reflect.Type{}

func reg[T any]() {
	t := reflect.TypeOf((*T)(nil)).Elem()
	tagTypes[t] = reflect.TypeOf(cbor.Tag[T]{})
	bstrTypes[t] = reflect.TypeOf(cbor.Bstr[T]{})
	wrapTypes[t] = reflect.TypeOf(cbor.ByteWrap[T]{})
}

func init() {
	reg[any]()
	reg[cbor.RawBytes]()
	reg[int64]()
	reg[int32]()
	reg[int16]()
	reg[int8]()
	reg[uint64]()
	reg[uint32]()
	reg[uint16]()
	reg[uint8]()
	reg[[]byte]()
	reg[string]()
	reg[bool]()
	reg[[]int64]()
	reg[[]uint64]()
	reg[[]any]()
	reg[[]string]()
	reg[[][]byte]()
	reg[*int64]()
	reg[map[any]any]()
	reg[map[int64]any]()
	reg[map[string]any]()
	reg[map[int64]int64]()
	reg[map[string]int64]()
	reg[cbor.Tag[any]]()
	reg[cbor.Tag[int64]]()
	reg[cbor.Tag[uint64]]()
	reg[cbor.Bstr[any]]()
	reg[cbor.Bstr[int64]]()
}

// Typed builds the item as a value of a dynamically constructed Go type in the given mode. The
// returned value is addressable (reflect.New(type).Elem()).
func (v *Val) Typed(m Mode) (reflect.Value, error) {
	if m.Struct && v.T != "arr" {
		return reflect.Value{}, na("struct modes need an array")
	}
	if m.Ptr && v.T == "null" {
		return reflect.Value{}, na("a pointer to a nil pointer is not a distinct item")
	}
	t, err := v.typeOf(m, true, false)
	if err != nil {
		return reflect.Value{}, err
	}
	rv := reflect.New(t).Elem()
	if err := v.fill(rv, m, true); err != nil {
		return reflect.Value{}, err
	}
	if m.Ptr {
		p := reflect.New(reflect.PointerTo(t)).Elem()
		p.Set(rv.Addr())
		return p, nil
	}
	return rv, nil
}

func fitsInt(x int64, narrow bool) reflect.Type {
	if !narrow {
		return tInt64
	}
	switch {
	case x >= math.MinInt8 && x <= math.MaxInt8:
		return reflect.TypeOf(int8(0))
	case x >= math.MinInt16 && x <= math.MaxInt16:
		return reflect.TypeOf(int16(0))
	case x >= math.MinInt32 && x <= math.MaxInt32:
		return reflect.TypeOf(int32(0))
	}
	return tInt64
}

// typeOf: top = the root of the shape (struct modes apply to the root array only); elem = the type
// is an element type of a slice/array (uint8 elements would turn the slice into a byte string).
func (v *Val) typeOf(m Mode, top, elem bool) (reflect.Type, error) {
	switch v.T {
	case "uint":
		u := v.mag()
		if m.Signed && u <= math.MaxInt64 {
			return fitsInt(int64(u), m.Narrow), nil
		}
		if !m.Narrow {
			return tUint64, nil
		}
		switch {
		case u <= math.MaxUint8 && !elem:
			return reflect.TypeOf(uint8(0)), nil
		case u <= math.MaxUint16:
			return reflect.TypeOf(uint16(0)), nil
		case u <= math.MaxUint32:
			return reflect.TypeOf(uint32(0)), nil
		}
		return tUint64, nil
	case "nint":
		if v.mag() > math.MaxInt64 {
			return nil, na("integer below int64")
		}
		return fitsInt(-1-int64(v.mag()), m.Narrow), nil
	case "bstr":
		if m.Narrow && len(v.B) > 0 && len(v.B) <= 64 {
			return reflect.ArrayOf(len(v.B), reflect.TypeOf(byte(0))), nil
		}
		return tBytes, nil
	case "tstr":
		return tString, nil
	case "false", "true":
		return tBool, nil
	case "null":
		return reflect.PointerTo(tInt64), nil
	case "arr":
		if !(top && m.Struct) {
			sub := m
			sub.Struct = false
			if len(v.Kids) == 0 {
				return reflect.SliceOf(tInt64), nil
			}
			var et reflect.Type
			same := true
			for _, k := range v.Kids {
				kt, err := k.typeOf(sub, false, true)
				if err != nil {
					return nil, err
				}
				if et == nil {
					et = kt
				} else if et != kt {
					same = false
				}
			}
			if same {
				if m.Narrow {
					return reflect.ArrayOf(len(v.Kids), et), nil
				}
				return reflect.SliceOf(et), nil
			}
		}
		return v.structType(m, top)
	case "map":
		kt, vt, err := v.mapTypes(m)
		if err != nil {
			return nil, err
		}
		return reflect.MapOf(kt, vt), nil
	case "tag", "wrap":
		sub := m
		sub.Struct = false
		it, err := v.Kids[0].typeOf(sub, false, false)
		if err != nil {
			return nil, err
		}
		reg := tagTypes
		if v.T == "wrap" {
			reg = bstrTypes
			if m.Narrow && v.Kids[0].T != "bstr" && v.Kids[0].T != "wrap" { // ByteWrap[T] is the COSE flavour of
				reg = wrapTypes // bstr .cbor T (a byte string inside ByteWrap is by definition not double-encoded)
			}
		}
		if gt, ok := reg[it]; ok {
			return gt, nil
		}
		return reg[tAny], nil
	}
	panic("unknown kind " + v.T)
}

func (v *Val) mapTypes(m Mode) (kt, vt reflect.Type, err error) {
	allInt, allStr := true, true
	sub := m
	sub.Struct, sub.Narrow = false, false
	same := true
	for i := 0; i+1 < len(v.Kids); i += 2 {
		k := v.Kids[i]
		switch k.T {
		case "uint":
			allStr = false
			if k.mag() > math.MaxInt64 {
				allInt = false
			}
		case "nint":
			allStr = false
			if k.mag() > math.MaxInt64 {
				return nil, nil, na("integer below int64")
			}
		case "tstr":
			allInt = false
		default:
			return nil, nil, na("map key kind %s", k.T)
		}
		xt, err := v.Kids[i+1].typeOf(sub, false, false)
		if err != nil {
			return nil, nil, err
		}
		if vt == nil {
			vt = xt
		} else if vt != xt {
			same = false
		}
	}
	switch {
	case len(v.Kids) == 0:
		return tInt64, tInt64, nil
	case allInt:
		kt = tInt64
	case allStr:
		kt = tString
	default:
		kt = tAny
	}
	if !same || vt.Kind() == reflect.Pointer {
		vt = tAny
	}
	return kt, vt, nil
}

// structType lays the kids of an array out as struct fields F0..Fn-1 according to the mode.
func (v *Val) structType(m Mode, top bool) (reflect.Type, error) {
	if !top {
		m = Mode{Narrow: m.Narrow, Signed: m.Signed}
	}
	n := len(v.Kids)
	sub := m
	sub.Struct = false
	fields := make([]reflect.StructField, 0, n+1)
	for i, k := range v.Kids {
		kt, err := k.typeOf(sub, false, false)
		if err != nil {
			return nil, err
		}
		if m.Ptr && kt.Kind() != reflect.Pointer {
			kt = reflect.PointerTo(kt)
		}
		fields = append(fields, reflect.StructField{Name: fmt.Sprintf("F%d", i), Type: kt})
	}
	switch {
	case m.Weights:
		if n < 2 {
			return nil, na("weights need two fields")
		}
		for i := range fields {
			fields[i].Tag = reflect.StructTag(fmt.Sprintf(`cbor:"%d"`, i-n/2)) // negative and positive weights
		}
		for i, j := 0, n-1; i < j; i, j = i+1, j-1 {
			fields[i], fields[j] = fields[j], fields[i]
		}
	case m.Omit:
		fields = append(fields, reflect.StructField{Name: "Zomit", Type: tBytes, Tag: `cbor:",omitempty"`})
	case m.OmitSet:
		if n < 1 {
			return nil, na("needs a field")
		}
		last := v.Kids[n-1]
		if isEmptyItem(last) {
			return nil, na("last item is empty, omitempty would drop it")
		}
		fields[n-1].Tag = `cbor:",omitempty"`
	case m.Embed:
		if n < 2 {
			return nil, na("embedding needs two fields")
		}
		h := (n + 1) / 2
		inner := reflect.StructOf(fields[:h])
		fields = append([]reflect.StructField{{Name: "Inner", Type: inner, Anonymous: true}}, fields[h:]...)
	case m.Flat:
		if n < 2 {
			return nil, na("flat2 needs two items")
		}
		// items n-2 and n-1 ... choose the middle pair: positions p, p+1
		p := (n - 2) / 2
		out := append([]reflect.StructField{}, fields[:p]...)
		out = append(out, reflect.StructField{Name: "Pair", Type: tFlat2, Tag: `cbor:",flat2"`})
		out = append(out, fields[p+2:]...)
		fields = out
	}
	return reflect.StructOf(fields), nil
}

func isEmptyItem(v *Val) bool {
	switch v.T {
	case "uint":
		return v.mag() == 0
	case "bstr", "tstr":
		return len(v.B) == 0
	case "arr", "map": // a struct/slice/map is "empty" for omitempty when it is the zero value
		for _, k := range v.Kids {
			if !isEmptyItem(k) {
				return false
			}
		}
		return true
	case "tag":
		return v.mag() == 0 && isEmptyItem(v.Kids[0])
	case "wrap":
		return isEmptyItem(v.Kids[0])
	case "false", "null":
		return true
	}
	return false
}

// Flat2 encodes and decodes two consecutive array items (the flatN convention of cose.Header).
type Flat2 struct{ A, B cbor.RawBytes }

// MarshalCBORStream implements cbor.StreamMarshaler.
func (f Flat2) MarshalCBORStream(w io.Writer, o cbor.EncoderOptions, flattened int) error {
	if flattened != 2 {
		return fmt.Errorf("Flat2 needs flat2, got %d", flattened)
	}
	enc := cbor.NewEncoder(w)
	enc.EncoderOptions = o
	if err := enc.Encode(f.A); err != nil {
		return err
	}
	return enc.Encode(f.B)
}

// UnmarshalCBORStream implements cbor.StreamUnmarshaler.
func (f *Flat2) UnmarshalCBORStream(r io.Reader, o cbor.DecoderOptions, flattened int) error {
	if flattened != 2 {
		return fmt.Errorf("Flat2 needs flat2, got %d", flattened)
	}
	dec := cbor.NewDecoder(r)
	dec.DecoderOptions = o
	if err := dec.Decode(&f.A); err != nil {
		return err
	}
	return dec.Decode(&f.B)
}

func (v *Val) fill(rv reflect.Value, m Mode, top bool) error {
	t := rv.Type()
	switch v.T {
	case "uint":
		if rv.CanUint() {
			rv.SetUint(v.mag())
		} else {
			rv.SetInt(int64(v.mag()))
		}
	case "nint":
		rv.SetInt(-1 - int64(v.mag()))
	case "bstr":
		if t.Kind() == reflect.Array {
			reflect.Copy(rv, reflect.ValueOf(toBytes(v.B)))
		} else {
			rv.SetBytes(toBytes(v.B))
		}
	case "tstr":
		rv.SetString(string(toBytes(v.B)))
	case "false", "true":
		rv.SetBool(v.T == "true")
	case "null":
		// nil pointer
	case "arr":
		sub := m
		sub.Struct = false
		switch t.Kind() {
		case reflect.Slice:
			rv.Set(reflect.MakeSlice(t, len(v.Kids), len(v.Kids)))
			fallthrough
		case reflect.Array:
			for i, k := range v.Kids {
				if err := k.fill(rv.Index(i), sub, false); err != nil {
					return err
				}
			}
		case reflect.Struct:
			if !top {
				m = Mode{Narrow: m.Narrow, Signed: m.Signed}
				sub = m
			}
			return v.fillStruct(rv, m, sub)
		}
	case "map":
		rv.Set(reflect.MakeMapWithSize(t, len(v.Kids)/2))
		sub := m
		sub.Struct, sub.Narrow = false, false
		for i := 0; i+1 < len(v.Kids); i += 2 {
			kv := reflect.New(t.Key()).Elem()
			if t.Key() == tAny {
				x, err := v.Kids[i].AnyDecoded()
				if err != nil {
					return err
				}
				kv.Set(reflect.ValueOf(x))
			} else if err := v.Kids[i].fill(kv, sub, false); err != nil {
				return err
			}
			xv := reflect.New(t.Elem()).Elem()
			if err := v.Kids[i+1].fillSlot(xv, sub); err != nil {
				return err
			}
			rv.SetMapIndex(kv, xv)
		}
	case "tag":
		rv.Field(0).SetUint(v.mag())
		sub := m
		sub.Struct = false
		return v.Kids[0].fillSlot(rv.Field(1), sub)
	case "wrap":
		sub := m
		sub.Struct = false
		return v.Kids[0].fillSlot(rv.Field(0), sub)
	}
	return nil
}

// fillSlot fills a slot whose type may be `any` (then in the documented decoded form), RawBytes or
// a pointer.
func (v *Val) fillSlot(rv reflect.Value, m Mode) error {
	switch {
	case rv.Type() == tAny:
		x, err := v.AnyDecoded()
		if err != nil {
			return err
		}
		if x != nil {
			rv.Set(reflect.ValueOf(x))
		}
		return nil
	case rv.Type() == tRaw:
		rv.SetBytes(v.RefBytes())
		return nil
	case rv.Kind() == reflect.Pointer && v.T != "null":
		p := reflect.New(rv.Type().Elem())
		if err := v.fill(p.Elem(), m, false); err != nil {
			return err
		}
		rv.Set(p)
		return nil
	}
	return v.fill(rv, m, false)
}

func (v *Val) fillStruct(rv reflect.Value, m, sub Mode) error {
	n := len(v.Kids)
	set := func(name string, k *Val) error {
		f := rv.FieldByName(name)
		if !f.IsValid() {
			return fmt.Errorf("no field %s in %s", name, rv.Type())
		}
		return k.fillSlot(f, sub)
	}
	flatAt := -1
	if m.Flat {
		flatAt = (n - 2) / 2
	}
	for i, k := range v.Kids {
		if m.Flat && (i == flatAt || i == flatAt+1) {
			continue
		}
		if err := set(fmt.Sprintf("F%d", i), k); err != nil {
			return err
		}
	}
	if m.Flat {
		rv.FieldByName("Pair").Set(reflect.ValueOf(Flat2{A: v.Kids[flatAt].RefBytes(), B: v.Kids[flatAt+1].RefBytes()}))
	}
	return nil
}

// ---- helpers for the reference side --------------------------------------------------------------

// SortedPairs returns the map's kids ordered bytewise by the reference encoding of the keys.
func SortedPairs(kids []*Val) []*Val {
	type kv struct {
		k, v *Val
		e    []byte
	}
	var ps []kv
	for i := 0; i+1 < len(kids); i += 2 {
		ps = append(ps, kv{kids[i], kids[i+1], kids[i].RefBytes()})
	}
	sort.Slice(ps, func(i, j int) bool { return bytes.Compare(ps[i].e, ps[j].e) < 0 })
	var out []*Val
	for _, p := range ps {
		out = append(out, p.k, p.v)
	}
	return out
}

func be64(v uint64) []int {
	var b [8]byte
	binary.BigEndian.PutUint64(b[:], v)
	i := 0
	for i < 8 && b[i] == 0 {
		i++
	}
	out := make([]int, 0, 8-i)
	for _, x := range b[i:] {
		out = append(out, int(x))
	}
	return out
}
