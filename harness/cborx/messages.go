package cborx

import (
	"bytes"
	"crypto/ecdsa"
	"crypto/elliptic"
	"crypto/rand"
	"crypto/x509"
	"crypto/x509/pkix"
	"encoding/hex"
	"fmt"
	"math"
	"math/big"
	mrand "math/rand"
	"net"
	"reflect"
	"time"

	fdo "github.com/fido-device-onboard/go-fdo"
	"github.com/fido-device-onboard/go-fdo/blob"
	"github.com/fido-device-onboard/go-fdo/cbor"
	"github.com/fido-device-onboard/go-fdo/cose"
	"github.com/fido-device-onboard/go-fdo/protocol"
	"github.com/fido-device-onboard/go-fdo/serviceinfo"

	"verifharness/cb"
)

// Env holds key material shared by the message generators (created once per process).
type Env struct {
	Keys  []*ecdsa.PrivateKey
	Certs []*x509.Certificate
	CSR   *x509.CertificateRequest
}

// NewEnv creates keys, a small certificate chain and a CSR.
func NewEnv() (*Env, error) {
	e := &Env{}
	for _, c := range []elliptic.Curve{elliptic.P256(), elliptic.P384(), elliptic.P256()} {
		k, err := ecdsa.GenerateKey(c, rand.Reader)
		if err != nil {
			return nil, err
		}
		e.Keys = append(e.Keys, k)
	}
	parentKey := e.Keys[0]
	var parent *x509.Certificate
	for i, k := range e.Keys {
		tmpl := &x509.Certificate{
			SerialNumber: big.NewInt(int64(i + 1)), Subject: pkix.Name{CommonName: fmt.Sprintf("cborx-%d", i)},
			NotBefore: time.Unix(1700000000, 0), NotAfter: time.Unix(2000000000, 0), IsCA: true, BasicConstraintsValid: true,
			KeyUsage: x509.KeyUsageCertSign | x509.KeyUsageDigitalSignature,
		}
		p := parent
		if p == nil {
			p = tmpl
		}
		der, err := x509.CreateCertificate(rand.Reader, tmpl, p, k.Public(), parentKey)
		if err != nil {
			return nil, err
		}
		cert, err := x509.ParseCertificate(der)
		if err != nil {
			return nil, err
		}
		e.Certs = append(e.Certs, cert)
		parent, parentKey = cert, k
	}
	der, err := x509.CreateCertificateRequest(rand.Reader, &x509.CertificateRequest{Subject: pkix.Name{CommonName: "cborx-csr"}}, e.Keys[0])
	if err != nil {
		return nil, err
	}
	e.CSR, err = x509.ParseCertificateRequest(der)
	return e, err
}

// MsgType describes one message structure of the library with a seeded generator.
type MsgType struct {
	Name  string
	Gen   func(r *mrand.Rand, e *Env) any // pointer to a populated value
	Fresh func() any                      // pointer to a zero value to decode into
	Eq    func(a, b any) bool             // nil: deepEq
	Ref   func(v any) *cb.Node            // optional: the encoding the CDDL in the type's documentation prescribes
}

func rbytes(r *mrand.Rand, n int) []byte {
	b := make([]byte, n)
	r.Read(b)
	return b
}

var lenChoices = []int{0, 1, 16, 23, 24, 32, 48, 255, 256, 300}

func rlen(r *mrand.Rand) int { return lenChoices[r.Intn(len(lenChoices))] }

func rstring(r *mrand.Rand) string {
	n := rlen(r)
	b := make([]byte, n)
	for i := range b {
		b[i] = byte('a' + r.Intn(26))
	}
	return string(b)
}

var intChoices = []int64{0, 1, 23, 24, 255, 256, 65535, 65536, math.MaxUint32, math.MaxUint32 + 1, math.MaxInt64,
	-1, -24, -25, -256, -257, -65536, -65537, -math.MaxUint32 - 1, -math.MaxUint32 - 2, math.MinInt64 + 1}

func rint(r *mrand.Rand) int64 { return intChoices[r.Intn(len(intChoices))] }

func genHash(r *mrand.Rand) protocol.Hash {
	algs := []protocol.HashAlg{protocol.Sha256Hash, protocol.Sha384Hash, protocol.HmacSha256Hash, protocol.HmacSha384Hash}
	a := algs[r.Intn(4)]
	n := 32
	if a == protocol.Sha384Hash || a == protocol.HmacSha384Hash {
		n = 48
	}
	return protocol.Hash{Algorithm: a, Value: rbytes(r, n)}
}

func refHash(h protocol.Hash) *cb.Node { return cb.Arr(cb.Int(int64(h.Algorithm)), cb.Bstr(h.Value)) }

func genRvInfo(r *mrand.Rand) [][]protocol.RvInstruction {
	out := make([][]protocol.RvInstruction, r.Intn(3))
	for i := range out {
		out[i] = make([]protocol.RvInstruction, r.Intn(4))
		for j := range out[i] {
			ins := protocol.RvInstruction{Variable: protocol.RvVar(r.Intn(16))}
			if r.Intn(3) > 0 {
				ins.Value = cb.Tstr(rstring(r)).Encode()
				if r.Intn(2) == 0 {
					ins.Value = cb.Int(rint(r)).Encode()
				}
			}
			out[i][j] = ins
		}
	}
	return out
}

func refRvInfo(rv [][]protocol.RvInstruction) *cb.Node {
	outer := cb.Arr()
	for _, d := range rv {
		dn := cb.Arr()
		for _, ins := range d {
			if len(ins.Value) == 0 {
				dn.Kids = append(dn.Kids, cb.Arr(cb.Uint(uint64(ins.Variable))))
			} else {
				dn.Kids = append(dn.Kids, cb.Arr(cb.Uint(uint64(ins.Variable)), cb.Bstr(ins.Value)))
			}
		}
		outer.Kids = append(outer.Kids, dn)
	}
	return outer
}

func genPublicKey(r *mrand.Rand, e *Env) protocol.PublicKey {
	k := e.Keys[r.Intn(len(e.Keys))]
	typ := protocol.Secp256r1KeyType
	if k.Curve == elliptic.P384() {
		typ = protocol.Secp384r1KeyType
	}
	var pk *protocol.PublicKey
	var err error
	switch r.Intn(3) {
	case 0:
		pk, err = protocol.NewPublicKey(typ, &k.PublicKey, false)
	case 1:
		pk, err = protocol.NewPublicKey(typ, &k.PublicKey, true)
	default:
		pk, err = protocol.NewPublicKey(typ, e.Certs[:1+r.Intn(len(e.Certs))], false)
	}
	if err != nil {
		panic(err)
	}
	return *pk
}

func refPublicKey(pk protocol.PublicKey) *cb.Node {
	body, err := cb.DecodeAll(pk.Body)
	if err != nil {
		panic(err)
	}
	return cb.Arr(cb.Uint(uint64(pk.Type)), cb.Uint(uint64(pk.Encoding)), body)
}

func genTO2Addr(r *mrand.Rand) protocol.RvTO2Addr {
	a := protocol.RvTO2Addr{Port: uint16(rint(r)), TransportProtocol: protocol.TransportProtocol(1 + r.Intn(6))}
	if r.Intn(3) > 0 {
		ip := net.IP(rbytes(r, []int{4, 16}[r.Intn(2)]))
		a.IPAddress = &ip
	}
	if r.Intn(3) > 0 || a.IPAddress == nil {
		s := rstring(r)
		a.DNSAddress = &s
	}
	return a
}

func refTO2Addr(a protocol.RvTO2Addr) *cb.Node {
	ip, dns := cb.Null(), cb.Null()
	if a.IPAddress != nil {
		ip = cb.Bstr(*a.IPAddress)
	}
	if a.DNSAddress != nil {
		dns = cb.Tstr(*a.DNSAddress)
	}
	return cb.Arr(ip, dns, cb.Uint(uint64(a.Port)), cb.Uint(uint64(a.TransportProtocol)))
}

func genHeaderMap(r *mrand.Rand, textLabels bool) cose.HeaderMap {
	hm := cose.HeaderMap{}
	n := r.Intn(4)
	for i := 0; i < n; i++ {
		var l cose.Label
		if textLabels && r.Intn(3) == 0 {
			l = cose.Label{Str: rstring(r) + "x"}
		} else {
			l = cose.Label{Int64: []int64{1, 4, 5, 23, 24, 256, -1, -25, -259, 70000}[r.Intn(10)]}
		}
		switch r.Intn(3) {
		case 0:
			hm[l] = rint(r)
		case 1:
			hm[l] = rbytes(r, rlen(r))
		default:
			hm[l] = rstring(r)
		}
	}
	return hm
}

func refHeaderMap(hm cose.HeaderMap) *cb.Node {
	m := cb.Map()
	for l, v := range hm {
		var k, x *cb.Node
		if l.Int64 != 0 {
			k = cb.Int(l.Int64)
		} else {
			k = cb.Tstr(l.Str)
		}
		switch v := v.(type) {
		case int64:
			x = cb.Int(v)
		case []byte:
			x = cb.Bstr(v)
		case string:
			x = cb.Tstr(v)
		default:
			panic(fmt.Sprintf("header value %T", v))
		}
		m.Kids = append(m.Kids, k, x)
	}
	return m.Canon()
}

func refProtected(hm cose.HeaderMap) *cb.Node {
	if len(hm) == 0 {
		return cb.Bstr(nil)
	}
	return cb.Bstr(refHeaderMap(hm).Encode())
}

func genVoucherHeader(r *mrand.Rand, e *Env) fdo.VoucherHeader {
	h := fdo.VoucherHeader{Version: uint16([]int{101, 0, 65535}[r.Intn(3)]), RvInfo: genRvInfo(r), DeviceInfo: rstring(r), ManufacturerKey: genPublicKey(r, e)}
	copy(h.GUID[:], rbytes(r, 16))
	if r.Intn(2) == 0 {
		x := genHash(r)
		h.CertChainHash = &x
	}
	return h
}

func refVoucherHeader(h fdo.VoucherHeader) *cb.Node {
	cch := cb.Null()
	if h.CertChainHash != nil {
		cch = refHash(*h.CertChainHash)
	}
	return cb.Arr(cb.Uint(uint64(h.Version)), cb.Bstr(h.GUID[:]), refRvInfo(h.RvInfo), cb.Tstr(h.DeviceInfo), refPublicKey(h.ManufacturerKey), cch)
}

func genEntry(r *mrand.Rand, e *Env) cose.Sign1Tag[fdo.VoucherEntryPayload, []byte] {
	p := fdo.VoucherEntryPayload{PreviousHash: genHash(r), HeaderHash: genHash(r), PublicKey: genPublicKey(r, e)}
	if r.Intn(2) == 0 {
		p.Extra = cbor.NewBstr(map[int][]byte{1: rbytes(r, 3), -5: rbytes(r, rlen(r)), 300: {}})
	}
	return cose.Sign1Tag[fdo.VoucherEntryPayload, []byte]{Sign1: cose.Sign1[fdo.VoucherEntryPayload, []byte]{
		Header:    cose.Header{Protected: cose.HeaderMap{cose.AlgLabel: int64(-7)}, Unprotected: genHeaderMap(r, false)},
		Payload:   cbor.NewByteWrap(p),
		Signature: rbytes(r, 64),
	}}
}

func refEntry(s cose.Sign1Tag[fdo.VoucherEntryPayload, []byte]) *cb.Node {
	p := s.Payload.Val
	extra := cb.Null()
	if p.Extra != nil {
		m := cb.Map()
		for k, v := range p.Extra.Val {
			m.Kids = append(m.Kids, cb.Int(int64(k)), cb.Bstr(v))
		}
		extra = cb.Bstr(m.Canon().Encode())
	}
	payload := cb.Arr(refHash(p.PreviousHash), refHash(p.HeaderHash), extra, refPublicKey(p.PublicKey))
	return cb.Tag(18, cb.Arr(refProtected(s.Protected), refHeaderMap(s.Unprotected), cb.Bstr(payload.Encode()), cb.Bstr(s.Signature)))
}

func certChain(r *mrand.Rand, e *Env) []*cbor.X509Certificate {
	n := 1 + r.Intn(len(e.Certs))
	out := make([]*cbor.X509Certificate, n)
	for i := range out {
		out[i] = (*cbor.X509Certificate)(e.Certs[i])
	}
	return out
}

func genDeviceCredential(r *mrand.Rand) fdo.DeviceCredential {
	dc := fdo.DeviceCredential{Version: 101, DeviceInfo: rstring(r), RvInfo: genRvInfo(r), PublicKeyHash: genHash(r)}
	copy(dc.GUID[:], rbytes(r, 16))
	return dc
}

func refDeviceCredential(dc fdo.DeviceCredential) []*cb.Node {
	return []*cb.Node{cb.Uint(uint64(dc.Version)), cb.Tstr(dc.DeviceInfo), cb.Bstr(dc.GUID[:]), refRvInfo(dc.RvInfo), refHash(dc.PublicKeyHash)}
}

func ptr[T any](v T) *T { return &v }

// MsgTypes lists the message structures checked by C11.
func MsgTypes() []MsgType {
	return []MsgType{
		{Name: "protocol.Hash",
			Gen:   func(r *mrand.Rand, e *Env) any { return ptr(genHash(r)) },
			Fresh: func() any { return new(protocol.Hash) },
			Ref:   func(v any) *cb.Node { return refHash(*v.(*protocol.Hash)) }},
		{Name: "[][]protocol.RvInstruction",
			Gen:   func(r *mrand.Rand, e *Env) any { return ptr(genRvInfo(r)) },
			Fresh: func() any { return new([][]protocol.RvInstruction) },
			Ref:   func(v any) *cb.Node { return refRvInfo(*v.(*[][]protocol.RvInstruction)) }},
		{Name: "protocol.RvTO2Addr",
			Gen:   func(r *mrand.Rand, e *Env) any { return ptr(genTO2Addr(r)) },
			Fresh: func() any { return new(protocol.RvTO2Addr) },
			Ref:   func(v any) *cb.Node { return refTO2Addr(*v.(*protocol.RvTO2Addr)) }},
		{Name: "protocol.To1d",
			Gen: func(r *mrand.Rand, e *Env) any {
				t := protocol.To1d{To0dHash: genHash(r), RV: make([]protocol.RvTO2Addr, r.Intn(3))}
				for i := range t.RV {
					t.RV[i] = genTO2Addr(r)
				}
				return &t
			},
			Fresh: func() any { return new(protocol.To1d) },
			Ref: func(v any) *cb.Node {
				t := v.(*protocol.To1d)
				rv := cb.Arr()
				for _, a := range t.RV {
					rv.Kids = append(rv.Kids, refTO2Addr(a))
				}
				return cb.Arr(rv, refHash(t.To0dHash))
			}},
		{Name: "protocol.PublicKey",
			Gen:   func(r *mrand.Rand, e *Env) any { return ptr(genPublicKey(r, e)) },
			Fresh: func() any { return new(protocol.PublicKey) },
			Ref:   func(v any) *cb.Node { return refPublicKey(*v.(*protocol.PublicKey)) }},
		{Name: "protocol.ErrorMessage",
			Gen: func(r *mrand.Rand, e *Env) any {
				m := protocol.ErrorMessage{Code: uint16(rint(r)), PrevMsgType: uint8(rint(r)), ErrString: rstring(r), Timestamp: rint(r)}
				if r.Intn(2) == 0 {
					m.CorrelationID = ptr(uint(r.Uint64()))
				}
				return &m
			},
			Fresh: func() any { return new(protocol.ErrorMessage) },
			Ref: func(v any) *cb.Node {
				m := v.(*protocol.ErrorMessage)
				cid := cb.Null()
				if m.CorrelationID != nil {
					cid = cb.Uint(uint64(*m.CorrelationID))
				}
				return cb.Arr(cb.Uint(uint64(m.Code)), cb.Uint(uint64(m.PrevMsgType)), cb.Tstr(m.ErrString), cb.Int(m.Timestamp), cid)
			}},
		{Name: "serviceinfo.KV",
			Gen:   func(r *mrand.Rand, e *Env) any { return &serviceinfo.KV{Key: rstring(r), Val: rbytes(r, rlen(r))} },
			Fresh: func() any { return new(serviceinfo.KV) },
			Ref: func(v any) *cb.Node {
				kv := v.(*serviceinfo.KV)
				return cb.Arr(cb.Tstr(kv.Key), cb.Bstr(kv.Val))
			}},
		{Name: "[]*serviceinfo.KV",
			Gen: func(r *mrand.Rand, e *Env) any {
				out := make([]*serviceinfo.KV, r.Intn(30))
				for i := range out {
					out[i] = &serviceinfo.KV{Key: rstring(r), Val: rbytes(r, rlen(r))}
				}
				return &out
			},
			Fresh: func() any { return new([]*serviceinfo.KV) }},
		{Name: "serviceinfo.DevmodModulesChunk",
			Gen: func(r *mrand.Rand, e *Env) any {
				c := serviceinfo.DevmodModulesChunk{Start: r.Intn(70000), Len: r.Intn(300), Modules: make([]string, r.Intn(5))}
				for i := range c.Modules {
					c.Modules[i] = rstring(r)
				}
				return &c
			},
			Fresh: func() any { return new(serviceinfo.DevmodModulesChunk) }},
		{Name: "fdo.VoucherHeader",
			Gen:   func(r *mrand.Rand, e *Env) any { return ptr(genVoucherHeader(r, e)) },
			Fresh: func() any { return new(fdo.VoucherHeader) },
			Ref:   func(v any) *cb.Node { return refVoucherHeader(*v.(*fdo.VoucherHeader)) }},
		{Name: "fdo.Voucher",
			Gen: func(r *mrand.Rand, e *Env) any {
				v := fdo.Voucher{Version: 101, Header: *cbor.NewBstr(genVoucherHeader(r, e)), Hmac: genHash(r)}
				if r.Intn(4) > 0 {
					cc := certChain(r, e)
					v.CertChain = &cc
				}
				v.Entries = make([]cose.Sign1Tag[fdo.VoucherEntryPayload, []byte], r.Intn(4))
				for i := range v.Entries {
					v.Entries[i] = genEntry(r, e)
				}
				return &v
			},
			Fresh: func() any { return new(fdo.Voucher) },
			Ref: func(x any) *cb.Node {
				v := x.(*fdo.Voucher)
				cc := cb.Null()
				if v.CertChain != nil {
					cc = cb.Arr()
					for _, c := range *v.CertChain {
						cc.Kids = append(cc.Kids, cb.Bstr(c.Raw))
					}
				}
				ents := cb.Arr()
				for _, en := range v.Entries {
					ents.Kids = append(ents.Kids, refEntry(en))
				}
				return cb.Arr(cb.Uint(uint64(v.Version)), cb.Bstr(refVoucherHeader(v.Header.Val).Encode()), refHash(v.Hmac), cc, ents)
			}},
		{Name: "fdo.DeviceCredential",
			Gen:   func(r *mrand.Rand, e *Env) any { return ptr(genDeviceCredential(r)) },
			Fresh: func() any { return new(fdo.DeviceCredential) },
			Ref:   func(v any) *cb.Node { return cb.Arr(refDeviceCredential(*v.(*fdo.DeviceCredential))...) }},
		{Name: "blob.DeviceCredential",
			Gen: func(r *mrand.Rand, e *Env) any {
				return &blob.DeviceCredential{Active: r.Intn(2) == 0, DeviceCredential: genDeviceCredential(r), HmacSecret: rbytes(r, 32),
					PrivateKey: blob.Pkcs8Key{Signer: e.Keys[r.Intn(len(e.Keys))]}}
			},
			Fresh: func() any { return new(blob.DeviceCredential) },
			Eq: func(a, b any) bool {
				x, y := a.(*blob.DeviceCredential), b.(*blob.DeviceCredential)
				kx, ok1 := x.PrivateKey.Signer.(*ecdsa.PrivateKey)
				ky, ok2 := y.PrivateKey.Signer.(*ecdsa.PrivateKey)
				return ok1 && ok2 && kx.Equal(ky) && x.Active == y.Active && bytes.Equal(x.HmacSecret, y.HmacSecret) &&
					deepEq(x.DeviceCredential, y.DeviceCredential)
			},
			Ref: func(v any) *cb.Node {
				dc := v.(*blob.DeviceCredential)
				der, err := x509.MarshalPKCS8PrivateKey(dc.PrivateKey.Signer)
				if err != nil {
					panic(err)
				}
				kids := append([]*cb.Node{cb.Bool(dc.Active)}, refDeviceCredential(dc.DeviceCredential)...)
				kids = append(kids, cb.Bstr(dc.HmacSecret), cb.Bstr(der))
				return cb.Arr(kids...)
			}},
		{Name: "cose.Sign1",
			Gen: func(r *mrand.Rand, e *Env) any {
				s := cose.Sign1[[]byte, []byte]{Header: cose.Header{Protected: genHeaderMap(r, false), Unprotected: genHeaderMap(r, false)}, Signature: rbytes(r, rlen(r))}
				if r.Intn(4) > 0 {
					s.Payload = cbor.NewByteWrap(rbytes(r, rlen(r)))
				}
				return &s
			},
			Fresh: func() any { return new(cose.Sign1[[]byte, []byte]) },
			Ref: func(v any) *cb.Node {
				s := v.(*cose.Sign1[[]byte, []byte])
				p := cb.Null()
				if s.Payload != nil {
					p = cb.Bstr(s.Payload.Val)
				}
				return cb.Arr(refProtected(s.Protected), refHeaderMap(s.Unprotected), p, cb.Bstr(s.Signature))
			}},
		{Name: "cose.Sign1Tag(VoucherEntryPayload)",
			Gen:   func(r *mrand.Rand, e *Env) any { return ptr(genEntry(r, e)) },
			Fresh: func() any { return new(cose.Sign1Tag[fdo.VoucherEntryPayload, []byte]) },
			Ref:   func(v any) *cb.Node { return refEntry(*v.(*cose.Sign1Tag[fdo.VoucherEntryPayload, []byte])) }},
		{Name: "cose.Mac0Tag",
			Gen: func(r *mrand.Rand, e *Env) any {
				m := cose.Mac0Tag[[]byte, []byte]{Mac0: cose.Mac0[[]byte, []byte]{Header: cose.Header{Protected: genHeaderMap(r, false), Unprotected: genHeaderMap(r, false)},
					Payload: cbor.NewByteWrap(rbytes(r, rlen(r))), Value: rbytes(r, 32)}}
				return &m
			},
			Fresh: func() any { return new(cose.Mac0Tag[[]byte, []byte]) },
			Ref: func(v any) *cb.Node {
				m := v.(*cose.Mac0Tag[[]byte, []byte])
				return cb.Tag(17, cb.Arr(refProtected(m.Protected), refHeaderMap(m.Unprotected), cb.Bstr(m.Payload.Val), cb.Bstr(m.Value)))
			}},
		{Name: "cose.Encrypt0Tag",
			Gen: func(r *mrand.Rand, e *Env) any {
				m := cose.Encrypt0Tag[[]byte, []byte]{Encrypt0: cose.Encrypt0[[]byte, []byte]{Header: cose.Header{Protected: genHeaderMap(r, false), Unprotected: genHeaderMap(r, false)}}}
				if r.Intn(4) > 0 {
					m.Ciphertext = ptr(rbytes(r, rlen(r)))
				}
				return &m
			},
			Fresh: func() any { return new(cose.Encrypt0Tag[[]byte, []byte]) },
			Ref: func(v any) *cb.Node {
				m := v.(*cose.Encrypt0Tag[[]byte, []byte])
				ct := cb.Null()
				if m.Ciphertext != nil {
					ct = cb.Bstr(*m.Ciphertext)
				}
				return cb.Tag(16, cb.Arr(refProtected(m.Protected), refHeaderMap(m.Unprotected), ct))
			}},
		{Name: "cose.Sign1(text labels)",
			Gen: func(r *mrand.Rand, e *Env) any {
				s := cose.Sign1[[]byte, []byte]{Header: cose.Header{Protected: genHeaderMap(r, true), Unprotected: cose.HeaderMap{cose.Label{Str: "x-" + rstring(r)}: rint(r)}},
					Payload: cbor.NewByteWrap(rbytes(r, 3)), Signature: rbytes(r, 8)}
				return &s
			},
			Fresh: func() any { return new(cose.Sign1[[]byte, []byte]) },
			Ref: func(v any) *cb.Node {
				s := v.(*cose.Sign1[[]byte, []byte])
				return cb.Arr(refProtected(s.Protected), refHeaderMap(s.Unprotected), cb.Bstr(s.Payload.Val), cb.Bstr(s.Signature))
			}},
		{Name: "cose.Label(int)",
			Gen:   func(r *mrand.Rand, e *Env) any { return &cose.Label{Int64: rint(r) | 1} },
			Fresh: func() any { return new(cose.Label) },
			Ref:   func(v any) *cb.Node { return cb.Int(v.(*cose.Label).Int64) }},
		{Name: "cose.Label(text)",
			Gen:   func(r *mrand.Rand, e *Env) any { return &cose.Label{Str: rstring(r)} },
			Fresh: func() any { return new(cose.Label) },
			Ref:   func(v any) *cb.Node { return cb.Tstr(v.(*cose.Label).Str) }},
		{Name: "cose.Key",
			Gen: func(r *mrand.Rand, e *Env) any {
				k, err := cose.NewKey(&e.Keys[r.Intn(len(e.Keys))].PublicKey)
				if err != nil {
					panic(err)
				}
				return &k
			},
			Fresh: func() any { return new(cose.Key) },
			Eq:    func(a, b any) bool { return true }}, // values come back as int64/[]byte of equal encoding; stability is checked on bytes
		{Name: "cbor.Timestamp",
			Gen: func(r *mrand.Rand, e *Env) any {
				secs := []int64{1, 59, 60, 61, 3600, 86399, 1700000000, 1700000059, 4102444800, math.MaxUint32 + 1}
				return ptr(cbor.Timestamp(time.Unix(secs[r.Intn(len(secs))], 0)))
			},
			Fresh: func() any { return new(cbor.Timestamp) },
			Eq:    func(a, b any) bool { return time.Time(*a.(*cbor.Timestamp)).Equal(time.Time(*b.(*cbor.Timestamp))) },
			Ref:   func(v any) *cb.Node { return cb.Tag(1, cb.Uint(uint64(time.Time(*v.(*cbor.Timestamp)).Unix()))) }},
		{Name: "cbor.Timestamp(zero)",
			Gen:   func(r *mrand.Rand, e *Env) any { return new(cbor.Timestamp) },
			Fresh: func() any { return ptr(cbor.Timestamp(time.Unix(5, 0))) },
			Eq:    func(a, b any) bool { return time.Time(*a.(*cbor.Timestamp)).Equal(time.Time(*b.(*cbor.Timestamp))) },
			Ref:   func(v any) *cb.Node { return cb.Null() }},
		{Name: "cbor.X509Certificate",
			Gen:   func(r *mrand.Rand, e *Env) any { return (*cbor.X509Certificate)(e.Certs[r.Intn(len(e.Certs))]) },
			Fresh: func() any { return new(cbor.X509Certificate) },
			Ref:   func(v any) *cb.Node { return cb.Bstr(v.(*cbor.X509Certificate).Raw) }},
		{Name: "[]*cbor.X509Certificate",
			Gen:   func(r *mrand.Rand, e *Env) any { return ptr(certChain(r, e)) },
			Fresh: func() any { return new([]*cbor.X509Certificate) }},
		{Name: "cbor.X509CertificateRequest",
			Gen:   func(r *mrand.Rand, e *Env) any { return (*cbor.X509CertificateRequest)(e.CSR) },
			Fresh: func() any { return new(cbor.X509CertificateRequest) },
			Ref:   func(v any) *cb.Node { return cb.Bstr(v.(*cbor.X509CertificateRequest).Raw) }},
	}
}

// ReplayMessages populates every message type n times and checks: the encoding equals the
// documented layout built with the reference codec (where a layout is given), is canonical
// according to the reference codec, decodes to an equal value, and re-encodes to the same bytes.
func ReplayMessages(res *ReplayResult, seed int64, n int) error {
	env, err := NewEnv()
	if err != nil {
		return err
	}
	seen := map[string]bool{}
	add := func(key, what string, c any) {
		if seen[key] {
			return
		}
		seen[key] = true
		res.Findings = append(res.Findings, Finding{Key: key, What: what, Case: c})
	}
	for ti, mt := range MsgTypes() {
		r := mrand.New(mrand.NewSource(seed*1000 + int64(ti)))
		for i := 0; i < n; i++ {
			v := mt.Gen(r, env)
			res.Messages++
			res.MessageTypes[mt.Name]++
			res.Evaluations++
			cs := map[string]any{"type": mt.Name, "seed": seed, "iteration": i, "value": fmt.Sprintf("%+v", reflect.ValueOf(v).Elem().Interface())}
			b1, err, pan := safeMarshal(v)
			if pan != "" {
				add("panic|"+pan+"|type="+mt.Name, "Marshal panicked", cs)
				continue
			}
			if err != nil {
				add("encode-error|type="+mt.Name, fmt.Sprintf("Marshal failed: %v", err), cs)
				continue
			}
			cs["encoded"] = hex.EncodeToString(b1)
			node, err := cb.DecodeAll(b1)
			if err != nil {
				add("encode-malformed|type="+mt.Name, fmt.Sprintf("the reference decoder refuses the encoding: %v", err), cs)
				continue
			}
			if canon := node.Canon().Encode(); !bytes.Equal(canon, b1) {
				cs["canonical"] = hex.EncodeToString(canon)
				add("noncanonical|type="+mt.Name, "the encoding is not canonical (reference codec re-encodes it differently)", cs)
			}
			if mt.Ref != nil {
				if want := mt.Ref(v).Encode(); !bytes.Equal(want, b1) {
					cs["documented_layout"] = hex.EncodeToString(want)
					add("encode|type="+mt.Name, fmt.Sprintf("Marshal = %x, documented layout encodes as %x", b1, want), cs)
				}
			}
			v2 := mt.Fresh()
			if err, pan := safeUnmarshal(b1, v2); pan != "" {
				add("panic|"+pan+"|type="+mt.Name, "Unmarshal panicked", cs)
				continue
			} else if err != nil {
				add("decode-error|type="+mt.Name, fmt.Sprintf("Unmarshal of the library's own encoding failed: %v", err), cs)
				continue
			}
			eq := deepEq
			if mt.Eq != nil {
				eq = mt.Eq
			}
			if !eq(v, v2) {
				cs["decoded"] = fmt.Sprintf("%+v", reflect.ValueOf(v2).Elem().Interface())
				add("decode-value|type="+mt.Name, "decode(encode(v)) differs from v", cs)
			}
			b2, err, pan := safeMarshal(v2)
			switch {
			case pan != "":
				add("panic|"+pan+"|type="+mt.Name, "re-Marshal panicked", cs)
			case err != nil:
				add("reencode-error|type="+mt.Name, fmt.Sprintf("Marshal of the decoded value failed: %v", err), cs)
			case !bytes.Equal(b1, b2):
				cs["reencoded"] = hex.EncodeToString(b2)
				add("reencode|type="+mt.Name, "encode(decode(b)) differs from b", cs)
			}
			if i == 0 && len(res.Samples) < 3 && len(b1) < 200 {
				res.Samples = append(res.Samples, map[string]any{"message_type": mt.Name, "encoded": hex.EncodeToString(b1)})
			}
		}
	}
	return nil
}
