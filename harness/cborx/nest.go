package cborx

// Nested-encoded items (C12): binding of spec/Cbor_Nest.tla.
//
// The schemas (where a decode target has "bstr .cbor" positions), the target -> schema table, the
// honest instances and the alphabet of inner mismatches live in Cbor_Nest.tla; TLC prints them and the
// verdict of every case under every schema. Here: (1) a generic interpreter of the printed schemas
// (NestOK, a transcription of the TLA+ operator), compared with TLC on every printed case; (2) the
// printed cases as inputs of the sweep, judged with TLC's verdict vector; (3) seeded inner mismatches
// of real encoded messages (vouchers with certificates, COSE structures with random headers, TO0/TO2
// messages), judged with the interpreter.

import (
	"encoding/hex"
	"encoding/json"
	"fmt"
	mrand "math/rand"
	"os"

	fdo "github.com/fido-device-onboard/go-fdo"
	"github.com/fido-device-onboard/go-fdo/cbor"
	"github.com/fido-device-onboard/go-fdo/cose"
	"github.com/fido-device-onboard/go-fdo/protocol"

	"verifharness/cb"
)

// Schema is a schema of Cbor_Nest.tla: k in any | wrap | wrap0 | arr | list | tag.
type Schema struct {
	K  string   `json:"k"`
	Of []Schema `json:"of"`
}

// NestLine is one BEHAVIOUR line of Cbor_Nest.tla (the header line has Schemas/Targets set).
type NestLine struct {
	Schemas []struct {
		Name string `json:"name"`
		S    Schema `json:"s"`
	} `json:"nestschemas"`
	Targets []struct {
		T string `json:"t"`
		S string `json:"s"`
	} `json:"targets"`

	Nest  string   `json:"nest"`
	For   []string `json:"for"`
	Kind  string   `json:"kind"`
	Path  []int    `json:"path"`
	Mut   string   `json:"mut"`
	Bytes []int    `json:"bytes"`
	Code  int      `json:"code"`
	W     int      `json:"w"`
	V     []int    `json:"v"`
}

// NestCase is a TLC case as handed to the children.
type NestCase struct {
	Label string   `json:"label"` // instance|kind|mutation
	Hex   string   `json:"hex"`
	V     []int    `json:"v"` // verdict per schema (index into NestTable.Names): 1 may accept, 0 must refuse
	For   []string `json:"for,omitempty"`
	Ctl   bool     `json:"ctl,omitempty"`
}

// NestTable is the schema part of the TLC output.
type NestTable struct {
	Names   []string          `json:"names"`
	Schemas []Schema          `json:"schemas"`
	Target  map[string]string `json:"target"` // target name -> schema name
}

func (nt *NestTable) index(name string) int {
	for i, n := range nt.Names {
		if n == name {
			return i
		}
	}
	return -1
}

// LoadNest reads the JSON list of BEHAVIOUR objects of Cbor_Nest.tla.
func LoadNest(path string) (*NestTable, []NestLine, error) {
	data, err := os.ReadFile(path)
	if err != nil {
		return nil, nil, err
	}
	var lines []NestLine
	if err := json.Unmarshal(data, &lines); err != nil {
		return nil, nil, err
	}
	var nt *NestTable
	var cases []NestLine
	for _, l := range lines {
		if len(l.Schemas) > 0 {
			nt = &NestTable{Target: map[string]string{}}
			for _, s := range l.Schemas {
				nt.Names = append(nt.Names, s.Name)
				nt.Schemas = append(nt.Schemas, s.S)
			}
			for _, t := range l.Targets {
				nt.Target[t.T] = t.S
			}
			continue
		}
		cases = append(cases, l)
	}
	if nt == nil {
		return nil, nil, fmt.Errorf("no schema line in %s", path)
	}
	for _, c := range cases {
		if len(c.V) != len(nt.Names) {
			return nil, nil, fmt.Errorf("case %s/%s: %d verdicts for %d schemas", c.Nest, c.Mut, len(c.V), len(nt.Names))
		}
	}
	return nt, cases, nil
}

// BindSchemas gives every target the schema Cbor_Nest.tla assigns to it. A target the specification
// does not know is an error (it would silently be judged without nested positions).
func BindSchemas(ts []Target, nt *NestTable) error {
	for i := range ts {
		sn, ok := nt.Target[ts[i].Name]
		if !ok {
			return fmt.Errorf("decode target %q has no schema in Cbor_Nest.tla (TargetSchemas)", ts[i].Name)
		}
		k := nt.index(sn)
		if k < 0 {
			return fmt.Errorf("decode target %q: unknown schema %q", ts[i].Name, sn)
		}
		ts[i].Schema, ts[i].SchemaIdx, ts[i].SchemaName = &nt.Schemas[k], k, sn
	}
	have := map[string]bool{}
	for _, t := range ts {
		have[t.Name] = true
	}
	for name := range nt.Target {
		if !have[name] {
			return fmt.Errorf("Cbor_Nest.tla names decode target %q, which the harness does not have", name)
		}
	}
	return nil
}

var anySchema = Schema{K: "any"}

// NestOK transcribes Cbor_Nest.tla NestOK: b starts with a well-formed item (Verdict(b).Class != bad).
func NestOK(s *Schema, b []byte) bool {
	if s.K == "any" || len(b) == 0 {
		return true
	}
	major, ai := b[0]>>5, b[0]&0x1f
	w := width(ai)
	if len(b) < 1+w {
		return true // not an item; the caller does not ask
	}
	var n uint64
	if ai < 24 {
		n = uint64(ai)
	} else {
		for _, x := range b[1 : 1+w] {
			n = n<<8 | uint64(x)
		}
	}
	p := 1 + w
	switch s.K {
	case "wrap", "wrap0":
		if major != 2 {
			return true
		}
		if ai == 31 {
			return false
		}
		if n == 0 {
			return s.K == "wrap0"
		}
		if n > uint64(len(b)-p) {
			return true // not well formed; not asked
		}
		c := b[p : p+int(n)]
		v := verdict(c)
		return v.Class != ClassBad && v.N == len(c) && NestOK(&s.Of[0], c)
	case "tag":
		if major != 6 {
			return true
		}
		return NestOK(&s.Of[0], b[p:])
	case "arr", "list":
		if major != 4 || ai == 31 {
			return true
		}
		for j := uint64(0); j < n; j++ {
			cs := &anySchema
			if s.K == "list" {
				cs = &s.Of[0]
			} else if j < uint64(len(s.Of)) {
				cs = &s.Of[j]
			} else {
				break // the remaining elements have no nested positions
			}
			if p >= len(b) {
				return true
			}
			if !NestOK(cs, b[p:]) {
				return false
			}
			v := verdict(b[p:])
			if v.Class == ClassBad {
				return true
			}
			p += v.N
		}
		return true
	}
	return true
}

// NestVerdict is Cbor_Nest.tla NestVerdict: 1 may accept, 0 must refuse.
func NestVerdict(s *Schema, b []byte, v V) int {
	if v.Class == ClassBad || NestOK(s, b) {
		return 1
	}
	return 0
}

// CrossCheckNest compares the Go reference with every case TLC printed and returns the cases for the sweep.
func CrossCheckNest(nt *NestTable, lines []NestLine, res *SweepResult) []NestCase {
	var out []NestCase
	for _, l := range lines {
		b := toBytes(l.Bytes)
		res.NestInputs++
		v := Verdict(b)
		gw := 0
		if v.W {
			gw = 1
		}
		bad := func(f string, a ...any) {
			if len(res.RefMismatch) < 50 {
				res.RefMismatch = append(res.RefMismatch, RefMismatch{What: fmt.Sprintf("nest case %s/%s/%s %x: ", l.Nest, l.Kind, l.Mut, b) + fmt.Sprintf(f, a...)})
			}
		}
		if v.Code() != l.Code || gw != l.W {
			bad("Verdict = code %d w %d, Cbor_Nest.tla says code %d w %d", v.Code(), gw, l.Code, l.W)
		}
		for k := range nt.Schemas {
			if g := NestVerdict(&nt.Schemas[k], b, v); g != l.V[k] {
				bad("schema %s: interpreter %d, TLC %d", nt.Names[k], g, l.V[k])
			}
		}
		if d := CrossCheckCB(b, v); d != "" {
			bad("harness/cb: %s", d)
		}
		out = append(out, NestCase{Label: l.Nest + "|" + l.Kind + "|" + l.Mut, Hex: hex.EncodeToString(b), V: l.V, For: l.For, Ctl: l.Kind == "control"})
	}
	return out
}

// ---- decode targets that nest items (added to Targets()) -----------------------------------------------

// The unexported message types of the library, re-declared field by field from the library's own
// generic building blocks (go-fdo di.go, to0.go, to2.go): what is exercised is cbor.Bstr /
// cose.Sign1Tag / struct decoding in exactly these compositions.
type msgAppStart struct {
	Info *cbor.Bstr[any]
}

type msgSetCredentials struct {
	OVHeader cbor.Bstr[fdo.VoucherHeader]
}

type msgTo0d struct {
	Voucher      fdo.Voucher
	WaitSeconds  uint32
	NonceTO0Sign protocol.Nonce
}

type msgOwnerSign struct {
	To0d cbor.Bstr[msgTo0d]
	To1d cose.Sign1Tag[protocol.To1d, []byte]
}

type msgSigInfo struct {
	Type cose.SignatureAlgorithm
	Info []byte
}

type msgOvhProof struct {
	OVH                 cbor.Bstr[fdo.VoucherHeader]
	NumOVEntries        uint8
	OVHHmac             protocol.Hmac
	NonceTO2ProveOV     protocol.Nonce
	SigInfoB            msgSigInfo
	KeyExchangeA        []byte
	HelloDeviceHash     protocol.Hash
	MaxOwnerMessageSize uint16
}

type msgOVNextEntry struct {
	OVEntryNum int
	OVEntry    cose.Sign1Tag[fdo.VoucherEntryPayload, []byte]
}

func nestTargets() []Target {
	ts := nestTargetList()
	for i := range ts {
		ts[i].Composite = true
	}
	return ts
}

func nestTargetList() []Target {
	return []Target{
		tgt[cose.Sign1[cbor.RawBytes, []byte]]("cose.Sign1[cbor.RawBytes]", "cose"),
		tgt[cose.Sign1Tag[cbor.RawBytes, []byte]]("cose.Sign1Tag[cbor.RawBytes]", "cose"),
		tgt[cose.Sign1[protocol.To1d, []byte]]("cose.Sign1[protocol.To1d]", "cose"),
		tgt[cose.Sign1Tag[protocol.To1d, []byte]]("cose.Sign1Tag[protocol.To1d]", "cose"),
		tgt[cose.Sign1Tag[fdo.VoucherEntryPayload, []byte]]("cose.Sign1Tag[fdo.VoucherEntryPayload]", "cose"),
		tgt[cose.Mac0[cose.Encrypt0[cbor.RawBytes, []byte], []byte]]("cose.Mac0[cose.Encrypt0[cbor.RawBytes]]", "cose"),
		tgt[msgAppStart]("msg:DI.AppStart", "fdo"),
		tgt[msgSetCredentials]("msg:DI.SetCredentials", "fdo"),
		tgt[msgOwnerSign]("msg:TO0.OwnerSign", "fdo"),
		tgt[cose.Sign1Tag[msgOvhProof, []byte]]("msg:TO2.ProveOVHdr", "fdo"),
		tgt[msgOVNextEntry]("msg:TO2.OVNextEntry", "fdo"),
	}
}

// NestMsgs returns encodings of honest values of the nesting message types (mutation bases).
func NestMsgs(r *mrand.Rand, e *Env) [][]byte {
	var out [][]byte
	add := func(v any) {
		if b, err, pan := safeMarshal(v); err == nil && pan == "" {
			out = append(out, b)
		}
	}
	voucher := func() fdo.Voucher {
		v := fdo.Voucher{Version: 101, Header: *cbor.NewBstr(genVoucherHeader(r, e)), Hmac: genHash(r)}
		if r.Intn(2) == 0 {
			cc := certChain(r, e)
			v.CertChain = &cc
		}
		v.Entries = make([]cose.Sign1Tag[fdo.VoucherEntryPayload, []byte], 1+r.Intn(3))
		for i := range v.Entries {
			v.Entries[i] = genEntry(r, e)
		}
		return v
	}
	to1d := func() cose.Sign1Tag[protocol.To1d, []byte] {
		t := protocol.To1d{To0dHash: genHash(r), RV: []protocol.RvTO2Addr{genTO2Addr(r)}}
		return cose.Sign1Tag[protocol.To1d, []byte]{Sign1: cose.Sign1[protocol.To1d, []byte]{
			Header:  cose.Header{Protected: cose.HeaderMap{cose.AlgLabel: int64(-35)}, Unprotected: genHeaderMap(r, false)},
			Payload: cbor.NewByteWrap(t), Signature: rbytes(r, 96)}}
	}
	for i := 0; i < 3; i++ {
		var nonce protocol.Nonce
		copy(nonce[:], rbytes(r, 16))
		add(&msgOwnerSign{To0d: *cbor.NewBstr(msgTo0d{Voucher: voucher(), WaitSeconds: uint32(r.Intn(1 << 20)), NonceTO0Sign: nonce}), To1d: to1d()})
		t := to1d()
		add(&t)
		add(&t.Sign1)
		add(&msgSetCredentials{OVHeader: *cbor.NewBstr(genVoucherHeader(r, e))})
		add(&msgAppStart{Info: cbor.NewBstr[any]([]any{int64(10), int64(1), rstring(r), rbytes(r, rlen(r))})})
		add(&cose.Sign1Tag[msgOvhProof, []byte]{Sign1: cose.Sign1[msgOvhProof, []byte]{
			Header: cose.Header{Protected: cose.HeaderMap{cose.AlgLabel: int64(-7)}, Unprotected: genHeaderMap(r, false)},
			Payload: cbor.NewByteWrap(msgOvhProof{OVH: *cbor.NewBstr(genVoucherHeader(r, e)), NumOVEntries: uint8(r.Intn(4)), OVHHmac: genHash(r), NonceTO2ProveOV: nonce,
				SigInfoB: msgSigInfo{Type: -7}, KeyExchangeA: rbytes(r, rlen(r)), HelloDeviceHash: genHash(r), MaxOwnerMessageSize: uint16(r.Intn(65536))}),
			Signature: rbytes(r, 64)}})
		add(&msgOVNextEntry{OVEntryNum: r.Intn(3), OVEntry: genEntry(r, e)})
		// EAT as ProveToRV / ProveDevice carry it: payload bstr .cbor {10: nonce, 256: ueid}
		eat := cb.Map(cb.Uint(10), cb.Bstr(nonce[:]), cb.Uint(256), cb.Bstr(append([]byte{1}, rbytes(r, 16)...))).Canon().Encode()
		add(&cose.Sign1Tag[cbor.RawBytes, []byte]{Sign1: cose.Sign1[cbor.RawBytes, []byte]{
			Header:  cose.Header{Protected: cose.HeaderMap{cose.AlgLabel: int64(-7)}, Unprotected: cose.HeaderMap{cose.Label{Int64: -259}: nonce[:]}},
			Payload: cbor.NewByteWrap(cbor.RawBytes(eat)), Signature: rbytes(r, 64)}})
		// encrypt-then-MAC tunnel object: Mac0 over bstr .cbor Encrypt0
		ct := rbytes(r, 1+rlen(r))
		add(&cose.Mac0[cose.Encrypt0[cbor.RawBytes, []byte], []byte]{
			Header: cose.Header{Protected: cose.HeaderMap{cose.AlgLabel: int64(5)}},
			Payload: cbor.NewByteWrap(cose.Encrypt0[cbor.RawBytes, []byte]{
				Header: cose.Header{Protected: cose.HeaderMap{cose.AlgLabel: int64(1)}, Unprotected: cose.HeaderMap{cose.IvLabel: rbytes(r, 16)}}, Ciphertext: &ct}),
			Value: rbytes(r, 32)})
	}
	return out
}

// ---- seeded inner mismatches -----------------------------------------------------------------------------

var junkAlphabet = [][]byte{{0x00}, {0xa0}, {0xf6}, {0x18}, {0xff}, {0x1c}, {0x01, 0x02, 0x03}, {0x82, 0x01}, {0x40}, {0x5f, 0xff}}

// inexact turns the encoding e of one item into bytes that are not exactly one item.
func inexact(r *mrand.Rand, e []byte) []byte {
	o := append([]byte{}, e...)
	switch r.Intn(9) {
	case 0, 1:
		return append(o, junkAlphabet[r.Intn(len(junkAlphabet))]...)
	case 2:
		return append(o, rbytes(r, 1+r.Intn(4))...)
	case 3:
		return append(o, e...)
	case 4:
		budget := 1 + r.Intn(8)
		return append(o, randTree(r, &budget, 0).Encode()...)
	case 5:
		return o[:len(o)-1]
	case 6:
		return o[:1]
	case 7:
		return o[:r.Intn(len(o))]
	default:
		return []byte{}
	}
}

// nestedMismatch picks a byte string of the message whose content is exactly one item (a nested
// position of some target, or a byte string that merely looks like one) and makes that content
// inexact, at any depth of nesting; the enclosing items are re-encoded so that they stay exact.
func nestedMismatch(r *mrand.Rand, base []byte) ([]byte, bool) {
	n, err := cb.DecodeAll(base)
	if err != nil {
		return nil, false
	}
	var cands, structured []*cb.Node
	n.Walk(func(_ []int, x *cb.Node) {
		if x.Major != 2 || x.Indef || len(x.Bytes) == 0 {
			return
		}
		if v := verdict(x.Bytes); v.Class != ClassBad && v.N == len(x.Bytes) {
			cands = append(cands, x)
			if m := x.Bytes[0] >> 5; m == 4 || m == 5 {
				structured = append(structured, x)
			}
		}
	})
	if len(cands) == 0 {
		return nil, false
	}
	x := cands[r.Intn(len(cands))]
	if len(structured) > 0 && r.Intn(4) > 0 {
		x = structured[r.Intn(len(structured))]
	}
	if r.Intn(2) == 0 {
		if in, ok := nestedMismatch(r, x.Bytes); ok {
			x.Bytes, x.AI = in, 0xff
			return n.Encode(), true
		}
	}
	x.Bytes, x.AI = inexact(r, x.Bytes), 0xff
	return n.Encode(), true
}
