package cborx

import (
	"bytes"
	"encoding/hex"
	"fmt"
	"io"
	"reflect"
	"runtime"
	"sort"
	"strings"
	"sync"

	"github.com/fido-device-onboard/go-fdo/cbor"

	"verifharness/cb"
	"verifharness/world"
)

// Finding is one disagreement between the library and the specification (or the reference).
type Finding struct {
	Key  string `json:"key"`
	What string `json:"what"`
	Case any    `json:"case"`
}

// RefMismatch records that the reference codec disagrees with the TLC output: the reference is not
// bound and nothing may be concluded from it (reported as inconclusive, never as a violation).
type RefMismatch struct {
	Index int    `json:"index"`
	What  string `json:"what"`
	Want  string `json:"want"`
	Got   string `json:"got"`
}

// ReplayResult is the output of cbor-replay.
type ReplayResult struct {
	Behaviours   int            `json:"behaviours"`
	Replayed     int            `json:"replayed"`
	Evaluations  int            `json:"evaluations"`
	Distinct     int            `json:"distinct"`
	ShapeRuns    map[string]int `json:"shape_runs"`
	NotApplic    map[string]int `json:"not_applicable"`
	RefMismatch  []RefMismatch  `json:"ref_mismatch"`
	Findings     []Finding      `json:"findings"`
	Messages     int            `json:"messages"`
	MessageTypes map[string]int `json:"message_types"`
	Samples      []any          `json:"samples"`
}

type fail struct {
	stage, shape, detail string
	item                 *Val
	want                 []byte
}

func safeMarshal(v any) (b []byte, err error, pan string) {
	defer func() {
		if r := recover(); r != nil {
			pan = fmt.Sprintf("%s: %v", world.TopLibFrame(), r)
		}
	}()
	b, err = cbor.Marshal(v)
	return
}

func safeUnmarshal(b []byte, v any) (err error, pan string) {
	defer func() {
		if r := recover(); r != nil {
			pan = fmt.Sprintf("%s: %v", world.TopLibFrame(), r)
		}
	}()
	err = cbor.Unmarshal(b, v)
	return
}

// roundTrip runs the three steps of C11 on one Go value: Marshal == want; Unmarshal(want) == expect;
// re-Marshal == want. target is a fresh pointer to decode into; expect is compared with
// reflect.DeepEqual against the decoded value (skipDecode: the shape has no decoded form).
func roundTrip(shape string, item *Val, want []byte, orig any, target any, expect any, skipDecode bool) []fail {
	var out []fail
	add := func(stage, detail string) {
		out = append(out, fail{stage: stage, shape: shape, detail: detail, item: item, want: want})
	}
	enc, err, pan := safeMarshal(orig)
	switch {
	case pan != "":
		add("panic|"+pan, "Marshal panicked")
	case err != nil:
		add("encode-error", fmt.Sprintf("Marshal(%T) failed: %v", orig, err))
	case !bytes.Equal(enc, want):
		add("encode", fmt.Sprintf("Marshal(%T) = %x, specification %x", orig, enc, want))
	}
	if skipDecode {
		return out
	}
	err, pan = safeUnmarshal(want, target)
	switch {
	case pan != "":
		add("panic|"+pan, "Unmarshal panicked")
		return out
	case err != nil:
		add("decode-error", fmt.Sprintf("Unmarshal(%x, %T) failed: %v", want, target, err))
		return out
	}
	got := reflect.ValueOf(target).Elem().Interface()
	if !deepEq(got, expect) {
		add("decode-value", fmt.Sprintf("Unmarshal(%x, %T) = %#v, expected %#v", want, target, got, expect))
		return out
	}
	re, err, pan := safeMarshal(got)
	switch {
	case pan != "":
		add("panic|"+pan, "re-Marshal panicked")
	case err != nil:
		add("reencode-error", fmt.Sprintf("Marshal of the decoded %T failed: %v", got, err))
	case !bytes.Equal(re, want):
		add("reencode", fmt.Sprintf("Marshal(Unmarshal(%x)) = %x", want, re))
	}
	return out
}

type counter struct {
	mu       sync.Mutex
	runs     map[string]int
	na       map[string]int
	distinct map[string]bool
}

func (c *counter) run(shape string, item *Val) {
	c.mu.Lock()
	c.runs[shape]++
	c.distinct[shape+"|"+item.Sig()] = true
	c.mu.Unlock()
}

func (c *counter) skip(shape string) {
	c.mu.Lock()
	c.na[shape]++
	c.mu.Unlock()
}

// checkItem replays one item with its expected canonical bytes in every Go shape.
func checkItem(item *Val, want []byte, c *counter) []fail {
	var out []fail

	// any
	if orig, err := item.AnyOrig(); err == nil {
		exp, derr := item.AnyDecoded()
		var target any
		c.run("any", item)
		out = append(out, roundTrip("any", item, want, orig, &target, exp, derr != nil)...)
		// stream API: two items back to back are written and read back as two items
		c.run("stream", item)
		out = append(out, streamTwice(item, want, orig, exp, derr != nil)...)
	} else {
		c.skip("any")
	}

	// typed shapes
	for _, m := range Modes {
		rv, err := item.Typed(m)
		if err != nil {
			if _, ok := err.(errShape); ok {
				c.skip(m.Name)
				continue
			}
			out = append(out, fail{stage: "harness", shape: m.Name, detail: err.Error(), item: item, want: want})
			continue
		}
		c.run(m.Name, item)
		target := reflect.New(rv.Type())
		out = append(out, roundTrip(m.Name, item, want, rv.Interface(), target.Interface(), rv.Interface(), false)...)
	}

	// raw bytes and the generic wrappers around raw bytes (expected bytes by the reference codec)
	if item.goRepresentable() {
		c.run("raw", item)
		var raw cbor.RawBytes
		out = append(out, roundTrip("raw", item, want, cbor.RawBytes(want), &raw, cbor.RawBytes(want), false)...)

		wrapWant := cb.Bstr(want).Encode()
		c.run("bstr-of-raw", item)
		var bs cbor.Bstr[cbor.RawBytes]
		out = append(out, roundTrip("bstr-of-raw", item, wrapWant, cbor.Bstr[cbor.RawBytes]{Val: want}, &bs, cbor.Bstr[cbor.RawBytes]{Val: want}, false)...)
		c.run("bytewrap-of-raw", item)
		var bw cbor.ByteWrap[cbor.RawBytes]
		out = append(out, roundTrip("bytewrap-of-raw", item, wrapWant, cbor.ByteWrap[cbor.RawBytes]{Val: want}, &bw, cbor.ByteWrap[cbor.RawBytes]{Val: want}, false)...)
		if exp, err := item.AnyDecoded(); err == nil {
			if orig, err := item.AnyOrig(); err == nil {
				c.run("bstr-of-any", item)
				var ba cbor.Bstr[any]
				out = append(out, roundTrip("bstr-of-any", item, wrapWant, cbor.Bstr[any]{Val: orig}, &ba, cbor.Bstr[any]{Val: exp}, false)...)
			}
		}
		tagWant := cb.Tag(1<<40+7, cb.Bstr(nil)).Encode()
		tagWant = append(tagWant[:len(tagWant)-1], want...)
		c.run("tag-of-raw", item)
		var tg cbor.Tag[cbor.RawBytes]
		out = append(out, roundTrip("tag-of-raw", item, tagWant, cbor.Tag[cbor.RawBytes]{Num: 1<<40 + 7, Val: want}, &tg, cbor.Tag[cbor.RawBytes]{Num: 1<<40 + 7, Val: want}, false)...)
	}
	if item.T == "bstr" {
		// ByteWrap[[]byte] does not double-encode: it is the byte string itself
		c.run("bytewrap-bytes", item)
		var bw cbor.ByteWrap[[]byte]
		out = append(out, roundTrip("bytewrap-bytes", item, want, cbor.ByteWrap[[]byte]{Val: toBytes(item.B)}, &bw, cbor.ByteWrap[[]byte]{Val: toBytes(item.B)}, false)...)
	}
	return out
}

type countingReader struct {
	r io.Reader
	n int
}

func (c *countingReader) Read(p []byte) (int, error) {
	n, err := c.r.Read(p)
	c.n += n
	return n, err
}

func streamTwice(item *Val, want []byte, orig, exp any, skipDecode bool) (out []fail) {
	add := func(stage, detail string) {
		out = append(out, fail{stage: stage, shape: "stream", detail: detail, item: item, want: want})
	}
	defer func() {
		if r := recover(); r != nil {
			add("panic|"+world.TopLibFrame(), fmt.Sprint(r))
		}
	}()
	var buf bytes.Buffer
	enc := cbor.NewEncoder(&buf)
	for i := 0; i < 2; i++ {
		if err := enc.Encode(orig); err != nil {
			add("encode-error", err.Error())
			return
		}
	}
	if !bytes.Equal(buf.Bytes(), append(append([]byte{}, want...), want...)) {
		add("encode", fmt.Sprintf("Encoder wrote %x for two items, specification %x twice", buf.Bytes(), want))
		return
	}
	if skipDecode {
		return
	}
	cr := &countingReader{r: bytes.NewReader(buf.Bytes())}
	dec := cbor.NewDecoder(cr)
	for i := 0; i < 2; i++ {
		var x any
		if err := dec.Decode(&x); err != nil {
			add("decode-error", fmt.Sprintf("Decoder item %d: %v", i, err))
			return
		}
		if cr.n != (i+1)*len(want) {
			add("decode-consumed", fmt.Sprintf("Decoder consumed %d bytes after item %d, item length %d", cr.n, i, len(want)))
			return
		}
		if !deepEq(x, exp) {
			add("decode-value", fmt.Sprintf("Decoder item %d = %#v, expected %#v", i, x, exp))
			return
		}
	}
	return
}

// minimise replaces failures of an item by the failures of its children when a child alone already
// fails in the same stage (so findings are keyed by the smallest failing item).
func minimise(item *Val, fails []fail, c *counter) []fail {
	if len(fails) == 0 || len(item.Kids) == 0 {
		return fails
	}
	var kidFails []fail
	for _, k := range item.Kids {
		if !k.goRepresentable() {
			continue
		}
		kf := checkItem(k, k.RefBytes(), &counter{runs: map[string]int{}, na: map[string]int{}, distinct: map[string]bool{}})
		kidFails = append(kidFails, minimise(k, kf, c)...)
	}
	stages := map[string]bool{}
	for _, f := range kidFails {
		stages[stageClass(f.stage)] = true
	}
	out := kidFails
	for _, f := range fails {
		if !stages[stageClass(f.stage)] {
			out = append(out, f)
		}
	}
	return out
}

func stageClass(s string) string {
	switch {
	case strings.HasPrefix(s, "panic"):
		return "panic"
	case strings.HasPrefix(s, "encode"):
		return "encode"
	case strings.HasPrefix(s, "decode"), strings.HasPrefix(s, "reencode"):
		return "decode"
	}
	return s
}

// Replay runs all behaviours and returns the result.
func Replay(bs []Behaviour, workers int) *ReplayResult {
	res := &ReplayResult{Behaviours: len(bs), ShapeRuns: map[string]int{}, NotApplic: map[string]int{}, MessageTypes: map[string]int{}}
	c := &counter{runs: res.ShapeRuns, na: res.NotApplic, distinct: map[string]bool{}}
	var mu sync.Mutex
	seen := map[string]bool{}
	addFinding := func(f fail, idx int, script []Op) {
		key := fmt.Sprintf("%s|item=%s|shape=%s", f.stage, f.item.Sig(), f.shape)
		mu.Lock()
		defer mu.Unlock()
		if seen[key] {
			return
		}
		seen[key] = true
		res.Findings = append(res.Findings, Finding{Key: key, What: f.detail, Case: map[string]any{
			"behaviour_index": idx, "script": script, "item": f.item, "expected_bytes": hex.EncodeToString(f.want), "shape": f.shape}})
	}
	if workers < 1 {
		workers = runtime.NumCPU()
	}
	var wg sync.WaitGroup
	ch := make(chan int, 256)
	for w := 0; w < workers; w++ {
		wg.Add(1)
		go func() {
			defer wg.Done()
			for i := range ch {
				b := bs[i]
				want := toBytes(b.Bytes)
				item, err := Run(b.Script)
				if err != nil {
					mu.Lock()
					res.RefMismatch = append(res.RefMismatch, RefMismatch{Index: i, What: "script not executable: " + err.Error()})
					mu.Unlock()
					continue
				}
				// bind the reference codec to the specification
				ref := item.RefBytes()
				if !bytes.Equal(ref, want) {
					// not a verdict about the library; for the record, say whether the library sides with the reference
					lib := checkItem(item, want, &counter{runs: map[string]int{}, na: map[string]int{}, distinct: map[string]bool{}})
					mu.Lock()
					res.RefMismatch = append(res.RefMismatch, RefMismatch{Index: i, What: fmt.Sprintf("reference encoder differs from Enc (the library disagrees with the given bytes in %d shape checks)", len(lib)),
						Want: hex.EncodeToString(want), Got: hex.EncodeToString(ref)})
					mu.Unlock()
					continue
				}
				if n, err := cb.DecodeAll(want); err != nil || !bytes.Equal(n.Canon().Encode(), want) {
					mu.Lock()
					res.RefMismatch = append(res.RefMismatch, RefMismatch{Index: i, What: fmt.Sprintf("reference decoder does not reproduce Enc (%v)", err), Want: hex.EncodeToString(want)})
					mu.Unlock()
					continue
				}
				if v := Verdict(want); v.Class != ClassDef || v.N != len(want) {
					mu.Lock()
					res.RefMismatch = append(res.RefMismatch, RefMismatch{Index: i, What: fmt.Sprintf("Verdict(Enc) = class %d n %d", v.Class, v.N), Want: hex.EncodeToString(want)})
					mu.Unlock()
					continue
				}
				fails := checkItem(item, want, c)
				fails = minimise(item, fails, c)
				for _, f := range fails {
					addFinding(f, i, b.Script)
				}
				mu.Lock()
				res.Replayed++
				mu.Unlock()
			}
		}()
	}
	for i := range bs {
		ch <- i
	}
	close(ch)
	wg.Wait()
	for _, n := range res.ShapeRuns {
		res.Evaluations += n
	}
	res.Distinct = len(c.distinct)
	sort.Slice(res.Findings, func(i, j int) bool { return res.Findings[i].Key < res.Findings[j].Key })
	return res
}
