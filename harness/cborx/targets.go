package cborx

import (
	fdo "github.com/fido-device-onboard/go-fdo"
	"github.com/fido-device-onboard/go-fdo/blob"
	"github.com/fido-device-onboard/go-fdo/cbor"
	"github.com/fido-device-onboard/go-fdo/cose"
	"github.com/fido-device-onboard/go-fdo/protocol"
	"github.com/fido-device-onboard/go-fdo/serviceinfo"
)

// Target is a decode target type of C12.
type Target struct {
	Name   string
	Family string     // generic | wrapper | cert | cose | fdo (used in finding keys)
	New    func() any // fresh pointer to decode into
	Wrap   bool       // bstr .cbor target: accepting a byte string requires WrappedExact

	// where the target nests items in byte strings: the schema Cbor_Nest.tla assigns to it (BindSchemas)
	Schema     *Schema
	SchemaIdx  int
	SchemaName string
	Composite  bool // composition of decoders that are targets themselves (see runUnit)
}

type plainStruct struct {
	A int64
	B []byte
	C string
}

type omitStruct struct {
	Variable uint8
	Value    []byte `cbor:",omitempty"`
}

type nestedStruct struct {
	A any
	B cbor.RawBytes
	C *plainStruct
	D []omitStruct
}

type wrapStruct struct {
	A cbor.Bstr[int64]
	B int64
}

func tgt[T any](name, family string) Target {
	return Target{Name: name, Family: family, New: func() any { return new(T) }}
}

func wrapTgt[T any](name string) Target {
	t := tgt[T](name, "wrapper")
	t.Wrap = true
	return t
}

// Targets lists every decode target of the sweep.
func Targets() []Target { return append(baseTargets(), nestTargets()...) }

func baseTargets() []Target {
	return []Target{
		tgt[any]("any", "generic"),
		tgt[cbor.RawBytes]("cbor.RawBytes", "generic"),
		tgt[int64]("int64", "generic"),
		tgt[uint8]("uint8", "generic"),
		tgt[[]byte]("[]byte", "generic"),
		tgt[string]("string", "generic"),
		tgt[bool]("bool", "generic"),
		tgt[*int64]("*int64", "generic"),
		tgt[[]any]("[]any", "generic"),
		tgt[[]int64]("[]int64", "generic"),
		tgt[[][]byte]("[][]byte", "generic"),
		tgt[[4]uint16]("[4]uint16", "generic"),
		tgt[[16]byte]("[16]byte", "generic"),
		tgt[map[any]any]("map[any]any", "generic"),
		tgt[map[int64]any]("map[int64]any", "generic"),
		tgt[map[string][]byte]("map[string][]byte", "generic"),
		tgt[plainStruct]("struct{int64,[]byte,string}", "generic"),
		tgt[omitStruct]("struct{uint8,[]byte omitempty}", "generic"),
		tgt[nestedStruct]("struct{any,RawBytes,*struct,[]struct}", "generic"),

		wrapTgt[cbor.Bstr[int64]]("cbor.Bstr[int64]"),
		wrapTgt[cbor.Bstr[cbor.RawBytes]]("cbor.Bstr[cbor.RawBytes]"),
		wrapTgt[cbor.Bstr[[]any]]("cbor.Bstr[[]any]"),
		wrapTgt[cbor.Bstr[any]]("cbor.Bstr[any]"),
		wrapTgt[cbor.ByteWrap[int64]]("cbor.ByteWrap[int64]"),
		wrapTgt[cbor.ByteWrap[cbor.RawBytes]]("cbor.ByteWrap[cbor.RawBytes]"),
		tgt[cbor.ByteWrap[[]byte]]("cbor.ByteWrap[[]byte]", "wrapper"),
		tgt[wrapStruct]("struct{cbor.Bstr[int64],int64}", "wrapper"),
		tgt[cbor.Tag[any]]("cbor.Tag[any]", "wrapper"),
		tgt[cbor.Tag[cbor.RawBytes]]("cbor.Tag[cbor.RawBytes]", "wrapper"),
		tgt[cbor.Tag[int64]]("cbor.Tag[int64]", "wrapper"),
		tgt[cbor.Timestamp]("cbor.Timestamp", "wrapper"),

		tgt[cbor.X509Certificate]("cbor.X509Certificate", "cert"),
		tgt[cbor.X509CertificateRequest]("cbor.X509CertificateRequest", "cert"),
		tgt[[]*cbor.X509Certificate]("[]*cbor.X509Certificate", "cert"),

		tgt[cose.Sign1[[]byte, []byte]]("cose.Sign1[[]byte]", "cose"),
		tgt[cose.Sign1[int64, []byte]]("cose.Sign1[int64]", "cose"),
		tgt[cose.Sign1Tag[[]byte, []byte]]("cose.Sign1Tag[[]byte]", "cose"),
		tgt[cose.Mac0[[]byte, []byte]]("cose.Mac0[[]byte]", "cose"),
		tgt[cose.Mac0Tag[[]byte, []byte]]("cose.Mac0Tag[[]byte]", "cose"),
		tgt[cose.Encrypt0[[]byte, []byte]]("cose.Encrypt0[[]byte]", "cose"),
		tgt[cose.Encrypt0Tag[[]byte, []byte]]("cose.Encrypt0Tag[[]byte]", "cose"),
		tgt[cose.Key]("cose.Key", "cose"),
		tgt[cose.Label]("cose.Label", "cose"),
		tgt[cose.HeaderMap]("cose.HeaderMap", "cose"),

		tgt[fdo.Voucher]("fdo.Voucher", "fdo"),
		tgt[fdo.VoucherHeader]("fdo.VoucherHeader", "fdo"),
		tgt[fdo.VoucherEntryPayload]("fdo.VoucherEntryPayload", "fdo"),
		tgt[fdo.DeviceCredential]("fdo.DeviceCredential", "fdo"),
		tgt[blob.DeviceCredential]("blob.DeviceCredential", "fdo"),
		tgt[protocol.PublicKey]("protocol.PublicKey", "fdo"),
		tgt[protocol.Hash]("protocol.Hash", "fdo"),
		tgt[protocol.To1d]("protocol.To1d", "fdo"),
		tgt[protocol.ErrorMessage]("protocol.ErrorMessage", "fdo"),
		tgt[[][]protocol.RvInstruction]("[][]protocol.RvInstruction", "fdo"),
		tgt[serviceinfo.KV]("serviceinfo.KV", "fdo"),
		tgt[[]*serviceinfo.KV]("[]*serviceinfo.KV", "fdo"),
		tgt[serviceinfo.DevmodModulesChunk]("serviceinfo.DevmodModulesChunk", "fdo"),
	}
}
