package cborx

import (
	"bytes"
	"reflect"
)

// deepEq is reflect.DeepEqual except that nil and empty slices/maps are equal (both are the empty
// CBOR array/map/string) and interface values are compared by their contents.
func deepEq(a, b any) bool { return eqValue(reflect.ValueOf(a), reflect.ValueOf(b), 0) }

func eqValue(a, b reflect.Value, depth int) bool {
	if depth > 200 {
		return true
	}
	if !a.IsValid() || !b.IsValid() {
		return a.IsValid() == b.IsValid()
	}
	if a.Kind() == reflect.Interface || b.Kind() == reflect.Interface {
		if a.Kind() == reflect.Interface {
			if a.IsNil() {
				return (b.Kind() == reflect.Interface && b.IsNil())
			}
			a = a.Elem()
		}
		if b.Kind() == reflect.Interface {
			if b.IsNil() {
				return false
			}
			b = b.Elem()
		}
		return eqValue(a, b, depth+1)
	}
	if a.Type() != b.Type() {
		return false
	}
	switch a.Kind() {
	case reflect.Bool:
		return a.Bool() == b.Bool()
	case reflect.Int, reflect.Int8, reflect.Int16, reflect.Int32, reflect.Int64:
		return a.Int() == b.Int()
	case reflect.Uint, reflect.Uint8, reflect.Uint16, reflect.Uint32, reflect.Uint64, reflect.Uintptr:
		return a.Uint() == b.Uint()
	case reflect.Float32, reflect.Float64:
		return a.Float() == b.Float()
	case reflect.String:
		return a.String() == b.String()
	case reflect.Pointer:
		if a.IsNil() || b.IsNil() {
			return a.IsNil() == b.IsNil()
		}
		if a.Pointer() == b.Pointer() {
			return true
		}
		return eqValue(a.Elem(), b.Elem(), depth+1)
	case reflect.Slice:
		if a.Len() != b.Len() {
			return false
		}
		if a.Type().Elem().Kind() == reflect.Uint8 {
			return bytes.Equal(a.Bytes(), b.Bytes())
		}
		fallthrough
	case reflect.Array:
		for i := 0; i < a.Len(); i++ {
			if !eqValue(a.Index(i), b.Index(i), depth+1) {
				return false
			}
		}
		return true
	case reflect.Map:
		if a.Len() != b.Len() {
			return false
		}
		it := a.MapRange()
		for it.Next() {
			bv := b.MapIndex(it.Key())
			if !bv.IsValid() || !eqValue(it.Value(), bv, depth+1) {
				return false
			}
		}
		return true
	case reflect.Struct:
		for i := 0; i < a.NumField(); i++ {
			if !eqValue(a.Field(i), b.Field(i), depth+1) {
				return false
			}
		}
		return true
	case reflect.Func, reflect.Chan, reflect.UnsafePointer:
		return a.IsNil() == b.IsNil()
	}
	return false
}
