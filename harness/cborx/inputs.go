package cborx

import (
	"encoding/binary"
	"math"
	mrand "math/rand"

	"verifharness/cb"
)

// Input is one byte string of the sweep with the name of the family that produced it.
type Input struct {
	Kind string
	B    []byte
}

const maxInput = 64 << 10

func logLen(r *mrand.Rand, max int) int {
	// log-uniform in [1, max]
	x := math.Exp(r.Float64() * math.Log(float64(max)))
	n := int(x)
	if n < 1 {
		n = 1
	}
	if n > max {
		n = max
	}
	return n
}

// randTree builds a random well-formed tree with about `budget` nodes.
func randTree(r *mrand.Rand, budget *int, depth int) *cb.Node {
	*budget--
	k := r.Intn(12)
	if depth > 12 || *budget <= 0 {
		k = r.Intn(6)
	}
	switch k {
	case 0:
		return cb.Uint(uint64(intChoices[r.Intn(len(intChoices))]) & math.MaxInt64)
	case 1:
		return cb.Nint(r.Uint64() >> uint(r.Intn(64)))
	case 2:
		return cb.Bstr(rbytes(r, lenChoices[r.Intn(len(lenChoices))]))
	case 3:
		return cb.Tstr(rstring(r))
	case 4:
		return cb.Bool(r.Intn(2) == 0)
	case 5:
		return cb.Null()
	case 6, 7:
		n := r.Intn(5)
		a := cb.Arr()
		for i := 0; i < n; i++ {
			a.Kids = append(a.Kids, randTree(r, budget, depth+1))
		}
		return a
	case 8, 9:
		n := r.Intn(4)
		m := cb.Map()
		for i := 0; i < n; i++ {
			var key *cb.Node
			if r.Intn(2) == 0 {
				key = cb.Int(int64(i*37) - 20)
			} else {
				key = cb.Tstr(string(rune('a'+i)) + rstring(r))
			}
			m.Kids = append(m.Kids, key, randTree(r, budget, depth+1))
		}
		return m
	case 10:
		return cb.Tag(uint64(r.Intn(300)), randTree(r, budget, depth+1))
	default:
		return cb.Wrap(randTree(r, budget, depth+1))
	}
}

// widen gives random nodes non-minimal heads or indefinite lengths (still well-formed).
func widen(r *mrand.Rand, n *cb.Node, allowIndef bool) {
	n.Walk(func(_ []int, x *cb.Node) {
		if r.Intn(4) != 0 {
			return
		}
		switch x.Major {
		case 0, 1, 6:
			x.AI = []uint8{24, 25, 26, 27}[r.Intn(4)]
			if x.AI == 24 && x.Val > 0xff || x.AI == 25 && x.Val > 0xffff || x.AI == 26 && x.Val > 0xffffffff {
				x.AI = 27
			}
		case 4, 5:
			if allowIndef && r.Intn(2) == 0 {
				x.Indef = true
				return
			}
			x.AI = 27
			x.Val = uint64(len(x.Kids))
			if x.Major == 5 {
				x.Val /= 2
			}
		case 2, 3:
			x.AI = 27
			x.Val = uint64(len(x.Bytes))
		}
	})
}

var hugeClaims = []uint64{23, 24, 255, 256, 65535, 65536, 99999, 100000, 1 << 20, 1<<31 - 1, 1 << 31, 1<<32 - 1, 1 << 32, 1 << 40, 1<<62 + 5, 1<<63 - 1, 1 << 63, math.MaxUint64}

func headBytes(major uint8, v uint64, width int) []byte {
	switch width {
	case 0:
		return []byte{major<<5 | uint8(v%24)}
	case 1:
		return []byte{major<<5 | 24, uint8(v)}
	case 2:
		return []byte{major<<5 | 25, uint8(v >> 8), uint8(v)}
	case 4:
		o := make([]byte, 5)
		o[0] = major<<5 | 26
		binary.BigEndian.PutUint32(o[1:], uint32(v))
		return o
	}
	o := make([]byte, 9)
	o[0] = major<<5 | 27
	binary.BigEndian.PutUint64(o[1:], v)
	return o
}

func claimHead(r *mrand.Rand, major uint8) []byte {
	v := hugeClaims[r.Intn(len(hugeClaims))]
	w := 8
	switch {
	case v <= 0xff && r.Intn(2) == 0:
		w = 1
	case v <= 0xffff && r.Intn(2) == 0:
		w = 2
	case v <= 0xffffffff && r.Intn(2) == 0:
		w = 4
	}
	return headBytes(major, v, w)
}

// mutate applies one byte-level mutation aimed at heads.
func mutate(r *mrand.Rand, b []byte) []byte {
	out := append([]byte(nil), b...)
	if len(out) == 0 {
		return []byte{byte(r.Intn(256))}
	}
	// positions of heads according to the reference decoder (when it decodes)
	var heads []int
	if n, _, err := cb.Decode(out); err == nil {
		n.Walk(func(_ []int, x *cb.Node) { heads = append(heads, x.Start) })
	}
	pos := r.Intn(len(out))
	if len(heads) > 0 && r.Intn(4) > 0 {
		pos = heads[r.Intn(len(heads))]
	}
	switch r.Intn(9) {
	case 0: // bit flip
		out[pos] ^= 1 << uint(r.Intn(8))
	case 1: // random byte
		out[pos] = byte(r.Intn(256))
	case 2: // truncate
		out = out[:pos]
	case 3: // reserved / indefinite additional information
		out[pos] = out[pos]&0xe0 | byte(28+r.Intn(4))
	case 4: // replace the head by one claiming a huge length (rest kept)
		h := claimHead(r, out[pos]>>5)
		out = append(append(append([]byte(nil), out[:pos]...), h...), out[pos+1:]...)
	case 5: // insert a break
		out = append(append(append([]byte(nil), out[:pos]...), 0xff), out[pos:]...)
	case 6: // duplicate a tail
		out = append(out, out[pos:]...)
	case 7: // widen head to 8 bytes keeping the low value
		h := headBytes(out[pos]>>5, uint64(out[pos]&0x1f), 8)
		if out[pos]&0x1f < 24 {
			out = append(append(append([]byte(nil), out[:pos]...), h...), out[pos+1:]...)
		}
	default: // drop a byte
		out = append(out[:pos], out[pos+1:]...)
	}
	if len(out) > maxInput {
		out = out[:maxInput]
	}
	return out
}

func repeat(b []byte, n int) []byte {
	out := make([]byte, 0, len(b)*n)
	for i := 0; i < n; i++ {
		out = append(out, b...)
	}
	return out
}

// adversarial returns the i-th member of the adversarial shape families.
func adversarial(r *mrand.Rand, i int) Input {
	depths := []int{1, 2, 3, 8, 64, 500, 513, 2000, 13000, maxInput}
	d := depths[r.Intn(len(depths))]
	switch i % 13 {
	case 0: // nested arrays each claiming many items, nothing inside
		h := claimHead(r, 4)
		if d*len(h) > maxInput {
			d = maxInput / len(h)
		}
		return Input{"nested-arrays-claiming-n", repeat(h, d)}
	case 1: // nested maps each claiming many pairs
		h := append(claimHead(r, 5), 0x00)
		if d*len(h) > maxInput {
			d = maxInput / len(h)
		}
		return Input{"nested-maps-claiming-n", repeat(h, d)}
	case 2: // deep well-formed nesting [[[...0...]]]
		if d >= maxInput {
			d = maxInput - 1
		}
		return Input{"deep-arrays", append(repeat([]byte{0x81}, d), 0x00)}
	case 3: // deep nesting, truncated
		return Input{"deep-arrays-truncated", repeat([]byte{0x81}, d)}
	case 4: // deep tags
		if d >= maxInput {
			d = maxInput - 1
		}
		return Input{"deep-tags", append(repeat([]byte{0xc1}, d), 0x00)}
	case 5: // deep maps {0:{0:...}}
		if 2*d >= maxInput {
			d = maxInput/2 - 1
		}
		return Input{"deep-maps", append(repeat([]byte{0xa1, 0x00}, d), 0xa0)}
	case 6: // maximal / huge heads for every major type followed by a few bytes
		major := uint8(r.Intn(8))
		return Input{"huge-head", append(claimHead(r, major), rbytes(r, r.Intn(6))...)}
	case 7: // byte/text string claiming more than present
		major := uint8(2 + r.Intn(2))
		return Input{"string-claims-more", append(claimHead(r, major), rbytes(r, r.Intn(40))...)}
	case 8: // deep indefinite nesting
		if 2*d > maxInput {
			d = maxInput / 2
		}
		return Input{"deep-indefinite", append(repeat([]byte{0x9f}, d), repeat([]byte{0xff}, d)...)}
	case 9: // bstr-wrapped item with inner trailing bytes / truncated inner
		inner := cb.Arr(cb.Uint(1), cb.Uint(2)).Encode()
		switch r.Intn(3) {
		case 0:
			inner = append(inner, rbytes(r, 1+r.Intn(4))...)
		case 1:
			inner = inner[:len(inner)-1]
		}
		b := cb.Bstr(inner).Encode()
		if r.Intn(2) == 0 {
			b = cb.Arr(cb.Bstr(inner), cb.Uint(7)).Encode()
		}
		return Input{"wrapped-inner-mismatch", b}
	case 10: // array of many huge-claiming strings
		n := 1 + r.Intn(50)
		b := headBytes(4, uint64(n), 2)
		for j := 0; j < n; j++ {
			b = append(b, claimHead(r, 2)...)
		}
		return Input{"array-of-huge-strings", b}
	case 12: // arrays claiming far more than present but holding more real items than any initial capacity, nested
		levels := []int{1, 2, 4, 16, 46}[r.Intn(5)]
		items := []int{1025, 1100, 1300, 2100, 4200}[r.Intn(5)]
		claim := []uint64{99999, 65535, 50000}[r.Intn(3)]
		var b []byte
		for l := 0; l < levels && len(b)+items+5 < maxInput; l++ {
			b = append(b, headBytes(4, claim, 4)...)
			b = append(b, make([]byte, items)...) // unsigned zeroes
		}
		return Input{"inflated-partly-filled", b}
	default: // wide flat array claiming exactly what is present (big but honest)
		n := []int{1000, 30000, 60000}[r.Intn(3)]
		b := headBytes(4, uint64(n), 4)
		b = append(b, make([]byte, n)...)
		return Input{"wide-honest-array", b}
	}
}

// GenInput is the i-th input of the seeded phase: a function of (seed, i) and the message corpus.
func GenInput(seed int64, i int, corpus [][]byte) Input {
	r := mrand.New(mrand.NewSource(seed*1_000_003 + int64(i)*7919 + 17))
	switch i % 6 {
	case 0:
		return Input{"random-bytes", rbytes(r, logLen(r, maxInput))}
	case 1:
		budget := 1 + r.Intn(60)
		return Input{"random-tree", randTree(r, &budget, 0).Encode()}
	case 2:
		budget := 1 + r.Intn(40)
		t := randTree(r, &budget, 0)
		widen(r, t, r.Intn(2) == 0)
		return Input{"random-tree-nonminimal", t.Encode()}
	case 3:
		budget := 1 + r.Intn(40)
		b := randTree(r, &budget, 0).Encode()
		for k := 1 + r.Intn(3); k > 0; k-- {
			b = mutate(r, b)
		}
		return Input{"mutated-tree", b}
	case 4:
		if len(corpus) == 0 {
			return adversarial(r, i/6)
		}
		b := corpus[r.Intn(len(corpus))]
		if r.Intn(2) == 0 {
			// an inner mismatch at a nested position (Cbor_Nest.tla), the enclosing items staying exact
			for try := 0; try < 8; try++ {
				if nb, ok := nestedMismatch(r, corpus[r.Intn(len(corpus))]); ok && len(nb) <= maxInput {
					return Input{"nested-inner-mismatch", nb}
				}
			}
		}
		for k := r.Intn(3); k > 0; k-- {
			b = mutate(r, b)
		}
		return Input{"mutated-message", b}
	default:
		return adversarial(r, i/6)
	}
}
