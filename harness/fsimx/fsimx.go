// Package fsimx runs the real fsim modules (fdo.download, fdo.upload, fdo.wget) inside a real
// fdo.TO2 / fdo.TO2Server pair, optionally corrupting one announced value or one data chunk at the
// plaintext layer (inside the tunnel, by a wrapper between the library and the receiving module),
// and records what the receiver was told, what it received, what ended up at the destination and
// what was reported, as NDJSON events for Fsim_Trace.tla (property C17).
package fsimx

import (
	"bufio"
	"bytes"
	"context"
	"crypto/sha512"
	"encoding/json"
	"errors"
	"fmt"
	"io"
	mrand "math/rand"
	"net/http"
	"net/http/httptest"
	"net/url"
	"os"
	"path/filepath"
	"sort"
	"sync"
	"time"

	"github.com/fido-device-onboard/go-fdo/cbor"
	"github.com/fido-device-onboard/go-fdo/fsim"
	"github.com/fido-device-onboard/go-fdo/serviceinfo"

	"verifharness/world"
)

// Case is one transfer.
type Case struct {
	ID     int    `json:"id"`
	Seed   int64  `json:"seed"`
	Module string `json:"module"` // download | upload | wget
	Size   int    `json:"size"`
	Chunk  int    `json:"chunk"`   // DownloadContents.ChunkSize (download only)
	DevMTU uint16 `json:"dev_mtu"` // device receive MTU (owner -> device)
	OwnMTU uint16 `json:"own_mtu"` // owner announced MTU (device -> owner), 0 = default
	// Corruption inside the tunnel (for wget data/len: in the HTTP body the device fetches).
	Cor     string `json:"cor"`      // none | data | digest | len+ | len-
	CorIdx  int    `json:"cor_idx"`  // which data message (0-based; beyond the last = last)
	Delta   int    `json:"delta"`    // how much the length is changed
	Must    bool   `json:"must"`     // DownloadContents.MustDownload
	Floor   bool   `json:"floor"`    // MTU below what the module's fixed announcements need: only safety is judged
	Expect  string `json:"expect"`   // TLC verdict for the scenario class: placed | failed (passed through)
	Class   string `json:"class"`    // scenario class label (passed through)
	Timeout int    `json:"timeout_ms"`
}

type recorder struct {
	mu  sync.Mutex
	run int
	evs []map[string]any
}

func (r *recorder) add(ev string, kv ...any) {
	m := map[string]any{"ev": ev, "run": r.run}
	for i := 0; i+1 < len(kv); i += 2 {
		m[kv[i].(string)] = kv[i+1]
	}
	r.mu.Lock()
	m["seq"] = len(r.evs) + 1
	r.evs = append(r.evs, m)
	r.mu.Unlock()
}

// state shared by the wrappers of one run
type obs struct {
	rec      *recorder
	c        Case
	src      []byte
	srcSum   []byte
	mu       sync.Mutex
	rcvOff   int  // payload bytes handed to the receiving module
	dataMsgs int  // data messages seen
	reported bool // the receiver (or the protocol partner on its behalf) reported failure
	applied  bool // the corruption of the case was applied
	dones    []int64
	errs     []string
}

func (o *obs) setApplied() {
	o.mu.Lock()
	o.applied = true
	o.mu.Unlock()
}

func (o *obs) report(what string) {
	o.mu.Lock()
	o.reported = true
	o.errs = append(o.errs, what)
	o.mu.Unlock()
}

// bstrPayload returns the payload of a sequence of complete CBOR byte strings, or ok=false.
func bstrPayload(b []byte) (payload []byte, ok bool) {
	dec := cbor.NewDecoder(bytes.NewReader(b))
	for {
		var chunk []byte
		err := dec.Decode(&chunk)
		if errors.Is(err, io.EOF) {
			return payload, true
		}
		if err != nil {
			return payload, false
		}
		payload = append(payload, chunk...)
	}
}

// mutate applies the case's corruption to a message on its way to the receiving module and logs what
// the receiver is told / given.
func (o *obs) mutate(name string, b []byte) []byte {
	c := o.c
	switch name {
	case "length":
		var n int64
		if err := cbor.Unmarshal(b, &n); err != nil {
			return b
		}
		switch c.Cor {
		case "len+":
			n += int64(c.Delta)
			o.setApplied()
		case "len-":
			n -= int64(c.Delta)
			if n < 0 {
				n = 0
			}
			o.setApplied()
		}
		out, _ := cbor.Marshal(n)
		o.rec.add("announce_len", "len", n)
		return out
	case "sha-384":
		out := append([]byte(nil), b...)
		if c.Cor == "digest" && len(out) > 2 {
			out[len(out)-1-int(c.Seed%40)] ^= 0x20
			o.setApplied()
		}
		var sum []byte
		_ = cbor.Unmarshal(out, &sum)
		o.rec.add("announce_dig", "digok", bytes.Equal(sum, o.srcSum))
		return out
	case "data":
		out := append([]byte(nil), b...)
		o.mu.Lock()
		idx := o.dataMsgs
		o.dataMsgs++
		off := o.rcvOff
		o.mu.Unlock()
		if c.Cor == "data" && idx == c.CorIdx && len(out) >= 2 {
			// a payload byte (the CBOR header of the byte string is at most 3 bytes)
			out[len(out)-1-int(c.Seed%int64(max(1, len(out)-3)))] ^= 0x01
			o.setApplied()
		}
		payload, whole := bstrPayload(out)
		same := whole && off+len(payload) <= len(o.src) && bytes.Equal(payload, o.src[off:off+len(payload)])
		o.mu.Lock()
		o.rcvOff += len(payload)
		o.mu.Unlock()
		o.rec.add("data", "n", len(payload), "same", same, "whole", whole)
		return out
	}
	return b
}

// devWrap sits between the library and a device module (receiver of download and wget).
type devWrap struct {
	inner   serviceinfo.DeviceModule
	o       *obs
	mutates bool
}

func (w *devWrap) Transition(active bool) error { return w.inner.Transition(active) }

func (w *devWrap) Receive(ctx context.Context, name string, body io.Reader, respond func(string) io.Writer, yield func()) error {
	b, err := io.ReadAll(body)
	if err != nil {
		return err
	}
	if w.mutates {
		b = w.o.mutate(name, b)
	}
	err = w.inner.Receive(ctx, name, bytes.NewReader(b), respond, yield)
	if err != nil {
		w.o.report("device module error: " + err.Error())
	}
	return err
}

func (w *devWrap) Yield(ctx context.Context, respond func(string) io.Writer, yield func()) error {
	return w.inner.Yield(ctx, respond, yield)
}

// ownWrap sits between the library and an owner module (receiver of upload; observer of done/error).
type ownWrap struct {
	inner   serviceinfo.OwnerModule
	o       *obs
	mutates bool
}

func (w *ownWrap) HandleInfo(ctx context.Context, name string, body io.Reader) error {
	b, err := io.ReadAll(body)
	if err != nil {
		return err
	}
	switch name {
	case "done":
		var n int64
		if cbor.Unmarshal(b, &n) == nil {
			w.o.mu.Lock()
			w.o.dones = append(w.o.dones, n)
			w.o.mu.Unlock()
			if n == -1 {
				w.o.report("device answered done=-1")
			}
		}
	case "error":
		var s string
		_ = cbor.Unmarshal(b, &s)
		w.o.report("device answered error: " + s)
	}
	if w.mutates {
		b = w.o.mutate(name, b)
	}
	err = w.inner.HandleInfo(ctx, name, bytes.NewReader(b))
	if err != nil {
		w.o.report("owner module error: " + err.Error())
	}
	return err
}

func (w *ownWrap) ProduceInfo(ctx context.Context, p *serviceinfo.Producer) (bool, bool, error) {
	block, done, err := w.inner.ProduceInfo(ctx, p)
	if err != nil {
		w.o.report("owner module error: " + err.Error())
	}
	return block, done, err
}

func listDir(dir string) []string {
	es, _ := os.ReadDir(dir)
	out := []string{}
	for _, e := range es {
		out = append(out, e.Name())
	}
	sort.Strings(out)
	return out
}

// Run executes one case.
func Run(c Case, run int) (evs []map[string]any) {
	rec := &recorder{run: run}
	defer func() {
		if r := recover(); r != nil {
			rec.add("crash", "what", fmt.Sprint(r), "frame", world.TopLibFrame())
		}
		evs = rec.evs
	}()
	t0 := time.Now()
	rng := mrand.New(mrand.NewSource(c.Seed))
	src := make([]byte, c.Size)
	_, _ = rng.Read(src)
	sum := sha512.Sum384(src)
	o := &obs{rec: rec, c: c, src: src, srcSum: sum[:]}
	root, err := os.MkdirTemp(world.ScratchRoot(), fmt.Sprintf("fsimx-%d-", c.ID))
	if err != nil {
		rec.add("harness_err", "what", err.Error())
		return
	}
	defer os.RemoveAll(root)
	devDir, ownDir, tmpDir := filepath.Join(root, "dev"), filepath.Join(root, "own"), filepath.Join(root, "tmp")
	for _, d := range []string{devDir, ownDir, tmpDir} {
		_ = os.Mkdir(d, 0o755)
	}
	mkTemp := func(pat string) func() (*os.File, error) {
		return func() (*os.File, error) { return os.CreateTemp(tmpDir, pat) }
	}
	toDev := func(name string) string { return filepath.Join(devDir, filepath.Base(name)) }

	rec.add("start", "id", c.ID, "mod", c.Module, "len", c.Size, "cor", c.Cor, "floor", c.Floor, "class", c.Class,
		"expect", c.Expect, "dev_mtu", int(c.DevMTU), "own_mtu", int(c.OwnMTU), "chunk", c.Chunk)

	var ownerMod serviceinfo.OwnerModule
	var devMod serviceinfo.DeviceModule
	var modName, destDir, destName string
	var errLog bytes.Buffer
	switch c.Module {
	case "download":
		modName, destDir, destName = "fdo.download", devDir, "dl.bin"
		ownerMod = &ownWrap{o: o, inner: &fsim.DownloadContents[*bytes.Reader]{
			Name: destName, Contents: bytes.NewReader(src), MustDownload: c.Must, ChunkSize: c.Chunk}}
		devMod = &devWrap{o: o, mutates: true, inner: &fsim.Download{
			CreateTemp: mkTemp("fdo.download_*"), NameToPath: toDev, ErrorLog: &errLog}}
	case "upload":
		modName, destDir, destName = "fdo.upload", ownDir, "up.bin"
		if err := os.WriteFile(filepath.Join(devDir, destName), src, 0o644); err != nil {
			rec.add("harness_err", "what", err.Error())
			return
		}
		ownerMod = &ownWrap{o: o, mutates: true, inner: &fsim.UploadRequest{
			Dir: ownDir, Name: destName, CreateTemp: mkTemp("fdo.upload_*")}}
		devMod = &devWrap{o: o, inner: &fsim.Upload{FS: os.DirFS(devDir)}}
	case "wget":
		modName, destDir, destName = "fdo.wget", devDir, "wg.bin"
		served := append([]byte(nil), src...)
		if c.Cor == "data" || c.Cor == "len-" || c.Cor == "len+" {
			o.applied = true
		}
		switch c.Cor {
		case "data":
			served[int(c.Seed%int64(len(served)))] ^= 0x04
		case "len-":
			served = served[:max(0, len(served)-c.Delta)]
		case "len+":
			extra := make([]byte, c.Delta)
			_, _ = rng.Read(extra)
			served = append(served, extra...)
		}
		srv := httptest.NewServer(http.HandlerFunc(func(w http.ResponseWriter, _ *http.Request) {
			w.Header().Set("Content-Length", fmt.Sprint(len(served)))
			_, _ = w.Write(served)
		}))
		defer srv.Close()
		u, _ := url.Parse(srv.URL + "/f")
		// what the device will fetch: the "data" of this transfer
		o.rec.add("announce_len", "len", int64(len(src)))
		same := bytes.Equal(served, src)
		o.rec.add("data", "n", len(served), "same", same || (len(served) <= len(src) && bytes.Equal(served, src[:len(served)])), "whole", true)
		ownerMod = &ownWrap{o: o, inner: &fsim.WgetCommand{Name: destName, URL: u, Length: int64(len(src)), Checksum: sum[:]}}
		devMod = &devWrap{o: o, mutates: true, inner: &fsim.Wget{
			CreateTemp: mkTemp("fdo.wget_*"), NameToPath: toDev, Timeout: 5 * time.Second}}
	default:
		rec.add("harness_err", "what", "unknown module "+c.Module)
		return
	}

	w := world.New(world.Options{
		MaxDeviceServiceInfoSize: c.OwnMTU,
		OwnerModules: func(context.Context, string, serviceinfo.Devmod, []string) []world.NamedOwnerModule {
			return []world.NamedOwnerModule{{Name: modName, Mod: ownerMod}}
		},
	})
	defer w.Close()
	w.OwnerHandler.MaxContentLength = 1 << 20
	ctx := context.Background()
	dev, err := w.Onboard0(ctx, "")
	if err != nil {
		rec.add("harness_err", "what", "onboard: "+err.Error())
		return
	}
	to := time.Duration(c.Timeout) * time.Millisecond
	if to <= 0 {
		to = 20 * time.Second
	}
	tctx, cancel := context.WithTimeout(ctx, to)
	defer cancel()
	tr, _ := world.Transport(w.OwnerHandler, nil)
	tr.MaxContentLength = 1 << 20
	_, err = w.RunTO2On(tctx, tr, dev, nil, world.TO2Opts{
		Modules: map[string]serviceinfo.DeviceModule{modName: devMod}, MTU: c.DevMTU})
	stalled := tctx.Err() != nil
	cancel()
	// the wget download goroutine may still be finishing its rename
	if c.Module == "wget" {
		time.Sleep(20 * time.Millisecond)
	}

	dest := "absent"
	names := listDir(destDir)
	if c.Module == "upload" {
		// the source lives in devDir; the destination directory is the owner's
		names = listDir(ownDir)
	}
	for _, n := range names {
		b, rerr := os.ReadFile(filepath.Join(destDir, n))
		switch {
		case rerr != nil:
			dest = "other"
		case n == destName && bytes.Equal(b, src):
			if dest == "absent" {
				dest = "same"
			}
		default:
			dest = "other" // wrong name, wrong bytes or partial content
		}
	}
	msg := ""
	if err != nil {
		msg = err.Error()
		if len(msg) > 300 {
			msg = msg[len(msg)-300:]
		}
	}
	o.mu.Lock()
	reported, dones, errs := o.reported, append([]int64{}, o.dones...), append([]string{}, o.errs...)
	applied := o.applied || c.Cor == "none"
	o.mu.Unlock()
	for i := range errs {
		if len(errs[i]) > 200 {
			errs[i] = errs[i][:200]
		}
	}
	rec.add("end", "dest", dest, "names", names, "reported", reported, "to2_err", err != nil, "stalled", stalled,
		"dones", dones, "errs", errs, "msg", msg, "tmp_left", len(listDir(tmpDir)), "errlog", errLog.Len() > 0, "cor_applied", applied, "ms", time.Since(t0).Milliseconds())
	return
}

// RunCases executes the cases in parallel worlds and writes all events to out, run by run.
func RunCases(cases []Case, out string, workers int) error {
	res := make([][]map[string]any, len(cases))
	ch := make(chan int)
	var wg sync.WaitGroup
	for i := 0; i < workers; i++ {
		wg.Add(1)
		go func() {
			defer wg.Done()
			for k := range ch {
				res[k] = Run(cases[k], k+1)
			}
		}()
	}
	for k := range cases {
		ch <- k
	}
	close(ch)
	wg.Wait()
	f, err := os.Create(out)
	if err != nil {
		return err
	}
	defer f.Close()
	bw := bufio.NewWriter(f)
	defer bw.Flush()
	enc := json.NewEncoder(bw)
	for _, evs := range res {
		for _, ev := range evs {
			if err := enc.Encode(ev); err != nil {
				return err
			}
		}
	}
	return nil
}
