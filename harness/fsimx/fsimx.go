// Package fsimx runs the real fsim modules (fdo.download, fdo.upload, fdo.wget) inside a real
// fdo.TO2 / fdo.TO2Server pair. One case is one TO2 SESSION: a sequence of transfers (one owner module
// each) through ONE instance of the device module, as TO2 does it. Each transfer may have one announced
// value or one data chunk corrupted at the plaintext layer (inside the tunnel, by a wrapper between the
// library and the receiving module); a wget transfer fetches from a local HTTP server whose way of
// framing the response is part of the case (Content-Length, chunked, flushed in pieces, HTTP/1.0
// close-delimited, a Content-Length that is not the length of the body, a redirect). The run records
// what each receiver was told, what it was given, what was at the destination and in the temp directory
// after each transfer and what was reported, as NDJSON events for Fsim_Trace.tla (property C17).
package fsimx

import (
	"bufio"
	"bytes"
	"context"
	"crypto/sha512"
	"encoding/json"
	"errors"
	"fmt"
	"io"
	mrand "math/rand"
	"net"
	"net/http"
	"net/http/httptest"
	"net/url"
	"os"
	"path/filepath"
	"sort"
	"strconv"
	"strings"
	"sync"
	"time"

	"github.com/fido-device-onboard/go-fdo/cbor"
	"github.com/fido-device-onboard/go-fdo/fsim"
	"github.com/fido-device-onboard/go-fdo/serviceinfo"

	"verifharness/world"
)

// Xfer is one transfer of a session.
type Xfer struct {
	Seed  int64 `json:"seed"`
	Size  int   `json:"size"`
	Chunk int   `json:"chunk"` // DownloadContents.ChunkSize (download only)
	// Corruption inside the tunnel (for wget data/len: in the HTTP body the device fetches).
	Cor    string `json:"cor"`     // none | data | digest | len+ | len-
	CorIdx int    `json:"cor_idx"` // which data message (0-based)
	Delta  int    `json:"delta"`   // how much the length is changed
	// wget: how the HTTP server frames the response: cl | nocl | flushed | close | clsrc | redirect
	Srv    string `json:"srv"`
	Piece  int    `json:"piece"`  // flushed: bytes per flushed piece
	// the announced length may never be reached (the transfer never finalizes): the session is ended
	// Case.StallMs after this transfer began
	MayStall bool `json:"may_stall"`
	Expect string `json:"expect"` // TLC verdict for the scenario: placed | failed (passed through)
	Class  string `json:"class"`  // scenario class label (passed through)
}

// Case is one TO2 session.
type Case struct {
	ID      int    `json:"id"`
	Module  string `json:"module"`  // download | upload | wget
	DevMTU  uint16 `json:"dev_mtu"` // device receive MTU (owner -> device)
	OwnMTU  uint16 `json:"own_mtu"` // owner announced MTU (device -> owner), 0 = default
	Must    bool   `json:"must"`    // DownloadContents.MustDownload of every owner module of the session
	Floor   bool   `json:"floor"`   // MTU below what the module's fixed announcements need: only safety is judged
	Timeout int    `json:"timeout_ms"` // bound of the whole TO2 (generous: reaching it is a hang)
	StallMs int    `json:"stall_ms"`   // bound of a transfer that may stall, from its beginning
	Xfers   []Xfer `json:"xfers"`
}

type recorder struct {
	mu  sync.Mutex
	run int
	evs []map[string]any
}

func (r *recorder) add(ev string, kv ...any) {
	m := map[string]any{"ev": ev, "run": r.run}
	for i := 0; i+1 < len(kv); i += 2 {
		m[kv[i].(string)] = kv[i+1]
	}
	r.mu.Lock()
	m["seq"] = len(r.evs) + 1
	r.evs = append(r.evs, m)
	r.mu.Unlock()
}

// obs is the state shared by the wrappers of one transfer.
type obs struct {
	rec      *recorder
	i        int // 1-based number of the transfer in its session
	x        Xfer
	name     string
	src      []byte
	srcSum   []byte
	mu       sync.Mutex
	rcvOff   int  // payload bytes handed to the receiving module
	dataMsgs int  // data messages seen
	reported bool // the receiver (or the protocol partner on its behalf) reported failure
	applied  bool // the corruption of the transfer was applied
	dones    []int64
	errs     []string
}

func (o *obs) setApplied() {
	o.mu.Lock()
	o.applied = true
	o.mu.Unlock()
}

func (o *obs) report(what string) {
	o.mu.Lock()
	o.reported = true
	o.errs = append(o.errs, what)
	o.mu.Unlock()
}

// session tracks which transfer is current: owner module i is first called only after owner module
// i-1 completed (one module per TO2.OwnerServiceInfo), and everything it produced reaches the device
// before the next owner module is asked.
type session struct {
	rec     *recorder
	c       Case
	xs      []*obs
	mu      sync.Mutex
	cur     int // 1-based, 0 = none started
	destDir string
	tmpDir  string
	cancel  context.CancelFunc
}

func (s *session) current() *obs {
	s.mu.Lock()
	defer s.mu.Unlock()
	if s.cur == 0 {
		return nil
	}
	return s.xs[s.cur-1]
}

// begin is called by owner module i whenever the library calls it.
func (s *session) begin(i int, announce func()) {
	s.mu.Lock()
	if i <= s.cur {
		s.mu.Unlock()
		return
	}
	prev := s.cur
	s.cur = i
	s.mu.Unlock()
	if prev > 0 {
		s.xend(prev, false, false, false)
	}
	o := s.xs[i-1]
	s.rec.add("xfer", "i", i, "len", o.x.Size, "cor", o.x.Cor, "srv", o.x.Srv, "chunk", o.x.Chunk, "class", o.x.Class, "expect", o.x.Expect)
	if announce != nil {
		announce()
	}
	if o.x.MayStall && s.cancel != nil {
		ms := s.c.StallMs
		if ms <= 0 {
			ms = 4000
		}
		time.AfterFunc(time.Duration(ms)*time.Millisecond, s.cancel)
	}
}

func listDir(dir string) []string {
	es, _ := os.ReadDir(dir)
	out := []string{}
	for _, e := range es {
		out = append(out, e.Name())
	}
	sort.Strings(out)
	return out
}

// fileState: absent | same | other, for the file of transfer o at the destination.
func (s *session) fileState(o *obs) string {
	b, err := os.ReadFile(filepath.Join(s.destDir, o.name))
	switch {
	case errors.Is(err, os.ErrNotExist):
		return "absent"
	case err != nil:
		return "other"
	case bytes.Equal(b, o.src):
		return "same"
	}
	return "other" // wrong bytes or partial content
}

// xend records what transfer i left behind, seen when the next transfer begins or when the session is over.
func (s *session) xend(i int, last, to2err, stalled bool) {
	o := s.xs[i-1]
	o.mu.Lock()
	reported, dones, errs := o.reported, append([]int64{}, o.dones...), append([]string{}, o.errs...)
	applied := o.applied || o.x.Cor == "none"
	o.mu.Unlock()
	for k := range errs {
		if len(errs[k]) > 200 {
			errs[k] = errs[k][:200]
		}
	}
	s.rec.add("xend", "i", i, "dest", s.fileState(o), "reported", reported, "to2_err", to2err, "stalled", stalled, "last", last,
		"tmp_left", len(listDir(s.tmpDir)), "dones", dones, "errs", errs, "cor_applied", applied)
}

// bstrPayload returns the payload of a sequence of complete CBOR byte strings, or ok=false.
func bstrPayload(b []byte) (payload []byte, ok bool) {
	dec := cbor.NewDecoder(bytes.NewReader(b))
	for {
		var chunk []byte
		err := dec.Decode(&chunk)
		if errors.Is(err, io.EOF) {
			return payload, true
		}
		if err != nil {
			return payload, false
		}
		payload = append(payload, chunk...)
	}
}

// mutate applies the transfer's corruption to a message on its way to the receiving module and logs what
// the receiver is told / given.
func (o *obs) mutate(name string, b []byte) []byte {
	x := o.x
	switch name {
	case "length":
		var n int64
		if err := cbor.Unmarshal(b, &n); err != nil {
			return b
		}
		switch x.Cor {
		case "len+":
			n += int64(x.Delta)
			o.setApplied()
		case "len-":
			n -= int64(x.Delta)
			if n < 0 {
				n = 0
			}
			o.setApplied()
		}
		out, _ := cbor.Marshal(n)
		o.rec.add("announce_len", "i", o.i, "len", n)
		return out
	case "sha-384":
		out := append([]byte(nil), b...)
		if x.Cor == "digest" && len(out) > 2 {
			out[len(out)-1-int(x.Seed%40)] ^= 0x20
			o.setApplied()
		}
		var sum []byte
		_ = cbor.Unmarshal(out, &sum)
		o.rec.add("announce_dig", "i", o.i, "digok", bytes.Equal(sum, o.srcSum))
		return out
	case "data":
		out := append([]byte(nil), b...)
		o.mu.Lock()
		idx := o.dataMsgs
		o.dataMsgs++
		off := o.rcvOff
		o.mu.Unlock()
		if x.Cor == "data" && idx == x.CorIdx && len(out) >= 2 {
			// a payload byte (the CBOR header of the byte string is at most 3 bytes)
			out[len(out)-1-int(x.Seed%int64(max(1, len(out)-3)))] ^= 0x01
			o.setApplied()
		}
		payload, whole := bstrPayload(out)
		same := whole && off+len(payload) <= len(o.src) && bytes.Equal(payload, o.src[off:off+len(payload)])
		o.mu.Lock()
		o.rcvOff += len(payload)
		o.mu.Unlock()
		o.rec.add("data", "i", o.i, "n", len(payload), "same", same, "whole", whole)
		return out
	}
	return b
}

// devWrap sits between the library and THE device module of the session (receiver of download and wget).
type devWrap struct {
	inner   serviceinfo.DeviceModule
	s       *session
	mutates bool
}

func (w *devWrap) Transition(active bool) error { return w.inner.Transition(active) }

func (w *devWrap) Receive(ctx context.Context, name string, body io.Reader, respond func(string) io.Writer, yield func()) error {
	b, err := io.ReadAll(body)
	if err != nil {
		return err
	}
	o := w.s.current()
	if w.mutates && o != nil {
		b = o.mutate(name, b)
	}
	err = w.inner.Receive(ctx, name, bytes.NewReader(b), respond, yield)
	if err != nil && o != nil {
		o.report("device module error: " + err.Error())
	}
	return err
}

func (w *devWrap) Yield(ctx context.Context, respond func(string) io.Writer, yield func()) error {
	return w.inner.Yield(ctx, respond, yield)
}

// ownWrap sits between the library and the owner module of one transfer (receiver of upload; observer of
// done/error).
type ownWrap struct {
	inner    serviceinfo.OwnerModule
	s        *session
	o        *obs
	mutates  bool
	announce func() // what is known when the transfer begins (wget: what the HTTP server will serve)
}

func (w *ownWrap) HandleInfo(ctx context.Context, name string, body io.Reader) error {
	w.s.begin(w.o.i, w.announce)
	b, err := io.ReadAll(body)
	if err != nil {
		return err
	}
	switch name {
	case "done":
		var n int64
		if cbor.Unmarshal(b, &n) == nil {
			w.o.mu.Lock()
			w.o.dones = append(w.o.dones, n)
			w.o.mu.Unlock()
			if n == -1 {
				w.o.report("device answered done=-1")
			}
		}
	case "error":
		var s string
		_ = cbor.Unmarshal(b, &s)
		w.o.report("device answered error: " + s)
	}
	if w.mutates {
		b = w.o.mutate(name, b)
	}
	err = w.inner.HandleInfo(ctx, name, bytes.NewReader(b))
	if err != nil {
		w.o.report("owner module error: " + err.Error())
	}
	return err
}

func (w *ownWrap) ProduceInfo(ctx context.Context, p *serviceinfo.Producer) (bool, bool, error) {
	w.s.begin(w.o.i, w.announce)
	block, done, err := w.inner.ProduceInfo(ctx, p)
	if err != nil {
		w.o.report("owner module error: " + err.Error())
	}
	return block, done, err
}

// served is what the HTTP server sends for one wget transfer.
type served struct {
	x    Xfer
	src  []byte
	body []byte
}

func (sv *served) header() int {
	switch sv.x.Srv {
	case "cl", "redirect", "":
		return len(sv.body)
	case "clsrc":
		return len(sv.src)
	}
	return -1
}

// pieces: how the body is written, never straddling the end of the source.
func (sv *served) pieces() [][]byte {
	var cuts []int
	if sv.x.Srv == "flushed" && sv.x.Piece > 0 {
		for p := sv.x.Piece; p < len(sv.body); p += sv.x.Piece {
			cuts = append(cuts, p)
		}
	}
	if len(sv.src) < len(sv.body) {
		cuts = append(cuts, len(sv.src))
	}
	sort.Ints(cuts)
	var out [][]byte
	prev := 0
	for _, c := range append(cuts, len(sv.body)) {
		if c > prev {
			out = append(out, sv.body[prev:c])
			prev = c
		}
	}
	return out
}

// writeHTTP serves with net/http: cl, nocl (chunked), flushed (chunked, piece by piece).
func (sv *served) writeHTTP(w http.ResponseWriter) {
	w.Header().Set("Content-Type", "application/octet-stream")
	switch sv.x.Srv {
	case "nocl":
		w.(http.Flusher).Flush() // the header leaves without a Content-Length: chunked transfer encoding
		_, _ = w.Write(sv.body)
	case "flushed":
		w.(http.Flusher).Flush()
		for _, p := range sv.pieces() {
			_, _ = w.Write(p)
			w.(http.Flusher).Flush()
		}
	default:
		w.Header().Set("Content-Length", strconv.Itoa(len(sv.body)))
		_, _ = w.Write(sv.body)
	}
}

// rawServer answers GET /f<i> with a hand-written response: "close" = HTTP/1.0 without Content-Length, the
// body ends with the connection; "clsrc" = Content-Length of the source file, body as served.
func rawServer(files map[string]*served) (addr string, stop func(), err error) {
	ln, err := net.Listen("tcp", "127.0.0.1:0")
	if err != nil {
		return "", nil, err
	}
	var wg sync.WaitGroup
	go func() {
		for {
			conn, err := ln.Accept()
			if err != nil {
				return
			}
			wg.Add(1)
			go func() {
				defer wg.Done()
				defer conn.Close()
				_ = conn.SetDeadline(time.Now().Add(10 * time.Second))
				br := bufio.NewReader(conn)
				line, err := br.ReadString('\n')
				if err != nil {
					return
				}
				for {
					h, err := br.ReadString('\n')
					if err != nil || h == "\r\n" || h == "\n" {
						break
					}
				}
				parts := strings.Fields(line)
				if len(parts) < 2 {
					return
				}
				sv := files[parts[1]]
				if sv == nil {
					_, _ = io.WriteString(conn, "HTTP/1.0 404 Not Found\r\nContent-Length: 0\r\n\r\n")
					return
				}
				if sv.x.Srv == "clsrc" {
					_, _ = fmt.Fprintf(conn, "HTTP/1.1 200 OK\r\nContent-Type: application/octet-stream\r\nContent-Length: %d\r\nConnection: close\r\n\r\n", len(sv.src))
				} else {
					_, _ = io.WriteString(conn, "HTTP/1.0 200 OK\r\nContent-Type: application/octet-stream\r\n\r\n")
				}
				_, _ = conn.Write(sv.body)
			}()
		}
	}()
	return ln.Addr().String(), func() { _ = ln.Close(); wg.Wait() }, nil
}

// Run executes one session.
func Run(c Case, run int) (evs []map[string]any) {
	rec := &recorder{run: run}
	defer func() {
		if r := recover(); r != nil {
			rec.add("crash", "what", fmt.Sprint(r), "frame", world.TopLibFrame())
		}
		evs = rec.evs
	}()
	t0 := time.Now()
	root, err := os.MkdirTemp(world.ScratchRoot(), fmt.Sprintf("fsimx-%d-", c.ID))
	if err != nil {
		rec.add("harness_err", "what", err.Error())
		return
	}
	defer os.RemoveAll(root)
	devDir, ownDir, tmpDir := filepath.Join(root, "dev"), filepath.Join(root, "own"), filepath.Join(root, "tmp")
	for _, d := range []string{devDir, ownDir, tmpDir} {
		_ = os.Mkdir(d, 0o755)
	}
	mkTemp := func(pat string) func() (*os.File, error) {
		return func() (*os.File, error) { return os.CreateTemp(tmpDir, pat) }
	}
	toDev := func(name string) string { return filepath.Join(devDir, filepath.Base(name)) }

	rec.add("start", "id", c.ID, "mod", c.Module, "must", c.Must, "nx", len(c.Xfers), "floor", c.Floor,
		"dev_mtu", int(c.DevMTU), "own_mtu", int(c.OwnMTU))
	if len(c.Xfers) == 0 {
		rec.add("harness_err", "what", "session without transfers")
		return
	}

	s := &session{rec: rec, c: c, tmpDir: tmpDir}
	for i, x := range c.Xfers {
		rng := mrand.New(mrand.NewSource(x.Seed))
		src := make([]byte, x.Size)
		_, _ = rng.Read(src)
		sum := sha512.Sum384(src)
		s.xs = append(s.xs, &obs{rec: rec, i: i + 1, x: x, name: fmt.Sprintf("f%d.bin", i+1), src: src, srcSum: sum[:]})
	}

	var owners []world.NamedOwnerModule
	var devMod serviceinfo.DeviceModule
	var modName string
	var errLog bytes.Buffer
	switch c.Module {
	case "download":
		modName, s.destDir = "fdo.download", devDir
		for _, o := range s.xs {
			owners = append(owners, world.NamedOwnerModule{Name: modName, Mod: &ownWrap{s: s, o: o, inner: &fsim.DownloadContents[*bytes.Reader]{
				Name: o.name, Contents: bytes.NewReader(o.src), MustDownload: c.Must, ChunkSize: o.x.Chunk}}})
		}
		devMod = &devWrap{s: s, mutates: true, inner: &fsim.Download{
			CreateTemp: mkTemp("fdo.download_*"), NameToPath: toDev, ErrorLog: &errLog}}
	case "upload":
		modName, s.destDir = "fdo.upload", ownDir
		for _, o := range s.xs {
			if err := os.WriteFile(filepath.Join(devDir, o.name), o.src, 0o644); err != nil {
				rec.add("harness_err", "what", err.Error())
				return
			}
			owners = append(owners, world.NamedOwnerModule{Name: modName, Mod: &ownWrap{s: s, o: o, mutates: true, inner: &fsim.UploadRequest{
				Dir: ownDir, Name: o.name, CreateTemp: mkTemp("fdo.upload_*")}}})
		}
		devMod = &devWrap{s: s, inner: &fsim.Upload{FS: os.DirFS(devDir)}}
	case "wget":
		modName, s.destDir = "fdo.wget", devDir
		files := map[string]*served{}
		for _, o := range s.xs {
			x := o.x
			body := append([]byte(nil), o.src...)
			rng := mrand.New(mrand.NewSource(x.Seed ^ 0x5eed))
			switch x.Cor {
			case "data":
				body[int(x.Seed%int64(len(body)))] ^= 0x04
			case "len-":
				body = body[:max(0, len(body)-x.Delta)]
			case "len+":
				extra := make([]byte, x.Delta)
				_, _ = rng.Read(extra)
				body = append(body, extra...)
			}
			if x.Cor == "data" || x.Cor == "len-" || x.Cor == "len+" {
				o.applied = true
			}
			files[fmt.Sprintf("/f%d", o.i)] = &served{x: x, src: o.src, body: body}
		}
		srv := httptest.NewServer(http.HandlerFunc(func(w http.ResponseWriter, r *http.Request) {
			p := r.URL.Path
			if sv := files[p]; sv != nil && sv.x.Srv == "redirect" {
				http.Redirect(w, r, "/r"+p[2:], http.StatusFound)
				return
			}
			if strings.HasPrefix(p, "/r") {
				p = "/f" + p[2:]
			}
			sv := files[p]
			if sv == nil {
				http.NotFound(w, r)
				return
			}
			sv.writeHTTP(w)
		}))
		defer srv.Close()
		rawAddr, stopRaw, err := rawServer(files)
		if err != nil {
			rec.add("harness_err", "what", err.Error())
			return
		}
		defer stopRaw()
		for _, o := range s.xs {
			o := o
			sv := files[fmt.Sprintf("/f%d", o.i)]
			base := srv.URL
			if o.x.Srv == "close" || o.x.Srv == "clsrc" {
				base = "http://" + rawAddr
			}
			u, _ := url.Parse(fmt.Sprintf("%s/f%d", base, o.i))
			// what the device will be offered: the length the owner expects, the response header and the body
			announce := func() {
				rec.add("announce_len", "i", o.i, "len", int64(len(o.src)))
				rec.add("http_len", "i", o.i, "len", sv.header())
				off := 0
				for _, p := range sv.pieces() {
					same := off+len(p) <= len(o.src) && bytes.Equal(p, o.src[off:off+len(p)])
					rec.add("data", "i", o.i, "n", len(p), "same", same, "whole", true)
					off += len(p)
				}
			}
			owners = append(owners, world.NamedOwnerModule{Name: modName, Mod: &ownWrap{s: s, o: o, announce: announce, inner: &fsim.WgetCommand{
				Name: o.name, URL: u, Length: int64(len(o.src)), Checksum: o.srcSum}}})
		}
		devMod = &devWrap{s: s, mutates: true, inner: &fsim.Wget{
			CreateTemp: mkTemp("fdo.wget_*"), NameToPath: toDev, Timeout: 15 * time.Second}}
	default:
		rec.add("harness_err", "what", "unknown module "+c.Module)
		return
	}

	w := world.New(world.Options{
		MaxDeviceServiceInfoSize: c.OwnMTU,
		OwnerModules: func(context.Context, string, serviceinfo.Devmod, []string) []world.NamedOwnerModule {
			return owners
		},
	})
	defer w.Close()
	w.OwnerHandler.MaxContentLength = 1 << 20
	ctx := context.Background()
	dev, err := w.Onboard0(ctx, "")
	if err != nil {
		rec.add("harness_err", "what", "onboard: "+err.Error())
		return
	}
	to := time.Duration(c.Timeout) * time.Millisecond
	if to <= 0 {
		to = 45 * time.Second
	}
	tctx, cancel := context.WithTimeout(ctx, to)
	defer cancel()
	s.cancel = cancel
	tr, _ := world.Transport(w.OwnerHandler, nil)
	tr.MaxContentLength = 1 << 20
	_, err = w.RunTO2On(tctx, tr, dev, nil, world.TO2Opts{
		Modules: map[string]serviceinfo.DeviceModule{modName: devMod}, MTU: c.DevMTU})
	stalled := tctx.Err() != nil
	cancel()
	// the wget download goroutine may still be finishing its rename
	if c.Module == "wget" {
		time.Sleep(20 * time.Millisecond)
	}

	s.mu.Lock()
	started := s.cur
	s.mu.Unlock()
	if started > 0 {
		// the result of TO2 is the result of the transfer that was running when it ended
		s.xend(started, true, err != nil, stalled)
	}
	// the destination at the end of the session: every file of the session that is there, intact or not,
	// and anything else
	names := listDir(s.destDir)
	intact, damaged, stray := []int{}, []int{}, []string{}
	for _, n := range names {
		var o *obs
		for _, c := range s.xs {
			if c.name == n {
				o = c
			}
		}
		switch {
		case o == nil:
			stray = append(stray, n)
		case s.fileState(o) == "same":
			intact = append(intact, o.i)
		default:
			damaged = append(damaged, o.i)
		}
	}
	msg := ""
	if err != nil {
		msg = err.Error()
		if len(msg) > 300 {
			msg = msg[len(msg)-300:]
		}
	}
	rec.add("end", "started", started, "names", names, "intact", intact, "damaged", damaged, "stray", stray,
		"to2_err", err != nil, "stalled", stalled, "msg", msg, "tmp_left", len(listDir(tmpDir)), "errlog", errLog.Len() > 0,
		"ms", time.Since(t0).Milliseconds())
	return
}

// RunCases executes the cases in parallel worlds and writes all events to out, run by run.
func RunCases(cases []Case, out string, workers int) error {
	res := make([][]map[string]any, len(cases))
	ch := make(chan int)
	var wg sync.WaitGroup
	for i := 0; i < workers; i++ {
		wg.Add(1)
		go func() {
			defer wg.Done()
			for k := range ch {
				res[k] = Run(cases[k], k+1)
			}
		}()
	}
	for k := range cases {
		ch <- k
	}
	close(ch)
	wg.Wait()
	f, err := os.Create(out)
	if err != nil {
		return err
	}
	defer f.Close()
	bw := bufio.NewWriter(f)
	defer bw.Flush()
	enc := json.NewEncoder(bw)
	for _, evs := range res {
		for _, ev := range evs {
			if err := enc.Encode(ev); err != nil {
				return err
			}
		}
	}
	return nil
}
