// Package devexec replays the cases of spec/TO2Device.tla (C01, and the device half of C07)
// against the real device role fdo.TO2: the owner is the real TO2Server serving a voucher the
// harness may have forged at the voucher level (vcheck ops, isolating repairs with harness-owned
// secrets), and a man in the middle applies the wire-level fault atoms to 61/63 responses and to
// the rendezvous blob. Observed: TO2 result (error / credential), whether a type-64 request was
// ever emitted, whether a device module was invoked.
package devexec

import (
	"context"
	"crypto"
	"fmt"
	"io"
	"strings"
	"sync"
	"sync/atomic"
	"time"

	fdo "github.com/fido-device-onboard/go-fdo"
	"github.com/fido-device-onboard/go-fdo/cbor"
	"github.com/fido-device-onboard/go-fdo/cose"
	"github.com/fido-device-onboard/go-fdo/protocol"
	"github.com/fido-device-onboard/go-fdo/serviceinfo"

	"verifharness/cb"
	"verifharness/srvexec"
	"verifharness/vcheck"
	"verifharness/vforge"
	"verifharness/world"
)

// Case is one terminal state of TO2Device.tla plus its concretisation choices.
type Case struct {
	N       int         `json:"n"`
	To1d    bool        `json:"to1d"`
	Atoms   []string    `json:"atoms"`
	Result  string      `json:"result"`
	Sent64  bool        `json:"sent64"`
	Modules bool        `json:"modules"`
	Either  bool        `json:"either"`
	AllCond bool        `json:"allcond"`
	VOps    []vcheck.Op `json:"vops,omitempty"` // concrete voucher-level steps for a v_* atom
	Cfg     string      `json:"cfg"`            // kind/encoding
}

// Outcome is what the real device did.
type Outcome struct {
	Idx      int    `json:"idx"`
	Cfg      string `json:"cfg"`
	Err      string `json:"err,omitempty"`
	Cred     bool   `json:"cred"`
	Sent64   bool   `json:"sent64"`
	Modules  bool   `json:"modules"`
	N62      int    `json:"n62"`
	Panic    string `json:"panic,omitempty"`
	Skipped  string `json:"skipped,omitempty"`
	Mismatch string `json:"mismatch,omitempty"`
	Hang     bool   `json:"hang,omitempty"`
}

type ownerMod struct{}

func (ownerMod) HandleInfo(_ context.Context, _ string, body io.Reader) error {
	_, _ = io.Copy(io.Discard, body)
	return nil
}
func (ownerMod) ProduceInfo(_ context.Context, p *serviceinfo.Producer) (bool, bool, error) {
	_ = p.WriteChunk("active", []byte{0xf5})
	_ = p.WriteChunk("ping", []byte{0x01})
	return false, true, nil
}

type devMod struct{ called *int32 }

func (m devMod) Transition(bool) error { atomic.AddInt32(m.called, 1); return nil }
func (m devMod) Receive(_ context.Context, _ string, body io.Reader, _ func(string) io.Writer, _ func()) error {
	atomic.AddInt32(m.called, 1)
	_, _ = io.Copy(io.Discard, body)
	return nil
}
func (m devMod) Yield(context.Context, func(string) io.Writer, func()) error {
	atomic.AddInt32(m.called, 1)
	return nil
}

// Env is one key configuration with honest vouchers (wraps vcheck.Env; the world's owner key is
// switched to the owner the chain designates).
type Env struct {
	*vcheck.Env
	mu sync.Mutex
}

// NewEnv builds the environment.
func NewEnv(kind world.KeyKind, enc protocol.KeyEncoding) (*Env, error) {
	w := world.Options{Kind: kind, Enc: enc}
	_ = w
	ve, err := vcheck.NewEnvWith(world.Options{Kind: kind, Enc: enc, OwnerModules: func(context.Context, string, serviceinfo.Devmod, []string) []world.NamedOwnerModule {
		return []world.NamedOwnerModule{{Name: "m1", Mod: ownerMod{}}}
	}}, 3)
	if err != nil {
		return nil, err
	}
	return &Env{Env: ve}, nil
}

var ownerNames = []string{"mfg", "o1", "o2", "o3"}

func has(c Case, a string) bool {
	for _, x := range c.Atoms {
		if x == a {
			return true
		}
	}
	return false
}

func pss(p *world.Party) bool { return p.Kind.PSS() }

// Run executes one case. Cases share the world's database, so they run one at a time per Env
// (the voucher of the device is replaced in the owner store for each case).
func (e *Env) Run(idx int, c Case) (out Outcome) {
	e.mu.Lock()
	defer e.mu.Unlock()
	out = Outcome{Idx: idx, Cfg: e.Name}
	ctx, cancel := context.WithTimeout(context.Background(), 30*time.Second)
	defer cancel()
	w := e.W
	owner := e.Parties[ownerNames[c.N]]
	w.OwnerKeys.Set(owner)
	w.Owner = owner
	guid := e.Dev.Cred.GUID
	// honest voucher into the owner store (needed for TO0), later replaced by the forged one
	_, _ = w.OwnerStore.DB.RemoveVoucher(ctx, guid)
	hv, err := e.Honest[c.N].Voucher()
	if err != nil {
		out.Skipped = "honest voucher: " + err.Error()
		return
	}
	if err := w.OwnerStore.DB.AddVoucher(ctx, hv); err != nil {
		out.Skipped = "store honest voucher: " + err.Error()
		return
	}
	var blob *cose.Sign1[protocol.To1d, []byte]
	if c.To1d {
		// byte fidelity (C07): the blob the device obtains is the one the owner registered
		var registered, received *cb.Node
		cap0 := &world.Hook{Request: func(x *world.Exchange) bool {
			if x.ReqType == 22 {
				if n, err := cb.DecodeAll(x.ReqBody); err == nil && len(n.Kids) == 2 {
					registered = n.Kids[1]
				}
			}
			return false
		}}
		cap1 := &world.Hook{Response: func(x *world.Exchange) bool {
			if x.RespType == 33 {
				received, _ = cb.DecodeAll(x.RespBody)
			}
			return false
		}}
		if _, err := w.RunTO0(ctx, guid, 3600, cap0); err != nil {
			out.Skipped = "TO0: " + err.Error()
			return
		}
		if blob, err = w.RunTO1(ctx, e.Dev, cap1); err != nil {
			out.Skipped = "TO1: " + err.Error()
			return
		}
		if registered == nil || received == nil || !cb.Equal(registered, received) {
			out.Mismatch = "rendezvous blob received by the device differs from the one the owner registered"
			return
		}
		if blob, err = e.forgeBlob(c, blob); err != nil {
			out.Skipped = "blob: " + err.Error()
			return
		}
	}
	// voucher-level forgery
	if len(c.VOps) > 0 {
		v := e.Honest[c.N].Clone()
		for k, op := range c.VOps {
			if err := e.Apply(v, op, k); err != nil {
				out.Skipped = "vop: " + err.Error()
				return
			}
		}
		fv, err := v.Voucher()
		if err != nil {
			out.Skipped = "forged voucher does not decode: " + err.Error()
			return
		}
		_, _ = w.OwnerStore.DB.RemoveVoucher(ctx, guid)
		// keyed by the GUID the device asks for, whatever the forged header says
		if err := e.addVoucherAs(ctx, guid, fv); err != nil {
			out.Skipped = "store forged voucher: " + err.Error()
			return
		}
	}
	var n62, n64 int32
	var called int32
	m := &mitm{e: e, c: c, owner: owner}
	hook := &world.Hook{
		Request: func(x *world.Exchange) bool {
			switch x.ReqType {
			case 62:
				atomic.AddInt32(&n62, 1)
			case 64:
				atomic.AddInt32(&n64, 1)
			}
			m.onRequest(x)
			return false
		},
		Response: func(x *world.Exchange) bool { m.onResponse(x); return false },
	}
	// an earlier session's 61 for the replay atom
	if has(c, "m61_replay_old") {
		m.old61 = e.capture61(ctx)
	}
	dev := *e.Dev
	cred := *e.Dev.Cred
	dev.Cred = &cred
	done := make(chan struct{})
	var newCred *fdo.DeviceCredential
	var terr error
	go func() {
		defer close(done)
		defer func() {
			if r := recover(); r != nil {
				out.Panic = fmt.Sprintf("%v @ %s", r, world.TopLibFrame())
			}
		}()
		newCred, terr = w.RunTO2(ctx, &dev, blob, world.TO2Opts{Modules: map[string]serviceinfo.DeviceModule{"m1": devMod{&called}}}, hook)
	}()
	select {
	case <-done:
	case <-time.After(40 * time.Second):
		out.Hang = true
	}
	if terr != nil {
		out.Err = terr.Error()
	}
	out.Cred = newCred != nil
	out.Sent64 = atomic.LoadInt32(&n64) > 0
	out.N62 = int(atomic.LoadInt32(&n62))
	out.Modules = atomic.LoadInt32(&called) > 0
	if m.err != nil {
		out.Skipped = "mitm: " + m.err.Error()
	}
	// clean up: the device keeps its credential; drop whatever voucher is stored for it
	_, _ = w.OwnerStore.DB.RemoveVoucher(ctx, guid)
	if newCred != nil {
		_, _ = w.OwnerStore.DB.RemoveVoucher(ctx, newCred.GUID)
	}
	out.Mismatch = judge(c, out)
	return out
}

// judge compares with the specification's terminal state (only what C01 fixes).
func judge(c Case, o Outcome) string {
	if o.Skipped != "" {
		return ""
	}
	if o.Panic != "" {
		return "panic"
	}
	if o.Hang {
		return "hang"
	}
	failed := o.Err != ""
	switch {
	case !c.AllCond:
		// must fail, without a credential, before ProveDevice, without running modules
		if !failed {
			return "completed although a condition is false"
		}
		if o.Cred {
			return "credential returned with an error"
		}
		if o.Sent64 {
			return "ProveDevice (64) sent although a condition is false"
		}
		if o.Modules {
			return "device module invoked although a condition is false"
		}
	case c.Either:
		if failed && o.Cred {
			return "credential returned with an error"
		}
	default:
		if failed {
			return "honest peer but TO2 failed: " + o.Err
		}
		if !o.Cred {
			return "no credential from a successful TO2"
		}
		if !o.Sent64 || !o.Modules {
			return "successful TO2 without ProveDevice or module activity"
		}
	}
	return ""
}

func (e *Env) addVoucherAs(ctx context.Context, guid protocol.GUID, fv *fdo.Voucher) error {
	data, err := cbor.Marshal(fv)
	if err != nil {
		return err
	}
	_, err = e.W.OwnerStore.DB.DB().ExecContext(ctx,
		`INSERT INTO vouchers (guid, device_info, cbor, created_at, updated_at) VALUES (?, ?, ?, ?, ?)`,
		guid[:], fv.Header.Val.DeviceInfo, data, time.Now().Unix(), time.Now().Unix())
	return err
}

func (e *Env) capture61(ctx context.Context) []byte {
	var body []byte
	hook := &world.Hook{Response: func(x *world.Exchange) bool {
		if x.RespType == 61 {
			body = append([]byte(nil), x.RespBody...)
			return true // drop: the session is abandoned
		}
		return false
	}}
	dev := *e.Dev
	cred := *e.Dev.Cred
	dev.Cred = &cred
	c2, cancel := context.WithTimeout(ctx, 5*time.Second)
	defer cancel()
	_, _ = e.W.RunTO2(c2, &dev, nil, world.TO2Opts{}, hook)
	return body
}

func (e *Env) forgeBlob(c Case, blob *cose.Sign1[protocol.To1d, []byte]) (*cose.Sign1[protocol.To1d, []byte], error) {
	var atom string
	for _, a := range c.Atoms {
		if strings.HasPrefix(a, "to1d_") {
			atom = a
		}
	}
	if atom == "" {
		return blob, nil
	}
	raw, err := cbor.Marshal(blob.Tag())
	if err != nil {
		return nil, err
	}
	owner := e.Parties[ownerNames[c.N]]
	switch atom {
	case "to1d_payload_flip":
		raw, err = srvexec.Resign(raw, nil, false, func(p *cb.Node) {
			h := p.At(1, 1)
			h.Bytes = append([]byte(nil), h.Bytes...)
			h.Bytes[0] ^= 1
		})
	case "to1d_sig_flip":
		n, derr := cb.DecodeAll(raw)
		if derr != nil {
			return nil, derr
		}
		sig := n.Untag().At(3)
		sig.Bytes = append([]byte(nil), sig.Bytes...)
		sig.Bytes[len(sig.Bytes)/3] ^= 0x40
		raw = n.Encode()
	case "to1d_resign_stranger":
		raw, err = srvexec.Resign(raw, e.Parties["stranger"].Key, pss(owner), nil)
	case "to1d_resign_mfg":
		if c.N == 0 {
			return nil, fmt.Errorf("manufacturer is the owner")
		}
		raw, err = srvexec.Resign(raw, e.Parties["mfg"].Key, pss(owner), nil)
	case "to1d_other_device":
		// a genuine blob of the same owner for another device: change the address, re-sign as owner
		raw, err = srvexec.Resign(raw, owner.Key, pss(owner), func(p *cb.Node) {
			if a := p.At(0, 0); a != nil && len(a.Kids) == 4 {
				a.Kids[2] = cb.Uint(9999)
			}
		})
	default:
		return nil, fmt.Errorf("unknown blob atom %s", atom)
	}
	if err != nil {
		return nil, err
	}
	var t cose.Sign1Tag[protocol.To1d, []byte]
	if err := cbor.Unmarshal(raw, &t); err != nil {
		return nil, fmt.Errorf("forged blob does not decode: %w", err)
	}
	return t.Untag(), nil
}

// mitm applies the wire-level atoms.
type mitm struct {
	e      *Env
	c      Case
	owner  *world.Party
	old61  []byte
	err    error
	served map[int][]byte // entry bodies seen, by index
	n63    int
}

func (m *mitm) onRequest(x *world.Exchange) {}

func (m *mitm) fail(err error) {
	if m.err == nil && err != nil {
		m.err = err
	}
}

func pubNode(p *world.Party, like *cb.Node) *cb.Node {
	enc := protocol.KeyEncoding(like.Kids[1].Val)
	if enc == protocol.CoseKeyEnc && p.Kind.IsRSA() {
		enc = protocol.X509KeyEnc
	}
	b, _ := cbor.Marshal(p.PublicKey(enc))
	n, _ := cb.DecodeAll(b)
	return n
}

// resign61 re-signs ProveOVHdr with key after editing the payload; adv != nil replaces the
// advertised owner key (unprotected header 257).
func (m *mitm) resign61(body []byte, key crypto.Signer, adv *world.Party, edit func(p *cb.Node)) []byte {
	out, err := srvexec.Resign(body, key, pss(m.owner), edit)
	if err != nil {
		m.fail(err)
		return body
	}
	if adv != nil {
		n, err := cb.DecodeAll(out)
		if err != nil {
			m.fail(err)
			return body
		}
		un := n.Untag().Kids[1]
		un.MapSet(257, pubNode(adv, un.MapGet(257)))
		out = n.Encode()
	}
	return out
}

func flipBytes(n *cb.Node, at int) {
	n.Bytes = append([]byte(nil), n.Bytes...)
	n.Bytes[at%len(n.Bytes)] ^= 0x02
}

func (m *mitm) onResponse(x *world.Exchange) {
	switch x.RespType {
	case 61:
		m.on61(x)
	case 63:
		m.on63(x)
	}
}

// 61 payload: [bstr OVH, numEntries, [alg,hmac], nonce, [sgType, info], xA, [alg, hellohash], maxMsg]
func (m *mitm) on61(x *world.Exchange) {
	stranger := m.e.Parties["stranger"]
	mfg := m.e.Parties["mfg"]
	ok := m.owner.Key
	for _, a := range m.c.Atoms {
		switch a {
		case "m61_type_wrong":
			x.RespType = 63
		case "m61_error":
			x.RespType = 255
			x.RespBody, _ = cbor.Marshal(protocol.ErrorMessage{Code: 500, PrevMsgType: 60, ErrString: "verif"})
		case "m61_truncated":
			x.RespBody = x.RespBody[:len(x.RespBody)/2]
		case "m61_sig_flip":
			n, err := cb.DecodeAll(x.RespBody)
			if err != nil {
				m.fail(err)
				return
			}
			flipBytes(n.Untag().Kids[3], 11)
			x.RespBody = n.Encode()
		case "m61_payload_flip":
			x.RespBody = m.resign61(x.RespBody, nil, nil, func(p *cb.Node) { p.Kids[7] = cb.Uint(p.Kids[7].Val - 1) })
		case "m61_resign_stranger_keepadv":
			x.RespBody = m.resign61(x.RespBody, stranger.Key, nil, nil)
		case "m61_resign_stranger_adv":
			x.RespBody = m.resign61(x.RespBody, stranger.Key, stranger, nil)
		case "m61_resign_mfg_adv":
			x.RespBody = m.resign61(x.RespBody, mfg.Key, mfg, nil)
		case "m61_resign_prev_adv":
			prev := m.e.Parties[ownerNames[m.c.N-1]]
			x.RespBody = m.resign61(x.RespBody, prev.Key, prev, nil)
		case "m61_nonce_alter":
			x.RespBody = m.resign61(x.RespBody, ok, nil, func(p *cb.Node) { flipBytes(p.Kids[3], 4) })
		case "m61_hellohash_alter":
			x.RespBody = m.resign61(x.RespBody, ok, nil, func(p *cb.Node) { flipBytes(p.Kids[6].Kids[1], 4) })
		case "m61_no_ownerkey":
			n, err := cb.DecodeAll(x.RespBody)
			if err != nil {
				m.fail(err)
				return
			}
			n.Untag().Kids[1].MapDel(257)
			x.RespBody = n.Encode()
		case "m61_replay_old":
			if m.old61 == nil {
				m.fail(fmt.Errorf("no old 61 captured"))
				return
			}
			x.RespBody = m.old61
		case "m61_nument_plus":
			x.RespBody = m.resign61(x.RespBody, ok, nil, func(p *cb.Node) { p.Kids[1] = cb.Uint(p.Kids[1].Val + 1) })
		case "m61_nument_minus":
			x.RespBody = m.resign61(x.RespBody, ok, nil, func(p *cb.Node) { p.Kids[1] = cb.Uint(p.Kids[1].Val - 1) })
		case "m61_hdr_alter":
			x.RespBody = m.resign61(x.RespBody, ok, nil, func(p *cb.Node) {
				h := p.Kids[0].MustInner()
				h.Kids[3] = cb.Tstr(string(h.Kids[3].Bytes) + "!")
				p.Kids[0].SetInner(h)
			})
		case "m61_hmac_alter":
			x.RespBody = m.resign61(x.RespBody, ok, nil, func(p *cb.Node) { flipBytes(p.Kids[2].Kids[1], 6) })
		case "m61_cuphnonce_alter":
			n, err := cb.DecodeAll(x.RespBody)
			if err != nil {
				m.fail(err)
				return
			}
			flipBytes(n.Untag().Kids[1].MapGet(256), 2)
			x.RespBody = n.Encode()
		case "m61_siginfob_alter":
			x.RespBody = m.resign61(x.RespBody, ok, nil, func(p *cb.Node) { p.Kids[4].Kids[1] = cb.Bstr([]byte{1, 2, 3}) })
		case "m61_maxmsg_alter":
			x.RespBody = m.resign61(x.RespBody, ok, nil, func(p *cb.Node) { p.Kids[7] = cb.Uint(1500) })
		case "m61_xa_alter":
			x.RespBody = m.resign61(x.RespBody, ok, nil, func(p *cb.Node) { flipBytes(p.Kids[5], 9) })
		}
	}
}

// 63 body: [num, #6.18(entry)]
func (m *mitm) on63(x *world.Exchange) {
	idx := m.n63
	m.n63++
	n, err := cb.DecodeAll(x.RespBody)
	if err != nil || len(n.Kids) != 2 {
		return
	}
	if m.served == nil {
		m.served = map[int][]byte{}
	}
	m.served[idx] = n.Kids[1].Encode()
	for _, a := range m.c.Atoms {
		switch a {
		case "m63_num_alter":
			if idx == 0 {
				n.Kids[0] = cb.Uint(n.Kids[0].Val + 1)
			}
		case "m63_sig_flip":
			if idx == m.c.N-1 {
				flipBytes(n.Kids[1].Untag().Kids[3], 5)
			}
		case "m63_payload_flip":
			if idx == 0 {
				flipBytes(n.Kids[1].Untag().Kids[2], 20)
			}
		case "m63_swap":
			// answer request 0 with entry 1 and request 1 with entry 0 (numbers as requested)
			if idx <= 1 {
				other := m.e.forgedOrHonestEntry(m.c, 1-idx)
				if other != nil {
					n.Kids[1] = other
				}
			}
		case "m63_same_twice":
			if idx == 1 {
				if first, err := cb.DecodeAll(m.served[0]); err == nil {
					n.Kids[1] = first
				}
			}
		case "m63_error":
			if idx == 0 {
				x.RespType = 255
				x.RespBody, _ = cbor.Marshal(protocol.ErrorMessage{Code: 500, PrevMsgType: 62, ErrString: "verif"})
				return
			}
		case "m63_unprot_alter":
			if idx == m.c.N-1 {
				n.Kids[1].Untag().Kids[1].MapSet(99, cb.Uint(1))
			}
		}
	}
	x.RespBody = n.Encode()
}

func (e *Env) forgedOrHonestEntry(c Case, i int) *cb.Node {
	v := e.Honest[c.N]
	if i >= v.NumEntries() {
		return nil
	}
	return v.Entry(i).Clone()
}

var _ = vforge.Signer{}
