// Package rvx replays the behaviours of spec/RvInfo.tla (instruction lists over value classes with
// the expected abstract result) against protocol.ParseDeviceRvInfo / ParseOwnerRvInfo.
//
// This file is the concretizer: it expands a value class of a rendezvous variable into concrete
// CBOR values (built with the harness' own codec, never with go-fdo/cbor) and states, for values
// that take effect, the projection the result field must show.
package rvx

import (
	"encoding/hex"
	"fmt"
	mrand "math/rand"
	"net"
	"strconv"
	"strings"

	"verifharness/cb"
)

// Inst is one concrete value of a class.
type Inst struct {
	Kind string // stable name of the instance family (part of finding keys)
	Val  []byte // the CBOR bytes placed in RvInstruction.Value
	Proj string // for classes that take effect: projection of the field this value must produce
}

// VarNames as in protocol/rv.go.
var VarNames = []string{"RVDevOnly", "RVOwnerOnly", "RVIPAddress", "RVDevPort", "RVOwnerPort", "RVDns", "RVSvCertHash",
	"RVClCertHash", "RVUserInput", "RVWifiSsid", "RVWifiPw", "RVMedium", "RVProtocol", "RVDelaysec", "RVBypass", "RVExtRV"}

// typeOf mirrors TypeOf of RvInfo.tla.
func typeOf(v int) string {
	switch v {
	case 0, 1, 8, 14:
		return "flag"
	case 2:
		return "bstr-ip"
	case 3, 4:
		return "uint16"
	case 5, 9, 10:
		return "tstr"
	case 6, 7:
		return "hash"
	case 11, 12:
		return "uint8"
	case 13:
		return "uint32"
	case 15:
		return "array"
	}
	return "unknown"
}

func enc(n *cb.Node) []byte { return n.Encode() }

func uintWide(ai uint8, v uint64) []byte { return (&cb.Node{Major: 0, AI: ai, Val: v}).Encode() }

func ipProj(b []byte) string { return hex.EncodeToString(net.IP(b).To16()) }

func randBytes(r *mrand.Rand, n int) []byte {
	b := make([]byte, n)
	for i := range b {
		b[i] = byte(r.Intn(256))
	}
	return b
}

func randLabel(r *mrand.Rand, n int) string {
	const al = "abcdefghijklmnopqrstuvwxyz0123456789"
	var sb strings.Builder
	for i := 0; i < n; i++ {
		sb.WriteByte(al[r.Intn(26)]) // letters only at the ends
	}
	return sb.String()
}

func hashInst(kind string, alg int64, val []byte) Inst {
	return Inst{Kind: kind, Val: enc(cb.Arr(cb.Int(alg), cb.Bstr(val))), Proj: fmt.Sprintf("%d:%x", alg, val)}
}

func extInst(kind string, mech string, args ...*cb.Node) Inst {
	kids := append([]*cb.Node{cb.Tstr(mech)}, args...)
	return Inst{Kind: kind, Val: enc(cb.Arr(kids...)), Proj: mech + "|" + hex.EncodeToString(enc(cb.Arr(args...)))}
}

// effective returns the instances of class valid / boundary for a variable (n: the table value of
// RVProtocol / RVMedium).
func effective(v int, cls string, n int, r *mrand.Rand) []Inst {
	valid := cls == "valid"
	switch typeOf(v) {
	case "bstr-ip":
		if valid {
			v4 := append([]byte{byte(1 + r.Intn(222))}, randBytes(r, 3)...)
			v6 := append([]byte{0x20, 0x01}, randBytes(r, 14)...)
			return []Inst{{"ipv4", enc(cb.Bstr(v4)), ipProj(v4)}, {"ipv6", enc(cb.Bstr(v6)), ipProj(v6)}}
		}
		var out []Inst
		for _, c := range []struct {
			k string
			b []byte
		}{
			{"ipv4-zero", []byte{0, 0, 0, 0}}, {"ipv4-ones", []byte{255, 255, 255, 255}}, {"ipv4-loopback", []byte{127, 0, 0, 1}},
			{"ipv6-zero", make([]byte, 16)}, {"ipv6-loopback", append(make([]byte, 15), 1)},
			{"ipv6-mapped-v4", append(append(make([]byte, 10), 0xff, 0xff), 192, 0, 2, 7)},
			{"ipv6-ones", []byte{255, 255, 255, 255, 255, 255, 255, 255, 255, 255, 255, 255, 255, 255, 255, 255}},
			{"ipv6-linklocal", append([]byte{0xfe, 0x80}, append(make([]byte, 13), 9)...)},
		} {
			out = append(out, Inst{c.k, enc(cb.Bstr(c.b)), ipProj(c.b)})
		}
		return out
	case "uint16":
		if valid {
			p := uint64(1024 + r.Intn(60000))
			q := uint64(2 + r.Intn(20)) // one-byte CBOR head
			return []Inst{{"port", enc(cb.Uint(p)), strconv.FormatUint(p, 10)}, {"port-small", enc(cb.Uint(q)), strconv.FormatUint(q, 10)},
				{"port-8bit", enc(cb.Uint(200)), "200"}}
		}
		return []Inst{{"port-1", enc(cb.Uint(1)), "1"}, {"port-23", enc(cb.Uint(23)), "23"}, {"port-24", enc(cb.Uint(24)), "24"},
			{"port-255", enc(cb.Uint(255)), "255"}, {"port-256", enc(cb.Uint(256)), "256"}, {"port-65535", enc(cb.Uint(65535)), "65535"}}
	case "tstr":
		if v == 5 { // DNS names: plain host names only (the projection splits host and port)
			if valid {
				a := "rv-" + randLabel(r, 6) + ".example.com"
				b := randLabel(r, 1+r.Intn(12)) + ".test"
				return []Inst{{"name", enc(cb.Tstr(a)), a}, {"name", enc(cb.Tstr(b)), b}}
			}
			l63 := strings.Repeat("a", 63)
			long := strings.Join([]string{l63, l63, l63, strings.Repeat("b", 61)}, ".") // 253 octets
			var out []Inst
			for _, c := range []struct{ k, s string }{{"one-char", "a"}, {"label-63", l63 + ".example"}, {"name-253", long},
				{"trailing-dot", "example.com."}, {"uppercase", "RV.EXAMPLE.COM"}, {"punycode", "xn--bcher-kva.example"},
				{"digits-hyphen", "0-9.example-1.org"}, {"localhost", "localhost"}, {"tstr-len-24", "abcdefghijklmnopqrst.org"}} {
				out = append(out, Inst{c.k, enc(cb.Tstr(c.s)), c.s})
			}
			return out
		}
		if valid {
			a := randLabel(r, 1+r.Intn(30))
			return []Inst{{"text", enc(cb.Tstr(a)), a}, {"text-space", enc(cb.Tstr("my net " + a)), "my net " + a}}
		}
		var out []Inst
		for _, c := range []struct{ k, s string }{{"empty-string", ""}, {"one-char", "x"}, {"len-23", strings.Repeat("s", 23)},
			{"len-24", strings.Repeat("s", 24)}, {"len-255", strings.Repeat("p", 255)}, {"len-256", strings.Repeat("p", 256)},
			{"utf8-multibyte", "café-网络-\U0001F600"}, {"control-chars", "a\tb\x00c"}} {
			out = append(out, Inst{c.k, enc(cb.Tstr(c.s)), c.s})
		}
		return out
	case "hash":
		if valid {
			return []Inst{hashInst("sha256", -16, randBytes(r, 32)), hashInst("sha384", -43, randBytes(r, 48)),
				hashInst("hmac-sha256", 5, randBytes(r, 32)), hashInst("hmac-sha384", 6, randBytes(r, 48))}
		}
		return []Inst{hashInst("sha256-zeros", -16, make([]byte, 32)), hashInst("sha384-ones", -43, []byte(strings.Repeat("\xff", 48))),
			hashInst("hmac-sha384-zeros", 6, make([]byte, 48))}
	case "uint8":
		return []Inst{{"n=" + strconv.Itoa(n), enc(cb.Uint(uint64(n))), strconv.Itoa(n)}}
	case "uint32":
		if valid {
			d := uint64(2 + r.Intn(86400))
			return []Inst{{"secs", enc(cb.Uint(d)), strconv.FormatUint(d, 10)}, {"secs-big", enc(cb.Uint(100000 + d)), strconv.FormatUint(100000+d, 10)}}
		}
		return []Inst{{"secs-0", enc(cb.Uint(0)), "0"}, {"secs-1", enc(cb.Uint(1)), "1"}, {"secs-65535", enc(cb.Uint(65535)), "65535"},
			{"secs-65536", enc(cb.Uint(65536)), "65536"}, {"secs-max-uint32", enc(cb.Uint(4294967295)), "4294967295"}}
	case "array":
		if valid {
			return []Inst{
				extInst("mech+args", "ext-"+randLabel(r, 5), cb.Tstr("arg"), cb.Uint(uint64(r.Intn(1000))), cb.Bstr(randBytes(r, 1+r.Intn(20)))),
				extInst("mech+1arg", "m"+randLabel(r, 3), cb.Arr(cb.Uint(1), cb.Map(cb.Uint(1), cb.Tstr("x")))),
			}
		}
		many := make([]*cb.Node, 30)
		for i := range many {
			many[i] = cb.Uint(uint64(i))
		}
		return []Inst{extInst("mech-only", "solo"), extInst("mech-empty-string", "", cb.Uint(1)), extInst("mech+30args", "many", many...),
			extInst("mech+null-arg", "n", cb.Null()), extInst("mech-len-24", strings.Repeat("m", 24), cb.Bool(true)),
			extInst("mech+nested", "deep", cb.Arr(cb.Arr(cb.Arr(cb.Bstr(nil)))), cb.Tag(42, cb.Tstr("t")))}
	}
	return nil
}

// ownHead returns typical encodings of the variable's own type, used to derive malformed values.
func ownValid(v int, r *mrand.Rand) []byte {
	switch typeOf(v) {
	case "uint8":
		return enc(cb.Uint(uint64(1 + r.Intn(6))))
	}
	is := effective(v, "valid", 1, r)
	return is[r.Intn(len(is))].Val
}

func major(v int) uint8 {
	switch typeOf(v) {
	case "bstr-ip":
		return 2
	case "tstr":
		return 3
	case "hash", "array":
		return 4
	}
	return 0
}

// malformed: byte strings that are not one well-formed CBOR data item (RFC 8949 appendix C); every
// instance is checked against the reference decoder before use.
func malformed(v int, r *mrand.Rand) []Inst {
	m := major(v) << 5
	ok := ownValid(v, r)
	out := []Inst{
		{"reserved-ai-28", []byte{m | 28}, ""}, {"reserved-ai-29", []byte{m | 29}, ""}, {"reserved-ai-30", []byte{m | 30}, ""},
		{"reserved-ai-other-major", []byte{0xdc}, ""},
		{"lone-break", []byte{0xff}, ""},
		{"head-cut-1", []byte{m | 24}, ""}, {"head-cut-2", []byte{m | 25, 0x01}, ""}, {"head-cut-4", []byte{m | 26, 0, 0}, ""},
		{"head-cut-8", []byte{m | 27, 0, 0, 0, 0}, ""},
		{"trailing-byte", append(append([]byte{}, ok...), 0x00), ""},
		{"trailing-break", append(append([]byte{}, ok...), 0xff), ""},
		{"trailing-item", append(append([]byte{}, ok...), ok...), ""},
	}
	if len(ok) >= 2 {
		out = append(out, Inst{"own-cut-last", append([]byte{}, ok[:len(ok)-1]...), ""})
	}
	switch typeOf(v) {
	case "uint16":
		out = append(out, Inst{"uint16-cut", []byte{0x19, 0x1f}, ""})
	case "uint32":
		out = append(out, Inst{"uint32-cut", []byte{0x1a, 0x00, 0x01, 0x51}, ""})
	case "tstr":
		out = append(out, Inst{"tstr-short-content", []byte{0x65, 'a', 'b'}, ""}, Inst{"tstr-len8-missing", []byte{0x78}, ""})
	case "bstr-ip":
		out = append(out, Inst{"bstr4-has-3", []byte{0x44, 1, 2, 3}, ""}, Inst{"bstr16-has-4", []byte{0x50, 1, 2, 3, 4}, ""})
	case "hash":
		out = append(out, Inst{"array2-has-1", []byte{0x82, 0x2f}, ""}, Inst{"hash-value-cut", append([]byte{0x82, 0x2f, 0x58, 0x20}, randBytes(r, 10)...), ""})
	case "array":
		out = append(out, Inst{"array2-has-1", []byte{0x82, 0x61, 'a'}, ""}, Inst{"array-len8-missing", []byte{0x98}, ""},
			Inst{"array1-mech-cut", []byte{0x81, 0x63, 'a'}, ""}, Inst{"array3-arg-cut", []byte{0x83, 0x61, 'a', 0x01, 0x19, 0x01}, ""})
	}
	return out
}

// wrongType: well-formed CBOR whose type is clearly not the variable's (another major type, the
// wrong shape of array, an integer wider than the variable's type).
func wrongType(v int, r *mrand.Rand) []Inst {
	var ns []struct {
		k string
		n *cb.Node
	}
	add := func(k string, n *cb.Node) {
		ns = append(ns, struct {
			k string
			n *cb.Node
		}{k, n})
	}
	t := typeOf(v)
	if t != "uint8" && t != "uint16" && t != "uint32" {
		add("uint", cb.Uint(uint64(r.Intn(20))))
		add("nint", cb.Int(-1-int64(r.Intn(20))))
	}
	add("map", cb.Map(cb.Uint(1), cb.Uint(80)))
	add("empty-map", cb.Map())
	add("bool", cb.Bool(r.Intn(2) == 0))
	add("null", cb.Null())
	add("undefined", cb.Undefined())
	add("float16", &cb.Node{Major: 7, AI: 25, Val: 0x3c00})
	add("float64", &cb.Node{Major: 7, AI: 27, Val: 0x4054000000000000})
	add("tagged", cb.Tag(1, cb.Uint(80)))
	switch t {
	case "uint8", "uint16", "uint32":
		add("tstr", cb.Tstr("80"))
		add("bstr", cb.Bstr([]byte{80}))
		add("array", cb.Arr(cb.Uint(80)))
		add("overflow-uint64-max", cb.Uint(^uint64(0)))
		if t != "uint32" {
			add("nint", cb.Int(-1)) // a negative delay is type-lenient in the library: see class "range"
			add("overflow-uint32", cb.Uint(1<<32))
		}
		if t == "uint16" {
			add("overflow-65536", cb.Uint(65536))
		}
		if t == "uint8" {
			add("overflow-256", cb.Uint(256))
			add("overflow-65535", cb.Uint(65535))
		}
	case "tstr":
		add("array-of-tstr", cb.Arr(cb.Tstr("a")))
		add("empty-array", cb.Arr())
	case "bstr-ip":
		add("array-of-tstr", cb.Arr(cb.Tstr("a")))
		add("array-of-bstr", cb.Arr(cb.Bstr([]byte{1, 2, 3, 4})))
	case "hash":
		add("tstr", cb.Tstr("sha256"))
		add("bstr", cb.Bstr(randBytes(r, 32)))
		add("empty-array", cb.Arr())
		add("arity-1", cb.Arr(cb.Int(-16)))
		add("arity-3", cb.Arr(cb.Int(-16), cb.Bstr(randBytes(r, 32)), cb.Uint(0)))
		add("alg-is-tstr", cb.Arr(cb.Tstr("sha256"), cb.Bstr(randBytes(r, 32))))
		add("value-is-uint", cb.Arr(cb.Int(-16), cb.Uint(7)))
		add("value-is-array", cb.Arr(cb.Int(-16), cb.Arr(cb.Tstr("x"))))
		add("fields-swapped", cb.Arr(cb.Bstr(randBytes(r, 32)), cb.Int(-16)))
	case "array":
		add("tstr", cb.Tstr("mech"))
		add("bstr", cb.Bstr([]byte("mech")))
		add("empty-array", cb.Arr())
		add("first-is-uint", cb.Arr(cb.Uint(1), cb.Uint(2)))
		add("first-is-array", cb.Arr(cb.Arr(cb.Tstr("a")), cb.Uint(2)))
		add("first-is-null", cb.Arr(cb.Null(), cb.Tstr("a")))
		add("first-is-map", cb.Arr(cb.Map(), cb.Tstr("a")))
	}
	out := make([]Inst, 0, len(ns))
	for _, x := range ns {
		out = append(out, Inst{x.k, enc(x.n), ""})
	}
	return out
}

// outOfRange: type-correct values outside the range FDO gives a meaning to, and encodings the
// library accepts leniently (bstr for tstr and vice versa, arrays of small integers for byte
// strings, non-preferred integer widths, indefinite lengths). Run for totality; the treatment is
// counted and reported, not judged (DESIGN 3 C20 "O").
func outOfRange(v int, r *mrand.Rand) []Inst {
	switch typeOf(v) {
	case "bstr-ip":
		out := []Inst{}
		for _, l := range []int{0, 1, 3, 5, 15, 17, 32} {
			out = append(out, Inst{fmt.Sprintf("ip-len-%d", l), enc(cb.Bstr(randBytes(r, l))), ""})
		}
		out = append(out, Inst{"tstr-for-bstr", enc(cb.Tstr("1.2.3.4")), ""},
			Inst{"array-of-uint8-for-bstr", enc(cb.Arr(cb.Uint(10), cb.Uint(0), cb.Uint(0), cb.Uint(1))), ""},
			Inst{"array-of-uint-overflowing", enc(cb.Arr(cb.Uint(10), cb.Uint(0), cb.Uint(0), cb.Uint(256))), ""},
			Inst{"indefinite-bstr", []byte{0x5f, 0x44, 10, 0, 0, 1, 0xff}, ""})
		return out
	case "uint16":
		return []Inst{{"port-0", enc(cb.Uint(0)), ""}, {"nonminimal-16", uintWide(25, 80), ""}, {"nonminimal-32", uintWide(26, 8080), ""},
			{"nonminimal-64", uintWide(27, 443), ""}}
	case "uint8":
		return []Inst{{"nonminimal-8", uintWide(24, 2), ""}, {"nonminimal-16", uintWide(25, 1), ""}, {"nonminimal-64", uintWide(27, 21), ""}}
	case "uint32":
		return []Inst{{"negative", enc(cb.Int(-1)), ""}, {"negative-large", enc(cb.Int(-1 << 40)), ""}, {"over-uint32", enc(cb.Uint(1 << 32)), ""},
			{"over-duration", enc(cb.Uint(1 << 62)), ""}, {"int64-max", enc(cb.Uint(1<<63 - 1)), ""}, {"nonminimal-64", uintWide(27, 5), ""}}
	case "tstr":
		out := []Inst{{"bstr-for-tstr", enc(cb.Bstr([]byte("bytes.example"))), ""}, {"invalid-utf8", []byte{0x62, 0xc3, 0x28}, ""},
			{"indefinite-tstr", []byte{0x7f, 0x61, 'a', 0xff}, ""}, {"nonminimal-length", []byte{0x78, 0x01, 'a'}, ""}}
		if v == 5 {
			for _, c := range []struct{ k, s string }{{"dns-empty-string", ""}, {"dns-with-colon", "host:80"}, {"dns-ip-literal", "192.0.2.1"},
				{"dns-ipv6-literal", "2001:db8::1"}, {"dns-with-space", "a b"}, {"dns-with-slash", "a/b"}, {"dns-with-nul", "a\x00b"},
				{"dns-label-64", strings.Repeat("a", 64) + ".example"}, {"dns-name-300", strings.Repeat("abcdefghi.", 30)}, {"dns-at-sign", "user@host"}} {
				out = append(out, Inst{c.k, enc(cb.Tstr(c.s)), ""})
			}
		}
		return out
	case "hash":
		return []Inst{{"unknown-alg", enc(cb.Arr(cb.Int(0), cb.Bstr(randBytes(r, 32)))), ""}, {"unknown-alg-large", enc(cb.Arr(cb.Int(1<<40), cb.Bstr(randBytes(r, 32)))), ""},
			{"length-mismatch", enc(cb.Arr(cb.Int(-16), cb.Bstr(randBytes(r, 5)))), ""}, {"empty-value", enc(cb.Arr(cb.Int(-43), cb.Bstr(nil))), ""},
			{"null-value", enc(cb.Arr(cb.Int(5), cb.Null())), ""}, {"tstr-value", enc(cb.Arr(cb.Int(5), cb.Tstr("abcd"))), ""},
			{"indefinite-array", []byte{0x9f, 0x2f, 0x41, 0x01, 0xff}, ""}}
	case "array":
		return []Inst{{"mech-is-bstr", enc(cb.Arr(cb.Bstr([]byte("m")), cb.Uint(1))), ""}, {"indefinite-array", []byte{0x9f, 0x61, 'a', 0xff}, ""},
			{"nonminimal-length", []byte{0x98, 0x01, 0x61, 'a'}, ""}, {"mech-invalid-utf8", []byte{0x81, 0x62, 0xc3, 0x28}, ""}}
	}
	return []Inst{{"any", enc(cb.Uint(0)), ""}}
}

// Instances returns every concrete instance of (variable, class, table value); seeded.
func Instances(v int, cls string, n int, r *mrand.Rand) []Inst {
	if cls == "empty" {
		return []Inst{{"nil", nil, ""}, {"zero-length", []byte{}, ""}}
	}
	if typeOf(v) == "flag" {
		// the value of a flag is not interpreted: any bytes of the class will do
		switch cls {
		case "valid":
			return []Inst{{"true", []byte{0xf5}, ""}, {"null", []byte{0xf6}, ""}}
		case "boundary":
			return []Inst{{"false", []byte{0xf4}, ""}, {"zero", []byte{0x00}, ""}}
		case "malformed":
			return []Inst{{"reserved-ai", []byte{0x1c}, ""}, {"head-cut", []byte{0x18}, ""}, {"lone-break", []byte{0xff}, ""}, {"array-cut", []byte{0x82, 0x01}, ""}}
		case "wrongtype":
			return []Inst{{"tstr", []byte{0x61, 'a'}, ""}, {"array", []byte{0x80}, ""}}
		default:
			return []Inst{{"large", enc(cb.Bstr(randBytes(r, 300))), ""}}
		}
	}
	switch cls {
	case "valid", "boundary":
		return effective(v, cls, n, r)
	case "malformed":
		return malformed(v, r)
	case "wrongtype":
		return wrongType(v, r)
	case "range":
		return outOfRange(v, r)
	}
	return nil
}

// SelfCheck validates the catalogue against the reference decoder: malformed instances must not
// decode as one item, all others (except empty) must.
func SelfCheck(seed int64) error {
	r := mrand.New(mrand.NewSource(seed))
	for v := 0; v < 16; v++ {
		for _, cls := range []string{"valid", "boundary", "malformed", "wrongtype", "range"} {
			if typeOf(v) == "flag" {
				continue
			}
			for _, n := range []int{0, 3} {
				for _, in := range Instances(v, cls, n, r) {
					_, err := cb.DecodeAll(in.Val)
					if cls == "malformed" && err == nil {
						return fmt.Errorf("catalogue: %s/%s/%s (%x) is well-formed", VarNames[v], cls, in.Kind, in.Val)
					}
					if cls != "malformed" && err != nil {
						return fmt.Errorf("catalogue: %s/%s/%s (%x) is not well-formed: %v", VarNames[v], cls, in.Kind, in.Val, err)
					}
				}
			}
		}
	}
	return nil
}
