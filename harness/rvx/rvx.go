package rvx

import (
	"encoding/hex"
	"encoding/json"
	"fmt"
	mrand "math/rand"
	"net"
	"os"
	"sort"
	"strconv"
	"strings"
	"time"

	"github.com/fido-device-onboard/go-fdo/protocol"

	"verifharness/cb"
	"verifharness/world"
)

// Instr is one abstract instruction of a behaviour (RvInfo.tla).
type Instr struct {
	ID  int    `json:"id"`
	Cls string `json:"cls"`
	N   int    `json:"n"`
	Var int    `json:"var"`
}

// Field is a result field whose value comes from instructions.
type Field struct {
	Judge bool  `json:"judge"`
	From  []int `json:"from"`
}

// Med is a medium table entry.
type Med struct {
	K string `json:"k"`
	I int    `json:"i"`
}

// Expect is the result record of RvInfo.tla.
type Expect struct {
	Applies bool  `json:"applies"`
	DNS     Field `json:"dns"`
	IP      Field `json:"ip"`
	Port    struct {
		Judge bool  `json:"judge"`
		From  []int `json:"from"`
		Dflt  []int `json:"dflt"`
	} `json:"port"`
	Scheme struct {
		Judge bool     `json:"judge"`
		Cands []string `json:"cands"`
	} `json:"scheme"`
	Bypass bool `json:"bypass"`
	Medium struct {
		Judge bool  `json:"judge"`
		Cands []Med `json:"cands"`
	} `json:"medium"`
	Delay  Field `json:"delay"`
	SSID   Field `json:"ssid"`
	PW     Field `json:"pw"`
	SvHash Field `json:"svhash"`
	ClHash Field `json:"clhash"`
	Ext    Field `json:"ext"`
}

// Behaviour is one line printed by RvInfo_Gen.
type Behaviour struct {
	Role   string  `json:"role"`
	Instrs []Instr `json:"instrs"`
	Expect Expect  `json:"expect"`
}

// ObsURL is the projection of one URL.
type ObsURL struct {
	Raw    string `json:"raw"`
	Scheme string `json:"scheme"`
	Host   string `json:"host"`
	Port   string `json:"port"`
	Kind   string `json:"kind"` // "ip" | "dns"
	IPHex  string `json:"ip,omitempty"`
}

// Obs is the projection of an RvDirective to the abstract record.
type Obs struct {
	URLs    []ObsURL `json:"urls"`
	Bypass  bool     `json:"bypass"`
	Eth     *int     `json:"eth"`
	Wlan    *int     `json:"wlan"`
	SSID    string   `json:"ssid"`
	PW      string   `json:"pw"`
	Ext     string   `json:"ext"` // mech|hex(args), "" when unset
	DelayNs int64    `json:"delay_ns"`
	Sv      *string  `json:"svhash"`
	Cl      *string  `json:"clhash"`
}

func splitHost(h string) (host, port string) {
	if strings.HasPrefix(h, "[") {
		if i := strings.LastIndex(h, "]"); i > 0 {
			host = h[1:i]
			if len(h) > i+1 && h[i+1] == ':' {
				port = h[i+2:]
			}
			return
		}
	}
	if net.ParseIP(h) != nil {
		return h, ""
	}
	if i := strings.LastIndex(h, ":"); i >= 0 {
		return h[:i], h[i+1:]
	}
	return h, ""
}

func project(d protocol.RvDirective) Obs {
	var o Obs
	for _, u := range d.URLs {
		ou := ObsURL{Raw: u.String(), Scheme: u.Scheme}
		ou.Host, ou.Port = splitHost(u.Host)
		if ip := net.ParseIP(ou.Host); ip != nil {
			ou.Kind, ou.IPHex = "ip", hex.EncodeToString(ip.To16())
		} else {
			ou.Kind = "dns"
		}
		o.URLs = append(o.URLs, ou)
	}
	o.Bypass = d.Bypass
	if d.EthIface != nil {
		v := int(*d.EthIface)
		o.Eth = &v
	}
	if d.WlanIface != nil {
		v := int(*d.WlanIface)
		o.Wlan = &v
	}
	o.SSID, o.PW = d.WlanSSID, d.WlanPass
	if d.ExtMechanism != "" || len(d.ExtArguments) > 0 {
		o.Ext = d.ExtMechanism + "|" + hex.EncodeToString(d.ExtArguments)
	}
	o.DelayNs = int64(d.Delay)
	if d.ServerCert != nil {
		s := fmt.Sprintf("%d:%x", int64(d.ServerCert.Algorithm), d.ServerCert.Value)
		o.Sv = &s
	}
	if d.ServerCA != nil {
		s := fmt.Sprintf("%d:%x", int64(d.ServerCA.Algorithm), d.ServerCA.Value)
		o.Cl = &s
	}
	return o
}

// parse calls the library under recover. The directive is also parsed between two neighbours to
// check that directives do not influence each other.
func parse(role string, ins []protocol.RvInstruction, neighbours bool) (o Obs, panicAt string, panicVal string) {
	defer func() {
		if r := recover(); r != nil {
			panicAt = normFrame(world.TopLibFrame())
			panicVal = fmt.Sprint(r)
		}
	}()
	info := [][]protocol.RvInstruction{ins}
	idx := 0
	if neighbours {
		before := []protocol.RvInstruction{{Variable: protocol.RVDns, Value: cb.Tstr("before.example").Encode()}, {Variable: protocol.RVBypass}}
		after := []protocol.RvInstruction{{Variable: protocol.RVIPAddress, Value: cb.Bstr([]byte{10, 9, 8, 7}).Encode()}, {Variable: protocol.RVDelaysec, Value: []byte{0x05}}}
		info = [][]protocol.RvInstruction{before, ins, after}
		idx = 1
	}
	var ds []protocol.RvDirective
	if role == "device" {
		ds = protocol.ParseDeviceRvInfo(info)
	} else {
		ds = protocol.ParseOwnerRvInfo(info)
	}
	if len(ds) != len(info) {
		panicVal = fmt.Sprintf("%d directives returned for %d", len(ds), len(info))
		panicAt = "result-length"
		return
	}
	return project(ds[idx]), "", ""
}

// normFrame keeps "<pkgdir>/<file> <func>" of a frame (the library may live in a scratch copy).
func normFrame(f string) string {
	parts := strings.SplitN(f, " ", 2)
	segs := strings.Split(parts[0], "/")
	if len(segs) > 2 {
		segs = segs[len(segs)-2:]
	}
	parts[0] = strings.Join(segs, "/")
	return strings.Join(parts, " ")
}

func member(x string, xs []string) bool {
	for _, y := range xs {
		if x == y {
			return true
		}
	}
	return false
}

// Mismatch is one difference between the expected and the observed abstract record.
type Mismatch struct {
	Field string `json:"field"`
	Want  string `json:"want"`
	Got   string `json:"got"`
}

func projs(from []int, chosen map[int]Inst) []string {
	var out []string
	for _, id := range from {
		out = append(out, chosen[id].Proj)
	}
	return out
}

// compare judges exactly what the property statement fixes (see RvInfo.tla).
func compare(e Expect, o Obs, chosen map[int]Inst) []Mismatch {
	var ms []Mismatch
	bad := func(f, want, got string) { ms = append(ms, Mismatch{f, want, got}) }
	if !e.Applies {
		if len(o.URLs) != 0 {
			bad("urls", "none (directive is for the other role)", fmt.Sprint(len(o.URLs), " url(s): ", o.URLs[0].Raw))
		}
		return ms
	}
	// addresses
	var dnsURLs, ipURLs []ObsURL
	for _, u := range o.URLs {
		if u.Kind == "ip" {
			ipURLs = append(ipURLs, u)
		} else {
			dnsURLs = append(dnsURLs, u)
		}
	}
	var judged []ObsURL
	if e.DNS.Judge && e.IP.Judge {
		want := 0
		if len(e.DNS.From) > 0 {
			want++
		}
		if len(e.IP.From) > 0 {
			want++
		}
		if len(o.URLs) != want {
			bad("urls", fmt.Sprintf("%d url(s)", want), fmt.Sprintf("%d url(s)", len(o.URLs)))
		}
	}
	if len(o.URLs) > 2 {
		bad("urls", "at most 2", strconv.Itoa(len(o.URLs)))
	}
	if e.DNS.Judge && e.IP.Judge || e.DNS.Judge && len(e.DNS.From) > 0 {
		if len(e.DNS.From) == 0 {
			if len(dnsURLs) > 0 {
				bad("dns", "no DNS address", dnsURLs[0].Raw)
			}
		} else {
			ok := false
			for _, u := range dnsURLs {
				if member(u.Host, projs(e.DNS.From, chosen)) {
					ok = true
					judged = append(judged, u)
				}
			}
			if !ok {
				got := "none"
				if len(dnsURLs) > 0 {
					got = dnsURLs[0].Host
				}
				bad("dns", "host in "+fmt.Sprint(projs(e.DNS.From, chosen)), got)
			}
		}
	}
	if e.DNS.Judge && e.IP.Judge || e.IP.Judge && len(e.IP.From) > 0 {
		if len(e.IP.From) == 0 {
			if len(ipURLs) > 0 {
				bad("ip", "no IP address", ipURLs[0].Raw)
			}
		} else {
			ok := false
			for _, u := range ipURLs {
				if member(u.IPHex, projs(e.IP.From, chosen)) {
					ok = true
					judged = append(judged, u)
				}
			}
			if !ok {
				got := "none"
				if len(ipURLs) > 0 {
					got = ipURLs[0].IPHex
				}
				bad("ip", "ip in "+fmt.Sprint(projs(e.IP.From, chosen)), got)
			}
		}
	}
	for _, u := range judged {
		if e.Scheme.Judge && !member(u.Scheme, e.Scheme.Cands) {
			bad("scheme", fmt.Sprint(e.Scheme.Cands), u.Scheme)
		}
		if e.Port.Judge {
			var want []string
			if len(e.Port.From) > 0 {
				want = projs(e.Port.From, chosen)
			} else {
				for _, p := range e.Port.Dflt {
					if p == 0 {
						want = append(want, "")
					} else {
						want = append(want, strconv.Itoa(p))
					}
				}
			}
			if !member(u.Port, want) {
				src := "role port"
				if len(e.Port.From) == 0 {
					src = "protocol default"
				}
				bad("port", fmt.Sprintf("%s %q", src, want), fmt.Sprintf("%q", u.Port))
			}
		}
	}
	if o.Bypass != e.Bypass {
		bad("bypass", fmt.Sprint(e.Bypass), fmt.Sprint(o.Bypass))
	}
	if e.Medium.Judge {
		var got []Med
		if o.Eth != nil {
			got = append(got, Med{"eth", *o.Eth})
		}
		if o.Wlan != nil {
			got = append(got, Med{"wlan", *o.Wlan})
		}
		okAll := len(got) > 0 == (len(e.Medium.Cands) > 0)
		for _, g := range got {
			found := false
			for _, c := range e.Medium.Cands {
				if c == g {
					found = true
				}
			}
			okAll = okAll && found
		}
		if len(e.Medium.Cands) == 1 && len(got) != 1 {
			okAll = false
		}
		if !okAll {
			bad("medium", fmt.Sprint(e.Medium.Cands), fmt.Sprint(got))
		}
	}
	str := func(name string, f Field, got string, zero string) {
		if !f.Judge {
			return
		}
		if len(f.From) == 0 {
			if got != zero {
				bad(name, "unset", got)
			}
			return
		}
		if !member(got, projs(f.From, chosen)) {
			bad(name, fmt.Sprintf("one of %d value(s) %.80q", len(f.From), projs(f.From, chosen)), fmt.Sprintf("%.80q", got))
		}
	}
	if e.Delay.Judge {
		if o.DelayNs%int64(time.Second) != 0 {
			bad("delay", "whole seconds", strconv.FormatInt(o.DelayNs, 10)+"ns")
		} else {
			str("delay", e.Delay, strconv.FormatInt(o.DelayNs/int64(time.Second), 10), "0")
		}
	}
	str("ssid", e.SSID, o.SSID, "")
	str("pw", e.PW, o.PW, "")
	str("ext", e.Ext, o.Ext, "")
	ptr := func(p *string) string {
		if p == nil {
			return "<nil>"
		}
		return *p
	}
	str("svhash", e.SvHash, ptr(o.Sv), "<nil>")
	str("clhash", e.ClHash, ptr(o.Cl), "<nil>")
	return ms
}

// fieldVars: the variables whose instructions bear on a result field.
var fieldVars = map[string][]int{
	"urls": {0, 1, 2, 5}, "dns": {2, 5}, "ip": {2, 5}, "scheme": {12}, "port": {3, 4, 12}, "bypass": {14}, "medium": {11},
	"delay": {13}, "ssid": {9}, "pw": {10}, "ext": {15}, "svhash": {6}, "clhash": {7},
}

// family groups instance kinds that differ only in a number (reserved-ai-28/29/30, trailing-*, ...).
func family(kind string) string {
	for _, p := range []string{"reserved-ai", "trailing", "head-cut", "overflow"} {
		if strings.HasPrefix(kind, p) {
			return p
		}
	}
	return kind
}

func ignoredClass(c string) bool { return c == "malformed" || c == "wrongtype" || c == "empty" }

// descriptor names an instruction in finding keys: variable, class, and for values that must be
// ignored the instance family; role-dependent variables carry the role.
func descriptor(in Instr, inst Inst, role string) string {
	name := VarNames[in.Var]
	if in.Var == 0 || in.Var == 1 || in.Var == 3 || in.Var == 4 {
		name += "@" + role
	}
	if typeOf(in.Var) == "flag" {
		return name
	}
	switch in.Cls {
	case "valid", "boundary":
		if in.Var == 11 || in.Var == 12 {
			return fmt.Sprintf("%s:effective:n=%d", name, in.N)
		}
		return name + ":effective"
	case "range":
		return name + ":range"
	case "empty":
		return name + ":empty"
	}
	return name + ":" + in.Cls + ":" + family(inst.Kind)
}

// findingKey names a difference from the specification on a field by the instructions bearing on
// that field.
func findingKey(field string, b Behaviour, chosen map[int]Inst) (string, []string) {
	var ds []string
	for _, in := range b.Instrs {
		for _, fv := range fieldVars[field] {
			if in.Var == fv {
				ds = append(ds, descriptor(in, chosen[in.ID], b.Role))
			}
		}
	}
	sort.Strings(ds)
	ds = uniq(ds)
	return fmt.Sprintf("mismatch|field=%s|%s", field, strings.Join(ds, ",")), ds
}

// fieldOfVar: the result field a variable's value feeds.
var fieldOfVar = map[int]string{2: "ip", 5: "dns", 3: "port", 4: "port", 12: "scheme", 11: "medium", 13: "delay", 9: "ssid", 10: "pw",
	15: "ext", 6: "svhash", 7: "clhash"}

func fieldGroup(f string) string {
	if f == "dns" || f == "ip" || f == "urls" {
		return "addr"
	}
	return f
}

func obsEqual(a, b Obs) bool {
	x, _ := json.Marshal(a)
	y, _ := json.Marshal(b)
	return string(x) == string(y)
}

// takesEffectAlone: does the single instruction change the result of a directive that otherwise
// only names a host?
func takesEffectAlone(role string, in protocol.RvInstruction) bool {
	host := protocol.RvInstruction{Variable: protocol.RVDns, Value: cb.Tstr("alone.example").Encode()}
	if in.Variable == protocol.RVDns {
		host = protocol.RvInstruction{Variable: protocol.RVIPAddress, Value: cb.Bstr([]byte{192, 0, 2, 9}).Encode()}
	}
	base, at1, _ := parse(role, []protocol.RvInstruction{host}, false)
	with, at2, _ := parse(role, []protocol.RvInstruction{host, in}, false)
	return at1 == "" && at2 == "" && !obsEqual(base, with)
}

// misreads applies the specification's MalformedIgnored property to the library directly: an
// instruction whose value is malformed CBOR, of the wrong type or empty must be ignored, so
// removing it from the list must not change the result. Each instruction whose removal does change
// it is reported under its own key; the result fields it feeds are returned.
func (rn *runner) misreads(b Behaviour, ins []protocol.RvInstruction, chosen map[int]Inst, o Obs, expJSON []byte) map[string]bool {
	touched := map[string]bool{}
	var ignored []int
	var kept []protocol.RvInstruction
	for i, in := range b.Instrs {
		if typeOf(in.Var) != "flag" && ignoredClass(in.Cls) {
			ignored = append(ignored, i)
		} else {
			kept = append(kept, ins[i])
		}
	}
	// several such instructions can mask each other (removing one leaves the other's effect): then
	// compare with the list without all of them
	group := false
	if len(ignored) >= 2 {
		single := false
		for _, i := range ignored {
			rest := append(append([]protocol.RvInstruction{}, ins[:i]...), ins[i+1:]...)
			if w, at, _ := parse(b.Role, rest, false); at == "" && !obsEqual(w, o) {
				single = true
			}
		}
		group = !single
	}
	for _, i := range ignored {
		in := b.Instrs[i]
		rest := append(append([]protocol.RvInstruction{}, ins[:i]...), ins[i+1:]...)
		if group {
			rest = kept
		}
		without, at, _ := parse(b.Role, rest, false)
		rn.rep.Evaluations++
		if at != "" || obsEqual(without, o) {
			continue
		}
		if group && !takesEffectAlone(b.Role, ins[i]) {
			same := false
			for _, k := range b.Instrs {
				same = same || (k.Var == in.Var && (k.Cls == "valid" || k.Cls == "boundary"))
			}
			if !same {
				continue
			}
		}
		field := fieldOfVar[in.Var]
		touched[fieldGroup(field)] = true
		if in.Var == 3 || in.Var == 4 || in.Var == 12 {
			touched["port"], touched["scheme"] = true, true
		}
		d := descriptor(in, chosen[in.ID], b.Role)
		key := fmt.Sprintf("misread|%s|field=%s", d, field)
		if !takesEffectAlone(b.Role, ins[i]) {
			// it only has an effect next to another value of the same variable
			c := VarNames[in.Var] + ":" + in.Cls
			if strings.HasSuffix(d, ":reserved-ai") {
				c = d // a distinct root cause (the decoder reads reserved additional information as 0)
			}
			key = fmt.Sprintf("misread|%s|field=%s|replaces-effective-value", c, field)
		}
		oc, wc := o, without
		rn.record(key, &Finding{Kind: "mismatch", Field: field, Len: len(ins), Role: b.Role, Instrs: concrete(b, chosen), Descs: []string{d}, Expected: expJSON, Observed: &oc, Without: &wc,
			What: fmt.Sprintf("%s value of class %s (%s) is not ignored: the result differs from the result of the same list without it", VarNames[in.Var], in.Cls, chosen[in.ID].Kind)})
	}
	return touched
}

// Finding is one reported deviation (grouped by key).
type Finding struct {
	Key      string          `json:"key"`
	Kind     string          `json:"kind"` // "panic" | "mismatch"
	Field    string          `json:"field,omitempty"`
	What     string          `json:"what"`
	Count    int             `json:"count"`
	Len      int             `json:"len"`
	Descs    []string        `json:"descs"`
	Role     string          `json:"role"`
	Instrs   []ConcreteInstr `json:"instrs"`
	Expected json.RawMessage `json:"expected,omitempty"`
	Observed *Obs            `json:"observed,omitempty"`
	Without  *Obs            `json:"observed_without_the_instruction,omitempty"`
}

// ConcreteInstr is what was handed to the library.
type ConcreteInstr struct {
	Var   string `json:"var"`
	Cls   string `json:"cls"`
	Kind  string `json:"kind"`
	Value string `json:"value_hex"`
}

// Report is the runner's output file.
type Report struct {
	Behaviours  int                       `json:"behaviours"`
	Evaluations int                       `json:"evaluations"`
	Judged      int                       `json:"judged_fields"`
	Distinct    int                       `json:"distinct"`
	FuzzCalls   int                       `json:"fuzz_calls"`
	Findings    []*Finding                `json:"findings"`
	Adjudicate  map[string]map[string]int `json:"adjudicate"`
	ByLen       map[string]int            `json:"by_len"`
	Samples     []any                     `json:"samples"`
}

type runner struct {
	rng      *mrand.Rand
	rep      *Report
	finds    map[string]*Finding
	distinct map[string]bool
}

func (rn *runner) concretize(b Behaviour, pick func(opts []Inst) Inst) ([]protocol.RvInstruction, map[int]Inst, error) {
	chosen := map[int]Inst{}
	var ins []protocol.RvInstruction
	for _, in := range b.Instrs {
		opts := Instances(in.Var, in.Cls, in.N, rn.rng)
		if len(opts) == 0 {
			return nil, nil, fmt.Errorf("no instance for %v", in)
		}
		inst := pick(opts)
		if typeOf(in.Var) != "flag" {
			_, err := cb.DecodeAll(inst.Val)
			if in.Cls == "malformed" && err == nil {
				return nil, nil, fmt.Errorf("catalogue: %s malformed/%s (%x) is well-formed", VarNames[in.Var], inst.Kind, inst.Val)
			}
			if in.Cls != "malformed" && in.Cls != "empty" && err != nil {
				return nil, nil, fmt.Errorf("catalogue: %s %s/%s (%x): %v", VarNames[in.Var], in.Cls, inst.Kind, inst.Val, err)
			}
		}
		chosen[in.ID] = inst
		ins = append(ins, protocol.RvInstruction{Variable: protocol.RvVar(in.Var), Value: inst.Val})
	}
	return ins, chosen, nil
}

func concrete(b Behaviour, chosen map[int]Inst) []ConcreteInstr {
	var out []ConcreteInstr
	for _, in := range b.Instrs {
		out = append(out, ConcreteInstr{VarNames[in.Var], in.Cls, chosen[in.ID].Kind, hex.EncodeToString(chosen[in.ID].Val)})
	}
	return out
}

func (rn *runner) record(key string, f *Finding) {
	if old, ok := rn.finds[key]; ok {
		old.Count++
		if f.Len < old.Len { // keep the shortest witness
			f.Key, f.Count = key, old.Count
			rn.finds[key] = f
		}
		return
	}
	f.Key, f.Count = key, 1
	rn.finds[key] = f
}

// culprit finds a single instruction that panics on its own.
func culprit(role string, b Behaviour, ins []protocol.RvInstruction, chosen map[int]Inst) string {
	for i, in := range b.Instrs {
		if _, at, _ := parse(role, ins[i:i+1], false); at != "" {
			return descriptor(in, chosen[in.ID], "any")
		}
	}
	var ds []string
	for _, in := range b.Instrs {
		ds = append(ds, descriptor(in, chosen[in.ID], "any"))
	}
	sort.Strings(ds)
	return strings.Join(ds, ",")
}

func (rn *runner) one(b Behaviour, pick func(opts []Inst) Inst) error {
	ins, chosen, err := rn.concretize(b, pick)
	if err != nil {
		return err
	}
	for _, in := range b.Instrs {
		rn.distinct[fmt.Sprintf("%s|%d|%s|%d|%s", b.Role, in.Var, in.Cls, in.N, chosen[in.ID].Kind)] = true
	}
	exp := b.Expect
	expJSON, _ := json.Marshal(exp)
	for _, nb := range []bool{false, true} {
		o, at, pv := parse(b.Role, ins, nb)
		rn.rep.Evaluations++
		if at != "" {
			c := culprit(b.Role, b, ins, chosen)
			rn.record("panic|"+at+"|"+c, &Finding{Kind: "panic", What: fmt.Sprintf("Parse%sRvInfo panicked: %s (at %s)", title(b.Role), pv, at),
				Len: len(ins), Role: b.Role, Instrs: concrete(b, chosen), Descs: []string{c}})
			continue
		}
		ms := compare(exp, o, chosen)
		rn.rep.Judged++
		touched := map[string]bool{}
		if !nb {
			touched = rn.misreads(b, ins, chosen, o, expJSON)
		} else if len(ms) > 0 {
			continue // already judged without neighbours; with neighbours only new kinds of difference matter
		}
		addr := false
		for _, m := range ms {
			addr = addr || m.Field == "dns" || m.Field == "ip"
		}
		for _, m := range ms {
			if m.Field == "urls" && addr {
				continue // the count difference is the dns/ip difference
			}
			if touched[fieldGroup(m.Field)] {
				continue // explained by an instruction that should have been ignored (reported above)
			}
			key, ds := findingKey(m.Field, b, chosen)
			oc := o
			rn.record(key, &Finding{Kind: "mismatch", Field: m.Field, What: fmt.Sprintf("field %s: specification says %s, library gives %s", m.Field, m.Want, m.Got),
				Len: len(ins), Role: b.Role, Instrs: concrete(b, chosen), Descs: ds, Expected: expJSON, Observed: &oc})
		}
		// how the library treats type-correct, out-of-range values (reported, not judged): the
		// instruction is placed next to a host name and compared with the host name alone
		if !nb && len(b.Instrs) == 1 && b.Instrs[0].Cls == "range" && typeOf(b.Instrs[0].Var) != "flag" {
			k := VarNames[b.Instrs[0].Var] + ":" + chosen[b.Instrs[0].ID].Kind
			if rn.rep.Adjudicate[k] == nil {
				rn.rep.Adjudicate[k] = map[string]int{}
			}
			host := protocol.RvInstruction{Variable: protocol.RVDns, Value: cb.Tstr("adjudicate.example").Encode()}
			if b.Instrs[0].Var == 5 {
				host = protocol.RvInstruction{Variable: protocol.RVIPAddress, Value: cb.Bstr([]byte{192, 0, 2, 1}).Encode()}
			}
			base, _, _ := parse(b.Role, []protocol.RvInstruction{host}, false)
			with, at2, _ := parse(b.Role, []protocol.RvInstruction{host, ins[0]}, false)
			bj, _ := json.Marshal(base)
			wj, _ := json.Marshal(with)
			switch {
			case at2 != "":
				rn.rep.Adjudicate[k]["panic"]++
			case string(bj) == string(wj):
				rn.rep.Adjudicate[k]["ignored"]++
			default:
				rn.rep.Adjudicate[k]["took-effect"]++
			}
		}
		if len(rn.rep.Samples) < 3 && len(b.Instrs) >= 2 && b.Expect.Applies && len(o.URLs) > 0 && !nb {
			rn.rep.Samples = append(rn.rep.Samples, map[string]any{"role": b.Role, "instrs": concrete(b, chosen), "observed": o})
		}
	}
	return nil
}

func title(s string) string { return strings.ToUpper(s[:1]) + s[1:] }

func uniq(xs []string) []string {
	var out []string
	for i, x := range xs {
		if i == 0 || xs[i-1] != x {
			out = append(out, x)
		}
	}
	return out
}

// fuzz: totality only (no expectation): random variables (also unknown ones), random values.
func (rn *runner) fuzz(n int) {
	for i := 0; i < n; i++ {
		l := rn.rng.Intn(7)
		ins := make([]protocol.RvInstruction, l)
		var cis []ConcreteInstr
		for j := range ins {
			v := rn.rng.Intn(16)
			if rn.rng.Intn(8) == 0 {
				v = rn.rng.Intn(256)
			}
			var val []byte
			switch rn.rng.Intn(4) {
			case 0:
				val = randBytes(rn.rng, rn.rng.Intn(12))
			case 1:
				if v < 16 {
					is := Instances(v, []string{"valid", "boundary", "malformed", "wrongtype", "range"}[rn.rng.Intn(5)], rn.rng.Intn(256), rn.rng)
					val = append([]byte{}, is[rn.rng.Intn(len(is))].Val...)
					if len(val) > 0 && rn.rng.Intn(2) == 0 {
						val[rn.rng.Intn(len(val))] ^= 1 << uint(rn.rng.Intn(8))
					}
				}
			case 2:
				val = []byte{byte(rn.rng.Intn(256))}
			}
			ins[j] = protocol.RvInstruction{Variable: protocol.RvVar(v), Value: val}
			name := strconv.Itoa(v)
			if v < 16 {
				name = VarNames[v]
			}
			cis = append(cis, ConcreteInstr{name, "fuzz", "fuzz", hex.EncodeToString(val)})
		}
		for _, role := range []string{"device", "owner"} {
			_, at, pv := parse(role, ins, false)
			rn.rep.FuzzCalls++
			if at != "" {
				// attribute to a single instruction when possible
				c, wit := "fuzz", cis
				for j := range ins {
					if _, at1, _ := parse(role, ins[j:j+1], false); at1 != "" {
						c = cis[j].Var + ":fuzz"
						if len(ins[j].Value) == 0 {
							c = cis[j].Var + ":empty"
						}
						wit = cis[j : j+1]
						break
					}
				}
				rn.record("panic|"+at+"|"+c, &Finding{Kind: "panic", What: fmt.Sprintf("Parse%sRvInfo panicked: %s (at %s)", title(role), pv, at),
					Len: len(wit), Role: role, Instrs: wit, Descs: []string{c}})
			}
		}
	}
}

// Run replays the behaviours and writes the report.
func Run(in, out string, seed int64, rounds, fuzzN int) error {
	if err := SelfCheck(seed); err != nil {
		return err
	}
	f, err := os.Open(in)
	if err != nil {
		return err
	}
	defer f.Close()
	var bs []Behaviour
	if err := json.NewDecoder(f).Decode(&bs); err != nil {
		return err
	}
	rn := &runner{rng: mrand.New(mrand.NewSource(seed)), finds: map[string]*Finding{}, distinct: map[string]bool{},
		rep: &Report{Adjudicate: map[string]map[string]int{}, ByLen: map[string]int{}}}
	for _, b := range bs {
		rn.rep.Behaviours++
		rn.rep.ByLen[strconv.Itoa(len(b.Instrs))]++
		if len(b.Instrs) == 1 {
			// every instance of the class
			n := len(Instances(b.Instrs[0].Var, b.Instrs[0].Cls, b.Instrs[0].N, rn.rng))
			for k := 0; k < n; k++ {
				kk := k
				if err := rn.one(b, func(o []Inst) Inst { return o[kk%len(o)] }); err != nil {
					return err
				}
			}
			continue
		}
		if len(b.Instrs) == 2 {
			// every instance of each instruction, the other one drawn
			for pos := 0; pos < 2; pos++ {
				n := len(Instances(b.Instrs[pos].Var, b.Instrs[pos].Cls, b.Instrs[pos].N, rn.rng))
				for k := 0; k < n; k++ {
					call, kk, pp := 0, k, pos
					pick := func(o []Inst) Inst {
						defer func() { call++ }()
						if call == pp {
							return o[kk%len(o)]
						}
						return o[rn.rng.Intn(len(o))]
					}
					if err := rn.one(b, pick); err != nil {
						return err
					}
				}
			}
			continue
		}
		for k := 0; k < rounds; k++ {
			if err := rn.one(b, func(o []Inst) Inst { return o[rn.rng.Intn(len(o))] }); err != nil {
				return err
			}
		}
	}
	rn.fuzz(fuzzN)
	for _, f := range rn.finds {
		rn.rep.Findings = append(rn.rep.Findings, f)
	}
	sort.Slice(rn.rep.Findings, func(i, j int) bool {
		a, b := rn.rep.Findings[i], rn.rep.Findings[j]
		if a.Len != b.Len {
			return a.Len < b.Len
		}
		return a.Key < b.Key
	})
	rn.rep.Distinct = len(rn.distinct)
	data, _ := json.MarshalIndent(rn.rep, "", " ")
	return os.WriteFile(out, data, 0o644)
}
