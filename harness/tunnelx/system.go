package tunnelx

import (
	"bytes"
	"context"
	"encoding/hex"
	"encoding/json"
	"fmt"
	"io"
	mrand "math/rand"
	"os"
	"runtime"
	"strconv"
	"strings"
	"sync"
	"time"

	fdo "github.com/fido-device-onboard/go-fdo"
	"github.com/fido-device-onboard/go-fdo/cbor"
	fdohttp "github.com/fido-device-onboard/go-fdo/http"
	"github.com/fido-device-onboard/go-fdo/kex"
	"github.com/fido-device-onboard/go-fdo/protocol"
	"github.com/fido-device-onboard/go-fdo/serviceinfo"

	"verifharness/kexx"
	"verifharness/world"
)

// SysRun is one full TO2 run with (at most) one rewritten encrypted message.
type SysRun struct {
	ID     int    `json:"id"`
	Suite  string `json:"suite"`
	Cipher string `json:"cipher"`
	Type   int    `json:"type"`  // message type whose object is rewritten (65..71); 0: honest run
	Occ    int    `json:"occ"`   // which occurrence of that type (68/69 repeat)
	Class  string `json:"class"` // adversary class ("none": honest run)
	Seed   int64  `json:"seed"`
}

// Event is one NDJSON line (DESIGN Appendix B, Tunnel_Trace).
type Event map[string]any

const (
	markDevmod = "VERIF-C05-DEVMOD-MARKER-7f3a91c2"
	markOwner  = "VERIF-C05-OWNER-MODULE-PAYLOAD-e41d"
	markDevice = "VERIF-C05-DEVICE-MODULE-REPLY-58bc"
)

// KindFor maps a key exchange suite to a key kind of the world for which the suite is valid.
func KindFor(suite string) world.KeyKind {
	switch suite {
	case "ECDH256":
		return world.P256
	case "ECDH384":
		return world.P384
	case "DHKEXid14", "ASYMKEX2048":
		return world.RSA2048
	}
	return world.PKCS3072
}

// markOwnerModule sends a recognisable payload and waits for the device's reply.
type markOwnerModule struct {
	sent, got bool
}

func (m *markOwnerModule) HandleInfo(_ context.Context, name string, body io.Reader) error {
	_, _ = io.Copy(io.Discard, body)
	if strings.HasSuffix(name, "reply") || name == "reply" {
		m.got = true
	}
	return nil
}

func (m *markOwnerModule) ProduceInfo(_ context.Context, p *serviceinfo.Producer) (bool, bool, error) {
	if !m.sent {
		m.sent = true
		_ = p.WriteChunk("active", []byte{0xf5})
		body, _ := cbor.Marshal(strings.Repeat(markOwner, 4))
		_ = p.WriteChunk("data", body)
		return false, false, nil
	}
	return false, true, nil
}

type markDeviceModule struct{}

func (markDeviceModule) Transition(bool) error { return nil }
func (markDeviceModule) Receive(_ context.Context, name string, body io.Reader, respond func(string) io.Writer, _ func()) error {
	_, _ = io.Copy(io.Discard, body)
	if name == "data" {
		b, _ := cbor.Marshal(strings.Repeat(markDevice, 3))
		_, _ = respond("reply").Write(b)
	}
	return nil
}
func (markDeviceModule) Yield(context.Context, func(string) io.Writer, func()) error { return nil }

type rec struct {
	Type uint8
	Data []byte
}

// journal of the plaintexts at the four boundaries of a run.
type journal struct {
	mu                               sync.Mutex
	devSent, devGot, srvGot, srvSent []rec
}

func (j *journal) add(l *[]rec, t uint8, b []byte) {
	j.mu.Lock()
	*l = append(*l, rec{t, append([]byte(nil), b...)})
	j.mu.Unlock()
}

func (j *journal) n(l *[]rec) int {
	j.mu.Lock()
	defer j.mu.Unlock()
	return len(*l)
}

// recResponder journals what the TO2 responder actually receives and returns.
type recResponder struct {
	inner *fdo.TO2Server
	j     *journal
}

func (r *recResponder) Respond(ctx context.Context, msgType uint8, msg io.Reader) (uint8, any) {
	data, _ := io.ReadAll(msg)
	if msgType > 64 {
		r.j.add(&r.j.srvGot, msgType, data)
	}
	rt, resp := r.inner.Respond(ctx, msgType, bytes.NewReader(data))
	if rt > 64 && rt != 255 {
		if b, err := cbor.Marshal(resp); err == nil {
			r.j.add(&r.j.srvSent, rt, b)
		}
	}
	return rt, resp
}

func (r *recResponder) HandleError(ctx context.Context, e protocol.ErrorMessage) {
	r.inner.HandleError(ctx, e)
}

func (r *recResponder) CryptSession(ctx context.Context) (kex.Session, error) {
	return r.inner.CryptSession(ctx)
}

// recTransport journals what the device protects and what it is handed after decryption.
type recTransport struct {
	inner fdo.Transport
	j     *journal
}

func (t *recTransport) Send(ctx context.Context, msgType uint8, msg any, sess kex.Session) (uint8, io.ReadCloser, error) {
	_, decOnly := sess.(kex.DecryptOnly)
	if sess != nil && !decOnly && msgType > 64 && msgType != 255 {
		if b, err := cbor.Marshal(msg); err == nil {
			t.j.add(&t.j.devSent, msgType, b)
		}
	}
	rt, rc, err := t.inner.Send(ctx, msgType, msg, sess)
	if err != nil || sess == nil || rt == 255 {
		return rt, rc, err
	}
	data, rerr := io.ReadAll(rc)
	_ = rc.Close()
	if rerr != nil {
		return rt, nil, rerr
	}
	t.j.add(&t.j.devGot, rt, data)
	return rt, io.NopCloser(bytes.NewReader(data)), nil
}

type wireMsg struct {
	typ      uint8
	dir      string
	orig     []byte
	sent     []byte
	mut      string
	mutName  string
	accepted bool
	same     bool
	resolved bool
	crash    string
}

type sysWorker struct {
	worlds map[world.KeyKind]*world.World
	devs   map[world.KeyKind]*world.Device
	ref    map[string]map[string][]byte // suite|cipher -> "type/occ" -> wire body of a reference run
}

func (wk *sysWorker) world(kind world.KeyKind) (*world.World, *world.Device, error) {
	if w, ok := wk.worlds[kind]; ok {
		return w, wk.devs[kind], nil
	}
	opt := world.Options{Kind: kind, Reuse: true}
	opt.OwnerModules = func(context.Context, string, serviceinfo.Devmod, []string) []world.NamedOwnerModule {
		return []world.NamedOwnerModule{{Name: "verifmark", Mod: &markOwnerModule{}}}
	}
	w := world.New(opt)
	d, err := w.Onboard0(context.Background(), "")
	if err != nil {
		w.Close()
		return nil, nil, err
	}
	wk.worlds[kind], wk.devs[kind] = w, d
	return w, d, nil
}

func (wk *sysWorker) close() {
	for _, w := range wk.worlds {
		w.Close()
	}
}

func isEnc(t uint8) bool { return t >= 65 && t <= 71 }

// RunDeadline is the watchdog for one TO2 run.
var RunDeadline = 90 * time.Second

func init() {
	// self-test switch: a tiny deadline makes every run a "hang"
	if ms, err := strconv.Atoi(os.Getenv("VERIF_RUN_DEADLINE_MS")); err == nil && ms > 0 {
		RunDeadline = time.Duration(ms) * time.Millisecond
	}
}

// libStacks returns the stacks of all goroutines that are inside go-fdo code (for hang reports).
func libStacks() string {
	buf := make([]byte, 4<<20)
	buf = buf[:runtime.Stack(buf, true)]
	var out []string
	for _, g := range strings.Split(string(buf), "\n\n") {
		if strings.Contains(g, "fido-device-onboard/go-fdo") && !strings.Contains(g, "exchangeServiceInfo.func1") &&
			(strings.Contains(g, "[running]") || strings.Contains(g, "[runnable]") || strings.Contains(g, "[chan") || strings.Contains(g, "[select") || strings.Contains(g, "[sync") || strings.Contains(g, "[semacquire")) {
			if len(g) > 1500 {
				g = g[:1500]
			}
			out = append(out, g)
		}
		if len(out) >= 12 {
			break
		}
	}
	return strings.Join(out, "\n\n")
}

// execute performs one run and returns its events.
func (wk *sysWorker) execute(r SysRun) (evs []Event) {
	base := func(ev string) Event { return Event{"ev": ev, "run": r.ID} }
	evs = append(evs, Event{"ev": "reset", "run": r.ID, "cipher": r.Cipher, "suite": r.Suite, "type": r.Type, "occ": r.Occ, "class": r.Class})
	w, d, err := wk.world(KindFor(r.Suite))
	if err != nil {
		return append(evs, Event{"ev": "harness_error", "run": r.ID, "err": "world: " + err.Error()})
	}
	refKey := r.Suite + "|" + r.Cipher
	if r.Class == "substitute" && wk.ref[refKey] == nil {
		// reference objects of another session with the same suite
		ref := SysRun{ID: -1, Suite: r.Suite, Cipher: r.Cipher, Class: "none"}
		wk.ref[refKey] = map[string][]byte{}
		wk.execRun(ref, w, d, func(m *wireMsg, occ int) {
			wk.ref[refKey][fmt.Sprintf("%d/%d", m.typ, occ)] = append([]byte(nil), m.orig...)
		})
	}
	type outcome struct {
		msgs      []*wireMsg
		j         *journal
		runErr    error
		devPanic  string
		srvPanics []string
		herr      string
	}
	done := make(chan outcome, 1)
	go func() {
		var o outcome
		o.msgs, o.j, o.runErr, o.devPanic, o.srvPanics, o.herr = wk.execRun(r, w, d, nil)
		done <- o
	}()
	var o outcome
	select {
	case o = <-done:
	case <-time.After(RunDeadline):
		// watchdog: an honest run takes well under a second; the run is abandoned (its goroutines
		// leak) and the worker continues on a fresh world
		e := base("hang")
		e["class"], e["type"], e["after_s"] = r.Class, r.Type, RunDeadline.Seconds()
		e["stacks"] = libStacks()
		evs = append(evs, e)
		end := base("end")
		end["failed"] = true
		evs = append(evs, end)
		info := base("info")
		info["messages"], info["mutated"], info["markers_in_plaintext"], info["leaks"], info["hang"] = 0, true, 0, 0, true
		evs = append(evs, info)
		wk.worlds, wk.devs = map[world.KeyKind]*world.World{}, map[world.KeyKind]*world.Device{}
		return evs
	}
	msgs, j, runErr, devPanic, srvPanics, herr := o.msgs, o.j, o.runErr, o.devPanic, o.srvPanics, o.herr
	if herr != "" {
		return append(evs, Event{"ev": "harness_error", "run": r.ID, "err": herr})
	}
	ivIDs := map[string]int{}
	mutated := false
	for _, m := range msgs {
		inf := Inspect(m.orig)
		id := 0
		if len(inf.IV) > 0 {
			k := hex.EncodeToString(inf.IV)
			if ivIDs[k] == 0 {
				ivIDs[k] = len(ivIDs) + 1
				id = ivIDs[k]
			} else {
				id = ivIDs[k] // a repeated IV keeps its id: Tunnel_Trace rejects it
			}
		}
		e := base("enc")
		e["type"], e["dir"], e["form"], e["iv"], e["alg"] = int(m.typ), m.dir, inf.Form, id, inf.Alg
		evs = append(evs, e)
		e = base("wire")
		e["mut"] = m.mut
		if m.mut != "none" {
			mutated = true
			e["mutant"] = m.mutName
			e["orig_hex"], e["wire_hex"] = hex.EncodeToString(m.orig), hex.EncodeToString(m.sent)
		}
		evs = append(evs, e)
		if m.crash != "" {
			e = base("crash")
			e["frame"], e["where"], e["type"], e["class"], e["mutant"] = m.crash, map[string]string{"d2o": "server", "o2d": "device"}[m.dir], int(m.typ), m.mut, m.mutName
			evs = append(evs, e)
			break
		}
		e = base("dec")
		e["dir"], e["type"] = m.dir, int(m.typ)
		if m.accepted {
			e["outcome"], e["same"] = "accept", m.same
		} else {
			e["outcome"], e["same"] = "reject", false
		}
		evs = append(evs, e)
	}
	// confidentiality: no distinctive plaintext on the wire
	leaks := 0
	j.mu.Lock()
	var plains [][]byte
	for _, l := range [][]rec{j.devSent, j.srvSent} {
		for _, x := range l {
			if len(x.Data) >= 12 {
				plains = append(plains, x.Data)
			}
		}
	}
	seenMarks := map[string]bool{}
	for _, p := range plains {
		for _, mk := range []string{markDevmod, markOwner, markDevice} {
			if bytes.Contains(p, []byte(mk)) {
				seenMarks[mk] = true
			}
		}
	}
	j.mu.Unlock()
	for _, m := range msgs {
		for _, mk := range []string{markDevmod, markOwner, markDevice, "devmod:", "verifmark"} {
			if bytes.Contains(m.orig, []byte(mk)) {
				e := base("leak")
				e["type"], e["marker"], e["wire_hex"] = int(m.typ), mk, hex.EncodeToString(m.orig)
				evs = append(evs, e)
				leaks++
			}
		}
		for _, p := range plains {
			if bytes.Contains(m.orig, p) {
				e := base("leak")
				e["type"], e["marker"], e["wire_hex"] = int(m.typ), "whole plaintext", hex.EncodeToString(m.orig)
				evs = append(evs, e)
				leaks++
				break
			}
		}
	}
	if devPanic != "" && !(len(msgs) > 0 && msgs[len(msgs)-1].crash != "") {
		e := base("crash")
		e["frame"], e["where"], e["class"], e["type"] = devPanic, "device", r.Class, r.Type
		evs = append(evs, e)
	}
	for _, p := range srvPanics {
		found := false
		for _, m := range msgs {
			if m.crash == p {
				found = true
			}
		}
		if !found {
			e := base("crash")
			e["frame"], e["where"], e["class"], e["type"] = p, "server", r.Class, r.Type
			evs = append(evs, e)
		}
	}
	e := base("end")
	e["failed"] = runErr != nil || devPanic != ""
	if runErr != nil {
		s := runErr.Error()
		if len(s) > 300 {
			s = s[:300]
		}
		e["err"] = s
	}
	evs = append(evs, e)
	info := base("info")
	info["messages"], info["mutated"], info["markers_in_plaintext"], info["leaks"] = len(msgs), mutated, len(seenMarks), leaks
	evs = append(evs, info)
	return evs
}

// execRun drives one TO2 over the real handler and transport. observe, if set, sees every
// encrypted wire message with its occurrence index.
func (wk *sysWorker) execRun(r SysRun, w *world.World, d *world.Device, observe func(*wireMsg, int)) (msgs []*wireMsg, j *journal, runErr error, devPanic string, srvPanics []string, herr string) {
	j = &journal{}
	rng := mrand.New(mrand.NewSource(r.Seed))
	h := &fdohttp.Handler{Tokens: w.OwnerStore, TO2Responder: &recResponder{inner: w.TO2, j: j}}
	occ := map[uint8]int{}
	var pending *wireMsg // o2d message handed to the device, outcome not yet known
	var pendingGot int
	resolve := func() {
		if pending != nil && !pending.resolved {
			pending.resolved = true
			if j.n(&j.devGot) > pendingGot {
				pending.accepted = true
				j.mu.Lock()
				got := j.devGot[len(j.devGot)-1].Data
				want := []byte(nil)
				if len(j.srvSent) > 0 {
					want = j.srvSent[len(j.srvSent)-1].Data
				}
				j.mu.Unlock()
				pending.same = bytes.Equal(got, want)
			}
		}
		pending = nil
	}
	mutate := func(m *wireMsg, o int, plaintext []byte) {
		if r.Class == "none" || r.Type != int(m.typ) || r.Occ != o {
			return
		}
		if Inspect(m.orig).Form == "other" {
			return // not a COSE object at all: the enc event carries the form, Tunnel_Trace rejects it
		}
		var other []byte
		if ref := wk.ref[r.Suite+"|"+r.Cipher]; ref != nil {
			other = ref[fmt.Sprintf("%d/%d", m.typ, o)]
			if other == nil {
				other = ref[fmt.Sprintf("%d/0", m.typ)]
			}
		}
		ms, err := Mutants(r.Class, r.Cipher, m.orig, other, plaintext, false, 8, rng)
		if err != nil {
			herr = "mutants: " + err.Error()
			return
		}
		if len(ms) == 0 {
			return
		}
		pickm := ms[int(uint64(r.Seed)%uint64(len(ms)))]
		m.sent, m.mut, m.mutName = pickm.Wire, r.Class, pickm.Name
	}
	var srvGotBefore int
	var cur *wireMsg
	hook := &world.Hook{
		Request: func(x *world.Exchange) bool {
			resolve()
			cur = nil
			if !isEnc(x.ReqType) {
				return false
			}
			m := &wireMsg{typ: x.ReqType, dir: "d2o", orig: append([]byte(nil), x.ReqBody...), mut: "none"}
			m.sent = m.orig
			o := occ[m.typ]
			occ[m.typ]++
			if observe != nil {
				observe(m, o)
			}
			j.mu.Lock()
			var pt []byte
			if len(j.devSent) > 0 {
				pt = j.devSent[len(j.devSent)-1].Data
			}
			j.mu.Unlock()
			mutate(m, o, pt)
			x.ReqBody = m.sent
			msgs = append(msgs, m)
			srvGotBefore = j.n(&j.srvGot)
			cur = m
			return false
		},
		Response: func(x *world.Exchange) bool {
			if cur != nil {
				cur.resolved = true
				if j.n(&j.srvGot) > srvGotBefore {
					cur.accepted = true
					j.mu.Lock()
					got := j.srvGot[len(j.srvGot)-1].Data
					var want []byte
					if len(j.devSent) > 0 {
						want = j.devSent[len(j.devSent)-1].Data
					}
					j.mu.Unlock()
					cur.same = bytes.Equal(got, want)
				}
				cur = nil
			}
			if x.RespCode != 200 || !isEnc(x.RespType) {
				return false
			}
			m := &wireMsg{typ: x.RespType, dir: "o2d", orig: append([]byte(nil), x.RespBody...), mut: "none"}
			m.sent = m.orig
			o := occ[m.typ]
			occ[m.typ]++
			if observe != nil {
				observe(m, o)
			}
			j.mu.Lock()
			var pt []byte
			if len(j.srvSent) > 0 {
				pt = j.srvSent[len(j.srvSent)-1].Data
			}
			j.mu.Unlock()
			mutate(m, o, pt)
			x.RespBody = m.sent
			msgs = append(msgs, m)
			pending, pendingGot = m, j.n(&j.devGot)
			return false
		},
	}
	t, rt := world.Transport(h, hook)
	rt.Keep = true
	dm := world.DefaultDevmod()
	dm.Device = markDevmod
	opts := world.TO2Opts{Kex: kex.Suite(r.Suite), Cipher: kexx.CipherID(r.Cipher), Devmod: &dm,
		Modules: map[string]serviceinfo.DeviceModule{"verifmark": markDeviceModule{}}}
	func() {
		defer func() {
			if p := recover(); p != nil {
				devPanic = world.TopLibFrame() + " :: " + fmt.Sprint(p)
			}
		}()
		_, runErr = w.RunTO2On(context.Background(), &recTransport{inner: t, j: j}, d, nil, opts)
	}()
	resolve()
	for _, x := range rt.Log {
		if x.Panic != nil {
			srvPanics = append(srvPanics, x.PanicAt+" :: "+fmt.Sprint(x.Panic))
		}
	}
	// attribute a crash to the rewritten message it was provoked by
	for _, m := range msgs {
		if m.mut == "none" {
			continue
		}
		if m.dir == "d2o" && len(srvPanics) > 0 && !m.accepted {
			m.crash = srvPanics[0]
		}
		if m.dir == "o2d" && devPanic != "" && !m.accepted {
			m.crash = devPanic
		}
	}
	return
}

// RunSystem executes the runs in parallel and writes all events to outPath (grouped by run).
func RunSystem(runs []SysRun, outPath string, workers int) error {
	if workers <= 0 {
		workers = runtime.NumCPU()
	}
	f, err := os.Create(outPath)
	if err != nil {
		return err
	}
	defer f.Close()
	enc := json.NewEncoder(f)
	var mu sync.Mutex
	ch := make(chan SysRun)
	var wg sync.WaitGroup
	for i := 0; i < workers; i++ {
		wg.Add(1)
		go func() {
			defer wg.Done()
			wk := &sysWorker{worlds: map[world.KeyKind]*world.World{}, devs: map[world.KeyKind]*world.Device{}, ref: map[string]map[string][]byte{}}
			defer wk.close()
			for r := range ch {
				evs := wk.execute(r)
				mu.Lock()
				for _, e := range evs {
					_ = enc.Encode(e)
				}
				mu.Unlock()
			}
		}()
	}
	for _, r := range runs {
		ch <- r
	}
	close(ch)
	wg.Wait()
	return nil
}
