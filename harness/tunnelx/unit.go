package tunnelx

import (
	"bytes"
	"crypto/rand"
	"encoding/hex"
	"encoding/json"
	"fmt"
	mrand "math/rand"
	"os"
	"runtime"
	"sync"

	"github.com/fido-device-onboard/go-fdo/cbor"
	"github.com/fido-device-onboard/go-fdo/kex"

	"verifharness/kexx"
	"verifharness/world"
)

// UnitJob asks for all classes on one (suite, cipher) pair.
type UnitJob struct {
	Suite   string   `json:"suite"`
	Cipher  string   `json:"cipher"`
	Classes []string `json:"classes"`
	Seed    int64    `json:"seed"`
	Full    bool     `json:"full"`
	K       int      `json:"k"` // sample size per class when not full
}

// Example is a concrete failing (or notable) input.
type Example struct {
	Mutant   string `json:"mutant"`
	WireHex  string `json:"wire_hex"`
	OrigHex  string `json:"orig_hex"`
	PlainHex string `json:"plain_hex"`
	GotHex   string `json:"got_hex,omitempty"`
	Frame    string `json:"frame,omitempty"`
	Panic    string `json:"panic,omitempty"`
	SEK      string `json:"sek,omitempty"`
	SVK      string `json:"svk,omitempty"`
}

// UnitResult aggregates the outcomes of one class in one direction.
type UnitResult struct {
	Kind       string             `json:"kind"` // "unit"
	Suite      string             `json:"suite"`
	Cipher     string             `json:"cipher"`
	Dir        string             `json:"dir"`
	Class      string             `json:"class"`
	Payload    string             `json:"payload"`
	N          int                `json:"n"`
	Reject     int                `json:"reject"`
	AcceptSame int                `json:"accept_same"`
	AcceptDiff int                `json:"accept_diff"`
	Panics     int                `json:"panics"`
	DiffEx     *Example           `json:"diff_example,omitempty"`
	PanicEx    map[string]Example `json:"panic_examples,omitempty"` // by frame
	SameEx     *Example           `json:"same_example,omitempty"`
	Err        string             `json:"err,omitempty"`
	// kind "ivstat": initialisation vectors of IVN consecutive messages of one sender
	IVN        int `json:"iv_n,omitempty"`
	IVLen      int `json:"iv_len,omitempty"`
	IVDistinct int `json:"iv_distinct,omitempty"`
	IVVarying  int `json:"iv_varying,omitempty"` // byte positions that take more than one value
}

// pair builds a completed key exchange through the public kex API.
func pair(suite, cipher string, ownerIdx int) (a, b kex.Session, err error) {
	owner := kexx.OwnerKey(suite, ownerIdx)
	cid := kexx.CipherID(cipher)
	a = kex.Suite(suite).New(nil, cid)
	var xA, xB []byte
	if owner != nil {
		xA, err = a.Parameter(rand.Reader, &owner.PublicKey)
	} else {
		xA, err = a.Parameter(rand.Reader, nil)
	}
	if err != nil {
		return nil, nil, err
	}
	b = kex.Suite(suite).New(bytes.Clone(xA), cid)
	if owner != nil {
		xB, err = b.Parameter(rand.Reader, &owner.PublicKey)
	} else {
		xB, err = b.Parameter(rand.Reader, nil)
	}
	if err != nil {
		return nil, nil, err
	}
	if err = a.SetParameter(bytes.Clone(xB), owner); err != nil {
		return nil, nil, err
	}
	return a, b, nil
}

// payloads are TO2-shaped plaintexts of different lengths (one block, several blocks, block aligned).
func payloads() map[string]any {
	long := make([]byte, 300)
	for i := range long {
		long[i] = byte(i)
	}
	return map[string]any{
		"done":        []any{[]byte("0123456789abcdef")},
		"serviceinfo": []any{false, []any{[]any{"devmod:active", []byte{0xf5}}, []any{"devmod:os", []byte("\x65linux")}, []any{"fdo.download:data", long}}},
		"aligned":     []any{[]byte("0123456789ab")}, // 15 bytes of CBOR: CBC pads to exactly one block
	}
}

func encode(v any) []byte {
	var buf bytes.Buffer
	if err := cbor.NewEncoder(&buf).Encode(v); err != nil {
		panic(err)
	}
	return buf.Bytes()
}

// decrypt calls the real SessionCrypter.Decrypt, recovering panics.
func decrypt(s kex.Session, wire []byte) (pt []byte, err error, frame string, pv any) {
	defer func() {
		if r := recover(); r != nil {
			pv = r
			frame = world.TopLibFrame()
		}
	}()
	pt, err = s.Decrypt(rand.Reader, bytes.NewReader(wire))
	return
}

// RunUnit executes one job.
func RunUnit(j UnitJob) []UnitResult {
	var out []UnitResult
	fail := func(msg string) []UnitResult {
		return append(out, UnitResult{Kind: "unit", Suite: j.Suite, Cipher: j.Cipher, Err: msg})
	}
	rng := mrand.New(mrand.NewSource(j.Seed))
	a, b, err := pair(j.Suite, j.Cipher, int(j.Seed&3))
	if err != nil {
		return fail("key exchange: " + err.Error())
	}
	a2, b2, err := pair(j.Suite, j.Cipher, int(j.Seed&3))
	if err != nil {
		return fail("key exchange: " + err.Error())
	}
	// the initialisation vectors of a run of messages under one key: all distinct, and drawn from a
	// space that does not make repetition a matter of a few ten thousand messages (FDO: 96 bit
	// nonce for GCM and CTR, a full block for CBC)
	{
		st := UnitResult{Kind: "ivstat", Suite: j.Suite, Cipher: j.Cipher, Dir: "o2d", IVN: 96}
		seen := map[string]bool{}
		var first []byte
		vary := map[int]bool{}
		for i := 0; i < st.IVN; i++ {
			e, err := a.Encrypt(rand.Reader, payloads()["done"])
			if err != nil {
				return fail("encrypt: " + err.Error())
			}
			iv := Inspect(encode(e)).IV
			seen[string(iv)] = true
			if first == nil {
				first = iv
				st.IVLen = len(iv)
			}
			for k := 0; k < len(iv) && k < len(first); k++ {
				if iv[k] != first[k] {
					vary[k] = true
				}
			}
		}
		st.IVDistinct, st.IVVarying = len(seen), len(vary)
		out = append(out, st)
	}
	sek, svk, _ := kexx.Keys(a)
	names := []string{"done", "serviceinfo", "aligned"}
	pls := payloads()
	if !j.Full {
		names = []string{names[rng.Intn(len(names))]}
		if rng.Intn(2) == 0 {
			names = []string{"serviceinfo"}
		}
	}
	for _, dir := range []string{"o2d", "d2o"} {
		snd, rcv, snd2 := a, b, a2
		if dir == "d2o" {
			snd, rcv, snd2 = b, a, b2
		}
		for _, pn := range names {
			pl := pls[pn]
			want := encode(pl)
			e1, err := snd.Encrypt(rand.Reader, pl)
			if err != nil {
				return fail("encrypt: " + err.Error())
			}
			wire := encode(e1)
			e2, err := snd2.Encrypt(rand.Reader, pl)
			if err != nil {
				return fail("encrypt: " + err.Error())
			}
			other := encode(e2)
			for _, class := range append([]string{"none"}, j.Classes...) {
				ms, err := Mutants(class, j.Cipher, wire, other, want, j.Full, j.K, rng)
				if err != nil {
					return fail(err.Error())
				}
				if len(ms) == 0 {
					continue
				}
				r := UnitResult{Kind: "unit", Suite: j.Suite, Cipher: j.Cipher, Dir: dir, Class: class, Payload: pn, PanicEx: map[string]Example{}}
				for _, m := range ms {
					r.N++
					pt, err, frame, pv := decrypt(rcv, m.Wire)
					ex := func() Example {
						return Example{Mutant: m.Name, WireHex: hex.EncodeToString(m.Wire), OrigHex: hex.EncodeToString(wire),
							PlainHex: hex.EncodeToString(want), SEK: hex.EncodeToString(sek), SVK: hex.EncodeToString(svk)}
					}
					switch {
					case pv != nil:
						r.Panics++
						if _, ok := r.PanicEx[frame]; !ok {
							e := ex()
							e.Frame, e.Panic = frame, fmt.Sprint(pv)
							r.PanicEx[frame] = e
						}
					case err != nil:
						r.Reject++
					case bytes.Equal(pt, want):
						r.AcceptSame++
						if r.SameEx == nil && class != "none" {
							e := ex()
							r.SameEx = &e
						}
					default:
						r.AcceptDiff++
						if r.DiffEx == nil {
							e := ex()
							e.GotHex = hex.EncodeToString(pt)
							r.DiffEx = &e
						}
					}
				}
				if len(r.PanicEx) == 0 {
					r.PanicEx = nil
				}
				out = append(out, r)
			}
		}
	}
	return out
}

// RunUnits runs jobs in parallel and writes NDJSON.
func RunUnits(jobs []UnitJob, outPath string, workers int) error {
	if workers <= 0 {
		workers = runtime.NumCPU()
	}
	f, err := os.Create(outPath)
	if err != nil {
		return err
	}
	defer f.Close()
	enc := json.NewEncoder(f)
	var mu sync.Mutex
	ch := make(chan UnitJob)
	var wg sync.WaitGroup
	for w := 0; w < workers; w++ {
		wg.Add(1)
		go func() {
			defer wg.Done()
			for j := range ch {
				rs := RunUnit(j)
				mu.Lock()
				for _, r := range rs {
					_ = enc.Encode(r)
				}
				mu.Unlock()
			}
		}()
	}
	for _, j := range jobs {
		ch <- j
	}
	close(ch)
	wg.Wait()
	return nil
}
