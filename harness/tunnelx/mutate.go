// Package tunnelx binds spec/Tunnel.tla (property C05) to the real code: the adversary classes of
// the specification are expanded into concrete rewritings of real COSE wire objects (built with
// the independent CBOR tree codec harness/cb), applied (a) directly to kex.SessionCrypter.Decrypt
// of paired sessions for every key exchange x cipher suite and (b) to one encrypted message of a
// full TO2 run over the real http.Handler / http.Transport.
package tunnelx

import (
	"bytes"
	"fmt"
	mrand "math/rand"

	"verifharness/cb"
)

// Mutant is one concrete member of an adversary class.
type Mutant struct {
	Name string
	Wire []byte
}

// Form names the COSE structure a cipher suite fixes.
func Form(cipher string) string {
	switch cipher {
	case "A128GCM", "A192GCM", "A256GCM":
		return "enc0"
	}
	return "mac0"
}

// CoseAlg is the COSE algorithm identifier of the encryption algorithm of a cipher suite
// (RFC 9053 / RFC 9459).
func CoseAlg(cipher string) int64 {
	switch cipher {
	case "A128GCM":
		return 1
	case "A192GCM":
		return 2
	case "A256GCM":
		return 3
	case "COSEAES128CTR":
		return -65534
	case "COSEAES256CTR":
		return -65532
	case "COSEAES128CBC":
		return -65531
	case "COSEAES256CBC":
		return -65529
	}
	panic("unknown cipher " + cipher)
}

// obj is a decoded tunnel object with accessors that hide the two forms.
type obj struct {
	root *cb.Node // tag 16 or 17
	enc0 *cb.Node // the COSE_Encrypt0 array [protected, unprotected, ciphertext]
	mac  bool
}

func parse(wire []byte) (*obj, error) {
	root, err := cb.DecodeAll(wire)
	if err != nil {
		return nil, err
	}
	if root.Major != 6 || len(root.Kids) != 1 || root.Kids[0].Major != 4 {
		return nil, fmt.Errorf("tunnelx: not a tagged array: %s", root)
	}
	o := &obj{root: root}
	arr := root.Kids[0]
	switch root.Val {
	case 16:
		if len(arr.Kids) != 3 {
			return nil, fmt.Errorf("tunnelx: COSE_Encrypt0 with %d elements", len(arr.Kids))
		}
		o.enc0 = arr
	case 17:
		if len(arr.Kids) != 4 {
			return nil, fmt.Errorf("tunnelx: COSE_Mac0 with %d elements", len(arr.Kids))
		}
		in, err := arr.Kids[2].Inner()
		if err != nil {
			return nil, fmt.Errorf("tunnelx: COSE_Mac0 payload: %w", err)
		}
		if in.Major != 4 || len(in.Kids) != 3 {
			return nil, fmt.Errorf("tunnelx: COSE_Mac0 payload is not a COSE_Encrypt0 array: %s", in)
		}
		o.enc0, o.mac = in, true
	default:
		return nil, fmt.Errorf("tunnelx: tag %d", root.Val)
	}
	return o, nil
}

// bytes re-encodes the object (writing the inner COSE_Encrypt0 back into the MAC payload).
func (o *obj) bytes() []byte {
	if o.mac {
		o.root.Kids[0].Kids[2].SetInner(o.enc0)
	}
	return o.root.Encode()
}

func (o *obj) unprot() *cb.Node { return o.enc0.Kids[1] }
func (o *obj) ct() *cb.Node     { return o.enc0.Kids[2] }
func (o *obj) iv() *cb.Node     { return o.unprot().MapGet(5) }

// Info is what the wire sniffer extracts from an object.
type Info struct {
	Form string // enc0 | mac0 | other
	IV   []byte
	Alg  int64
}

// Inspect classifies a wire body of an encrypted message.
func Inspect(wire []byte) Info {
	o, err := parse(wire)
	if err != nil {
		return Info{Form: "other"}
	}
	inf := Info{Form: "enc0"}
	if o.mac {
		inf.Form = "mac0"
	}
	if iv := o.iv(); iv != nil && iv.Major == 2 {
		inf.IV = append([]byte(nil), iv.Bytes...)
	}
	var alg *cb.Node
	if o.mac {
		alg = o.unprot().MapGet(1)
	} else if p, err := o.enc0.Kids[0].Inner(); err == nil && p.Major == 5 {
		alg = p.MapGet(1)
	}
	if alg != nil {
		if alg.Major == 0 {
			inf.Alg = int64(alg.Val)
		} else if alg.Major == 1 {
			inf.Alg = -1 - int64(alg.Val)
		}
	}
	return inf
}

func flipBit(b []byte, bit int) []byte {
	c := append([]byte(nil), b...)
	c[bit/8] ^= 0x80 >> (bit % 8)
	return c
}

// pick returns all indices 0..n-1 (full) or a seeded sample of k of them (always including the
// first and the last).
func pick(n, k int, full bool, rng *mrand.Rand) []int {
	if n <= 0 {
		return nil
	}
	if full || n <= k {
		out := make([]int, n)
		for i := range out {
			out[i] = i
		}
		return out
	}
	seen := map[int]bool{0: true, n - 1: true}
	out := []int{0, n - 1}
	for len(out) < k {
		i := rng.Intn(n)
		if !seen[i] {
			seen[i] = true
			out = append(out, i)
		}
	}
	return out
}

func strip(o *obj) *cb.Node { return cb.Tag(16, o.enc0.Clone()) }

// Mutants expands an adversary class of spec/Tunnel.tla for a real wire object. other is the
// object another session with the same suite produced for the same message, plaintext the CBOR
// plaintext of the message. full selects the exhaustive expansion (every bit position), otherwise
// k members are sampled.
func Mutants(class, cipher string, wire, other, plaintext []byte, full bool, k int, rng *mrand.Rand) ([]Mutant, error) {
	var out []Mutant
	add := func(name string, w []byte) {
		if !bytes.Equal(w, wire) {
			out = append(out, Mutant{Name: name, Wire: w})
		}
	}
	fresh := func() *obj {
		o, err := parse(wire)
		if err != nil {
			panic(err)
		}
		return o
	}
	if _, err := parse(wire); err != nil {
		return nil, fmt.Errorf("honest object does not parse: %w", err)
	}
	o0 := fresh()
	isMac := o0.mac
	needMac := map[string]bool{"short_tag+flip_ct": true, "short_tag+flip_iv": true, "flip_tag": true, "strip_mac0": true, "strip_mac0+flip_ct": true, "strip_mac0+flip_iv": true,
		"strip_mac0+iv_len": true, "strip_mac0+empty_ct": true, "strip_mac0+truncate": true}
	if needMac[class] && !isMac || class == "wrap_mac0" && isMac {
		return nil, nil // not applicable to this form
	}
	ivLens := func(cur int) []int {
		var ls []int
		for _, l := range []int{0, 1, 7, 8, 11, 12, 13, 15, 16, 17, 24, 32} {
			if l != cur {
				ls = append(ls, l)
			}
		}
		return ls
	}
	withIVLen := func(o *obj, l int) {
		iv := o.iv()
		nb := make([]byte, l)
		copy(nb, iv.Bytes)
		for i := len(iv.Bytes); i < l; i++ {
			nb[i] = byte(rng.Intn(256))
		}
		o.unprot().MapSet(5, cb.Bstr(nb))
	}
	truncs := func(n int) []int {
		var ls []int
		for _, l := range []int{n - 1, n - 8, n - 15, n - 16, n - 17, n / 2, 17, 16, 15, 1} {
			if l > 0 && l < n {
				ls = append(ls, l)
			}
		}
		return ls
	}
	switch class {
	case "none":
		out = append(out, Mutant{Name: "unmodified", Wire: append([]byte(nil), wire...)})
	case "flip_ct", "strip_mac0+flip_ct":
		n := len(o0.ct().Bytes) * 8
		for _, bit := range pick(n, k, full, rng) {
			o := fresh()
			o.enc0.Kids[2] = cb.Bstr(flipBit(o.ct().Bytes, bit))
			if class == "flip_ct" {
				add(fmt.Sprintf("ciphertext bit %d", bit), o.bytes())
			} else {
				add(fmt.Sprintf("MAC stripped, ciphertext bit %d", bit), strip(o).Encode())
			}
		}
	case "flip_iv", "strip_mac0+flip_iv":
		n := len(o0.iv().Bytes) * 8
		for _, bit := range pick(n, k, full, rng) {
			o := fresh()
			o.unprot().MapSet(5, cb.Bstr(flipBit(o.iv().Bytes, bit)))
			if class == "flip_iv" {
				add(fmt.Sprintf("IV bit %d", bit), o.bytes())
			} else {
				add(fmt.Sprintf("MAC stripped, IV bit %d", bit), strip(o).Encode())
			}
		}
	case "flip_alg":
		cur := CoseAlg(cipher)
		for _, a := range []int64{1, 2, 3, -65534, -65532, -65531, -65529, -65533, -65530, 0, 32, 10, 5, 99999} {
			if a == cur {
				continue
			}
			o := fresh()
			if isMac {
				o.unprot().MapSet(1, cb.Int(a))
			} else {
				o.enc0.Kids[0] = cb.Wrap(cb.Map(cb.Int(1), cb.Int(a)))
			}
			add(fmt.Sprintf("alg header %d", a), o.bytes())
		}
		o := fresh()
		if isMac {
			o.unprot().MapDel(1)
			add("alg header removed", o.bytes())
			o = fresh()
			o.unprot().MapSet(1, cb.Tstr("A128CTR"))
			add("alg header of another type", o.bytes())
			o = fresh()
			o.unprot().MapDel(1)
			o.enc0.Kids[0] = cb.Wrap(cb.Map(cb.Int(1), cb.Int(cur)))
			add("alg header moved to the protected bucket", o.bytes())
			for _, m := range []int64{4, 6, 7, 0, 5 + 256} {
				o = fresh()
				o.root.Kids[0].Kids[0] = cb.Wrap(cb.Map(cb.Int(1), cb.Int(m)))
				add(fmt.Sprintf("MAC alg header %d", m), o.bytes())
			}
			o = fresh()
			o.root.Kids[0].Kids[0] = cb.Bstr(nil)
			add("MAC alg header removed", o.bytes())
		} else {
			o.enc0.Kids[0] = cb.Bstr(nil)
			add("alg header removed", o.bytes())
			o = fresh()
			o.enc0.Kids[0] = cb.Bstr(nil)
			o.unprot().MapSet(1, cb.Int(cur))
			add("alg header moved to the unprotected bucket", o.bytes())
			o = fresh()
			o.enc0.Kids[0] = cb.Wrap(cb.Map(cb.Int(1), cb.Tstr("A128GCM")))
			add("alg header of another type", o.bytes())
		}
	case "flip_tag":
		tag := o0.root.Kids[0].Kids[3]
		for _, bit := range pick(len(tag.Bytes)*8, k, full, rng) {
			o := fresh()
			o.root.Kids[0].Kids[3] = cb.Bstr(flipBit(tag.Bytes, bit))
			add(fmt.Sprintf("MAC tag bit %d", bit), o.bytes())
		}
		for _, l := range []int{0, 1, 8, len(tag.Bytes) - 1, len(tag.Bytes) + 1} {
			o := fresh()
			nb := make([]byte, l)
			copy(nb, tag.Bytes)
			o.root.Kids[0].Kids[3] = cb.Bstr(nb)
			add(fmt.Sprintf("MAC tag of %d bytes", l), o.bytes())
		}
		o := fresh()
		o.root.Kids[0].Kids[3] = cb.Bstr(make([]byte, len(tag.Bytes)))
		add("MAC tag all zero", o.bytes())
	case "short_tag+flip_ct", "short_tag+flip_iv":
		// the MAC value shortened to a prefix of the genuine tag (or emptied) and the content altered
		tag := o0.root.Kids[0].Kids[3]
		for _, l := range []int{0, 1, 8, len(tag.Bytes) / 2, len(tag.Bytes) - 1} {
			if l < 0 || l >= len(tag.Bytes) {
				continue
			}
			o := fresh()
			o.root.Kids[0].Kids[3] = cb.Bstr(append([]byte(nil), tag.Bytes[:l]...))
			if class == "short_tag+flip_ct" {
				ct := o.ct()
				ct.Bytes = flipBit(ct.Bytes, rng.Intn(len(ct.Bytes)*8))
			} else {
				iv := o.iv()
				iv.Bytes = flipBit(iv.Bytes, rng.Intn(len(iv.Bytes)*8))
			}
			add(fmt.Sprintf("MAC tag cut to %d bytes, content altered", l), o.bytes())
		}
	case "strip_mac0":
		add("bare COSE_Encrypt0 (MAC wrapper removed)", strip(fresh()).Encode())
	case "strip_mac0+iv_len", "iv_len":
		for _, l := range ivLens(len(o0.iv().Bytes)) {
			o := fresh()
			withIVLen(o, l)
			if class == "iv_len" {
				add(fmt.Sprintf("IV of %d bytes", l), o.bytes())
			} else {
				add(fmt.Sprintf("MAC stripped, IV of %d bytes", l), strip(o).Encode())
			}
		}
	case "strip_mac0+empty_ct", "empty_ct":
		for _, v := range []*cb.Node{cb.Bstr(nil), cb.Null()} {
			o := fresh()
			o.enc0.Kids[2] = v
			name := "empty ciphertext"
			if v.Major == 7 {
				name = "null ciphertext"
			}
			if class == "empty_ct" {
				add(name, o.bytes())
			} else {
				add("MAC stripped, "+name, strip(o).Encode())
			}
		}
	case "strip_mac0+truncate":
		for _, l := range truncs(len(o0.ct().Bytes)) {
			o := fresh()
			o.enc0.Kids[2] = cb.Bstr(append([]byte(nil), o.ct().Bytes[:l]...))
			add(fmt.Sprintf("MAC stripped, ciphertext cut to %d bytes", l), strip(o).Encode())
		}
	case "truncate":
		for _, l := range truncs(len(o0.ct().Bytes)) {
			o := fresh()
			o.enc0.Kids[2] = cb.Bstr(append([]byte(nil), o.ct().Bytes[:l]...))
			add(fmt.Sprintf("ciphertext cut to %d bytes", l), o.bytes())
		}
		for _, l := range pick(len(wire)-1, k, full, rng) {
			add(fmt.Sprintf("object cut to %d bytes", l+1), append([]byte(nil), wire[:l+1]...))
		}
		add("empty body", []byte{})
	case "wrap_mac0":
		for _, m := range []int64{5, 6, 4, 0} {
			tag := make([]byte, 32)
			_, _ = rng.Read(tag)
			n := cb.Tag(17, cb.Arr(cb.Wrap(cb.Map(cb.Int(1), cb.Int(m))), cb.Map(), cb.Wrap(o0.enc0.Clone()), cb.Bstr(tag)))
			add(fmt.Sprintf("wrapped in forged COSE_Mac0 (mac alg %d)", m), n.Encode())
		}
		n := cb.Tag(17, cb.Arr(cb.Bstr(nil), cb.Map(), cb.Wrap(o0.enc0.Clone()), cb.Bstr(make([]byte, 32))))
		add("wrapped in forged COSE_Mac0 (no mac alg)", n.Encode())
	case "retag":
		for _, t := range []uint64{16, 17, 18, 96, 97, 98, 0, 24, 55799} {
			if t == o0.root.Val {
				continue
			}
			o := fresh()
			o.root.Val, o.root.AI = t, 0xff
			add(fmt.Sprintf("tag %d", t), o.bytes())
		}
		o := fresh()
		_ = o.bytes()
		add("untagged", o.root.Kids[0].Encode())
		o = fresh()
		add("double tag", cb.Tag(o.root.Val, o.root).Encode())
	case "drop_iv":
		o := fresh()
		o.unprot().MapDel(5)
		add("IV header removed", o.bytes())
		o = fresh()
		o.unprot().MapSet(5, cb.Null())
		add("IV header null", o.bytes())
		o = fresh()
		iv := o.iv().Bytes
		o.unprot().MapDel(5)
		o.unprot().MapSet(6, cb.Bstr(iv))
		add("IV moved to label 6 (partial IV)", o.bytes())
	case "substitute":
		if other != nil {
			add("object of another session", append([]byte(nil), other...))
			if oo, err := parse(other); err == nil {
				// splice: this session's headers around the other session's ciphertext and vice versa
				o := fresh()
				o.enc0.Kids[2] = cb.Bstr(append([]byte(nil), oo.ct().Bytes...))
				add("ciphertext of another session", o.bytes())
				o = fresh()
				o.unprot().MapSet(5, cb.Bstr(append([]byte(nil), oo.iv().Bytes...)))
				add("IV of another session", o.bytes())
				if isMac && oo.mac {
					o = fresh()
					o.root.Kids[0].Kids[3] = cb.Bstr(append([]byte(nil), oo.root.Kids[0].Kids[3].Bytes...))
					add("MAC tag of another session", o.bytes())
				}
			}
		}
	case "plaintext":
		add("plaintext instead of the object", append([]byte(nil), plaintext...))
		add("plaintext in tag 16", cb.Tag(16, cb.Arr(cb.Bstr(nil), cb.Map(), cb.Bstr(plaintext))).Encode())
	case "bit_any":
		for _, bit := range pick(len(wire)*8, k, full, rng) {
			add(fmt.Sprintf("wire bit %d", bit), flipBit(wire, bit))
		}
	default:
		return nil, fmt.Errorf("unknown class %q", class)
	}
	return out, nil
}
