package world

import (
	"context"
	"crypto"
	"crypto/ecdsa"
	"crypto/rsa"
	"fmt"
	"io"
	"runtime"
	"strings"
	"sync"

	fdo "github.com/fido-device-onboard/go-fdo"
	"github.com/fido-device-onboard/go-fdo/protocol"
	"github.com/fido-device-onboard/go-fdo/serviceinfo"
)

func extendPub(ov *fdo.Voucher, from crypto.Signer, to any) (*fdo.Voucher, error) {
	switch pub := to.(type) {
	case *ecdsa.PublicKey:
		return fdo.ExtendVoucher(ov, from, pub, nil)
	case *rsa.PublicKey:
		return fdo.ExtendVoucher(ov, from, pub, nil)
	}
	return nil, fmt.Errorf("unsupported next owner key %T", to)
}

// TopLibFrame returns "file:line func" of the innermost go-fdo frame on the current (panicking)
// stack; used to key crash findings.
func TopLibFrame() string {
	pcs := make([]uintptr, 64)
	n := runtime.Callers(2, pcs)
	frames := runtime.CallersFrames(pcs[:n])
	var all []runtime.Frame
	for {
		f, more := frames.Next()
		all = append(all, f)
		if !more {
			break
		}
	}
	// the panicking function is the first frame below the runtime's panic machinery
	start := 0
	for i, f := range all {
		if f.Function == "runtime.gopanic" || f.Function == "runtime.sigpanic" || strings.HasPrefix(f.Function, "runtime.panic") || strings.HasPrefix(f.Function, "runtime.goPanic") {
			start = i + 1
		}
	}
	for _, f := range all[start:] {
		if strings.HasPrefix(f.Function, "verifharness/") {
			// raised in harness code (a callback the library invoked): not a library crash
			return "HARNESS " + f.Function
		}
		if strings.Contains(f.Function, "fido-device-onboard/go-fdo") {
			file := f.File
			if i := strings.Index(file, "/repo/"); i >= 0 {
				file = file[i+6:]
			} else if i := strings.LastIndex(file, "go-fdo/"); i >= 0 {
				file = file[i+7:]
			}
			fn := f.Function
			if i := strings.LastIndex(fn, "/"); i >= 0 {
				fn = fn[i+1:]
			}
			return fmt.Sprintf("%s %s", file, fn)
		}
	}
	return "unknown"
}

// ModSM is a per-token owner module state machine (serviceinfo.ModuleStateMachine). Module
// invocations are journalled (effect "ModuleCall").
type ModSM struct {
	Tokens protocol.TokenService
	State  interface {
		Devmod(context.Context) (serviceinfo.Devmod, []string, bool, error)
	}
	Build func(ctx context.Context, tok string, devmod serviceinfo.Devmod, supported []string) []NamedOwnerModule
	J     *Journal

	mu       sync.Mutex
	sessions map[string]*modSession
}

type modSession struct {
	mods []NamedOwnerModule
	idx  int
}

func (m *ModSM) tok(ctx context.Context) string {
	t, _ := m.Tokens.TokenFromContext(ctx)
	return t
}

// Module implements serviceinfo.ModuleStateMachine.
func (m *ModSM) Module(ctx context.Context) (string, serviceinfo.OwnerModule, error) {
	m.mu.Lock()
	defer m.mu.Unlock()
	s := m.sessions[m.tok(ctx)]
	if s == nil {
		return "", nil, fmt.Errorf("NextModule never called")
	}
	if s.idx >= len(s.mods) {
		return "", nil, fmt.Errorf("NextModule already returned false")
	}
	nm := s.mods[s.idx]
	return nm.Name, &journalledModule{nm: nm, j: m.J, tok: m.tok(ctx)}, nil
}

// NextModule implements serviceinfo.ModuleStateMachine.
func (m *ModSM) NextModule(ctx context.Context) (bool, error) {
	tok := m.tok(ctx)
	m.mu.Lock()
	s := m.sessions[tok]
	m.mu.Unlock()
	if s != nil {
		m.mu.Lock()
		defer m.mu.Unlock()
		s.idx++
		return s.idx < len(s.mods), nil
	}
	devmod, supported, complete, err := m.State.Devmod(ctx)
	if err != nil {
		return false, fmt.Errorf("devmod: %w", err)
	}
	if !complete {
		return false, fmt.Errorf("devmod did not complete")
	}
	var mods []NamedOwnerModule
	if m.Build != nil {
		mods = m.Build(ctx, tok, devmod, supported)
	}
	m.mu.Lock()
	m.sessions[tok] = &modSession{mods: mods}
	m.mu.Unlock()
	return len(mods) > 0, nil
}

// CleanupModules implements serviceinfo.ModuleStateMachine.
func (m *ModSM) CleanupModules(ctx context.Context) {
	m.mu.Lock()
	delete(m.sessions, m.tok(ctx))
	m.mu.Unlock()
}

type journalledModule struct {
	nm  NamedOwnerModule
	j   *Journal
	tok string
}

func (jm *journalledModule) HandleInfo(ctx context.Context, name string, body io.Reader) error {
	jm.j.Add(Effect{Kind: "ModuleCall", Mod: jm.nm.Name, Msg: "handle:" + name, Token: jm.tok})
	return jm.nm.Mod.HandleInfo(ctx, name, body)
}

func (jm *journalledModule) ProduceInfo(ctx context.Context, p *serviceinfo.Producer) (bool, bool, error) {
	jm.j.Add(Effect{Kind: "ModuleCall", Mod: jm.nm.Name, Msg: "produce", Token: jm.tok})
	return jm.nm.Mod.ProduceInfo(ctx, p)
}
