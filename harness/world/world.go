package world

import (
	"bytes"
	"context"
	"crypto"
	"crypto/hmac"
	"crypto/rand"
	"crypto/sha256"
	"crypto/sha512"
	"crypto/x509"
	"crypto/x509/pkix"
	"encoding/hex"
	"fmt"
	"hash"
	"io"
	"log/slog"
	"net/http"
	"net/http/httptest"
	"os"
	"path/filepath"
	"reflect"
	"sync"
	"sync/atomic"
	"time"

	fdo "github.com/fido-device-onboard/go-fdo"
	"github.com/fido-device-onboard/go-fdo/cbor"
	"github.com/fido-device-onboard/go-fdo/cose"
	"github.com/fido-device-onboard/go-fdo/custom"
	fdohttp "github.com/fido-device-onboard/go-fdo/http"
	"github.com/fido-device-onboard/go-fdo/kex"
	"github.com/fido-device-onboard/go-fdo/protocol"
	"github.com/fido-device-onboard/go-fdo/serviceinfo"
	"github.com/fido-device-onboard/go-fdo/sqlite"
)

func init() {
	// The library logs through slog; keep the harness output clean.
	slog.SetDefault(slog.New(slog.NewTextHandler(io.Discard, nil)))
}

// Effect is one entry of the effect journal (the four effects named by property C08 plus the
// voucher removal of the resale protocol).
type Effect struct {
	Seq   int64  `json:"seq"`
	Kind  string `json:"kind"` // AddVoucher | SetRVBlob | ReplaceVoucher | RemoveVoucher | ModuleCall
	Store string `json:"store"`
	GUID  string `json:"guid,omitempty"`
	New   string `json:"new,omitempty"`
	Exp   int64  `json:"exp,omitempty"` // unix seconds (SetRVBlob)
	Token string `json:"token,omitempty"`
	Mod   string `json:"mod,omitempty"`
	Msg   string `json:"msg,omitempty"`
	Err   bool   `json:"err,omitempty"`
}

// Journal collects effects with sequence numbers taken under its lock.
type Journal struct {
	mu  sync.Mutex
	seq int64
	es  []Effect
	// NoLock disables the mutex (race-detector runs must not be serialised by the harness).
	NoLock bool
}

// Add appends an effect.
func (j *Journal) Add(e Effect) {
	if j == nil {
		return
	}
	if j.NoLock {
		e.Seq = atomic.AddInt64(&j.seq, 1)
		return
	}
	j.mu.Lock()
	j.seq++
	e.Seq = j.seq
	j.es = append(j.es, e)
	j.mu.Unlock()
}

// Len returns the number of effects so far.
func (j *Journal) Len() int {
	j.mu.Lock()
	defer j.mu.Unlock()
	return len(j.es)
}

// Since returns the effects appended after the first n.
func (j *Journal) Since(n int) []Effect {
	j.mu.Lock()
	defer j.mu.Unlock()
	return append([]Effect(nil), j.es[n:]...)
}

// Store decorates sqlite.DB with the effect journal. All other state-interface methods are the
// embedded sqlite methods, so the anchored token mechanism is the one under test.
type Store struct {
	*sqlite.DB
	Name string
	J    *Journal
	Path string
}

func gs(g protocol.GUID) string { return hex.EncodeToString(g[:]) }

// AddVoucher journals and forwards.
func (s *Store) AddVoucher(ctx context.Context, ov *fdo.Voucher) error {
	err := s.DB.AddVoucher(ctx, ov)
	tok, _ := s.DB.TokenFromContext(ctx)
	s.J.Add(Effect{Kind: "AddVoucher", Store: s.Name, GUID: gs(ov.Header.Val.GUID), Token: tok, Err: err != nil})
	return err
}

// ReplaceVoucher journals and forwards.
func (s *Store) ReplaceVoucher(ctx context.Context, g protocol.GUID, ov *fdo.Voucher) error {
	err := s.DB.ReplaceVoucher(ctx, g, ov)
	tok, _ := s.DB.TokenFromContext(ctx)
	s.J.Add(Effect{Kind: "ReplaceVoucher", Store: s.Name, GUID: gs(g), New: gs(ov.Header.Val.GUID), Token: tok, Err: err != nil})
	return err
}

// RemoveVoucher journals and forwards.
func (s *Store) RemoveVoucher(ctx context.Context, g protocol.GUID) (*fdo.Voucher, error) {
	ov, err := s.DB.RemoveVoucher(ctx, g)
	s.J.Add(Effect{Kind: "RemoveVoucher", Store: s.Name, GUID: gs(g), Err: err != nil})
	return ov, err
}

// SetRVBlob journals and forwards.
func (s *Store) SetRVBlob(ctx context.Context, ov *fdo.Voucher, to1d *cose.Sign1[protocol.To1d, []byte], exp time.Time) error {
	err := s.DB.SetRVBlob(ctx, ov, to1d, exp)
	tok, _ := s.DB.TokenFromContext(ctx)
	s.J.Add(Effect{Kind: "SetRVBlob", Store: s.Name, GUID: gs(ov.Header.Val.GUID), Exp: exp.Unix(), Token: tok, Err: err != nil})
	return err
}

// SetXSession journals whether tunnel keys are being stored (effect "KeysStored") and forwards.
func (s *Store) SetXSession(ctx context.Context, suite kex.Suite, sess kex.Session) error {
	hasKeys := false
	if v := reflect.ValueOf(sess); v.Kind() == reflect.Pointer && !v.IsNil() {
		if f := v.Elem().FieldByName("SEK"); f.IsValid() && f.Kind() == reflect.Slice && f.Len() > 0 {
			hasKeys = true
		}
	}
	err := s.DB.SetXSession(ctx, suite, sess)
	if hasKeys {
		tok, _ := s.DB.TokenFromContext(ctx)
		s.J.Add(Effect{Kind: "KeysStored", Store: s.Name, Token: tok, Err: err != nil})
	}
	return err
}

// Reopen closes and reopens the database file (server restart).
func (s *Store) Reopen() error {
	if err := s.DB.Close(); err != nil {
		return err
	}
	db, err := sqlite.Open(s.Path, "")
	if err != nil {
		return err
	}
	s.DB = db
	return nil
}

var scratchOnce sync.Once
var scratchRoot string

// ScratchRoot returns the directory for database files: $VERIF_SCRATCH, else a temp dir.
func ScratchRoot() string {
	scratchOnce.Do(func() {
		if d := os.Getenv("VERIF_SCRATCH"); d != "" {
			scratchRoot = d
			return
		}
		base := ""
		if st, err := os.Stat("/dev/shm"); err == nil && st.IsDir() {
			base = "/dev/shm"
		}
		d, err := os.MkdirTemp(base, "vh-")
		if err != nil {
			panic(err)
		}
		scratchRoot = d
	})
	return scratchRoot
}

var dbCounter int64

// OpenStore creates a fresh sqlite-backed store.
func OpenStore(name string, j *Journal) *Store {
	dir := ScratchRoot()
	path := filepath.Join(dir, fmt.Sprintf("%s-%d-%d.db", name, os.Getpid(), atomic.AddInt64(&dbCounter, 1)))
	db, err := sqlite.Open(path, "")
	if err != nil {
		panic(err)
	}
	return &Store{DB: db, Name: name, J: j, Path: path}
}

// Close closes and removes the database file.
func (s *Store) Close() {
	_ = s.DB.Close()
	_ = os.Remove(s.Path)
	_ = os.Remove(s.Path + "-journal")
	_ = os.Remove(s.Path + "-wal")
	_ = os.Remove(s.Path + "-shm")
}

// Options configure a world.
type Options struct {
	Kind     KeyKind              // key kind of manufacturer and owners (and, by default, devices)
	Enc      protocol.KeyEncoding // public key encoding used in vouchers
	Reuse    bool                 // owner offers credential reuse
	Separate bool                 // separate databases for manufacturer, rendezvous and owner
	// AutoExtend extends every DI voucher to Owner (AllInOne); the manufacturer store then holds
	// the extended voucher.
	AutoExtend bool
	// AIO wires the library's fdo.AllInOne into DI: BeforeVoucherPersist = AllInOne.Extend (voucher
	// extended to the owner service's key) and AfterVoucherPersist = AllInOne.RegisterOwnerAddr
	// (rendezvous blob registered without TO0). Meant for a single database (Separate = false).
	AIO bool
	// OwnerModules builds the owner module list for a TO2 session.
	OwnerModules func(ctx context.Context, tok string, devmod serviceinfo.Devmod, supported []string) []NamedOwnerModule
	// TTLPolicy is TO0Server.AcceptVoucher (nil: accept with requested ttl).
	TTLPolicy func(ctx context.Context, ov fdo.Voucher, req uint32) (uint32, error)
	// RvInfo for DI and replacement credentials.
	RvInfo [][]protocol.RvInstruction
	// RvInfo2, if set, is used for replacement credentials instead of RvInfo.
	RvInfo2 [][]protocol.RvInstruction
	// MaxDeviceServiceInfoSize if nonzero is what the owner announces in message 67.
	MaxDeviceServiceInfoSize uint16
	NoJournalLock            bool
}

// NamedOwnerModule pairs a module with its name.
type NamedOwnerModule struct {
	Name string
	Mod  serviceinfo.OwnerModule
}

// World is a complete deployment.
type World struct {
	Opt  Options
	J    *Journal
	Keys *KeyAlloc

	MfgStore, RVStore, OwnerStore *Store

	Mfg    *Party
	Owner  *Party   // current onboarding owner (holds the key the TO2 server signs with)
	Owners []*Party // further owners for resale chains
	CA     *Party   // device CA
	MfgKeys, OwnerKeys *KeyStore

	DI  *fdo.DIServer[custom.DeviceMfgInfo]
	TO0 *fdo.TO0Server
	TO1 *fdo.TO1Server
	TO2 *fdo.TO2Server
	Mods *ModSM

	// Handler serves all four protocols (token service = OwnerStore when not separate).
	MfgHandler, RVHandler, OwnerHandler *fdohttp.Handler

	closers []func()
}

var caOnce sync.Once
var caParty *Party

func deviceCA() *Party {
	caOnce.Do(func() { caParty = NewParty("device-ca", P384) })
	return caParty
}

// New builds a world.
func New(opt Options) *World {
	if opt.Kind == "" {
		opt.Kind = P256
	}
	if opt.Enc == 0 {
		opt.Enc = protocol.X509KeyEnc
	}
	if opt.RvInfo == nil {
		opt.RvInfo = [][]protocol.RvInstruction{}
	}
	w := &World{Opt: opt, J: &Journal{NoLock: opt.NoJournalLock}, Keys: NewKeyAlloc()}
	if opt.Separate {
		w.MfgStore = OpenStore("mfg", w.J)
		w.RVStore = OpenStore("rv", w.J)
		w.OwnerStore = OpenStore("owner", w.J)
	} else {
		s := OpenStore("aio", w.J)
		w.MfgStore, w.RVStore, w.OwnerStore = s, s, s
	}
	w.Mfg = w.Keys.NewParty("mfg", opt.Kind)
	w.Owner = w.Keys.NewParty("owner1", opt.Kind)
	w.CA = deviceCA()
	w.MfgKeys = NewKeyStore(w.Mfg)
	w.OwnerKeys = NewKeyStore(w.Owner)
	w.buildServers()
	return w
}

func (w *World) buildServers() {
	opt := w.Opt
	w.DI = &fdo.DIServer[custom.DeviceMfgInfo]{
		Session:               w.MfgStore,
		Vouchers:              w.MfgStore,
		SignDeviceCertificate: custom.SignDeviceCertificate(w.CA.Key, w.CA.Chain),
		DeviceInfo: func(ctx context.Context, info *custom.DeviceMfgInfo, _ []*x509.Certificate) (string, protocol.PublicKey, error) {
			if info == nil {
				return "", protocol.PublicKey{}, fmt.Errorf("device mfg info required")
			}
			p := w.MfgKeys.Party(info.KeyType, opt.Kind.Bits())
			if p == nil {
				return "", protocol.PublicKey{}, fmt.Errorf("no manufacturer key of type %s", info.KeyType)
			}
			pk, err := p.PublicKeyErr(info.KeyEncoding)
			return info.DeviceInfo, pk, err
		},
		RvInfo: func(context.Context, *fdo.Voucher) ([][]protocol.RvInstruction, error) { return opt.RvInfo, nil },
	}
	if opt.AutoExtend {
		w.DI.BeforeVoucherPersist = func(ctx context.Context, ov *fdo.Voucher) error {
			x, err := ExtendTo(ov, w.Mfg, w.Owner)
			if err != nil {
				return err
			}
			*ov = *x
			return nil
		}
	}
	if opt.AIO {
		aio := fdo.AllInOne{DIAndOwner: aioKeys{w}, RendezvousAndOwner: aioKeys{w}}
		w.DI.BeforeVoucherPersist = aio.Extend
		w.DI.AfterVoucherPersist = aio.RegisterOwnerAddr
	}
	w.TO0 = &fdo.TO0Server{Session: w.RVStore, RVBlobs: w.RVStore, AcceptVoucher: opt.TTLPolicy}
	w.TO1 = &fdo.TO1Server{Session: w.RVStore, RVBlobs: w.RVStore}
	if w.Mods == nil {
		w.Mods = &ModSM{J: w.J, sessions: map[string]*modSession{}}
	}
	w.Mods.Tokens = w.OwnerStore
	w.Mods.State = w.OwnerStore
	w.Mods.Build = opt.OwnerModules
	w.TO2 = &fdo.TO2Server{
		Session:              w.OwnerStore,
		Modules:              w.Mods,
		Vouchers:             w.OwnerStore,
		OwnerKeys:            w.OwnerKeys,
		VouchersForExtension: w.OwnerStore,
		RvInfo: func(context.Context, fdo.Voucher) ([][]protocol.RvInstruction, error) {
			if w.Opt.RvInfo2 != nil {
				return w.Opt.RvInfo2, nil
			}
			return opt.RvInfo, nil
		},
		ReuseCredential:      func(context.Context, fdo.Voucher) (bool, error) { return w.Opt.Reuse, nil },
	}
	if opt.MaxDeviceServiceInfoSize != 0 {
		w.TO2.MaxDeviceServiceInfoSize = func(context.Context, fdo.Voucher) (uint16, error) {
			return opt.MaxDeviceServiceInfoSize, nil
		}
	}
	w.MfgHandler = &fdohttp.Handler{Tokens: w.MfgStore, DIResponder: hangResponder{w.DI}}
	w.RVHandler = &fdohttp.Handler{Tokens: w.RVStore, TO0Responder: hangResponder{w.TO0}, TO1Responder: hangResponder{w.TO1}}
	w.OwnerHandler = &fdohttp.Handler{Tokens: w.OwnerStore, TO2Responder: hangResponder{w.TO2}}
	if !opt.Separate {
		h := &fdohttp.Handler{Tokens: w.OwnerStore, DIResponder: hangResponder{w.DI}, TO0Responder: hangResponder{w.TO0}, TO1Responder: hangResponder{w.TO1}, TO2Responder: hangResponder{w.TO2}}
		w.MfgHandler, w.RVHandler, w.OwnerHandler = h, h, h
	}
}

type hangKey struct{}

// hangResponder cancels the request context (Exchange.Hangup) once the wrapped responder has
// produced a session-ending answer; everything else is passed through.
type hangResponder struct{ protocol.Responder }

func (h hangResponder) Respond(ctx context.Context, msgType uint8, msg io.Reader) (uint8, any) {
	rt, r := h.Responder.Respond(ctx, msgType, msg)
	if cancel, ok := ctx.Value(hangKey{}).(context.CancelFunc); ok {
		switch rt {
		case protocol.ErrorMsgType, protocol.DIDoneMsgType, protocol.TO0AcceptOwnerMsgType, protocol.TO1RVRedirectMsgType:
			cancel()
		}
	}
	return rt, r
}

// CryptSession is what the handler needs from the TO2 responder.
func (h hangResponder) CryptSession(ctx context.Context) (kex.Session, error) {
	cs, ok := h.Responder.(interface {
		CryptSession(context.Context) (kex.Session, error)
	})
	if !ok {
		return nil, fmt.Errorf("no crypt session")
	}
	return cs.CryptSession(ctx)
}

// aioKeys adapts the world to the two interfaces of fdo.AllInOne.
type aioKeys struct{ w *World }

func (a aioKeys) ManufacturerKey(ctx context.Context, t protocol.KeyType, bits int) (crypto.Signer, []*x509.Certificate, error) {
	return a.w.MfgKeys.OwnerKey(ctx, t, bits)
}
func (a aioKeys) OwnerKey(ctx context.Context, t protocol.KeyType, bits int) (crypto.Signer, []*x509.Certificate, error) {
	return a.w.OwnerKeys.OwnerKey(ctx, t, bits)
}
func (a aioKeys) SetRVBlob(ctx context.Context, ov *fdo.Voucher, to1d *cose.Sign1[protocol.To1d, []byte], exp time.Time) error {
	return a.w.RVStore.SetRVBlob(ctx, ov, to1d, exp)
}
func (a aioKeys) OwnerAddrs(context.Context, fdo.Voucher) ([]protocol.RvTO2Addr, time.Duration, error) {
	dns := "owner.verif"
	return []protocol.RvTO2Addr{{DNSAddress: &dns, Port: 8043, TransportProtocol: protocol.HTTPTransport}}, 0, nil
}

// Restart tears down every server-side object and rebuilds it from the database files.
func (w *World) Restart() error {
	seen := map[*Store]bool{}
	for _, s := range []*Store{w.MfgStore, w.RVStore, w.OwnerStore} {
		if seen[s] {
			continue
		}
		seen[s] = true
		if err := s.Reopen(); err != nil {
			return err
		}
	}
	w.buildServers()
	return nil
}

// Close releases the databases.
func (w *World) Close() {
	seen := map[*Store]bool{}
	for _, s := range []*Store{w.MfgStore, w.RVStore, w.OwnerStore} {
		if !seen[s] {
			seen[s] = true
			s.Close()
		}
	}
}

// ExtendTo extends a voucher from one party to the next using the encoding of the voucher.
func ExtendTo(ov *fdo.Voucher, from, to *Party) (*fdo.Voucher, error) {
	if ov.Header.Val.ManufacturerKey.Encoding == protocol.X5ChainKeyEnc {
		return fdo.ExtendVoucher(ov, from.Key, to.Chain, nil)
	}
	switch pub := to.Key.Public().(type) {
	case interface{ Equal(crypto.PublicKey) bool }:
		return extendPub(ov, from.Key, pub)
	}
	return nil, fmt.Errorf("unsupported key")
}

// Device is a device with its secrets.
type Device struct {
	Kind   KeyKind
	Enc    protocol.KeyEncoding
	Key    crypto.Signer
	Secret []byte
	Cred   *fdo.DeviceCredential
	Serial string
}

// NewDevice creates a device of the world's key kind (or the given one).
func (w *World) NewDevice(kind KeyKind) *Device {
	if kind == "" {
		kind = w.Opt.Kind
	}
	secret := make([]byte, 32)
	_, _ = rand.Read(secret)
	serial := make([]byte, 8)
	_, _ = rand.Read(serial)
	return &Device{Kind: kind, Enc: w.Opt.Enc, Key: w.Keys.NewKey(kind), Secret: secret, Serial: hex.EncodeToString(serial)}
}

// Hmacs returns fresh HMAC instances over the device secret.
func (d *Device) Hmacs() (hash.Hash, hash.Hash) {
	return hmac.New(sha256.New, d.Secret), hmac.New(sha512.New384, d.Secret)
}

// MfgInfo builds the DI.AppStart info.
func (d *Device) MfgInfo(mfgKind KeyKind) custom.DeviceMfgInfo {
	var sigAlg x509.SignatureAlgorithm
	if d.Kind.PSS() {
		sigAlg = x509.SHA256WithRSAPSS
	}
	csrDER, err := x509.CreateCertificateRequest(rand.Reader, &x509.CertificateRequest{
		Subject:            pkix.Name{CommonName: "device.verif"},
		SignatureAlgorithm: sigAlg,
	}, d.Key)
	if err != nil {
		panic(err)
	}
	csr, err := x509.ParseCertificateRequest(csrDER)
	if err != nil {
		panic(err)
	}
	return custom.DeviceMfgInfo{
		KeyType:      mfgKind.Type(),
		KeyEncoding:  d.Enc,
		SerialNumber: d.Serial,
		DeviceInfo:   "verif-device",
		CertInfo:     cbor.X509CertificateRequest(*csr),
	}
}

// Hook intercepts HTTP exchanges between a client role and a handler.
type Hook struct {
	// Request may rewrite the outgoing request (type, token, body). Returning drop=true makes the
	// transport fail as if the request was lost.
	Request func(x *Exchange) (drop bool)
	// Response may rewrite the response. Returning drop=true loses the response.
	Response func(x *Exchange) (drop bool)
}

// Exchange is one request/response pair as seen on the wire.
type Exchange struct {
	// Overrides for handler-level robustness tests (zero values: POST /fdo/101/msg/<type>).
	Method  string
	Path    string
	NoCLen  bool // send without a Content-Length
	// Hangup: the client goes away while the server processes the request: the request context is
	// cancelled as soon as the responder has decided to end the session (error message or the
	// protocol's final unencrypted message), i.e. before the handler invalidates the token.
	Hangup bool
	BigCLen bool // announce a Content-Length above the limit

	ReqType   uint8
	ReqToken  string // Authorization header value (with "Bearer " prefix) or ""
	ReqBody   []byte
	RespCode  int
	RespType  uint8 // Message-Type header (255 for errors)
	RespToken string
	RespBody  []byte
	Panic     any
	PanicAt   string
}

// RoundTripper turns http.Client calls into direct handler invocations.
type RoundTripper struct {
	H    http.Handler
	Hook *Hook
	mu   sync.Mutex
	Log  []*Exchange
	Keep bool
}

// ErrDropped is returned for injected message loss.
var ErrDropped = fmt.Errorf("verif: message dropped")

// RoundTrip implements http.RoundTripper.
func (rt *RoundTripper) RoundTrip(req *http.Request) (*http.Response, error) {
	body, _ := io.ReadAll(req.Body)
	_ = req.Body.Close()
	x := &Exchange{ReqToken: req.Header.Get("Authorization"), ReqBody: body}
	var typ int
	_, _ = fmt.Sscanf(filepath.Base(req.URL.Path), "%d", &typ)
	x.ReqType = uint8(typ)
	if rt.Hook != nil && rt.Hook.Request != nil {
		if rt.Hook.Request(x) {
			return nil, ErrDropped
		}
	}
	Serve(rt.H, x)
	if rt.Keep {
		rt.mu.Lock()
		rt.Log = append(rt.Log, x)
		rt.mu.Unlock()
	}
	if x.Panic != nil {
		return nil, fmt.Errorf("verif: server panic: %v", x.Panic)
	}
	if rt.Hook != nil && rt.Hook.Response != nil {
		if rt.Hook.Response(x) {
			return nil, ErrDropped
		}
	}
	return ResponseFrom(x, req), nil
}

// ResponseFrom builds the http.Response a client sees for a served exchange.
func ResponseFrom(x *Exchange, req *http.Request) *http.Response {
	resp := &http.Response{
		StatusCode:    x.RespCode,
		Status:        fmt.Sprintf("%d %s", x.RespCode, http.StatusText(x.RespCode)),
		Header:        http.Header{},
		Body:          io.NopCloser(bytes.NewReader(x.RespBody)),
		ContentLength: int64(len(x.RespBody)),
		Request:       req,
	}
	resp.Header.Set("Content-Type", "application/cbor")
	if x.RespToken != "" {
		resp.Header.Set("Authorization", x.RespToken)
	}
	resp.Header.Set("Message-Type", fmt.Sprint(x.RespType))
	return resp
}

// ExchangeFrom reads an outgoing request into an Exchange.
func ExchangeFrom(req *http.Request) *Exchange {
	body, _ := io.ReadAll(req.Body)
	_ = req.Body.Close()
	x := &Exchange{ReqToken: req.Header.Get("Authorization"), ReqBody: body}
	var typ int
	_, _ = fmt.Sscanf(filepath.Base(req.URL.Path), "%d", &typ)
	x.ReqType = uint8(typ)
	return x
}

// Serve performs one exchange against a handler, recovering panics (recorded in x.Panic).
func Serve(h http.Handler, x *Exchange) {
	method, path := http.MethodPost, fmt.Sprintf("/fdo/101/msg/%d", x.ReqType)
	if x.Method != "" {
		method = x.Method
	}
	if x.Path != "" {
		path = x.Path
	}
	req := httptest.NewRequest(method, path, bytes.NewReader(x.ReqBody))
	if x.NoCLen {
		req.ContentLength = -1
	}
	if x.BigCLen {
		req.ContentLength = 1 << 20
	}
	req.Header.Set("Content-Type", "application/cbor")
	if x.ReqToken != "" {
		req.Header.Set("Authorization", x.ReqToken)
	}
	if x.Hangup {
		ctx, cancel := context.WithCancel(req.Context())
		defer cancel()
		req = req.WithContext(context.WithValue(ctx, hangKey{}, cancel))
	}
	rec := httptest.NewRecorder()
	func() {
		defer func() {
			if r := recover(); r != nil {
				x.Panic = r
				x.PanicAt = TopLibFrame()
			}
		}()
		h.ServeHTTP(rec, req)
	}()
	if x.Panic != nil {
		return
	}
	x.RespCode = rec.Code
	x.RespBody = rec.Body.Bytes()
	x.RespToken = rec.Header().Get("Authorization")
	var typ int
	if _, err := fmt.Sscanf(rec.Header().Get("Message-Type"), "%d", &typ); err == nil {
		x.RespType = uint8(typ)
	} else if rec.Code != 200 {
		x.RespType = 255
	}
}

// Transport returns an fdo.Transport (the library's HTTP transport) that talks to h in process.
func Transport(h http.Handler, hook *Hook) (*fdohttp.Transport, *RoundTripper) {
	rt := &RoundTripper{H: h, Hook: hook}
	return &fdohttp.Transport{BaseURL: "http://verif.local", Client: &http.Client{Transport: rt}}, rt
}

// RunDI runs device initialisation.
func (w *World) RunDI(ctx context.Context, d *Device, hook *Hook) (*fdo.DeviceCredential, error) {
	t, _ := Transport(w.MfgHandler, hook)
	h256, h384 := d.Hmacs()
	cred, err := fdo.DI(ctx, t, d.MfgInfo(w.Opt.Kind), fdo.DIConfig{HmacSha256: h256, HmacSha384: h384, Key: d.Key, PSS: d.Kind.PSS()})
	if err == nil {
		d.Cred = cred
	}
	return cred, err
}

// Handover moves the voucher of guid from the manufacturer store to the owner store, extended to
// w.Owner (and first through `via`, if any).
func (w *World) Handover(ctx context.Context, guid protocol.GUID, via ...*Party) (*fdo.Voucher, error) {
	ov, err := w.MfgStore.DB.Voucher(ctx, guid)
	if err != nil {
		return nil, err
	}
	if len(ov.Entries) == 0 {
		chain := append(append([]*Party{w.Mfg}, via...), w.Owner)
		for i := 0; i+1 < len(chain); i++ {
			if ov, err = ExtendTo(ov, chain[i], chain[i+1]); err != nil {
				return nil, err
			}
		}
	}
	if w.Opt.Separate || !w.Opt.AutoExtend {
		if !w.Opt.Separate {
			// same database: replace the unextended voucher
			if _, err := w.MfgStore.DB.RemoveVoucher(ctx, guid); err != nil {
				return nil, err
			}
		}
		if err := w.OwnerStore.DB.AddVoucher(ctx, ov); err != nil {
			return nil, err
		}
	}
	return ov, nil
}

// RunTO0 registers the owner address for guid at the rendezvous server.
func (w *World) RunTO0(ctx context.Context, guid protocol.GUID, ttl uint32, hook *Hook) (uint32, error) {
	t, _ := Transport(w.RVHandler, hook)
	dns := "owner.verif"
	c := &fdo.TO0Client{Vouchers: w.OwnerStore, OwnerKeys: w.OwnerKeys, TTL: ttl}
	return c.RegisterBlob(ctx, t, guid, []protocol.RvTO2Addr{{DNSAddress: &dns, Port: 8043, TransportProtocol: protocol.HTTPTransport}})
}

// RunTO1 runs TO1 for the device.
func (w *World) RunTO1(ctx context.Context, d *Device, hook *Hook) (*cose.Sign1[protocol.To1d, []byte], error) {
	t, _ := Transport(w.RVHandler, hook)
	return fdo.TO1(ctx, t, *d.Cred, d.Key, &fdo.TO1Options{PSS: d.Kind.PSS()})
}

// TO2Opts are per-run device options.
type TO2Opts struct {
	Kex     kex.Suite
	Cipher  kex.CipherSuiteID
	Modules map[string]serviceinfo.DeviceModule
	MTU     uint16
	NoReuse bool // device refuses credential reuse
	Devmod  *serviceinfo.Devmod
}

// DefaultDevmod is a valid devmod.
func DefaultDevmod() serviceinfo.Devmod {
	return serviceinfo.Devmod{Os: "linux", Arch: "amd64", Version: "verif", Device: "verif-device", FileSep: "/", Bin: "amd64"}
}

// DefaultKex returns a key exchange suite valid for the key kind.
func DefaultKex(k KeyKind) kex.Suite {
	switch k {
	case P256:
		return kex.ECDH256Suite
	case P384:
		return kex.ECDH384Suite
	case RSA2048, PSS2048, PKCS2048:
		return kex.DHKEXid14Suite
	default:
		return kex.DHKEXid15Suite
	}
}

// RunTO2 runs TO2 for the device; on success with a replacement credential the device adopts it.
func (w *World) RunTO2(ctx context.Context, d *Device, to1d *cose.Sign1[protocol.To1d, []byte], o TO2Opts, hook *Hook) (*fdo.DeviceCredential, error) {
	t, _ := Transport(w.OwnerHandler, hook)
	return w.RunTO2On(ctx, t, d, to1d, o)
}

// RunTO2On runs TO2 over the given transport.
func (w *World) RunTO2On(ctx context.Context, t fdo.Transport, d *Device, to1d *cose.Sign1[protocol.To1d, []byte], o TO2Opts) (*fdo.DeviceCredential, error) {
	h256, h384 := d.Hmacs()
	if o.Kex == "" {
		o.Kex = DefaultKex(d.Kind)
	}
	if o.Cipher == 0 {
		o.Cipher = kex.A128GcmCipher
	}
	dm := DefaultDevmod()
	if o.Devmod != nil {
		dm = *o.Devmod
	}
	cred, err := fdo.TO2(ctx, t, to1d, fdo.TO2Config{
		Cred: *d.Cred, HmacSha256: h256, HmacSha384: h384, Key: d.Key, PSS: d.Kind.PSS(),
		Devmod: dm, DeviceModules: o.Modules, KeyExchange: o.Kex, CipherSuite: o.Cipher,
		MaxServiceInfoSizeReceive: o.MTU, AllowCredentialReuse: !o.NoReuse,
	})
	if err == nil && cred != nil {
		d.Cred = cred
	}
	return cred, err
}

// Onboard0 performs DI and hand-over to the owner, returning the device.
func (w *World) Onboard0(ctx context.Context, kind KeyKind, via ...*Party) (*Device, error) {
	d := w.NewDevice(kind)
	if _, err := w.RunDI(ctx, d, nil); err != nil {
		return nil, fmt.Errorf("DI: %w", err)
	}
	if _, err := w.Handover(ctx, d.Cred.GUID, via...); err != nil {
		return nil, fmt.Errorf("handover: %w", err)
	}
	return d, nil
}
