// Package world builds a complete in-process FDO deployment (manufacturer, rendezvous, owner,
// devices) from the public API of go-fdo only. Every secret of the world is owned by the harness,
// which is what makes the "isolating" adversary of DESIGN.md Appendix A possible.
package world

import (
	"context"
	"crypto"
	"crypto/ecdsa"
	"crypto/elliptic"
	"crypto/rand"
	"crypto/rsa"
	"crypto/x509"
	"crypto/x509/pkix"
	"embed"
	"encoding/pem"
	"fmt"
	"math/big"
	"sync"
	"time"

	fdo "github.com/fido-device-onboard/go-fdo"
	"github.com/fido-device-onboard/go-fdo/protocol"
)

//go:embed keys/*.pem
var keyFS embed.FS

var (
	rsaPoolMu sync.Mutex
	rsaPool   = map[int][]*rsa.PrivateKey{}
	rsaNext   = map[int]int{}
)

func loadRSAPool(bits int) []*rsa.PrivateKey {
	if ks, ok := rsaPool[bits]; ok {
		return ks
	}
	var ks []*rsa.PrivateKey
	for i := 0; ; i++ {
		data, err := keyFS.ReadFile(fmt.Sprintf("keys/rsa%d_%d.pem", bits, i))
		if err != nil {
			break
		}
		blk, _ := pem.Decode(data)
		k, err := x509.ParsePKCS8PrivateKey(blk.Bytes)
		if err != nil {
			panic(err)
		}
		ks = append(ks, k.(*rsa.PrivateKey))
	}
	rsaPool[bits] = ks
	return ks
}

// RSAKey returns the idx-th pre-generated RSA key of the given size (wrapping around).
func RSAKey(bits, idx int) *rsa.PrivateKey {
	rsaPoolMu.Lock()
	defer rsaPoolMu.Unlock()
	ks := loadRSAPool(bits)
	if len(ks) == 0 {
		k, err := rsa.GenerateKey(rand.Reader, bits)
		if err != nil {
			panic(err)
		}
		return k
	}
	return ks[idx%len(ks)]
}

// NextRSAKey hands out pool keys round robin (distinct roles get distinct keys as long as the pool lasts).
func NextRSAKey(bits int) *rsa.PrivateKey {
	rsaPoolMu.Lock()
	i := rsaNext[bits]
	rsaNext[bits] = i + 1
	rsaPoolMu.Unlock()
	return RSAKey(bits, i)
}

// KeyKind names one of the six key configurations of the FDO tables.
type KeyKind string

// Key kinds.
const (
	P256    KeyKind = "P256"
	P384    KeyKind = "P384"
	RSA2048 KeyKind = "RSA2048RESTR"
	PKCS3072 KeyKind = "RSAPKCS3072"
	PSS2048 KeyKind = "RSAPSS2048"
	PSS3072 KeyKind = "RSAPSS3072"
	// PKCS2048 is RSAPKCS with a 2048 bit key (allowed by the library).
	PKCS2048 KeyKind = "RSAPKCS2048"
)

// AllKeyKinds lists the six kinds of the property statements.
var AllKeyKinds = []KeyKind{P256, P384, RSA2048, PKCS3072, PSS2048, PSS3072}

// Type returns the protocol key type.
func (k KeyKind) Type() protocol.KeyType {
	switch k {
	case P256:
		return protocol.Secp256r1KeyType
	case P384:
		return protocol.Secp384r1KeyType
	case RSA2048:
		return protocol.Rsa2048RestrKeyType
	case PKCS3072, PKCS2048:
		return protocol.RsaPkcsKeyType
	case PSS2048, PSS3072:
		return protocol.RsaPssKeyType
	}
	panic("bad key kind " + string(k))
}

// Bits returns the RSA size or 0.
func (k KeyKind) Bits() int {
	switch k {
	case RSA2048, PSS2048, PKCS2048:
		return 2048
	case PKCS3072, PSS3072:
		return 3072
	}
	return 0
}

// IsRSA reports whether the kind is an RSA kind.
func (k KeyKind) IsRSA() bool { return k.Bits() != 0 }

// PSS reports whether PSS signing is used.
func (k KeyKind) PSS() bool { return k == PSS2048 || k == PSS3072 }

// KeyAlloc hands out pool keys that are pairwise distinct within one world (at most 16 RSA keys
// of a size per world).
type KeyAlloc struct {
	mu   sync.Mutex
	next map[int]int
	base int
}

var allocBase int64

// NewKeyAlloc starts an allocation at a rotating offset of the pool.
func NewKeyAlloc() *KeyAlloc {
	rsaPoolMu.Lock()
	allocBase += 5
	b := int(allocBase)
	rsaPoolMu.Unlock()
	return &KeyAlloc{next: map[int]int{}, base: b}
}

// NewKey returns a key of the kind, distinct from every other key of this allocation.
func (a *KeyAlloc) NewKey(k KeyKind) crypto.Signer {
	if !k.IsRSA() {
		return k.NewKey()
	}
	a.mu.Lock()
	i := a.next[k.Bits()]
	a.next[k.Bits()] = i + 1
	a.mu.Unlock()
	if i >= 16 {
		key, err := rsa.GenerateKey(rand.Reader, k.Bits())
		if err != nil {
			panic(err)
		}
		return key
	}
	return RSAKey(k.Bits(), a.base+i)
}

// NewParty creates a party whose key is distinct within the allocation.
func (a *KeyAlloc) NewParty(name string, kind KeyKind) *Party {
	key := a.NewKey(kind)
	return &Party{Name: name, Kind: kind, Key: key, Chain: SelfSigned(key, name)}
}

// NewKey makes a private key of the kind (RSA keys come from the pool).
func (k KeyKind) NewKey() crypto.Signer {
	switch k {
	case P256:
		key, err := ecdsa.GenerateKey(elliptic.P256(), rand.Reader)
		if err != nil {
			panic(err)
		}
		return key
	case P384:
		key, err := ecdsa.GenerateKey(elliptic.P384(), rand.Reader)
		if err != nil {
			panic(err)
		}
		return key
	}
	return NextRSAKey(k.Bits())
}

// SelfSigned returns a one-element certificate chain for key.
func SelfSigned(key crypto.Signer, cn string) []*x509.Certificate {
	tmpl := &x509.Certificate{
		SerialNumber:          big.NewInt(time.Now().UnixNano()),
		Subject:               pkix.Name{CommonName: cn},
		NotBefore:             time.Now().Add(-time.Hour),
		NotAfter:              time.Now().Add(30 * 365 * 24 * time.Hour),
		BasicConstraintsValid: true,
		IsCA:                  true,
		KeyUsage:              x509.KeyUsageCertSign | x509.KeyUsageDigitalSignature,
	}
	der, err := x509.CreateCertificate(rand.Reader, tmpl, tmpl, key.Public(), key)
	if err != nil {
		panic(err)
	}
	cert, err := x509.ParseCertificate(der)
	if err != nil {
		panic(err)
	}
	return []*x509.Certificate{cert}
}

// Party is a named key holder (manufacturer, owner, stranger).
type Party struct {
	Name  string
	Kind  KeyKind
	Key   crypto.Signer
	Chain []*x509.Certificate
}

// NewParty creates a party with a fresh key of the kind.
func NewParty(name string, kind KeyKind) *Party {
	key := kind.NewKey()
	return &Party{Name: name, Kind: kind, Key: key, Chain: SelfSigned(key, name)}
}

// PublicKey encodes the party's key in the requested encoding.
func (p *Party) PublicKey(enc protocol.KeyEncoding) protocol.PublicKey {
	pk, err := p.PublicKeyErr(enc)
	if err != nil {
		panic(err)
	}
	return pk
}

// PublicKeyErr is PublicKey for encodings that come from a peer (an RSA key has no COSE encoding).
func (p *Party) PublicKeyErr(enc protocol.KeyEncoding) (protocol.PublicKey, error) {
	var pk *protocol.PublicKey
	var err error
	switch enc {
	case protocol.X5ChainKeyEnc:
		pk, err = protocol.NewPublicKey(p.Kind.Type(), p.Chain, false)
	default:
		switch pub := p.Key.Public().(type) {
		case *ecdsa.PublicKey:
			pk, err = protocol.NewPublicKey(p.Kind.Type(), pub, enc == protocol.CoseKeyEnc)
		case *rsa.PublicKey:
			pk, err = protocol.NewPublicKey(p.Kind.Type(), pub, enc == protocol.CoseKeyEnc)
		}
	}
	if err != nil {
		return protocol.PublicKey{}, err
	}
	return *pk, nil
}

// KeyStore implements fdo.OwnerKeyPersistentState (and the manufacturer key lookup) over one party
// per key type. It is deliberately immutable after construction (shared across goroutines).
type KeyStore struct {
	mu      sync.RWMutex
	parties map[string]*Party
	// NoChain suppresses the certificate chain (forces X509 encoding of the owner key).
	NoChain bool
}

func ksKey(t protocol.KeyType, bits int) string {
	switch t {
	case protocol.Rsa2048RestrKeyType:
		bits = 2048
	case protocol.Secp256r1KeyType, protocol.Secp384r1KeyType:
		bits = 0
	}
	return fmt.Sprintf("%d/%d", t, bits)
}

// NewKeyStore builds a key store from parties.
func NewKeyStore(ps ...*Party) *KeyStore {
	ks := &KeyStore{parties: map[string]*Party{}}
	for _, p := range ps {
		ks.parties[ksKey(p.Kind.Type(), p.Kind.Bits())] = p
	}
	return ks
}

// Set replaces the party used for its key type.
func (ks *KeyStore) Set(p *Party) {
	ks.mu.Lock()
	ks.parties[ksKey(p.Kind.Type(), p.Kind.Bits())] = p
	ks.mu.Unlock()
}

// Party returns the party for a type.
func (ks *KeyStore) Party(t protocol.KeyType, bits int) *Party {
	ks.mu.RLock()
	defer ks.mu.RUnlock()
	return ks.parties[ksKey(t, bits)]
}

// OwnerKey implements fdo.OwnerKeyPersistentState.
func (ks *KeyStore) OwnerKey(_ context.Context, t protocol.KeyType, bits int) (crypto.Signer, []*x509.Certificate, error) {
	p := ks.Party(t, bits)
	if p == nil {
		return nil, nil, fdo.ErrNotFound
	}
	if ks.NoChain {
		return p.Key, nil, nil
	}
	return p.Key, p.Chain, nil
}

// ManufacturerKey mirrors the method of the test backends.
func (ks *KeyStore) ManufacturerKey(ctx context.Context, t protocol.KeyType, bits int) (crypto.Signer, []*x509.Certificate, error) {
	return ks.OwnerKey(ctx, t, bits)
}
