// Package cb is an independent CBOR tree codec written from RFC 8949 / spec/Cbor.tla. It shares no
// code with go-fdo/cbor and serves as (a) the reference decoder/encoder for C11/C12 and (b) the
// structure-aware mutation layer of the adversaries (CBOR tree with byte offsets).
package cb

import (
	"bytes"
	"encoding/binary"
	"errors"
	"fmt"
	"sort"
)

// Node is one CBOR data item.
type Node struct {
	Major uint8  // 0..7
	Val   uint64 // argument: integer value (for major 1: n encodes -1-n), length, tag number, simple value / float bits
	AI    uint8  // additional information as decoded (0..27, 31); 0xff: encode minimally
	Bytes []byte // majors 2, 3
	Kids  []*Node
	// Offsets of the item in the decoded source (Start inclusive, End exclusive).
	Start, End int
	Indef      bool // indefinite length (arrays, maps, strings)
}

// Errors.
var (
	ErrTruncated = errors.New("cb: truncated")
	ErrReserved  = errors.New("cb: reserved additional information")
	ErrBreak     = errors.New("cb: unexpected break")
	ErrDepth     = errors.New("cb: nesting too deep")
)

// MaxDepth bounds recursion of the reference decoder.
const MaxDepth = 512

// Decode decodes one item from b and returns it with the number of bytes consumed.
func Decode(b []byte) (*Node, int, error) {
	n, end, err := decodeAt(b, 0, 0)
	return n, end, err
}

// DecodeAll decodes exactly one item spanning all of b.
func DecodeAll(b []byte) (*Node, error) {
	n, end, err := Decode(b)
	if err != nil {
		return nil, err
	}
	if end != len(b) {
		return nil, fmt.Errorf("cb: %d trailing bytes", len(b)-end)
	}
	return n, nil
}

func decodeAt(b []byte, off, depth int) (*Node, int, error) {
	if depth > MaxDepth {
		return nil, off, ErrDepth
	}
	if off >= len(b) {
		return nil, off, ErrTruncated
	}
	ib := b[off]
	n := &Node{Major: ib >> 5, AI: ib & 0x1f, Start: off}
	p := off + 1
	switch {
	case n.AI < 24:
		n.Val = uint64(n.AI)
	case n.AI == 24:
		if p+1 > len(b) {
			return nil, off, ErrTruncated
		}
		n.Val = uint64(b[p])
		p++
	case n.AI == 25:
		if p+2 > len(b) {
			return nil, off, ErrTruncated
		}
		n.Val = uint64(binary.BigEndian.Uint16(b[p:]))
		p += 2
	case n.AI == 26:
		if p+4 > len(b) {
			return nil, off, ErrTruncated
		}
		n.Val = uint64(binary.BigEndian.Uint32(b[p:]))
		p += 4
	case n.AI == 27:
		if p+8 > len(b) {
			return nil, off, ErrTruncated
		}
		n.Val = binary.BigEndian.Uint64(b[p:])
		p += 8
	case n.AI == 31:
		switch n.Major {
		case 2, 3, 4, 5:
			n.Indef = true
		case 7:
			return nil, off, ErrBreak
		default:
			return nil, off, ErrReserved
		}
	default:
		return nil, off, ErrReserved
	}
	switch n.Major {
	case 0, 1, 7:
	case 2, 3:
		if n.Indef {
			for {
				if p >= len(b) {
					return nil, off, ErrTruncated
				}
				if b[p] == 0xff {
					p++
					break
				}
				c, e, err := decodeAt(b, p, depth+1)
				if err != nil {
					return nil, off, err
				}
				if c.Major != n.Major || c.Indef {
					return nil, off, errors.New("cb: bad chunk in indefinite string")
				}
				n.Bytes = append(n.Bytes, c.Bytes...)
				n.Kids = append(n.Kids, c)
				p = e
			}
			break
		}
		if n.Val > uint64(len(b)-p) {
			return nil, off, ErrTruncated
		}
		n.Bytes = b[p : p+int(n.Val)]
		p += int(n.Val)
	case 4, 5:
		cnt := n.Val
		if n.Major == 5 {
			if cnt > uint64(len(b)) {
				return nil, off, ErrTruncated
			}
			cnt *= 2
		}
		if !n.Indef && cnt > uint64(len(b)-p) {
			return nil, off, ErrTruncated // each item needs at least one byte
		}
		for i := uint64(0); n.Indef || i < cnt; i++ {
			if n.Indef {
				if p >= len(b) {
					return nil, off, ErrTruncated
				}
				if b[p] == 0xff {
					p++
					if n.Major == 5 && len(n.Kids)%2 != 0 {
						return nil, off, errors.New("cb: odd number of items in indefinite map")
					}
					break
				}
			}
			c, e, err := decodeAt(b, p, depth+1)
			if err != nil {
				return nil, off, err
			}
			n.Kids = append(n.Kids, c)
			p = e
		}
	case 6:
		c, e, err := decodeAt(b, p, depth+1)
		if err != nil {
			return nil, off, err
		}
		n.Kids = []*Node{c}
		p = e
	}
	n.End = p
	return n, p, nil
}

func head(major uint8, ai uint8, v uint64) []byte {
	m := major << 5
	if ai == 0xff {
		switch {
		case v < 24:
			return []byte{m | uint8(v)}
		case v <= 0xff:
			return []byte{m | 24, uint8(v)}
		case v <= 0xffff:
			return []byte{m | 25, uint8(v >> 8), uint8(v)}
		case v <= 0xffffffff:
			o := make([]byte, 5)
			o[0] = m | 26
			binary.BigEndian.PutUint32(o[1:], uint32(v))
			return o
		default:
			o := make([]byte, 9)
			o[0] = m | 27
			binary.BigEndian.PutUint64(o[1:], v)
			return o
		}
	}
	switch {
	case ai < 24:
		return []byte{m | ai}
	case ai == 24:
		return []byte{m | 24, uint8(v)}
	case ai == 25:
		return []byte{m | 25, uint8(v >> 8), uint8(v)}
	case ai == 26:
		o := make([]byte, 5)
		o[0] = m | 26
		binary.BigEndian.PutUint32(o[1:], uint32(v))
		return o
	case ai == 27:
		o := make([]byte, 9)
		o[0] = m | 27
		binary.BigEndian.PutUint64(o[1:], v)
		return o
	}
	return []byte{m | ai}
}

// Encode encodes the tree. Nodes with AI == 0xff get shortest-form heads with the length taken
// from the content; nodes with a decoded AI keep their head width and claimed argument.
func (n *Node) Encode() []byte {
	var buf bytes.Buffer
	n.encode(&buf)
	return buf.Bytes()
}

func (n *Node) encode(w *bytes.Buffer) {
	switch n.Major {
	case 0, 1:
		w.Write(head(n.Major, n.AI, n.Val))
	case 7:
		if n.AI == 0xff {
			switch {
			case n.Val < 24:
				w.WriteByte(0xe0 | uint8(n.Val))
			default:
				w.Write([]byte{0xf8, uint8(n.Val)})
			}
			return
		}
		w.Write(head(7, n.AI, n.Val))
	case 2, 3:
		if n.Indef {
			w.WriteByte(n.Major<<5 | 31)
			for _, k := range n.Kids {
				k.encode(w)
			}
			w.WriteByte(0xff)
			return
		}
		v := n.Val
		if n.AI == 0xff {
			v = uint64(len(n.Bytes))
		}
		w.Write(head(n.Major, n.AI, v))
		w.Write(n.Bytes)
	case 4, 5:
		if n.Indef {
			w.WriteByte(n.Major<<5 | 31)
			for _, k := range n.Kids {
				k.encode(w)
			}
			w.WriteByte(0xff)
			return
		}
		v := n.Val
		if n.AI == 0xff {
			v = uint64(len(n.Kids))
			if n.Major == 5 {
				v /= 2
			}
		}
		w.Write(head(n.Major, n.AI, v))
		for _, k := range n.Kids {
			k.encode(w)
		}
	case 6:
		w.Write(head(6, n.AI, n.Val))
		if len(n.Kids) > 0 {
			n.Kids[0].encode(w)
		}
	}
}

// Canon returns a deep copy with minimal heads and bytewise-sorted map keys.
func (n *Node) Canon() *Node {
	c := &Node{Major: n.Major, Val: n.Val, AI: 0xff, Bytes: append([]byte(nil), n.Bytes...)}
	if n.Major == 7 && n.AI >= 25 && n.AI <= 27 {
		c.AI = n.AI // floats keep their width
	}
	if n.Major == 2 || n.Major == 3 {
		return c
	}
	for _, k := range n.Kids {
		c.Kids = append(c.Kids, k.Canon())
	}
	if n.Major == 5 {
		type kv struct {
			k, v *Node
			e    []byte
		}
		var kvs []kv
		for i := 0; i+1 < len(c.Kids); i += 2 {
			kvs = append(kvs, kv{c.Kids[i], c.Kids[i+1], c.Kids[i].Encode()})
		}
		sort.SliceStable(kvs, func(i, j int) bool {
			if len(kvs[i].e) != len(kvs[j].e) {
				// RFC 8949 4.2.1 core deterministic: bytewise lexicographic of the encodings
				return bytes.Compare(kvs[i].e, kvs[j].e) < 0
			}
			return bytes.Compare(kvs[i].e, kvs[j].e) < 0
		})
		c.Kids = c.Kids[:0]
		for _, p := range kvs {
			c.Kids = append(c.Kids, p.k, p.v)
		}
	}
	return c
}

// Clone deep-copies the tree (keeping head widths).
func (n *Node) Clone() *Node {
	c := *n
	c.Bytes = append([]byte(nil), n.Bytes...)
	c.Kids = nil
	for _, k := range n.Kids {
		c.Kids = append(c.Kids, k.Clone())
	}
	return &c
}

// Constructors (minimal heads).

// Uint makes an unsigned integer.
func Uint(v uint64) *Node { return &Node{Major: 0, Val: v, AI: 0xff} }

// Int makes an integer.
func Int(v int64) *Node {
	if v >= 0 {
		return Uint(uint64(v))
	}
	return &Node{Major: 1, Val: uint64(-1 - v), AI: 0xff}
}

// Nint makes the negative integer -1-n.
func Nint(n uint64) *Node { return &Node{Major: 1, Val: n, AI: 0xff} }

// Bstr makes a byte string.
func Bstr(b []byte) *Node { return &Node{Major: 2, AI: 0xff, Bytes: b} }

// Tstr makes a text string.
func Tstr(s string) *Node { return &Node{Major: 3, AI: 0xff, Bytes: []byte(s)} }

// Arr makes an array.
func Arr(kids ...*Node) *Node { return &Node{Major: 4, AI: 0xff, Kids: kids} }

// Map makes a map from alternating keys and values.
func Map(kv ...*Node) *Node { return &Node{Major: 5, AI: 0xff, Kids: kv} }

// Tag wraps a node in a tag.
func Tag(num uint64, kid *Node) *Node { return &Node{Major: 6, AI: 0xff, Val: num, Kids: []*Node{kid}} }

// Simple values.
func Bool(b bool) *Node {
	if b {
		return &Node{Major: 7, AI: 0xff, Val: 21}
	}
	return &Node{Major: 7, AI: 0xff, Val: 20}
}

// Null is the null value.
func Null() *Node { return &Node{Major: 7, AI: 0xff, Val: 22} }

// Undefined is the undefined value.
func Undefined() *Node { return &Node{Major: 7, AI: 0xff, Val: 23} }

// Wrap makes a byte string holding the encoding of kid.
func Wrap(kid *Node) *Node { return Bstr(kid.Encode()) }

// IsNull reports null/undefined.
func (n *Node) IsNull() bool {
	return n.Major == 7 && (n.Val == 22 || n.Val == 23) && n.AI < 24 || n.Major == 7 && n.AI == 0xff && (n.Val == 22 || n.Val == 23)
}

// Inner decodes the content of a byte string as CBOR.
func (n *Node) Inner() (*Node, error) {
	if n.Major != 2 {
		return nil, fmt.Errorf("cb: not a byte string")
	}
	return DecodeAll(n.Bytes)
}

// MustInner is Inner that panics.
func (n *Node) MustInner() *Node {
	c, err := n.Inner()
	if err != nil {
		panic(err)
	}
	return c
}

// SetInner replaces the byte string content with the encoding of kid.
func (n *Node) SetInner(kid *Node) {
	n.Bytes = kid.Encode()
	n.AI = 0xff
}

// Untag returns the tagged child or n itself.
func (n *Node) Untag() *Node {
	for n.Major == 6 && len(n.Kids) == 1 {
		n = n.Kids[0]
	}
	return n
}

// MapGet finds the value for an integer key in a map.
func (n *Node) MapGet(key int64) *Node {
	for i := 0; i+1 < len(n.Kids); i += 2 {
		k := n.Kids[i]
		if key >= 0 && k.Major == 0 && k.Val == uint64(key) || key < 0 && k.Major == 1 && k.Val == uint64(-1-key) {
			return n.Kids[i+1]
		}
	}
	return nil
}

// MapDel removes an integer key from a map.
func (n *Node) MapDel(key int64) {
	for i := 0; i+1 < len(n.Kids); i += 2 {
		k := n.Kids[i]
		if key >= 0 && k.Major == 0 && k.Val == uint64(key) || key < 0 && k.Major == 1 && k.Val == uint64(-1-key) {
			n.Kids = append(n.Kids[:i], n.Kids[i+2:]...)
			n.AI = 0xff
			return
		}
	}
}

// MapSet sets an integer key.
func (n *Node) MapSet(key int64, v *Node) {
	for i := 0; i+1 < len(n.Kids); i += 2 {
		k := n.Kids[i]
		if key >= 0 && k.Major == 0 && k.Val == uint64(key) || key < 0 && k.Major == 1 && k.Val == uint64(-1-key) {
			n.Kids[i+1] = v
			return
		}
	}
	n.Kids = append(n.Kids, Int(key), v)
	n.AI = 0xff
}

// Walk visits every node depth first with its path.
func (n *Node) Walk(f func(path []int, n *Node)) { n.walk(nil, f) }

func (n *Node) walk(path []int, f func([]int, *Node)) {
	f(path, n)
	for i, k := range n.Kids {
		k.walk(append(append([]int(nil), path...), i), f)
	}
}

// At navigates by child indices.
func (n *Node) At(path ...int) *Node {
	for _, i := range path {
		if i >= len(n.Kids) {
			return nil
		}
		n = n.Kids[i]
	}
	return n
}

// Equal compares canonical encodings.
func Equal(a, b *Node) bool { return bytes.Equal(a.Canon().Encode(), b.Canon().Encode()) }

// String renders diagnostic notation (short).
func (n *Node) String() string {
	switch n.Major {
	case 0:
		return fmt.Sprint(n.Val)
	case 1:
		if n.Val == ^uint64(0) {
			return "-18446744073709551616"
		}
		return fmt.Sprintf("-%d", n.Val+1)
	case 2:
		return fmt.Sprintf("h'%x'", n.Bytes)
	case 3:
		return fmt.Sprintf("%q", n.Bytes)
	case 4:
		s := "["
		for i, k := range n.Kids {
			if i > 0 {
				s += ", "
			}
			s += k.String()
		}
		return s + "]"
	case 5:
		s := "{"
		for i := 0; i+1 < len(n.Kids); i += 2 {
			if i > 0 {
				s += ", "
			}
			s += n.Kids[i].String() + ": " + n.Kids[i+1].String()
		}
		return s + "}"
	case 6:
		return fmt.Sprintf("%d(%s)", n.Val, n.Kids[0].String())
	default:
		switch n.Val {
		case 20:
			return "false"
		case 21:
			return "true"
		case 22:
			return "null"
		case 23:
			return "undefined"
		}
		return fmt.Sprintf("simple(%d)", n.Val)
	}
}
