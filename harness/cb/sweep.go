package cb

import "fmt"

// SweepCase is one single-point structural mutant of a message.
type SweepCase struct {
	Body []byte
	What string // "<path>:<atom>", path elements separated by '.', '~' descends into CBOR held by a byte string
}

// replacement atoms tried at every node
var sweepAtoms = []struct {
	name string
	mk   func() *Node
}{
	{"null", Null},
	{"undefined", Undefined},
	{"arr0", func() *Node { return Arr() }},
	{"arr-null", func() *Node { return Arr(Null()) }},
	{"arr-arr0", func() *Node { return Arr(Arr()) }},
	{"map0", func() *Node { return Map() }},
	{"bstr0", func() *Node { return Bstr(nil) }},
	{"tstr0", func() *Node { return Tstr("") }},
	{"zero", func() *Node { return Uint(0) }},
	{"minus1", func() *Node { return Int(-1) }},
	{"max64", func() *Node { return Uint(1<<64 - 1) }},
	{"true", func() *Node { return Bool(true) }},
	{"tag-null", func() *Node { return Tag(18, Null()) }},
	{"bstr-null", func() *Node { return Bstr([]byte{0xf6}) }},
}

// Sweep enumerates, deterministically, every single-point structural mutant of the tree: each node
// (including nodes of CBOR nested in byte strings, to the given depth) replaced by each atom; for
// arrays and maps an element dropped, duplicated, replaced by null or a null appended; for strings
// a claimed length larger than the content; for integers their neighbours and the type boundary.
// The order is stable for a given structure, so an index identifies a mutant.
func Sweep(orig *Node, nest int) []SweepCase {
	var out []SweepCase
	sweepInto(orig, nest, "", func(b []byte, what string) { out = append(out, SweepCase{b, what}) })
	return out
}

func sweepInto(orig *Node, nest int, prefix string, emit func([]byte, string)) {
	type pn struct {
		path []int
	}
	var paths [][]int
	orig.Walk(func(p []int, _ *Node) { paths = append(paths, append([]int(nil), p...)) })
	for _, p := range paths {
		ps := prefix + pathString(p)
		at := func() (*Node, *Node) {
			t := orig.Clone()
			return t, t.At(p...)
		}
		for _, a := range sweepAtoms {
			t, n := at()
			*n = *a.mk()
			emit(t.Encode(), ps+":"+a.name)
		}
		_, cur := at()
		switch cur.Major {
		case 0, 1:
			for _, d := range []struct {
				name string
				f    func(n *Node)
			}{
				{"plus1", func(n *Node) { n.Val++ }},
				{"flip-sign", func(n *Node) { n.Major ^= 1 }},
				{"u32max", func(n *Node) { n.Val = 1<<32 - 1 }},
				{"i63", func(n *Node) { n.Val = 1 << 63 }},
			} {
				t, n := at()
				d.f(n)
				n.AI = 0xff
				emit(t.Encode(), ps+":"+d.name)
			}
		case 2, 3:
			for _, v := range []uint64{uint64(len(cur.Bytes)) + 1, 99999, 1 << 32, 1<<64 - 1} {
				t, n := at()
				n.Val, n.AI = v, aiFor(v)
				emit(t.Encode(), fmt.Sprintf("%s:len-claim-%d", ps, v))
			}
			{
				t, n := at()
				n.Major ^= 1 // bstr <-> tstr
				emit(t.Encode(), ps+":string-type-swap")
			}
			if len(cur.Bytes) > 0 {
				t, n := at()
				n.Bytes, n.AI = append([]byte(nil), cur.Bytes[:len(cur.Bytes)-1]...), 0xff
				emit(t.Encode(), ps+":shorter")
				t, n = at()
				n.Bytes, n.AI = append(append([]byte(nil), cur.Bytes...), 0), 0xff
				emit(t.Encode(), ps+":longer")
			}
			if cur.Major == 2 && nest > 0 && len(cur.Bytes) > 0 {
				if in, err := cur.Inner(); err == nil && (in.Major >= 4 && in.Major <= 6) {
					sweepInto(in, nest-1, ps+"~", func(b []byte, what string) {
						t, n := at()
						n.Bytes, n.AI = b, 0xff
						emit(t.Encode(), what)
					})
				}
			}
		case 4, 5:
			step := 1
			if cur.Major == 5 {
				step = 2
			}
			if len(cur.Kids) >= step {
				t, n := at()
				n.Kids, n.AI = n.Kids[step:], 0xff
				emit(t.Encode(), ps+":drop-first")
				t, n = at()
				n.Kids, n.AI = n.Kids[:len(n.Kids)-step], 0xff
				emit(t.Encode(), ps+":drop-last")
				t, n = at()
				for i := 0; i < step; i++ {
					n.Kids = append(n.Kids, n.Kids[len(n.Kids)-step].Clone())
				}
				n.AI = 0xff
				emit(t.Encode(), ps+":dup-last")
			}
			{
				t, n := at()
				for i := 0; i < step; i++ {
					n.Kids = append(n.Kids, Null())
				}
				n.AI = 0xff
				emit(t.Encode(), ps+":append-null")
				t, n = at()
				for i := range n.Kids {
					n.Kids[i] = Null()
				}
				emit(t.Encode(), ps+":all-null")
				for _, v := range []uint64{uint64(len(cur.Kids)/step) + 1, 99999, 1<<64 - 1} {
					t, n = at()
					n.Val, n.AI = v, aiFor(v)
					emit(t.Encode(), fmt.Sprintf("%s:count-claim-%d", ps, v))
				}
				t, n = at()
				if n.Major == 4 {
					n.Major = 5
					if len(n.Kids)%2 == 1 {
						n.Kids = append(n.Kids, Null())
					}
				} else {
					n.Major = 4
				}
				n.AI = 0xff
				emit(t.Encode(), ps+":array-map-swap")
			}
		case 6:
			for _, v := range []uint64{0, 16, 17, 18, 61, 96, 1<<64 - 1} {
				if v == cur.Val {
					continue
				}
				t, n := at()
				n.Val, n.AI = v, 0xff
				emit(t.Encode(), fmt.Sprintf("%s:tag-%d", ps, v))
			}
			t, n := at()
			if len(n.Kids) == 1 {
				*n = *n.Kids[0]
				emit(t.Encode(), ps+":untag")
			}
		}
	}
}

func pathString(p []int) string {
	s := ""
	for i, x := range p {
		if i > 0 {
			s += "."
		}
		s += fmt.Sprint(x)
	}
	if s == "" {
		return "/"
	}
	return s
}
