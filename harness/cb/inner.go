package cb

import (
	"bytes"
	"crypto/ecdsa"
	"crypto/ed25519"
	"crypto/elliptic"
	"crypto/rand"
	"crypto/rsa"
	"crypto/x509"
	"encoding/binary"
	"fmt"
	"sync"
)

// This file holds the "inner framing" mutation family: mutants of the binary structure that a CBOR
// byte string carries below the CBOR level (length-prefixed fields, big-endian numbers of a fixed
// width, fixed-size ciphertext blocks, DER). The CBOR around it stays well formed, so the mutant
// survives the CBOR decoder (and, when the caller repairs signatures / encrypts with session keys,
// the integrity checks) and reaches the code that interprets the bytes.

// site is one node of a message tree, possibly inside CBOR carried by byte strings, together with
// a function that rebuilds the whole message with the node replaced.
type site struct {
	path    string
	cur     *Node
	rebuild func(repl *Node) []byte
}

// sites enumerates every node of orig for which want returns true, descending into byte strings
// that hold a CBOR array, map or tag, to the given depth. The order is stable.
func sites(orig *Node, nest int, prefix string, want func(*Node) bool, wrap func([]byte) []byte, out *[]site) {
	var paths [][]int
	orig.Walk(func(p []int, _ *Node) { paths = append(paths, append([]int(nil), p...)) })
	for _, p := range paths {
		p := p
		ps := prefix + pathString(p)
		cur := orig.At(p...)
		rebuild := func(repl *Node) []byte {
			t := orig.Clone()
			*t.At(p...) = *repl
			b := t.Encode()
			if wrap != nil {
				return wrap(b)
			}
			return b
		}
		if want(cur) {
			*out = append(*out, site{ps, cur, rebuild})
		}
		if cur.Major == 2 && nest > 0 && len(cur.Bytes) > 0 {
			if in, err := cur.Inner(); err == nil && in.Major >= 4 && in.Major <= 6 {
				sites(in, nest-1, ps+"~", want, func(b []byte) []byte { return rebuild(Bstr(b)) }, out)
			}
		}
	}
}

// holdsCBOR reports whether a byte string carries a CBOR container (those are mutated at the CBOR level).
func holdsCBOR(n *Node) bool {
	if n.Major != 2 || len(n.Bytes) == 0 {
		return false
	}
	in, err := n.Inner()
	return err == nil && in.Major >= 4 && in.Major <= 6
}

// frames parses b as a sequence of fields each preceded by a big-endian length of w bytes,
// consuming all of b. It returns nil when b has no such structure.
func frames(b []byte, w int) [][]byte {
	var out [][]byte
	for len(b) > 0 {
		if len(b) < w {
			return nil
		}
		var n uint64
		for i := 0; i < w; i++ {
			n = n<<8 | uint64(b[i])
		}
		b = b[w:]
		if uint64(len(b)) < n {
			return nil
		}
		out = append(out, b[:n])
		b = b[n:]
		if len(out) > 16 {
			return nil
		}
	}
	return out
}

type frame struct {
	claim uint64 // the length that is written
	data  []byte
}

func putFrames(fs []frame, w int) []byte {
	var b []byte
	for _, f := range fs {
		var l [8]byte
		binary.BigEndian.PutUint64(l[:], f.claim)
		b = append(b, l[8-w:]...)
		b = append(b, f.data...)
	}
	return b
}

func fill(n int, v byte) []byte { return bytes.Repeat([]byte{v}, n) }

// nonzeroLead makes sure the first byte of a field is not zero (a number that really needs its width).
func nonzeroLead(d []byte) []byte {
	o := append([]byte(nil), d...)
	if len(o) > 0 && o[0] == 0 {
		o[0] = 0x80
	}
	return o
}

type binMut struct {
	name string
	b    []byte
}

// valueMutants: the byte string as one big-endian number / fixed-size block of a width the receiver
// expects: other widths (odd, shorter, longer), extreme values.
func valueMutants(b []byte) []binMut {
	n := len(b)
	out := []binMut{
		{"lead-00", append([]byte{0}, b...)},
		{"lead-ff", append([]byte{0xff}, b...)},
		{"zeros", fill(n, 0)},
		{"ones", fill(n, 0xff)},
		{"double", append(append([]byte(nil), b...), b...)},
	}
	if n >= 2 {
		out = append(out, binMut{"drop-lead", append([]byte(nil), b[1:]...)}, binMut{"one-byte", []byte{b[0]}}, binMut{"half", append([]byte(nil), b[:n/2]...)},
			binMut{"lead-zeroed", append([]byte{0}, b[1:]...)})
	}
	if n >= 3 {
		out = append(out, binMut{"drop-lead2", append([]byte(nil), b[2:]...)})
	}
	return out
}

// frameMutants: b is a sequence of length-prefixed fields (prefix width w): each field shorter,
// longer, empty, of an extreme value or with a length that disagrees with its content; fields
// dropped, duplicated, swapped; lengths of neighbouring fields made to differ in both directions.
func frameMutants(b []byte, w int) []binMut {
	fs := frames(b, w)
	if len(fs) == 0 || (len(fs) == 1 && len(fs[0]) == 0) {
		return nil
	}
	base := func() []frame {
		o := make([]frame, len(fs))
		for i, d := range fs {
			o[i] = frame{uint64(len(d)), append([]byte(nil), d...)}
		}
		return o
	}
	maxClaim := uint64(1)<<(8*uint(w)) - 1
	if w >= 8 {
		maxClaim = 1<<64 - 1
	}
	var out []binMut
	add := func(name string, o []frame) { out = append(out, binMut{fmt.Sprintf("len%d-%s", 8*w, name), putFrames(o, w)}) }
	set := func(i int, d []byte) []frame {
		o := base()
		o[i] = frame{uint64(len(d)), d}
		return o
	}
	for i, d := range fs {
		f := fmt.Sprintf("f%d-", i)
		if len(d) > 0 {
			add(f+"short", set(i, nonzeroLead(d)[1:]))
			add(f+"short2", set(i, d[:len(d)/2]))
			add(f+"empty", set(i, nil))
			add(f+"zeros", set(i, fill(len(d), 0)))
			add(f+"ones", set(i, fill(len(d), 0xff)))
		}
		add(f+"long-ff", set(i, append([]byte{0xff}, d...)))
		add(f+"long-00", set(i, append([]byte{0}, d...)))
		add(f+"double", set(i, append(append([]byte(nil), nonzeroLead(d)...), d...)))
		add(f+"big", set(i, fill(1024, 0xa5)))
		// all the other fields shorter than this one (this one keeps a leading non-zero byte)
		if len(fs) > 1 && len(d) > 1 {
			o := base()
			o[i].data = nonzeroLead(d)
			for j := range o {
				if j != i && len(o[j].data) > 0 {
					o[j].data = o[j].data[1:]
					o[j].claim = uint64(len(o[j].data))
				}
			}
			add(f+"others-short", o)
		}
		// the written length disagrees with the content
		for _, c := range []struct {
			name string
			v    uint64
		}{{"claim-plus1", uint64(len(d)) + 1}, {"claim-minus1", uint64(len(d)) - 1}, {"claim-zero", 0}, {"claim-max", maxClaim}} {
			if c.v == uint64(len(d)) || (len(d) == 0 && c.name == "claim-minus1") {
				continue
			}
			o := base()
			o[i].claim = c.v
			add(f+c.name, o)
		}
		{
			o := base()
			o = append(o[:i:i], o[i+1:]...)
			add(f+"dropped", o)
			o = base()
			o = append(o[:i+1:i+1], append([]frame{o[i]}, o[i+1:]...)...)
			add(f+"duplicated", o)
		}
		if i+1 < len(fs) {
			o := base()
			o[i], o[i+1] = o[i+1], o[i]
			add(f+"swapped", o)
		}
	}
	// cut in the middle of the last length prefix / the last field
	add("cut-prefix", append(base()[:len(fs)-1:len(fs)-1], frame{0, nil}))
	out[len(out)-1].b = out[len(out)-1].b[:len(out[len(out)-1].b)-1]
	if n := len(fs[len(fs)-1]); n > 0 {
		whole := putFrames(base(), w)
		out = append(out, binMut{fmt.Sprintf("len%d-cut-last", 8*w), whole[:len(whole)-1]})
	}
	add("extra-field", append(base(), frame{4, []byte{1, 2, 3, 4}}))
	return out
}

// derLen reads a DER length at b[1:]; it returns header size and content length (ok only when the
// element spans exactly b).
func derLen(b []byte) (hdr, n int, ok bool) {
	if len(b) < 2 {
		return 0, 0, false
	}
	l := int(b[1])
	if l < 0x80 {
		return 2, l, 2+l == len(b)
	}
	k := l & 0x7f
	if k == 0 || k > 3 || len(b) < 2+k {
		return 0, 0, false
	}
	for i := 0; i < k; i++ {
		n = n<<8 | int(b[2+i])
	}
	return 2 + k, n, 2+k+n == len(b)
}

var otherKeysOnce sync.Once
var otherKeys []binMut

// otherPublicKeys are well-formed SubjectPublicKeyInfo structures of kinds a receiver may not expect.
func otherPublicKeys() []binMut {
	otherKeysOnce.Do(func() {
		add := func(name string, pub any) {
			if der, err := x509.MarshalPKIXPublicKey(pub); err == nil {
				otherKeys = append(otherKeys, binMut{"der-key-" + name, der})
			}
		}
		for _, c := range []struct {
			name  string
			curve elliptic.Curve
		}{{"p224", elliptic.P224()}, {"p256", elliptic.P256()}, {"p384", elliptic.P384()}, {"p521", elliptic.P521()}} {
			if k, err := ecdsa.GenerateKey(c.curve, rand.Reader); err == nil {
				add(c.name, &k.PublicKey)
			}
		}
		if pub, _, err := ed25519.GenerateKey(rand.Reader); err == nil {
			add("ed25519", pub)
		}
		if k, err := rsa.GenerateKey(rand.Reader, 1024); err == nil {
			add("rsa1024", &k.PublicKey)
			// an RSA key with a tiny modulus and a huge exponent
			add("rsa-tiny", &rsa.PublicKey{N: k.PublicKey.N, E: 1<<31 - 1})
		}
	})
	return otherKeys
}

// derMutants: b is one DER element spanning the whole string: lengths that disagree with the
// content at the outer and the first inner level, indefinite and oversized length forms; a public
// key replaced by well-formed keys of other kinds.
func derMutants(b []byte) []binMut {
	if len(b) < 4 || b[0] != 0x30 {
		return nil
	}
	hdr, n, ok := derLen(b)
	if !ok {
		return nil
	}
	var out []binMut
	relen := func(name string, lenBytes []byte) {
		o := append([]byte{b[0]}, lenBytes...)
		out = append(out, binMut{name, append(o, b[hdr:]...)})
	}
	enc := func(v int) []byte {
		switch {
		case v < 0x80:
			return []byte{byte(v)}
		case v < 0x100:
			return []byte{0x81, byte(v)}
		default:
			return []byte{0x82, byte(v >> 8), byte(v)}
		}
	}
	relen("der-len-plus1", enc(n+1))
	if n > 0 {
		relen("der-len-minus1", enc(n-1))
	}
	relen("der-len-zero", []byte{0})
	relen("der-len-indef", []byte{0x80})
	relen("der-len-huge", []byte{0x84, 0xff, 0xff, 0xff, 0xff})
	relen("der-len-nonminimal", []byte{0x83, 0, byte(n >> 8), byte(n)})
	if hdr+2 <= len(b) {
		// first inner element: claimed length beyond the outer element
		o := append([]byte(nil), b...)
		if o[hdr+1] < 0x80 {
			o[hdr+1] = 0x7f
		} else if hdr+2 < len(o) {
			o[hdr+2] = 0xff
		}
		out = append(out, binMut{"der-inner-len-over", o})
		o = append([]byte(nil), b...)
		o[hdr] = 0x05 // NULL where a structure is expected
		out = append(out, binMut{"der-inner-tag", o})
	}
	if _, err := x509.ParsePKIXPublicKey(b); err == nil {
		for _, k := range otherPublicKeys() {
			if !bytes.Equal(k.b, b) {
				out = append(out, k)
			}
		}
	}
	return out
}

// Inner enumerates, deterministically, the inner-framing mutants of every byte string of the tree
// (including byte strings of CBOR nested in byte strings, to the given depth). A byte string that
// carries a CBOR container is left to the CBOR-level sweep.
func Inner(orig *Node, nest int) []SweepCase {
	var ss []site
	sites(orig, nest, "", func(n *Node) bool { return n.Major == 2 && len(n.Bytes) > 0 && !holdsCBOR(n) }, nil, &ss)
	var out []SweepCase
	for _, s := range ss {
		var ms []binMut
		framed := false
		for _, w := range []int{2, 1, 4} {
			if fm := frameMutants(s.cur.Bytes, w); fm != nil {
				ms = append(ms, fm...)
				framed = true
				break
			}
		}
		dm := derMutants(s.cur.Bytes)
		ms = append(ms, dm...)
		if !framed || len(s.cur.Bytes) <= 64 {
			ms = append(ms, valueMutants(s.cur.Bytes)...)
		} else {
			ms = append(ms, valueMutants(s.cur.Bytes)[:4]...)
		}
		for _, m := range ms {
			out = append(out, SweepCase{s.rebuild(Bstr(m.b)), s.path + ":inner-" + m.name})
		}
	}
	return out
}
