package cb

import "fmt"

// This file holds the "volume" mutation family: messages that are legal in shape but unusual in
// size - very many small entries in a list, many entries whose neighbours differ (every change of
// key starts a new logical message in service info), many map entries, long strings - up to a
// given encoded size (the transport limit). Nothing is malformed; what is attacked is every
// buffer, channel, table or loop whose size was chosen with honest traffic in mind.

// firstString returns the first text or byte string of the tree (depth first) that does not hold a CBOR container.
func firstString(n *Node) *Node {
	var found *Node
	n.Walk(func(_ []int, x *Node) {
		if found == nil && (x.Major == 2 || x.Major == 3) && !holdsCBOR(x) {
			found = x
		}
	})
	return found
}

// variant returns a clone of e that differs from e in its first string (last byte toggled, or a byte
// appended to an empty string) or, without strings, in its first integer.
func variant(e *Node, k int) *Node {
	c := e.Clone()
	if s := firstString(c); s != nil {
		if len(s.Bytes) == 0 {
			s.Bytes = []byte{'a' + byte(k%2)}
		} else {
			s.Bytes[len(s.Bytes)-1] ^= byte(1 + k%2)
		}
		s.AI = 0xff
		return c
	}
	done := false
	c.Walk(func(_ []int, x *Node) {
		if !done && (x.Major == 0 || x.Major == 1) {
			x.Val, x.AI, done = x.Val+uint64(1+k%2), 0xff, true
		}
	})
	return c
}

// shrunk returns a clone of e with every string cut to one byte (nested CBOR is kept whole).
func shrunk(e *Node) *Node {
	c := e.Clone()
	c.Walk(func(_ []int, x *Node) {
		if (x.Major == 2 || x.Major == 3) && len(x.Bytes) > 1 && !holdsCBOR(x) {
			x.Bytes, x.AI = x.Bytes[:1], 0xff
		}
	})
	return c
}

// LazyCase is a mutant whose (large) encoding is built on demand.
type LazyCase struct {
	What string
	Make func() []byte
}

var volumeCounts = []int{1025}

// countsFor returns the element counts to try given how many fit.
func countsFor(fit int) []int {
	var out []int
	for _, c := range volumeCounts {
		if c < fit {
			out = append(out, c)
		}
	}
	if fit > 1 {
		out = append(out, fit)
	}
	return out
}

// Volume enumerates, deterministically, the volume mutants of the tree: for every array (also in
// CBOR nested in byte strings, to the given depth) entries appended - copies of its last entry,
// copies that alternate between two variants so that no two neighbours are equal, and the same
// with entries shrunk to the smallest size - in several counts up to what fits into limit bytes
// of the whole message; for every map many further integer keys; for every string a long content.
func Volume(orig *Node, nest int, limit int) []LazyCase {
	baseLen := len(orig.Encode())
	room := limit - baseLen - 16 // heads of the grown item and of the byte strings around it may widen
	if room <= 0 {
		return nil
	}
	var ss []site
	sites(orig, nest, "", func(n *Node) bool { return n.Major >= 2 && n.Major <= 5 }, nil, &ss)
	var out []LazyCase
	for _, s := range ss {
		s := s
		cur := s.cur
		switch cur.Major {
		case 4:
			type tmpl struct {
				name string
				mk   func(k int) *Node
			}
			var ts []tmpl
			if len(cur.Kids) > 0 {
				last := cur.Kids[len(cur.Kids)-1]
				small := shrunk(last)
				ts = []tmpl{
					{"same", func(int) *Node { return last }},
					{"alternating", func(k int) *Node { return variant(last, k) }},
				}
				if len(small.Encode()) < len(last.Encode()) {
					ts = append(ts, tmpl{"small-alternating", func(k int) *Node { return variant(small, k) }})
				}
			} else {
				pair := Arr(Tstr("a"), Bstr(nil))
				ts = []tmpl{
					{"ints", func(k int) *Node { return Uint(uint64(k % 2)) }},
					{"pairs-alternating", func(k int) *Node { return variant(pair, k) }},
				}
			}
			for _, t := range ts {
				sz := len(t.mk(1).Encode())
				if l := len(t.mk(0).Encode()); l > sz {
					sz = l
				}
				for _, c := range countsFor(room / sz) {
					t, c := t, c
					out = append(out, LazyCase{fmt.Sprintf("%s:volume-entries-%s-x%d", s.path, t.name, c), func() []byte {
						repl := cur.Clone()
						repl.AI = 0xff
						v0, v1 := t.mk(0), t.mk(1)
						for k := 0; k < c; k++ {
							if k%2 == 0 {
								repl.Kids = append(repl.Kids, v0)
							} else {
								repl.Kids = append(repl.Kids, v1)
							}
						}
						return s.rebuild(repl)
					}})
				}
			}
		case 5:
			for _, c := range countsFor(room / 5) {
				c := c
				out = append(out, LazyCase{fmt.Sprintf("%s:volume-map-keys-x%d", s.path, c), func() []byte {
					repl := cur.Clone()
					repl.AI = 0xff
					for k := 0; k < c; k++ {
						repl.Kids = append(repl.Kids, Uint(uint64(1000+k)), Uint(0))
					}
					return s.rebuild(repl)
				}})
			}
		case 2, 3:
			if holdsCBOR(cur) {
				continue
			}
			for _, c := range countsFor(room) {
				if c != 1025 && c != room {
					continue
				}
				c := c
				out = append(out, LazyCase{fmt.Sprintf("%s:volume-string-x%d", s.path, c), func() []byte {
					repl := cur.Clone()
					repl.AI = 0xff
					pad := byte('a')
					if len(cur.Bytes) > 0 {
						pad = cur.Bytes[len(cur.Bytes)-1]
					}
					for len(repl.Bytes) < len(cur.Bytes)+c {
						repl.Bytes = append(repl.Bytes, pad)
					}
					return s.rebuild(repl)
				}})
			}
		}
	}
	return out
}

// Families of deterministic mutants (C10): "struct" single-point structural mutants (Sweep), "inner"
// mutants of the binary framing inside byte strings (Inner), "volume" legal but very large messages
// (Volume, up to limit bytes).
var Families = []string{"struct", "inner", "volume"}

// Family enumerates the mutants of one family for a message tree.
func Family(fam string, tree *Node, nest, limit int) []LazyCase {
	lazy := func(cs []SweepCase) []LazyCase {
		out := make([]LazyCase, len(cs))
		for i, c := range cs {
			b := c.Body
			out[i] = LazyCase{c.What, func() []byte { return b }}
		}
		return out
	}
	switch fam {
	case "struct":
		return lazy(Sweep(tree, nest))
	case "inner":
		return lazy(Inner(tree, nest))
	case "volume":
		return Volume(tree, nest, limit)
	}
	return nil
}
