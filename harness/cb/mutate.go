package cb

import (
	"math/rand"
)

// Boundary integer arguments used by the structure-aware mutator.
var boundaries = []uint64{0, 1, 22, 23, 24, 25, 255, 256, 257, 65535, 65536, 65537, 1<<32 - 1, 1 << 32, 1<<63 - 1, 1 << 63, 1<<64 - 1, 99999, 100000, 1 << 20, 1 << 31}

// Leaves returns all nodes of the tree (outer structure only; byte strings are leaves).
func (n *Node) Leaves() []*Node {
	var out []*Node
	n.Walk(func(_ []int, x *Node) { out = append(out, x) })
	return out
}

// Mutate applies one structure-aware mutation to a clone of the tree and returns the encoding
// together with a short description. Mutations: integer boundary values, claimed lengths that
// differ from the content, type swaps, null/undefined for any item, count inflation of arrays and
// maps, tag changes, nested byte-string content (when it holds CBOR), deep nesting, truncation,
// trailing data.
func Mutate(orig *Node, rng *rand.Rand) ([]byte, string) {
	t := orig.Clone()
	nodes := t.Leaves()
	n := nodes[rng.Intn(len(nodes))]
	switch k := rng.Intn(14); k {
	case 0: // integer / argument boundary
		v := boundaries[rng.Intn(len(boundaries))]
		switch n.Major {
		case 0, 1:
			n.Val, n.AI = v, 0xff
			if rng.Intn(3) == 0 {
				n.Major ^= 1
			}
			return t.Encode(), "int-boundary"
		case 6:
			n.Val, n.AI = v, 0xff
			return t.Encode(), "tag-number"
		case 2, 3:
			// claimed length differs from the content
			n.Val = v
			n.AI = aiFor(v)
			return t.Encode(), "string-length-claim"
		case 4, 5:
			n.Val = v
			n.AI = aiFor(v)
			return t.Encode(), "count-inflation"
		default:
			n.Val, n.AI = v%256, 0xff
			return t.Encode(), "simple-value"
		}
	case 1: // null / undefined
		*n = *Null()
		if rng.Intn(2) == 0 {
			n.Val = 23
		}
		return t.Encode(), "null"
	case 2: // type swap
		switch n.Major {
		case 2:
			n.Major = 3
		case 3:
			n.Major = 2
		case 4:
			n.Major = 5
			if len(n.Kids)%2 == 1 {
				n.Kids = append(n.Kids, Uint(0))
			}
			n.AI = 0xff
		case 5:
			n.Major = 4
			n.AI = 0xff
		case 0:
			*n = *Tstr("1")
		default:
			*n = *Uint(uint64(rng.Intn(300)))
		}
		return t.Encode(), "type-swap"
	case 3: // empty
		switch n.Major {
		case 2, 3:
			n.Bytes, n.AI = nil, 0xff
		case 4, 5:
			n.Kids, n.AI = nil, 0xff
		default:
			*n = *Arr()
		}
		return t.Encode(), "empty"
	case 4: // grow
		switch n.Major {
		case 2, 3:
			b := make([]byte, 1+rng.Intn(70000))
			rng.Read(b)
			n.Bytes, n.AI = b, 0xff
		case 4:
			for i := 0; i < 1+rng.Intn(300); i++ {
				n.Kids = append(n.Kids, Uint(uint64(i)))
			}
			n.AI = 0xff
		default:
			*n = *Bstr(make([]byte, 300))
		}
		return t.Encode(), "grow"
	case 5: // byte flip in string content
		if (n.Major == 2 || n.Major == 3) && len(n.Bytes) > 0 {
			n.Bytes = append([]byte(nil), n.Bytes...)
			n.Bytes[rng.Intn(len(n.Bytes))] ^= 1 << uint(rng.Intn(8))
			return t.Encode(), "content-flip"
		}
		fallthrough
	case 6: // mutate CBOR nested in a byte string
		if n.Major == 2 {
			if in, err := n.Inner(); err == nil {
				b, what := Mutate(in, rng)
				n.Bytes, n.AI = b, 0xff
				return t.Encode(), "nested:" + what
			}
		}
		fallthrough
	case 7: // drop or duplicate an element
		if (n.Major == 4 || n.Major == 5) && len(n.Kids) > 0 {
			i := rng.Intn(len(n.Kids))
			if rng.Intn(2) == 0 {
				n.Kids = append(n.Kids[:i:i], n.Kids[i+1:]...)
			} else {
				n.Kids = append(n.Kids, n.Kids[i].Clone())
			}
			n.AI = 0xff
			return t.Encode(), "element-count"
		}
		fallthrough
	case 8: // truncation
		b := orig.Encode()
		if len(b) > 1 {
			return b[:rng.Intn(len(b))], "truncated"
		}
		return []byte{}, "truncated"
	case 9: // trailing data
		b := orig.Encode()
		extra := make([]byte, 1+rng.Intn(16))
		rng.Read(extra)
		return append(b, extra...), "trailing"
	case 10: // deep nesting
		depth := 10 + rng.Intn(3000)
		b := make([]byte, 0, depth+1)
		for i := 0; i < depth; i++ {
			b = append(b, 0x81)
		}
		return append(b, 0x00), "deep-nesting"
	case 11: // nested inflated arrays
		levels := 1 + rng.Intn(12)
		var b []byte
		for i := 0; i < levels; i++ {
			b = append(b, 0x9a, 0x00, 0x01, 0x86, 0x9f) // array(99999)
		}
		return b, "nested-inflation"
	case 12: // indefinite / reserved heads
		heads := []byte{0x9f, 0xbf, 0x5f, 0x7f, 0x1c, 0x3d, 0x5e, 0x9c, 0xfc, 0xff, 0xdc}
		n2 := heads[rng.Intn(len(heads))]
		b := orig.Encode()
		if len(b) > 0 {
			b = append([]byte(nil), b...)
			b[rng.Intn(len(b))] = n2
		}
		return b, "reserved-head"
	default: // random bytes
		b := make([]byte, rng.Intn(200))
		rng.Read(b)
		return b, "random"
	}
}

func aiFor(v uint64) uint8 {
	switch {
	case v < 24:
		return uint8(v)
	case v <= 0xff:
		return 24
	case v <= 0xffff:
		return 25
	case v <= 0xffffffff:
		return 26
	}
	return 27
}
