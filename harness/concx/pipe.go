package concx

// Device-side pipeline part of C19 (DevPipe.tla): the real fdo.TO2 runs against the real TO2Server with
// service-info VOLUMES up to just below the documented buffering bound of the device (1000 logical
// service infos buffered in and out) in both directions, combined with small / default / large /
// maximal sizes on both sides (the owner's MaxDeviceServiceInfoSize, the device's
// MaxServiceInfoSizeReceive) and delays injected at the module callbacks, the device's writer or the
// transport, under a watchdog: a run that does not return is a Hang event, which DevPipe_Trace.tla
// allows only above the bound.

import (
	"bufio"
	"context"
	"encoding/json"
	"fmt"
	"io"
	mrand "math/rand"
	"os"
	"sync"
	"sync/atomic"
	"time"

	"github.com/fido-device-onboard/go-fdo/serviceinfo"

	"verifharness/world"
)

// PipeCase is one run.
type PipeCase struct {
	ID      int               `json:"id"`
	Seed    int64             `json:"seed"`
	Vo      int               `json:"vo"`   // logical service infos owner -> device in one IsMoreServiceInfo round (activation included)
	Vd      int               `json:"vd"`   // logical service infos the device module answers with
	OMtu    uint16            `json:"omtu"` // owner's MaxDeviceServiceInfoSize (0: not announced)
	DMtu    uint16            `json:"dmtu"` // device's MaxServiceInfoSizeReceive (0: default)
	Delay   string            `json:"delay"`
	WatchMs int               `json:"watch_ms"`
	Class   map[string]string `json:"class,omitempty"`
}

type pipeState struct {
	c       PipeCase
	mgot    int32 // logical service infos the device module received (activation included)
	dgot    int32 // answers the owner module received
	inorder int32 // 1 while every message arrived in the order it was sent
	rng     *mrand.Rand
	rmu     sync.Mutex
}

func (s *pipeState) nap(kind string, us int) {
	if s.c.Delay != kind {
		return
	}
	s.rmu.Lock()
	d := time.Duration(s.rng.Intn(us)) * time.Microsecond
	s.rmu.Unlock()
	time.Sleep(d)
}

func (s *pipeState) pad(j int) []byte {
	b := []byte(fmt.Sprintf("%d", j))
	for len(b) < 1+(j*7)%19 {
		b = append(b, '.')
	}
	return b
}

// volOwner sends "active" and Vo-1 messages with pairwise distinct keys, as many per message as fit,
// announcing more until the last; then it waits for the device's Vd answers.
type volOwner struct {
	s       *pipeState
	started bool
	next    int // next message index to send (1..Vo-1)
	heard   int
	polls   int
	sentAll bool
	curName string
	curBuf  []byte
}

func (m *volOwner) HandleInfo(_ context.Context, name string, body io.Reader) error {
	m.s.nap("slowmodule", 300)
	b, err := io.ReadAll(body)
	if err != nil {
		return err
	}
	if name == "active" {
		return nil
	}
	// a value that did not fit the rest of a 68 continues under the same key in the next one
	if name != m.curName {
		m.finish()
		m.curName, m.curBuf = name, nil
	}
	m.curBuf = append(m.curBuf, b...)
	return nil
}

// finish accounts the answer whose last piece has arrived.
func (m *volOwner) finish() {
	if m.curName == "" {
		return
	}
	m.heard++
	if m.curName != fmt.Sprintf("a%d", m.heard) || string(m.curBuf) != string(m.s.pad(m.heard)) {
		atomic.StoreInt32(&m.s.inorder, 0)
	}
	atomic.AddInt32(&m.s.dgot, 1)
	m.curName, m.curBuf = "", nil
}

func (m *volOwner) ProduceInfo(_ context.Context, p *serviceinfo.Producer) (bool, bool, error) {
	m.s.nap("slowmodule", 300)
	if !m.started {
		m.started = true
		m.next = 1
		if err := p.WriteChunk("active", []byte{0xf5}); err != nil {
			return false, false, err
		}
	}
	for m.next < m.s.c.Vo {
		name, data := fmt.Sprintf("k%d", m.next), m.s.pad(m.next)
		if p.Available(name) < len(data)+3 {
			break
		}
		if err := p.WriteChunk(name, data); err != nil {
			return false, false, err
		}
		m.next++
	}
	if m.next < m.s.c.Vo {
		return true, false, nil // IsMoreServiceInfo: the device may not answer yet
	}
	if !m.sentAll {
		// this message carries the last batch: the device answers next (or, with nothing to answer, is done)
		m.sentAll = true
		return false, m.s.c.Vd == 0, nil
	}
	// the device has nothing more to send for now: its last answer is complete
	m.finish()
	m.polls++
	return false, m.heard >= m.s.c.Vd || m.polls > 6, nil
}

// volDev counts what it receives and spreads its Vd answers over the messages it receives.
type volDev struct {
	s     *pipeState
	seen  int
	wrote int
}

func (m *volDev) Transition(active bool) error {
	if active {
		atomic.AddInt32(&m.s.mgot, 1)
	}
	return nil
}
func (m *volDev) Yield(context.Context, func(string) io.Writer, func()) error { return nil }
func (m *volDev) Receive(_ context.Context, msg string, body io.Reader, respond func(string) io.Writer, _ func()) error {
	m.s.nap("slowmodule", 300)
	b, err := io.ReadAll(body)
	if err != nil {
		return err
	}
	m.seen++
	if msg != fmt.Sprintf("k%d", m.seen) || string(b) != string(m.s.pad(m.seen)) {
		atomic.StoreInt32(&m.s.inorder, 0)
	}
	atomic.AddInt32(&m.s.mgot, 1)
	total := m.s.c.Vo - 1
	goal := m.s.c.Vd
	if m.seen < total {
		goal = m.s.c.Vd * m.seen / total
	}
	for m.wrote < goal {
		m.wrote++
		m.s.nap("slowwriter", 200)
		if _, err := respond(fmt.Sprintf("a%d", m.wrote)).Write(m.s.pad(m.wrote)); err != nil {
			return nil
		}
	}
	return nil
}

// RunPipe executes one case and returns its events.
func RunPipe(c PipeCase) []map[string]any {
	if c.Vo < 2 {
		c.Vo = 2 // the activation and one message: without a message the device module is never called
	}
	evs := []map[string]any{{"ev": "run", "id": c.ID, "vo": c.Vo, "vd": c.Vd, "omtu": int(c.OMtu), "dmtu": int(c.DMtu), "delay": c.Delay}}
	if c.Class != nil {
		evs[0]["class"] = c.Class
	}
	st := &pipeState{c: c, inorder: 1, rng: mrand.New(mrand.NewSource(c.Seed))}
	w := world.New(world.Options{
		MaxDeviceServiceInfoSize: c.OMtu,
		OwnerModules: func(context.Context, string, serviceinfo.Devmod, []string) []world.NamedOwnerModule {
			return []world.NamedOwnerModule{{Name: "v", Mod: &volOwner{s: st}}}
		},
	})
	w.OwnerHandler.MaxContentLength = 1 << 20 // sizes up to 65535 need bodies beyond the default limit
	ctx := context.Background()
	dev, err := w.Onboard0(ctx, "")
	if err != nil {
		w.Close()
		return append(evs, map[string]any{"ev": "harness_err", "id": c.ID, "what": "onboard: " + err.Error()})
	}
	watch := time.Duration(c.WatchMs) * time.Millisecond
	if watch <= 0 {
		watch = 45 * time.Second
	}
	hook := &world.Hook{Request: func(*world.Exchange) bool { st.nap("slowtransport", 2500); return false }}
	inner, _ := world.Transport(w.OwnerHandler, hook)
	inner.MaxContentLength = 1 << 20
	type res struct {
		err error
		pan string
	}
	done := make(chan res, 1)
	t0 := time.Now()
	go func() {
		var r res
		defer func() {
			if p := recover(); p != nil {
				r.pan = fmt.Sprintf("%v @ %s", p, world.TopLibFrame())
			}
			done <- r
		}()
		// the context outlives the watchdog: a pipeline that only returns because its context expired
		// would not have returned by itself
		_, r.err = w.RunTO2On(ctx, inner, dev, nil, world.TO2Opts{Modules: map[string]serviceinfo.DeviceModule{"v": &volDev{s: st}}, MTU: c.DMtu})
	}()
	select {
	case r := <-done:
		ms := time.Since(t0).Milliseconds()
		w.Close()
		if r.pan != "" {
			return append(evs, map[string]any{"ev": "crash", "id": c.ID, "what": r.pan})
		}
		msg := ""
		if r.err != nil {
			msg = r.err.Error()
			if len(msg) > 300 {
				msg = msg[:300]
			}
		}
		return append(evs, map[string]any{"ev": "end", "id": c.ID, "ok": r.err == nil, "mgot": int(atomic.LoadInt32(&st.mgot)),
			"dgot": int(atomic.LoadInt32(&st.dgot)), "inorder": atomic.LoadInt32(&st.inorder) == 1, "err": msg, "ms": ms})
	case <-time.After(watch):
		// the goroutines of the run are still there (and hold the world): nothing is closed
		return append(evs, map[string]any{"ev": "hang", "id": c.ID, "mgot": int(atomic.LoadInt32(&st.mgot)), "dgot": int(atomic.LoadInt32(&st.dgot)),
			"ms": time.Since(t0).Milliseconds()})
	}
}

// RunPipeCases executes the cases in parallel worlds and writes all events to out, run by run.
func RunPipeCases(cases []PipeCase, out string, workers int) error {
	res := make([][]map[string]any, len(cases))
	ch := make(chan int)
	var wg sync.WaitGroup
	for i := 0; i < workers; i++ {
		wg.Add(1)
		go func() {
			defer wg.Done()
			for k := range ch {
				res[k] = RunPipe(cases[k])
			}
		}()
	}
	for k := range cases {
		ch <- k
	}
	close(ch)
	wg.Wait()
	f, err := os.Create(out)
	if err != nil {
		return err
	}
	defer f.Close()
	bw := bufio.NewWriter(f)
	defer bw.Flush()
	enc := json.NewEncoder(bw)
	for _, evs := range res {
		for _, ev := range evs {
			if err := enc.Encode(ev); err != nil {
				return err
			}
		}
	}
	return nil
}
