// Package concx runs many onboardings concurrently through ONE server instance (one handler, one
// set of responders, one sqlite store) for C19: every device must obtain the outcome it obtains
// alone, no session may observe another session's data, every exchange is recorded with a
// sequence number taken under a lock for validation against Server_Trace.tla, and the same runs
// are repeated under the race detector without any harness lock on the library's paths.
package concx

import (
	"bytes"
	"context"
	"crypto/sha256"
	"encoding/base64"
	"encoding/hex"
	"fmt"
	"io"
	mrand "math/rand"
	"strings"
	"sync"
	"sync/atomic"
	"time"

	fdo "github.com/fido-device-onboard/go-fdo"
	"github.com/fido-device-onboard/go-fdo/kex"
	"github.com/fido-device-onboard/go-fdo/protocol"
	"github.com/fido-device-onboard/go-fdo/serviceinfo"

	"verifharness/srvexec"
	"verifharness/world"
)

// Result of one device chain.
type Result struct {
	Dev     string `json:"dev"`
	Kex     string `json:"kex"`
	Cipher  int64  `json:"cipher"`
	OK      bool   `json:"ok"`
	Step    string `json:"step,omitempty"`
	Err     string `json:"err,omitempty"`
	Agrees  bool   `json:"agrees"`  // replacement voucher in the store agrees with the new credential
	Echo    bool   `json:"echo"`    // the module data the device received was its own session's
	Foreign string `json:"foreign,omitempty"`
	Panic   string `json:"panic,omitempty"`
}

// Report of a concurrent run.
type Report struct {
	N       int             `json:"n"`
	Results []Result        `json:"results"`
	DIs     int             `json:"dis"`
	DIFail  int             `json:"difail"`
	Events  []srvexec.Event `json:"-"`
	Hang    bool            `json:"hang"`
	Wall    float64         `json:"wall_s"`
}

// echoOwner sends the device name it learned from this session's devmod back to the device.
type echoOwner struct{ name string }

func (m *echoOwner) HandleInfo(_ context.Context, _ string, body io.Reader) error {
	_, _ = io.Copy(io.Discard, body)
	return nil
}
func (m *echoOwner) ProduceInfo(_ context.Context, p *serviceinfo.Producer) (bool, bool, error) {
	_ = p.WriteChunk("active", []byte{0xf5})
	payload := append([]byte{0x58, byte(len(m.name))}, []byte(m.name)...)
	if len(m.name) < 24 {
		payload = append([]byte{0x40 | byte(len(m.name))}, []byte(m.name)...)
	}
	_ = p.WriteChunk("echo", payload)
	return false, true, nil
}

type echoDev struct {
	name    string
	delay   time.Duration
	ok      *int32
	foreign *atomic.Value
}

func (m *echoDev) Transition(bool) error { return nil }
func (m *echoDev) Receive(_ context.Context, msg string, body io.Reader, _ func(string) io.Writer, _ func()) error {
	time.Sleep(m.delay)
	b, _ := io.ReadAll(body)
	if msg == "echo" {
		// payload is a CBOR byte string with the device name
		if i := bytes.Index(b, []byte(m.name)); i >= 0 && len(b)-i == len(m.name) {
			atomic.StoreInt32(m.ok, 1)
		} else {
			m.foreign.Store(string(b))
		}
	}
	return nil
}
func (m *echoDev) Yield(context.Context, func(string) io.Writer, func()) error { return nil }

// Options of a run.
type Options struct {
	N        int
	Seed     int64
	Kind     string
	Record   bool // record exchanges (journal lock on); off for race runs
	Delays   bool
	ExtraDIs int
}

type recorder struct {
	mu     sync.Mutex
	w      *world.World
	events []srvexec.Event
	slotOf map[string]int // token -> slot
	next   int
	seen   map[string]int // token -> journal entries already attributed
}

func tokenID(tok string) string {
	raw, err := base64.RawURLEncoding.DecodeString(strings.TrimPrefix(tok, "Bearer "))
	if err != nil || len(raw) < 16 {
		return ""
	}
	return hex.EncodeToString(raw[:16])
}

// hook returns a per-chain hook that records every exchange of the chain's sessions.
func (r *recorder) hook(dev string, proto string, guid2 map[string]string) *world.Hook {
	return &world.Hook{Response: func(x *world.Exchange) bool {
		r.mu.Lock()
		defer r.mu.Unlock()
		tok := x.RespToken
		if tok == "" {
			tok = x.ReqToken
		}
		start := x.ReqType == 10 || x.ReqType == 20 || x.ReqType == 30 || x.ReqType == 60
		slot, ok := r.slotOf[tok]
		if !ok {
			r.next++
			slot = r.next
			r.slotOf[tok] = slot
		}
		ev := srvexec.Event{Kind: "honest", S: slot, P: proto, D: dev, T: int(x.ReqType), Tok: "own", B: "honest", Resp: int(x.RespType), Fx: []string{}}
		if start {
			ev.Kind, ev.Tok = "start", "none"
		}
		if x.ReqType == 255 {
			ev.Kind = "errmsg"
			if x.RespCode == 200 && len(x.RespBody) == 0 {
				ev.Resp = 0
			}
		}
		// effects journalled under this session's token since the last exchange of this session
		bare := strings.TrimPrefix(tok, "Bearer ")
		all := r.w.J.Since(0)
		n := 0
		for _, f := range all {
			if f.Token != bare {
				continue
			}
			n++
			if n <= r.seen[tok] {
				continue
			}
			var s string
			switch f.Kind {
			case "AddVoucher":
				s = "AddVoucher"
			case "SetRVBlob":
				s = fmt.Sprintf("SetRVBlob:%s:%d", guid2[f.GUID], 3600)
			case "ReplaceVoucher":
				s = "ReplaceVoucher:" + guid2[f.GUID]
			case "ModuleCall":
				s = "ModuleCall:" + strings.TrimPrefix(f.Mod, "m")
			case "KeysStored":
				s = "KeysStored"
			}
			if len(ev.Fx) == 0 || ev.Fx[len(ev.Fx)-1] != s {
				ev.Fx = append(ev.Fx, s)
			}
		}
		r.seen[tok] = n
		// liveness probe
		if id := tokenID(tok); id != "" {
			raw, _ := hex.DecodeString(id)
			var c int
			if err := r.w.OwnerStore.DB.DB().QueryRow(`SELECT COUNT(*) FROM sessions WHERE id = ?`, raw).Scan(&c); err == nil {
				ev.Live = c > 0
			}
		}
		ev.I = len(r.events) + 1
		r.events = append(r.events, ev)
		return false
	}}
}

// Run executes the concurrent onboarding.
func Run(o Options) (*Report, error) {
	t0 := time.Now()
	ctx, cancel := context.WithTimeout(context.Background(), 240*time.Second)
	defer cancel()
	kind := world.KeyKind(o.Kind)
	if kind == "" {
		kind = world.P256
	}
	var w *world.World
	names := map[string]string{} // token -> device name learnt from devmod (owner side)
	var namesMu sync.Mutex
	opt := world.Options{Kind: kind, NoJournalLock: !o.Record}
	opt.OwnerModules = func(_ context.Context, tok string, dm serviceinfo.Devmod, _ []string) []world.NamedOwnerModule {
		namesMu.Lock()
		names[tok] = dm.Device
		namesMu.Unlock()
		return []world.NamedOwnerModule{{Name: "m1", Mod: &echoOwner{name: dm.Device}}}
	}
	w = world.New(opt)
	defer w.Close()
	rng := mrand.New(mrand.NewSource(o.Seed))
	suites := map[world.KeyKind][]kex.Suite{
		world.P256: {kex.ECDH256Suite}, world.P384: {kex.ECDH384Suite},
		world.RSA2048: {kex.DHKEXid14Suite, kex.ASYMKEX2048Suite, kex.ECDH256Suite}, world.PSS2048: {kex.DHKEXid14Suite, kex.ASYMKEX2048Suite},
		world.PKCS3072: {kex.DHKEXid15Suite, kex.ASYMKEX3072Suite}, world.PSS3072: {kex.DHKEXid15Suite},
	}
	ciphers := []kex.CipherSuiteID{kex.A128GcmCipher, kex.A192GcmCipher, kex.A256GcmCipher, kex.CoseAes128CbcCipher, kex.CoseAes128CtrCipher, kex.CoseAes256CbcCipher, kex.CoseAes256CtrCipher}
	// devices are initialised and handed to the owner sequentially; the concurrent part is
	// TO0 -> TO1 -> TO2 per device, plus DI of further fresh devices
	type devT struct {
		name string
		d    *world.Device
		kex  kex.Suite
		ciph kex.CipherSuiteID
	}
	var devs []*devT
	guid2 := map[string]string{}
	for i := 0; i < o.N; i++ {
		d, err := w.Onboard0(ctx, "")
		if err != nil {
			return nil, fmt.Errorf("onboard: %w", err)
		}
		name := fmt.Sprintf("d%d", i+1)
		guid2[hex.EncodeToString(d.Cred.GUID[:])] = name
		ss := suites[kind]
		devs = append(devs, &devT{name: name, d: d, kex: ss[rng.Intn(len(ss))], ciph: ciphers[rng.Intn(len(ciphers))]})
	}
	// the concurrent part meets a server that has just started: database reopened, fresh state objects,
	// responders and handler, nothing warmed up by the sequential preparation
	if err := w.Restart(); err != nil {
		return nil, fmt.Errorf("restart: %w", err)
	}
	start := make(chan struct{})
	rec := &recorder{w: w, slotOf: map[string]int{}, seen: map[string]int{}}
	rep := &Report{N: o.N, Results: make([]Result, o.N)}
	var wg sync.WaitGroup
	delay := func() {
		if o.Delays {
			time.Sleep(time.Duration(rng.Intn(300)) * time.Microsecond)
		}
	}
	var rmu sync.Mutex
	jitter := func() time.Duration {
		rmu.Lock()
		defer rmu.Unlock()
		if !o.Delays {
			return 0
		}
		return time.Duration(rng.Intn(400)) * time.Microsecond
	}
	_ = delay
	wrap := func(h *world.Hook) *world.Hook {
		var resp func(x *world.Exchange) bool
		if h != nil {
			resp = h.Response
		}
		return &world.Hook{
			Request: func(x *world.Exchange) bool { time.Sleep(jitter()); return false },
			Response: func(x *world.Exchange) bool {
				if resp != nil {
					return resp(x)
				}
				return false
			},
		}
	}
	for i, dv := range devs {
		wg.Add(1)
		go func(i int, dv *devT) {
			defer wg.Done()
			r := Result{Dev: dv.name, Kex: string(dv.kex), Cipher: int64(dv.ciph)}
			defer func() {
				if p := recover(); p != nil {
					r.Panic = fmt.Sprintf("%v @ %s", p, world.TopLibFrame())
				}
				rep.Results[i] = r
			}()
			<-start
			hk := func(proto string) *world.Hook {
				if !o.Record {
					return wrap(nil)
				}
				return wrap(rec.hook(dv.name, proto, guid2))
			}
			if _, err := w.RunTO0(ctx, dv.d.Cred.GUID, 3600, hk("TO0")); err != nil {
				r.Step, r.Err = "to0", err.Error()
				return
			}
			blob, err := w.RunTO1(ctx, dv.d, hk("TO1"))
			if err != nil {
				r.Step, r.Err = "to1", err.Error()
				return
			}
			var echoOK int32
			var foreign atomic.Value
			dm := world.DefaultDevmod()
			dm.Device = dv.name + "-" + hex.EncodeToString(sha256.New().Sum([]byte(dv.name)))[:8]
			mod := &echoDev{name: dm.Device, delay: jitter(), ok: &echoOK, foreign: &foreign}
			cred, err := w.RunTO2(ctx, dv.d, blob, world.TO2Opts{Kex: dv.kex, Cipher: dv.ciph, Devmod: &dm,
				Modules: map[string]serviceinfo.DeviceModule{"m1": mod}}, hk("TO2"))
			if err != nil {
				r.Step, r.Err = "to2", err.Error()
				return
			}
			r.OK = cred != nil
			r.Echo = atomic.LoadInt32(&echoOK) == 1
			if f, ok := foreign.Load().(string); ok {
				r.Foreign = f
			}
			if cred != nil {
				ov, err := w.OwnerStore.DB.Voucher(ctx, cred.GUID)
				h256, h384 := dv.d.Hmacs()
				r.Agrees = err == nil && ov.VerifyHeader(h256, h384) == nil && ov.VerifyManufacturerKey(cred.PublicKeyHash) == nil && ov.Header.Val.GUID == cred.GUID
			}
		}(i, dv)
	}
	var diFail int32
	for i := 0; i < o.ExtraDIs; i++ {
		wg.Add(1)
		go func(i int) {
			defer wg.Done()
			<-start
			d := w.NewDevice("")
			var h *world.Hook
			if o.Record {
				h = rec.hook("new", "DI", guid2)
			}
			if _, err := w.RunDI(ctx, d, wrap(h)); err != nil {
				atomic.AddInt32(&diFail, 1)
			}
		}(i)
	}
	close(start)
	done := make(chan struct{})
	go func() { wg.Wait(); close(done) }()
	select {
	case <-done:
	case <-time.After(200 * time.Second):
		rep.Hang = true
	}
	rep.DIs, rep.DIFail = o.ExtraDIs, int(diFail)
	rep.Events = rec.events
	rep.Wall = time.Since(t0).Seconds()
	_ = fdo.ErrNotFound
	_ = protocol.GUID{}
	return rep, nil
}
