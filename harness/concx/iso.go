package concx

// Non-interference part of C19 (Isolation.tla): a MIX of devices that share key kinds but differ in
// every per-voucher / per-session attribute (voucher key encoding, credential reuse, replacement
// rendezvous info, device info, owner module list, service-info volume, both MTUs, key exchange,
// cipher) is onboarded through ONE server three times over, with one twin device per configuration
// and phase:
//
//	solo   every device alone on a freshly started server            (the baseline "alone")
//	seq    all devices one after the other on one server instance     (schedule of concurrency 1)
//	conc   all devices at once behind a start barrier on one instance (plus concurrent DIs)
//
// Every TO2 exchange is recorded in the order the recorder saw it, and every device ends with the
// projection of what it obtained: replacement credential and stored replacement voucher (owner key
// encoding, hash algorithm, agreement, GUID freshness, rendezvous info, device info), module data in
// both directions, devmod as the owner saw it, and the size profile of its 68/69 messages. The
// events are validated against Isolation_Trace.tla, which replays the recorded interleaving on the
// specification and demands for every phase the outcome of the sequential run alone.

import (
	"bufio"
	"bytes"
	"context"
	"crypto"
	"encoding/hex"
	"encoding/json"
	"errors"
	"fmt"
	"hash/fnv"
	"io"
	mrand "math/rand"
	"os"
	"sort"
	"strings"
	"sync"
	"time"

	fdo "github.com/fido-device-onboard/go-fdo"
	"github.com/fido-device-onboard/go-fdo/cbor"
	"github.com/fido-device-onboard/go-fdo/kex"
	"github.com/fido-device-onboard/go-fdo/protocol"
	"github.com/fido-device-onboard/go-fdo/serviceinfo"

	"verifharness/world"
)

// IsoCfg is the configuration of one device of a mix, as generated from Isolation.tla.
type IsoCfg struct {
	D     string `json:"d"`
	Kind  string `json:"kind"`  // key kind of device, manufacturer and owner key
	Enc   string `json:"enc"`   // X509 | X5CHAIN | COSE: encoding of the manufacturer key in the voucher
	Reuse bool   `json:"reuse"` // the owner offers credential reuse for this voucher
	Rv    int    `json:"rv"`    // which replacement rendezvous info the owner assigns to this voucher
	Info  int    `json:"info"`  // which device info string the device was initialised with
	OMtu  string `json:"omtu"`  // small | default | large: MaxDeviceServiceInfoSize announced for this voucher
	DMtu  string `json:"dmtu"`  // small | default | large: the device's MaxServiceInfoSizeReceive
	Mods  int    `json:"mods"`  // owner modules of this session (the device registers exactly these)
	Vol   int    `json:"vol"`   // distinct-key messages each owner module sends before its large one
	// chosen by the concretiser (session-local cryptography; the specification does not mention it)
	Kex    string `json:"kex,omitempty"`
	Cipher int64  `json:"cipher,omitempty"`
}

// IsoMix is one run: the devices and how they are scheduled.
type IsoMix struct {
	ID       int      `json:"id"`
	Seed     int64    `json:"seed"`
	Devs     []IsoCfg `json:"devs"`
	ExtraDIs int      `json:"extra_dis"`
	Delays   bool     `json:"delays"`
	Phases   []string `json:"phases"` // subset of solo, seq, conc (race runs: conc only)
	Record   bool     `json:"record"` // record exchanges under the recorder's lock (off for race runs)
	WatchMs  int      `json:"watch_ms"`
}

// MtuOf maps the MTU classes to the numbers used on the wire (0 = leave the default).
func MtuOf(class string) uint16 {
	switch class {
	case "small":
		return 320
	case "large":
		return 2048
	}
	return serviceinfo.DefaultMTU
}

const isoBig = 2300 // bytes of the large message in each direction (above every MTU class)

// mtuClass names the smallest MTU class a message of max bytes fits (the 3 bytes of framing around the
// service-info array of a 69 are not counted by the owner's size check; that is C15/C16 matter).
func mtuClass(max int) string {
	const slack = 3
	switch {
	case max <= 0:
		return "none"
	case max <= int(MtuOf("small"))+slack:
		return "small"
	case max <= int(MtuOf("default"))+slack:
		return "default"
	case max <= int(MtuOf("large"))+slack:
		return "large"
	}
	return "over"
}

func refByte(tag string, i int) byte {
	f := fnv.New32a()
	_, _ = f.Write([]byte(tag))
	h := f.Sum32()
	return byte(h) + byte(h>>8)*byte(i>>8) + byte(i*131) + byte((i>>8)*29)
}

func refBytes(tag string, n int) []byte {
	b := make([]byte, n)
	for i := range b {
		b[i] = refByte(tag, i)
	}
	return b
}

// twin is one device of one phase.
type twin struct {
	cfg   IsoCfg
	idx   int
	mode  string
	name  string // devmod device name, unique per twin
	info  string // device info string of DI
	d     *world.Device
	kind  world.KeyKind
	old   protocol.GUID
	oldCr fdo.DeviceCredential

	mu      sync.Mutex
	nrecv   int    // module messages the device received
	echo    string // own | foreign | none
	order   bool
	onrecv  int    // module messages the owner received from the device
	oecho   string // own | foreign | none
	devmod  string // own | foreign | none: the devmod the owner built this session's modules from
	supp    string // own | foreign | none: module list the owner saw
	n68     int
	n69     int
	max68   int
	max69   int
	cred    *fdo.DeviceCredential
	err     error
	panicAt string
	done    bool
	xs      [][2]int   // exchanges of this twin (type, response type), in its own order
	rng     *mrand.Rand // delays of this session's callbacks (per twin: no lock shared between sessions)
}

func (t *twin) note(f func()) {
	t.mu.Lock()
	f()
	t.mu.Unlock()
}

// isoOwner is one owner module of one session. Everything it sends is derived from the device name
// the owner learnt from THIS session's devmod.
type isoOwner struct {
	r       *isoRun
	tag     string // device name from the session's devmod
	mod     string
	vol     int
	stage   int
	pending []isoMsg
	polls   int
	got     bool
	buf     []byte
}

type isoMsg struct {
	name string
	data []byte
}

func (m *isoOwner) HandleInfo(_ context.Context, name string, body io.Reader) error {
	b, err := io.ReadAll(body)
	if err != nil {
		return err
	}
	if name != "resp" {
		return nil
	}
	// the answer arrives in as many pieces as the device needed messages for it
	m.buf = append(m.buf, b...)
	if len(m.buf) < isoBig {
		return nil
	}
	m.got = true
	t := m.r.byName(m.tag)
	if t == nil {
		return nil
	}
	own := bytes.Equal(m.buf, refBytes(m.tag+"|"+m.mod+"|resp", isoBig))
	t.note(func() {
		t.onrecv++
		if own && t.oecho != "foreign" {
			t.oecho = "own"
		} else {
			t.oecho = "foreign"
		}
	})
	return nil
}

func (m *isoOwner) ProduceInfo(_ context.Context, p *serviceinfo.Producer) (bool, bool, error) {
	m.r.pause(m.r.byName(m.tag))
	if m.stage == 0 {
		m.stage = 1
		m.pending = append(m.pending, isoMsg{"active", []byte{0xf5}})
		for j := 1; j <= m.vol; j++ {
			m.pending = append(m.pending, isoMsg{fmt.Sprintf("k%d", j), []byte(fmt.Sprintf("%s|%s|%d", m.tag, m.mod, j))})
		}
		m.pending = append(m.pending, isoMsg{"big", refBytes(m.tag+"|"+m.mod+"|big", isoBig)})
	}
	if m.stage == 1 {
		wrote := 0
		for len(m.pending) > 0 {
			seg := &m.pending[0]
			avail := p.Available(seg.name)
			if avail < 1 || (seg.name != "big" && avail < len(seg.data)) {
				break
			}
			k := min(avail, len(seg.data))
			if err := p.WriteChunk(seg.name, seg.data[:k]); err != nil {
				return false, false, err
			}
			wrote++
			seg.data = seg.data[k:]
			if len(seg.data) == 0 {
				m.pending = m.pending[1:]
			}
		}
		if len(m.pending) > 0 {
			if wrote == 0 {
				return false, false, fmt.Errorf("verif: MTU too small for %q", m.pending[0].name)
			}
			return true, false, nil
		}
		m.stage = 2
		return false, false, nil
	}
	// everything is sent: the module is done once the device's answer has arrived (or never will)
	m.polls++
	if m.got || m.polls > 3 {
		return false, true, nil
	}
	return false, false, nil
}

// isoDev is one device module of one twin.
type isoDev struct {
	r    *isoRun
	t    *twin
	mod  string
	next int
}

func (m *isoDev) Transition(bool) error { return nil }
func (m *isoDev) Yield(context.Context, func(string) io.Writer, func()) error {
	return nil
}
func (m *isoDev) Receive(_ context.Context, msg string, body io.Reader, respond func(string) io.Writer, _ func()) error {
	m.r.pause(m.t)
	b, err := io.ReadAll(body)
	if err != nil {
		return err
	}
	t := m.t
	own, inorder := false, true
	switch {
	case msg == "big":
		own = bytes.Equal(b, refBytes(t.name+"|"+m.mod+"|big", isoBig))
	case strings.HasPrefix(msg, "k"):
		m.next++
		own = string(b) == fmt.Sprintf("%s|%s|%d", t.name, m.mod, m.next)
		inorder = msg == fmt.Sprintf("k%d", m.next)
	default:
		return nil
	}
	t.note(func() {
		t.nrecv++
		if !inorder {
			t.order = false
		}
		if own && t.echo != "foreign" {
			t.echo = "own"
		} else {
			t.echo = "foreign"
		}
	})
	if msg == "big" {
		w := respond("resp")
		data := refBytes(t.name+"|"+m.mod+"|resp", isoBig)
		for len(data) > 0 {
			k := min(len(data), 700)
			if _, err := w.Write(data[:k]); err != nil {
				return nil
			}
			data = data[k:]
		}
	}
	return nil
}

// isoTap is the device's fdo.Transport: it records every exchange (type, response type) and the
// plaintext size of every 68/69 before handing over to the real HTTP transport.
type isoTap struct {
	inner fdo.Transport
	r     *isoRun
	t     *twin
}

func (tp *isoTap) Send(ctx context.Context, typ uint8, msg any, sess kex.Session) (uint8, io.ReadCloser, error) {
	tp.r.pause(tp.t)
	size := 0
	if typ == 68 {
		if b, err := cbor.Marshal(msg); err == nil {
			size = len(b)
		}
	}
	rt, body, err := tp.inner.Send(ctx, typ, msg, sess)
	if err != nil {
		tp.r.exchange(tp.t, int(typ), -1)
		return rt, body, err
	}
	if typ == 68 && rt == 69 {
		data, rerr := io.ReadAll(body)
		_ = body.Close()
		if rerr != nil {
			tp.r.exchange(tp.t, int(typ), -1)
			return rt, nil, rerr
		}
		tp.t.note(func() {
			tp.t.n68++
			tp.t.n69++
			tp.t.max68 = max(tp.t.max68, size)
			tp.t.max69 = max(tp.t.max69, len(data))
		})
		body = io.NopCloser(bytes.NewReader(data))
	}
	tp.r.exchange(tp.t, int(typ), int(rt))
	return rt, body, nil
}

// isoRun is the state of one mix.
type isoRun struct {
	mix    IsoMix
	w      *world.World
	mfg    map[world.KeyKind]*world.Party
	owner  map[world.KeyKind]*world.Party
	twins  []*twin
	byGUID map[string]*twin
	names  map[string]*twin
	mapMu  sync.RWMutex

	evMu sync.Mutex
	evs  []map[string]any

	rng *mrand.Rand // schedule of the phases (single goroutine)
}

func (r *isoRun) add(ev string, kv ...any) {
	m := map[string]any{"ev": ev, "mix": r.mix.ID}
	for i := 0; i+1 < len(kv); i += 2 {
		m[kv[i].(string)] = kv[i+1]
	}
	r.evMu.Lock()
	r.evs = append(r.evs, m)
	r.evMu.Unlock()
}

// exchange records one exchange of a twin. Recorded runs take the recorder's lock so that the order of
// the events is one linearisation of the run; unrecorded runs (race detector: no lock may be shared
// between sessions) keep a log per twin, emitted device by device when the phase is over (sessions
// of distinct devices are independent in Isolation.tla, so that is a linearisation too).
func (r *isoRun) exchange(t *twin, typ, resp int) {
	if !r.mix.Record {
		t.note(func() { t.xs = append(t.xs, [2]int{typ, resp}) })
		return
	}
	r.add("x", "mode", t.mode, "d", t.cfg.D, "t", typ, "resp", resp)
}

func (r *isoRun) pause(t *twin) {
	if !r.mix.Delays || t == nil {
		return
	}
	t.mu.Lock()
	k := t.rng.Intn(8)
	d := time.Duration(t.rng.Intn(300)) * time.Microsecond
	t.mu.Unlock()
	if k < 3 {
		time.Sleep(d)
	}
}

func (r *isoRun) byName(n string) *twin {
	r.mapMu.RLock()
	defer r.mapMu.RUnlock()
	return r.names[n]
}

func (r *isoRun) byVoucher(ov fdo.Voucher) *twin {
	r.mapMu.RLock()
	defer r.mapMu.RUnlock()
	return r.byGUID[hex.EncodeToString(ov.Header.Val.GUID[:])]
}

func mustCBOR(v any) []byte {
	b, err := cbor.Marshal(v)
	if err != nil {
		panic(err)
	}
	return b
}

// rendezvous info carrying a port that names (variant, device index): 8000+idx is the original one
// of DI, 10000+1000*variant+idx the replacement the owner assigns to the voucher.
func rvInfo(port int) [][]protocol.RvInstruction {
	return [][]protocol.RvInstruction{{
		{Variable: protocol.RVDns, Value: mustCBOR("rv.verif")},
		{Variable: protocol.RVDevPort, Value: mustCBOR(uint16(port))},
	}}
}

func rvTag(info [][]protocol.RvInstruction, idx int) string {
	if len(info) != 1 || len(info[0]) != 2 || info[0][1].Variable != protocol.RVDevPort {
		return "other"
	}
	var port uint16
	if err := cbor.Unmarshal(info[0][1].Value, &port); err != nil {
		return "other"
	}
	p := int(port)
	switch {
	case p == 8000+idx:
		return "orig"
	case p >= 10000 && (p-10000)%1000 == idx:
		return fmt.Sprintf("r%d", (p-10000)/1000)
	}
	return "foreign"
}

func encOf(s string) protocol.KeyEncoding {
	switch s {
	case "X5CHAIN":
		return protocol.X5ChainKeyEnc
	case "COSE":
		return protocol.CoseKeyEnc
	}
	return protocol.X509KeyEnc
}

func encName(e protocol.KeyEncoding) string {
	switch e {
	case protocol.X509KeyEnc:
		return "X509"
	case protocol.X5ChainKeyEnc:
		return "X5CHAIN"
	case protocol.CoseKeyEnc:
		return "COSE"
	}
	return fmt.Sprintf("enc%d", e)
}

// customize installs the per-voucher decisions of the owner service on the (re)built servers.
func (r *isoRun) customize() {
	w := r.w
	w.TO2.RvInfo = func(_ context.Context, ov fdo.Voucher) ([][]protocol.RvInstruction, error) {
		if t := r.byVoucher(ov); t != nil {
			return rvInfo(10000 + 1000*t.cfg.Rv + t.idx), nil
		}
		return rvInfo(9999), nil
	}
	w.TO2.ReuseCredential = func(_ context.Context, ov fdo.Voucher) (bool, error) {
		if t := r.byVoucher(ov); t != nil {
			return t.cfg.Reuse, nil
		}
		return false, nil
	}
	w.TO2.MaxDeviceServiceInfoSize = func(_ context.Context, ov fdo.Voucher) (uint16, error) {
		if t := r.byVoucher(ov); t != nil {
			return MtuOf(t.cfg.OMtu), nil
		}
		return serviceinfo.DefaultMTU, nil
	}
	w.DI.RvInfo = func(_ context.Context, ov *fdo.Voucher) ([][]protocol.RvInstruction, error) {
		if t := r.byInfo(ov.Header.Val.DeviceInfo); t != nil {
			return rvInfo(8000 + t.idx), nil
		}
		return rvInfo(7999), nil
	}
}

func (r *isoRun) byInfo(info string) *twin {
	r.mapMu.RLock()
	defer r.mapMu.RUnlock()
	for _, t := range r.twins {
		if t.info == info {
			return t
		}
	}
	return nil
}

func (r *isoRun) restart() error {
	if err := r.w.Restart(); err != nil {
		return err
	}
	r.customize()
	return nil
}

func modNames(n int) []string {
	var out []string
	for i := 1; i <= n; i++ {
		out = append(out, fmt.Sprintf("m%d", i))
	}
	return out
}

// prepare initialises one twin: DI with its own device info and key encoding, hand-over to the owner
// key of its kind.
func (r *isoRun) prepare(ctx context.Context, t *twin) error {
	w := r.w
	d := w.NewDevice(t.kind)
	d.Enc = encOf(t.cfg.Enc)
	t.d = d
	mi := d.MfgInfo(t.kind)
	mi.DeviceInfo = t.info
	tr, _ := world.Transport(w.MfgHandler, nil)
	h256, h384 := d.Hmacs()
	cred, err := fdo.DI(ctx, tr, mi, fdo.DIConfig{HmacSha256: h256, HmacSha384: h384, Key: d.Key, PSS: t.kind.PSS()})
	if err != nil {
		return fmt.Errorf("DI %s: %w", t.name, err)
	}
	d.Cred = cred
	t.old, t.oldCr = cred.GUID, *cred
	ov, err := w.MfgStore.DB.Voucher(ctx, cred.GUID)
	if err != nil {
		return err
	}
	if got := encName(ov.Header.Val.ManufacturerKey.Encoding); got != t.cfg.Enc {
		return fmt.Errorf("voucher of %s has key encoding %s, wanted %s", t.name, got, t.cfg.Enc)
	}
	x, err := world.ExtendTo(ov, r.mfg[t.kind], r.owner[t.kind])
	if err != nil {
		return fmt.Errorf("extend %s: %w", t.name, err)
	}
	if _, err := w.MfgStore.DB.RemoveVoucher(ctx, cred.GUID); err != nil {
		return err
	}
	if err := w.OwnerStore.DB.AddVoucher(ctx, x); err != nil {
		return err
	}
	r.mapMu.Lock()
	r.byGUID[hex.EncodeToString(cred.GUID[:])] = t
	r.mapMu.Unlock()
	return nil
}

// to2 runs TO2 for one twin and keeps the result.
func (r *isoRun) to2(ctx context.Context, t *twin) {
	defer func() {
		if p := recover(); p != nil {
			t.note(func() { t.panicAt = fmt.Sprintf("%v @ %s", p, world.TopLibFrame()) })
		}
	}()
	mods := map[string]serviceinfo.DeviceModule{}
	for _, n := range modNames(t.cfg.Mods) {
		mods[n] = &isoDev{r: r, t: t, mod: n}
	}
	dm := world.DefaultDevmod()
	dm.Device = t.name
	inner, _ := world.Transport(r.w.OwnerHandler, nil)
	cred, err := r.w.RunTO2On(ctx, &isoTap{inner: inner, r: r, t: t}, t.d, nil, world.TO2Opts{
		Kex: kex.Suite(t.cfg.Kex), Cipher: kex.CipherSuiteID(t.cfg.Cipher), Devmod: &dm, Modules: mods, MTU: MtuOf(t.cfg.DMtu)})
	t.note(func() { t.cred, t.err, t.done = cred, err, true })
}

func pubEqual(a, b crypto.PublicKey) bool {
	eq, ok := a.(interface{ Equal(crypto.PublicKey) bool })
	return ok && eq.Equal(b)
}

// outcome projects what the twin obtained. guids: every GUID (old and new) of the other devices of the phase.
func (r *isoRun) outcome(ctx context.Context, t *twin, others map[protocol.GUID]bool) map[string]any {
	t.mu.Lock()
	defer t.mu.Unlock()
	o := map[string]any{"ev": "outcome", "mix": r.mix.ID, "mode": t.mode, "d": t.cfg.D,
		"ok": t.err == nil && t.panicAt == "", "reuse": false, "guid": "none", "cenc": "none", "alg": "none", "venc": "none", "vkey": "none",
		"agree": false, "rv": "none", "vrv": "none", "info": "none", "vinfo": "none", "entries": -1, "oldgone": false,
		"echo": t.echo, "nrecv": t.nrecv, "inorder": t.order, "oecho": t.oecho, "onrecv": t.onrecv, "devmod": t.devmod, "supp": t.supp,
		"w68": mtuClass(t.max68), "w69": mtuClass(t.max69),
		"wire": []int{t.n68, t.n69, t.max68, t.max69}, "err": "", "panic": t.panicAt}
	if t.err != nil {
		msg := t.err.Error()
		if len(msg) > 200 {
			msg = msg[:200]
		}
		o["err"] = msg
		return o
	}
	if t.panicAt != "" {
		return o
	}
	cred := t.cred
	if cred == nil {
		o["reuse"] = true
		cred = &t.oldCr
	}
	switch {
	case cred.GUID == t.old:
		o["guid"] = "same"
	case others[cred.GUID]:
		o["guid"] = "foreign"
	default:
		o["guid"] = "fresh"
	}
	o["alg"] = algName(cred.PublicKeyHash.Algorithm)
	if o["alg"] == "other" {
		return o
	}
	own := r.owner[t.kind]
	if t.cred == nil {
		own = r.mfg[t.kind] // an unchanged credential still names the manufacturer key
	}
	for _, e := range []protocol.KeyEncoding{protocol.X509KeyEnc, protocol.X5ChainKeyEnc, protocol.CoseKeyEnc} {
		pk, err := own.PublicKeyErr(e)
		if err != nil {
			continue
		}
		h := cred.PublicKeyHash.Algorithm.HashFunc().New()
		if err := cbor.NewEncoder(h).Encode(pk); err != nil {
			continue
		}
		if bytes.Equal(h.Sum(nil), cred.PublicKeyHash.Value) {
			o["cenc"] = encName(e)
		}
	}
	o["rv"] = rvTag(cred.RvInfo, t.idx)
	o["info"] = infoTag(cred.DeviceInfo, t.info)
	ov, err := r.w.OwnerStore.DB.Voucher(ctx, cred.GUID)
	if err == nil {
		o["venc"] = encName(ov.Header.Val.ManufacturerKey.Encoding)
		if pub, err := ov.Header.Val.ManufacturerKey.Public(); err == nil {
			switch {
			case pubEqual(pub, r.owner[t.kind].Key.Public()):
				o["vkey"] = "owner"
			case pubEqual(pub, r.mfg[t.kind].Key.Public()):
				o["vkey"] = "mfg"
			default:
				o["vkey"] = "other"
			}
		}
		h256, h384 := t.d.Hmacs()
		o["agree"] = ov.VerifyHeader(h256, h384) == nil && ov.VerifyManufacturerKey(cred.PublicKeyHash) == nil && ov.Header.Val.GUID == cred.GUID
		o["vrv"] = rvTag(ov.Header.Val.RvInfo, t.idx)
		o["vinfo"] = infoTag(ov.Header.Val.DeviceInfo, t.info)
		o["entries"] = len(ov.Entries)
	}
	if t.cred != nil {
		_, err := r.w.OwnerStore.DB.Voucher(ctx, t.old)
		o["oldgone"] = errors.Is(err, fdo.ErrNotFound)
	}
	return o
}

func algName(a protocol.HashAlg) string {
	switch a {
	case protocol.Sha256Hash:
		return "SHA256"
	case protocol.Sha384Hash:
		return "SHA384"
	}
	return "other"
}

func infoTag(got, own string) string {
	switch {
	case got == own:
		return "own"
	case got == "":
		return "none"
	}
	return "foreign"
}

// RunIso executes one mix and returns its events.
func RunIso(mix IsoMix) (evs []map[string]any, err error) {
	ctx, cancel := context.WithTimeout(context.Background(), 300*time.Second)
	defer cancel()
	t0 := time.Now()
	r := &isoRun{mix: mix, byGUID: map[string]*twin{}, names: map[string]*twin{}, rng: mrand.New(mrand.NewSource(mix.Seed)),
		mfg: map[world.KeyKind]*world.Party{}, owner: map[world.KeyKind]*world.Party{}}
	if len(mix.Phases) == 0 {
		mix.Phases = []string{"solo", "seq", "conc"}
		r.mix.Phases = mix.Phases
	}
	watch := time.Duration(mix.WatchMs) * time.Millisecond
	if watch <= 0 {
		watch = 120 * time.Second
	}
	// the world's own kind decides the RSA size of RSAPKCS/RSAPSS look-ups: take it from the mix
	base := world.KeyKind(mix.Devs[0].Kind)
	for _, c := range mix.Devs {
		if k := world.KeyKind(c.Kind); k.Bits() == 3072 || (k.Bits() != 0 && base.Bits() == 0) {
			base = k
		}
	}
	opt := world.Options{Kind: base, NoJournalLock: !mix.Record}
	opt.OwnerModules = func(_ context.Context, _ string, dm serviceinfo.Devmod, supported []string) []world.NamedOwnerModule {
		t := r.byName(dm.Device)
		if t == nil {
			return nil
		}
		want := append(modNames(t.cfg.Mods), "devmod")
		got := append([]string{}, supported...)
		sort.Strings(want)
		sort.Strings(got)
		t.note(func() {
			t.devmod = "own"
			if strings.Join(want, ",") == strings.Join(got, ",") {
				t.supp = "own"
			} else {
				t.supp = "foreign"
			}
		})
		var out []world.NamedOwnerModule
		for _, n := range modNames(t.cfg.Mods) {
			out = append(out, world.NamedOwnerModule{Name: n, Mod: &isoOwner{r: r, tag: dm.Device, mod: n, vol: t.cfg.Vol}})
		}
		return out
	}
	w := world.New(opt)
	defer w.Close()
	r.w = w
	r.mfg[base], r.owner[base] = w.Mfg, w.Owner
	for _, c := range mix.Devs {
		k := world.KeyKind(c.Kind)
		if r.mfg[k] == nil {
			r.mfg[k], r.owner[k] = w.Keys.NewParty("mfg-"+c.Kind, k), w.Keys.NewParty("owner-"+c.Kind, k)
			w.MfgKeys.Set(r.mfg[k])
			w.OwnerKeys.Set(r.owner[k])
		}
	}
	cfgs := make([]any, 0, len(mix.Devs))
	for _, c := range mix.Devs {
		cfgs = append(cfgs, c)
	}
	r.add("mix", "cfg", cfgs)
	// twins: one device per configuration and phase
	phaseTwins := map[string][]*twin{}
	for _, mode := range mix.Phases {
		for i, c := range mix.Devs {
			t := &twin{cfg: c, idx: i + 1, mode: mode, name: fmt.Sprintf("%s-%s-%d", c.D, map[string]string{"solo": "a", "seq": "b", "conc": "c"}[mode], mix.ID), kind: world.KeyKind(c.Kind),
				echo: "none", oecho: "none", devmod: "none", supp: "none", order: true, rng: mrand.New(mrand.NewSource(mix.Seed*131 + int64(len(r.twins))))}
			t.info = fmt.Sprintf("info%d-%s", c.Info, t.name)
			r.twins = append(r.twins, t)
			r.names[t.name] = t
			phaseTwins[mode] = append(phaseTwins[mode], t)
		}
	}
	r.customize()
	for _, t := range r.twins {
		if err := r.prepare(ctx, t); err != nil {
			return nil, err
		}
	}
	finish := func(ts []*twin) {
		for _, t := range ts {
			others := map[protocol.GUID]bool{}
			for _, u := range r.twins {
				if u == t {
					continue
				}
				others[u.old] = true
				u.mu.Lock()
				if u.cred != nil {
					others[u.cred.GUID] = true
				}
				u.mu.Unlock()
			}
			t.mu.Lock()
			xs := t.xs
			t.mu.Unlock()
			for _, x := range xs {
				r.add("x", "mode", t.mode, "d", t.cfg.D, "t", x[0], "resp", x[1])
			}
			o := r.outcome(ctx, t, others)
			r.evMu.Lock()
			r.evs = append(r.evs, o)
			r.evMu.Unlock()
		}
	}
	guarded := func(mode string, ts []*twin, f func()) bool {
		done := make(chan struct{})
		go func() { defer close(done); f() }()
		select {
		case <-done:
			return true
		case <-time.After(watch):
			var stuck []string
			for _, t := range ts {
				t.mu.Lock()
				if !t.done && t.panicAt == "" {
					stuck = append(stuck, t.cfg.D)
				}
				t.mu.Unlock()
			}
			r.add("hang", "mode", mode, "stuck", stuck)
			return false
		}
	}
	r.add("timing", "what", "prepare", "ms", time.Since(t0).Milliseconds())
	for _, mode := range mix.Phases {
		ts := phaseTwins[mode]
		tp := time.Now()
		switch mode {
		case "solo":
			for _, t := range ts {
				if err := r.restart(); err != nil {
					return nil, err
				}
				r.add("begin", "mode", "solo", "d", t.cfg.D)
				if !guarded(mode, []*twin{t}, func() { r.to2(ctx, t) }) {
					return r.evs, nil
				}
				finish([]*twin{t})
			}
		case "seq":
			if err := r.restart(); err != nil {
				return nil, err
			}
			r.add("begin", "mode", "seq", "d", "")
			order := r.rng.Perm(len(ts))
			if !guarded(mode, ts, func() {
				for _, i := range order {
					r.to2(ctx, ts[i])
				}
			}) {
				return r.evs, nil
			}
			finish(ts)
		case "conc":
			if err := r.restart(); err != nil {
				return nil, err
			}
			r.add("begin", "mode", "conc", "d", "")
			start := make(chan struct{})
			var wg sync.WaitGroup
			for _, t := range ts {
				wg.Add(1)
				go func(t *twin) {
					defer wg.Done()
					<-start
					r.to2(ctx, t)
				}(t)
			}
			difail := make([]error, mix.ExtraDIs)
			for i := 0; i < mix.ExtraDIs; i++ {
				wg.Add(1)
				go func(i int) {
					defer wg.Done()
					<-start
					d := w.NewDevice(base)
					_, difail[i] = w.RunDI(ctx, d, nil)
				}(i)
			}
			if !guarded(mode, ts, func() { close(start); wg.Wait() }) {
				return r.evs, nil
			}
			finish(ts)
			nf := 0
			for _, e := range difail {
				if e != nil {
					nf++
				}
			}
			r.add("dis", "mode", "conc", "n", mix.ExtraDIs, "failed", nf)
		}
		r.add("timing", "what", mode, "ms", time.Since(tp).Milliseconds())
	}
	return r.evs, nil
}

// RunIsoMixes executes the mixes one after the other (each mix is itself concurrent) and writes all
// events as NDJSON.
func RunIsoMixes(mixes []IsoMix, out string) error {
	f, err := os.Create(out)
	if err != nil {
		return err
	}
	defer f.Close()
	bw := bufio.NewWriter(f)
	defer bw.Flush()
	enc := json.NewEncoder(bw)
	for _, m := range mixes {
		evs, err := RunIso(m)
		if err != nil {
			return fmt.Errorf("mix %d: %w", m.ID, err)
		}
		for _, ev := range evs {
			if err := enc.Encode(ev); err != nil {
				return err
			}
		}
	}
	return nil
}
