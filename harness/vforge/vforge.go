// Package vforge edits ownership vouchers at the CBOR-tree level and repairs them with
// harness-owned secrets (the "isolating" adversary of DESIGN.md Appendix A): after an alteration
// everything downstream can be recomputed so that exactly one named condition is false.
//
// Layouts (DESIGN.md Appendix D):
//
//	Voucher = [ver, bstr .cbor Header, [alg, hmac], [*cert]/null, [*#6.18(entry)]]
//	Header  = [ver, guid, rvinfo, devinfo, [type, enc, body], [alg, val]/null]
//	entry   = [protected bstr, unprotected map, bstr .cbor [ [alg,prev], [alg,hdr], extra, PublicKey ], sig]
package vforge

import (
	"crypto"
	"crypto/hmac"
	"crypto/rsa"
	"crypto/sha256"
	"crypto/sha512"
	"fmt"
	"hash"

	fdo "github.com/fido-device-onboard/go-fdo"
	"github.com/fido-device-onboard/go-fdo/cbor"
	"github.com/fido-device-onboard/go-fdo/cose"

	"verifharness/cb"
)

// V is a voucher under edit.
type V struct{ T *cb.Node }

// From encodes a library voucher and parses it into a tree.
func From(ov *fdo.Voucher) (*V, error) {
	b, err := cbor.Marshal(ov)
	if err != nil {
		return nil, err
	}
	return Parse(b)
}

// Parse parses an encoded voucher.
func Parse(b []byte) (*V, error) {
	t, err := cb.DecodeAll(b)
	if err != nil {
		return nil, err
	}
	if t.Major != 4 || len(t.Kids) != 5 {
		return nil, fmt.Errorf("vforge: not a voucher")
	}
	return &V{T: t.Canon()}, nil
}

// Bytes encodes the voucher.
func (v *V) Bytes() []byte { return v.T.Encode() }

// Clone copies the voucher.
func (v *V) Clone() *V { return &V{T: v.T.Clone()} }

// Voucher decodes into the library type.
func (v *V) Voucher() (*fdo.Voucher, error) {
	var ov fdo.Voucher
	if err := cbor.Unmarshal(v.Bytes(), &ov); err != nil {
		return nil, err
	}
	return &ov, nil
}

// Header returns the decoded header tree (edit it, then call SetHeader).
func (v *V) Header() *cb.Node { return v.T.Kids[1].MustInner() }

// SetHeader stores an edited header.
func (v *V) SetHeader(h *cb.Node) { v.T.Kids[1].SetInner(h) }

// Hmac returns the [alg, value] node.
func (v *V) Hmac() *cb.Node { return v.T.Kids[2] }

// NumEntries returns the chain length.
func (v *V) NumEntries() int { return len(v.T.Kids[4].Kids) }

// Entry returns the tagged entry i.
func (v *V) Entry(i int) *cb.Node { return v.T.Kids[4].Kids[i] }

// EntryPayload decodes the payload of entry i.
func (v *V) EntryPayload(i int) *cb.Node { return v.Entry(i).Untag().Kids[2].MustInner() }

// SetEntryPayload stores an edited payload (the signature is not touched).
func (v *V) SetEntryPayload(i int, p *cb.Node) { v.Entry(i).Untag().Kids[2].SetInner(p) }

func hashFor(alg *cb.Node) (func() hash.Hash, error) {
	switch {
	case alg.Major == 1 && alg.Val == 15, alg.Major == 0 && alg.Val == 5: // -16 SHA256, 5 HMAC-SHA256
		return sha256.New, nil
	case alg.Major == 1 && alg.Val == 42, alg.Major == 0 && alg.Val == 6: // -43 SHA384, 6 HMAC-SHA384
		return sha512.New384, nil
	}
	return nil, fmt.Errorf("vforge: unknown hash alg %s", alg)
}

// Remac recomputes the header HMAC with the device secret (same algorithm as present).
func (v *V) Remac(secret []byte) error {
	hf, err := hashFor(v.Hmac().Kids[0])
	if err != nil {
		return err
	}
	m := hmac.New(hf, secret)
	m.Write(v.Header().Encode())
	v.Hmac().Kids[1] = cb.Bstr(m.Sum(nil))
	return nil
}

// chainAlg returns the hash constructor of the chain (algorithm of entry 0's previous hash).
func (v *V) chainAlg() (func() hash.Hash, *cb.Node, error) {
	if v.NumEntries() == 0 {
		return nil, nil, fmt.Errorf("vforge: no entries")
	}
	alg := v.EntryPayload(0).Kids[0].Kids[0]
	hf, err := hashFor(alg)
	return hf, alg, err
}

// PrevHash computes what entry i's previous-hash must be for the voucher as it stands.
func (v *V) PrevHash(i int) ([]byte, error) {
	hf, _, err := v.chainAlg()
	if err != nil {
		return nil, err
	}
	h := hf()
	if i == 0 {
		h.Write(v.Header().Encode())
		h.Write(v.Hmac().Encode())
	} else {
		h.Write(v.Entry(i - 1).Encode())
	}
	return h.Sum(nil), nil
}

// HdrHash computes hash[GUID || DeviceInfo].
func (v *V) HdrHash() ([]byte, error) {
	hf, _, err := v.chainAlg()
	if err != nil {
		return nil, err
	}
	hd := v.Header()
	h := hf()
	h.Write(hd.Kids[1].Bytes)
	h.Write(hd.Kids[3].Bytes)
	return h.Sum(nil), nil
}

// Signer describes who signs an entry.
type Signer struct {
	Key crypto.Signer
	PSS bool
}

func signOpts(s Signer) crypto.SignerOpts {
	pub, ok := s.Key.Public().(*rsa.PublicKey)
	if !ok {
		return nil
	}
	var h crypto.Hash = crypto.SHA256
	if pub.Size() == 3072/8 {
		h = crypto.SHA384
	}
	if s.PSS {
		return &rsa.PSSOptions{SaltLength: rsa.PSSSaltLengthEqualsHash, Hash: h}
	}
	return h
}

// RawSign1 is a COSE_Sign1 with raw payload.
type RawSign1 = cose.Sign1Tag[cbor.RawBytes, []byte]

// Resign signs entry i (as it stands) with key.
func (v *V) Resign(i int, s Signer) error {
	var tok RawSign1
	if err := cbor.Unmarshal(v.Entry(i).Encode(), &tok); err != nil {
		return fmt.Errorf("vforge: decode entry %d: %w", i, err)
	}
	if err := tok.Sign(s.Key, nil, nil, signOpts(s)); err != nil {
		return err
	}
	b, err := cbor.Marshal(tok)
	if err != nil {
		return err
	}
	n, err := cb.DecodeAll(b)
	if err != nil {
		return err
	}
	v.T.Kids[4].Kids[i] = n
	return nil
}

// Rehash recomputes previous-hash and header-hash of entry i for the voucher as it stands
// (signature not touched).
func (v *V) Rehash(i int) error {
	p := v.EntryPayload(i)
	ph, err := v.PrevHash(i)
	if err != nil {
		return err
	}
	hh, err := v.HdrHash()
	if err != nil {
		return err
	}
	p.Kids[0].Kids[1] = cb.Bstr(ph)
	p.Kids[1].Kids[1] = cb.Bstr(hh)
	v.SetEntryPayload(i, p)
	return nil
}

// Repair recomputes hashes and signatures of entries from index `from` on; signers[i] signs
// entry i (the true key chain: manufacturer, owner1, ...).
func (v *V) Repair(from int, signers []Signer) error {
	for i := from; i < v.NumEntries(); i++ {
		if err := v.Rehash(i); err != nil {
			return err
		}
		if err := v.Resign(i, signers[i]); err != nil {
			return err
		}
	}
	return nil
}
