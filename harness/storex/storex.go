// Package storex drives the sqlite state backend with the operations of spec/Store.tla (C18):
// random or TLC-generated histories over several tokens, with closing/reopening of the database,
// every result mapped back to value ids and logged for validation against Store_Trace.tla.
package storex

import (
	"bytes"
	"context"
	"crypto/rand"
	"crypto/rsa"
	"crypto/x509"
	"encoding"
	"errors"
	"fmt"
	mrand "math/rand"
	"strings"
	"sync"
	"time"

	fdo "github.com/fido-device-onboard/go-fdo"
	"github.com/fido-device-onboard/go-fdo/cbor"
	"github.com/fido-device-onboard/go-fdo/cose"
	"github.com/fido-device-onboard/go-fdo/kex"
	"github.com/fido-device-onboard/go-fdo/protocol"
	"github.com/fido-device-onboard/go-fdo/serviceinfo"

	"verifharness/srvexec"
	"verifharness/vforge"
	"verifharness/world"
)

// Op is one operation of a history.
type Op struct {
	Op  string `json:"op"`
	T   int    `json:"t,omitempty"`
	Cls string `json:"cls,omitempty"`
	F   string `json:"f,omitempty"`
	V   string `json:"v,omitempty"`
	G   string `json:"g,omitempty"`
	G2  string `json:"g2,omitempty"`
}

// Event is the logged outcome.
type Event struct {
	Run   int    `json:"run"`
	I     int    `json:"i"`
	Op    string `json:"op"`
	T     int    `json:"t"`
	Cls   string `json:"cls"`
	F     string `json:"f"`
	V     string `json:"v"`
	G     string `json:"g"`
	G2    string `json:"g2"`
	Res   string `json:"res"`
	Out   string `json:"out"` // value id returned ("unset" if none, "?" if it matches no stored value)
	Err   string `json:"err,omitempty"`
	Panic string `json:"panic,omitempty"`
}

// Fields of Store.tla.
var Fields = []string{"to0nonce", "to1nonce", "guid", "rvinfo", "pnonce", "snonce", "mtu", "devmod", "rguid", "rhmac", "xsess", "ivh", "certchain"}

// ValIDs and GuidIDs of Store.tla.
var (
	ValIDs  = []string{"a", "b"}
	GuidIDs = []string{"g1", "g2", "g3"}
)

type devmodVal struct {
	D        serviceinfo.Devmod
	Modules  []string
	Complete bool
}

type xsessVal struct {
	Suite kex.Suite
	Sess  kex.Session
	Enc   []byte
}

// Exec is one store under test.
type Exec struct {
	S       *world.Store
	Foreign *world.Store
	W       *world.World
	tokens  map[int]string
	ftokens map[int]string
	Events  []Event
	run     int
	vals    map[string]map[string]any // field -> value id -> concrete value
	guids   map[string]protocol.GUID
	vouch   map[string]map[string]*fdo.Voucher
	vouchB  map[string]map[string][]byte
	blobs   map[string]*cose.Sign1[protocol.To1d, []byte]
	blobB   map[string][]byte
}

func nonceOf(b byte) protocol.Nonce {
	var n protocol.Nonce
	for i := range n {
		n[i] = b + byte(i)
	}
	return n
}

func kexSession(suite kex.Suite, cipher kex.CipherSuiteID, stage int, owner *world.Party) xsessVal {
	a := suite.New(nil, cipher)
	rsaPub, _ := owner.Key.Public().(*rsa.PublicKey)
	xA, err := a.Parameter(rand.Reader, rsaPub)
	if err != nil {
		panic(err)
	}
	if stage == 1 {
		b := suite.New(xA, cipher)
		xB, err := b.Parameter(rand.Reader, rsaPub)
		if err != nil {
			panic(err)
		}
		rsaPriv, _ := owner.Key.(*rsa.PrivateKey)
		if err := a.SetParameter(xB, rsaPriv); err != nil {
			panic(err)
		}
	}
	enc, err := a.(encoding.BinaryMarshaler).MarshalBinary()
	if err != nil {
		panic(err)
	}
	return xsessVal{Suite: suite, Sess: a, Enc: enc}
}

// New prepares a store with value pools. variant selects the shapes (kex suite, stage, sizes).
func New(run int, variant int) (*Exec, error) {
	ctx := context.Background()
	kind := world.P256
	suiteA, suiteB := kex.ECDH256Suite, kex.ECDH384Suite
	switch variant % 4 {
	case 1:
		kind, suiteA, suiteB = world.RSA2048, kex.DHKEXid14Suite, kex.ASYMKEX2048Suite
	case 2:
		kind, suiteA, suiteB = world.P384, kex.ECDH384Suite, kex.DHKEXid15Suite
	case 3:
		kind, suiteA, suiteB = world.PKCS3072, kex.ASYMKEX3072Suite, kex.DHKEXid14Suite
	}
	w := world.New(world.Options{Kind: kind, Separate: true})
	e := &Exec{S: w.OwnerStore, W: w, run: run, tokens: map[int]string{}, ftokens: map[int]string{}, vals: map[string]map[string]any{},
		guids: map[string]protocol.GUID{}, vouch: map[string]map[string]*fdo.Voucher{}, vouchB: map[string]map[string][]byte{},
		blobs: map[string]*cose.Sign1[protocol.To1d, []byte]{}, blobB: map[string][]byte{}}
	e.Foreign = world.OpenStore("foreign", nil)
	// vouchers: one DI per guid name; value "a" = as created, "b" = other device info (both zero entries)
	var chains [][]*x509.Certificate
	var hdrs []*fdo.VoucherHeader
	for _, gn := range GuidIDs {
		d := w.NewDevice("")
		if _, err := w.RunDI(ctx, d, nil); err != nil {
			return nil, err
		}
		ov, err := w.MfgStore.DB.Voucher(ctx, d.Cred.GUID)
		if err != nil {
			return nil, err
		}
		e.guids[gn] = d.Cred.GUID
		fv, err := vforge.From(ov)
		if err != nil {
			return nil, err
		}
		h := fv.Header()
		h.Kids[3].Bytes = []byte("other-info")
		h.Kids[3].AI = 0xff
		fv.SetHeader(h)
		ovb, err := fv.Voucher()
		if err != nil {
			return nil, err
		}
		e.vouch[gn] = map[string]*fdo.Voucher{"a": ov, "b": ovb}
		ba, _ := cbor.Marshal(ov)
		bb, _ := cbor.Marshal(ovb)
		e.vouchB[gn] = map[string][]byte{"a": ba, "b": bb}
		var chain []*x509.Certificate
		for _, c := range *ov.CertChain {
			chain = append(chain, (*x509.Certificate)(c))
		}
		chains = append(chains, chain)
		hh := ov.Header.Val
		hdrs = append(hdrs, &hh)
	}
	// blobs
	for i, id := range ValIDs {
		dns := fmt.Sprintf("owner-%s.verif", id)
		s1 := cose.Sign1[protocol.To1d, []byte]{Payload: cbor.NewByteWrap(protocol.To1d{
			RV:       []protocol.RvTO2Addr{{DNSAddress: &dns, Port: uint16(8000 + i), TransportProtocol: protocol.HTTPTransport}},
			To0dHash: protocol.Hash{Algorithm: protocol.Sha256Hash, Value: bytes.Repeat([]byte{byte(i + 1)}, 32)},
		})}
		if err := s1.Sign(w.Owner.Key, nil, nil, srvexec.SignOpts(w.Owner.Key, w.Owner.Kind.PSS())); err != nil {
			return nil, err
		}
		e.blobs[id] = &s1
		e.blobB[id], _ = cbor.Marshal(&s1)
	}
	big := make([][]protocol.RvInstruction, 0)
	for i := 0; i < 20; i++ {
		big = append(big, []protocol.RvInstruction{{Variable: protocol.RVDns, Value: mustCBOR(strings.Repeat("x", 40))}, {Variable: protocol.RVDevPort, Value: mustCBOR(uint16(i))}})
	}
	serial := []byte{1, 2, 3}
	e.vals = map[string]map[string]any{
		"to0nonce": {"a": nonceOf(1), "b": nonceOf(2)},
		"to1nonce": {"a": nonceOf(3), "b": nonceOf(4)},
		"pnonce":   {"a": nonceOf(5), "b": nonceOf(6)},
		"snonce":   {"a": nonceOf(7), "b": nonceOf(8)},
		"guid":     {"a": e.guids["g1"], "b": e.guids["g2"]},
		"rguid":    {"a": e.guids["g3"], "b": e.guids["g1"]},
		"rvinfo":   {"a": [][]protocol.RvInstruction{}, "b": big},
		"mtu":      {"a": uint16(1300), "b": uint16(65535)},
		"rhmac":    {"a": protocol.Hmac{Algorithm: protocol.HmacSha256Hash, Value: bytes.Repeat([]byte{9}, 32)}, "b": protocol.Hmac{Algorithm: protocol.HmacSha384Hash, Value: bytes.Repeat([]byte{8}, 48)}},
		"devmod": {
			"a": devmodVal{D: world.DefaultDevmod(), Modules: []string{"m1"}, Complete: false},
			"b": devmodVal{D: serviceinfo.Devmod{Os: "os", Arch: "arch", Version: "v", Device: "d", Serial: serial, PathSep: ":", FileSep: "/", Newline: "\n", Temp: "/tmp", Dir: "/", ProgEnv: "go", Bin: "bin", MudURL: "http://mud"}, Modules: []string{}, Complete: true},
		},
		"xsess": {
			"a": kexSession(suiteA, kex.A128GcmCipher, variant/4%2, w.Owner),
			"b": kexSession(suiteB, kex.CoseAes256CtrCipher, 1-variant/4%2, w.Owner),
		},
		"ivh":       {"a": hdrs[0], "b": hdrs[1]},
		"certchain": {"a": chains[0], "b": append(append([]*x509.Certificate{}, chains[1]...), chains[0][len(chains[0])-1])},
	}
	// the vouchers created by DI live in the manufacturer store; the owner store starts empty
	return e, nil
}

func mustCBOR(v any) []byte {
	b, err := cbor.Marshal(v)
	if err != nil {
		panic(err)
	}
	return b
}

// Close releases the stores.
func (e *Exec) Close() {
	e.Foreign.Close()
	e.W.Close()
}

func damage(tok string, how int) string {
	b := []byte(tok)
	switch how % 4 {
	case 0:
		i := len(b) - 4
		if b[i] == 'A' {
			b[i] = 'B'
		} else {
			b[i] = 'A'
		}
		return string(b)
	case 1:
		if b[1] == 'A' {
			b[1] = 'B'
		} else {
			b[1] = 'A'
		}
		return string(b)
	case 2:
		return tok[:10]
	default:
		return "!!" + tok
	}
}

func (e *Exec) ctxFor(t int, cls string, i int) context.Context {
	ctx := context.Background()
	switch cls {
	case "live":
		return e.S.DB.TokenContext(ctx, e.tokens[t])
	case "damaged":
		return e.S.DB.TokenContext(ctx, damage(e.tokens[t], i))
	case "foreign":
		if _, ok := e.ftokens[t]; !ok {
			tok, err := e.Foreign.DB.NewToken(ctx, protocol.TO2Protocol)
			if err != nil {
				panic(err)
			}
			e.ftokens[t] = tok
		}
		return e.S.DB.TokenContext(ctx, e.ftokens[t])
	}
	return ctx
}

func classify(err error) string {
	switch {
	case err == nil:
		return "ok"
	case errors.Is(err, fdo.ErrNotFound):
		return "notfound"
	case errors.Is(err, fdo.ErrInvalidSession):
		return "invalid"
	}
	return "err"
}

func same(a, b any) bool {
	x, e1 := cbor.Marshal(a)
	y, e2 := cbor.Marshal(b)
	return e1 == nil && e2 == nil && bytes.Equal(x, y)
}

func (e *Exec) idOf(field string, got any) string {
	for _, id := range ValIDs {
		want := e.vals[field][id]
		switch field {
		case "xsess":
			g := got.(xsessVal)
			w := want.(xsessVal)
			if g.Suite == w.Suite && bytes.Equal(g.Enc, w.Enc) {
				return id
			}
		case "certchain":
			g := got.([]*x509.Certificate)
			w := want.([]*x509.Certificate)
			if len(g) == len(w) {
				eq := true
				for i := range g {
					eq = eq && bytes.Equal(g[i].Raw, w[i].Raw)
				}
				if eq {
					return id
				}
			}
		case "rvinfo":
			g := got.([][]protocol.RvInstruction)
			w := want.([][]protocol.RvInstruction)
			if len(g) == 0 && len(w) == 0 || same(g, w) {
				return id
			}
		case "devmod":
			g := got.(devmodVal)
			w := want.(devmodVal)
			if same(g.D, w.D) && g.Complete == w.Complete && fmt.Sprint(g.Modules) == fmt.Sprint(w.Modules) {
				return id
			}
		default:
			if same(got, want) {
				return id
			}
		}
	}
	return "?"
}

// Do executes one operation.
func (e *Exec) Do(op Op) Event {
	ev := Event{Run: e.run, I: len(e.Events) + 1, Op: op.Op, T: op.T, Cls: op.Cls, F: op.F, V: op.V, G: op.G, G2: op.G2, Out: "unset"}
	defer func() {
		if r := recover(); r != nil {
			ev.Panic = fmt.Sprintf("%v @ %s", r, world.TopLibFrame())
			ev.Res = "panic"
			e.Events = append(e.Events, ev)
		}
	}()
	db := e.S.DB
	bg := context.Background()
	var err error
	switch op.Op {
	case "newtoken":
		protos := []protocol.Protocol{protocol.DIProtocol, protocol.TO0Protocol, protocol.TO1Protocol, protocol.TO2Protocol}
		var tok string
		if len(e.tokens) == 0 {
			// the first token of a brand-new database is minted while two other sessions start
			// too (a server that has just come up): whichever wins, every issued token is valid
			var wg sync.WaitGroup
			start := make(chan struct{})
			for i := 0; i < 2; i++ {
				wg.Add(1)
				go func(i int) {
					defer wg.Done()
					<-start
					_, _ = db.NewToken(bg, protos[i%4])
				}(i)
			}
			close(start)
			tok, err = db.NewToken(bg, protos[op.T%4])
			wg.Wait()
		} else {
			tok, err = db.NewToken(bg, protos[op.T%4])
		}
		e.tokens[op.T] = tok
	case "invalidate":
		err = db.InvalidateToken(e.ctxFor(op.T, op.Cls, ev.I))
	case "set":
		ctx := e.ctxFor(op.T, op.Cls, ev.I)
		v := e.vals[op.F][op.V]
		switch op.F {
		case "to0nonce":
			err = db.SetTO0SignNonce(ctx, v.(protocol.Nonce))
		case "to1nonce":
			err = db.SetTO1ProofNonce(ctx, v.(protocol.Nonce))
		case "pnonce":
			err = db.SetProveDeviceNonce(ctx, v.(protocol.Nonce))
		case "snonce":
			err = db.SetSetupDeviceNonce(ctx, v.(protocol.Nonce))
		case "guid":
			err = db.SetGUID(ctx, v.(protocol.GUID))
		case "rguid":
			err = db.SetReplacementGUID(ctx, v.(protocol.GUID))
		case "rvinfo":
			err = db.SetRvInfo(ctx, v.([][]protocol.RvInstruction))
		case "mtu":
			err = db.SetMTU(ctx, v.(uint16))
		case "rhmac":
			err = db.SetReplacementHmac(ctx, v.(protocol.Hmac))
		case "devmod":
			d := v.(devmodVal)
			err = db.SetDevmod(ctx, d.D, d.Modules, d.Complete)
		case "xsess":
			x := v.(xsessVal)
			err = db.SetXSession(ctx, x.Suite, x.Sess)
		case "ivh":
			err = db.SetIncompleteVoucherHeader(ctx, v.(*fdo.VoucherHeader))
		case "certchain":
			err = db.SetDeviceCertChain(ctx, v.([]*x509.Certificate))
		}
	case "get":
		ctx := e.ctxFor(op.T, op.Cls, ev.I)
		var got any
		switch op.F {
		case "to0nonce":
			got, err = db.TO0SignNonce(ctx)
		case "to1nonce":
			got, err = db.TO1ProofNonce(ctx)
		case "pnonce":
			got, err = db.ProveDeviceNonce(ctx)
		case "snonce":
			got, err = db.SetupDeviceNonce(ctx)
		case "guid":
			got, err = db.GUID(ctx)
		case "rguid":
			got, err = db.ReplacementGUID(ctx)
		case "rvinfo":
			got, err = db.RvInfo(ctx)
		case "mtu":
			got, err = db.MTU(ctx)
		case "rhmac":
			got, err = db.ReplacementHmac(ctx)
		case "devmod":
			var d devmodVal
			d.D, d.Modules, d.Complete, err = db.Devmod(ctx)
			got = d
		case "xsess":
			var x xsessVal
			x.Suite, x.Sess, err = db.XSession(ctx)
			if err == nil {
				x.Enc, err = x.Sess.(encoding.BinaryMarshaler).MarshalBinary()
			}
			got = x
		case "ivh":
			got, err = db.IncompleteVoucherHeader(ctx)
		case "certchain":
			got, err = db.DeviceCertChain(ctx)
		}
		if err == nil {
			ev.Out = e.idOf(op.F, got)
		}
	case "addvoucher":
		err = e.S.AddVoucher(bg, e.vouch[op.G][op.V])
	case "voucher":
		var ov *fdo.Voucher
		ov, err = db.Voucher(bg, e.guids[op.G])
		if err == nil {
			ev.Out = e.voucherID(op.G, ov)
		}
	case "replacevoucher":
		err = e.S.ReplaceVoucher(bg, e.guids[op.G], e.vouch[op.G2][op.V])
	case "removevoucher":
		var ov *fdo.Voucher
		ov, err = e.S.RemoveVoucher(bg, e.guids[op.G])
		if err == nil {
			ev.Out = e.voucherID(op.G, ov)
		}
	case "setblob":
		err = e.S.SetRVBlob(bg, e.vouch[op.G]["a"], e.blobs[op.V], time.Now().Add(time.Hour))
	case "expire":
		g := e.guids[op.G]
		_, err = db.DB().Exec(`UPDATE rv_blobs SET exp = ? WHERE guid = ?`, time.Now().Add(-time.Hour).Unix(), g[:])
	case "blob":
		var b *cose.Sign1[protocol.To1d, []byte]
		var ov *fdo.Voucher
		b, ov, err = db.RVBlob(bg, e.guids[op.G])
		if err == nil {
			ev.Out = "?"
			enc, _ := cbor.Marshal(b)
			for _, id := range ValIDs {
				if bytes.Equal(enc, e.blobB[id]) && e.voucherID(op.G, ov) == "a" {
					ev.Out = id
				}
			}
		}
	case "reopen":
		err = e.S.Reopen()
	default:
		err = fmt.Errorf("unknown op %q", op.Op)
	}
	ev.Res = classify(err)
	if op.Op == "replacevoucher" && ev.Res == "notfound" {
		ev.Res = "err" // any failure of a replacement is a failure
	}
	if err != nil {
		ev.Err = err.Error()
		if len(ev.Err) > 160 {
			ev.Err = ev.Err[:160]
		}
	}
	e.Events = append(e.Events, ev)
	return ev
}

func (e *Exec) voucherID(g string, ov *fdo.Voucher) string {
	enc, err := cbor.Marshal(ov)
	if err != nil {
		return "?"
	}
	for _, id := range ValIDs {
		if bytes.Equal(enc, e.vouchB[g][id]) {
			return id
		}
	}
	return "?"
}

// RandomHistory draws operations without consulting the specification.
func RandomHistory(rng *mrand.Rand, n int) []Op {
	var ops []Op
	minted := map[int]bool{}
	classes := []string{"live", "live", "live", "live", "none", "damaged", "foreign"}
	// every fourth history concentrates on the rendezvous blobs of several GUIDs (register, look
	// up, let one expire, look the others up, reopen): sequences the uniform draw hardly produces
	rvFocus := rng.Intn(4) == 0
	for len(ops) < n {
		r := rng.Intn(100)
		if rvFocus && len(ops) > 0 && rng.Intn(5) != 0 {
			g := GuidIDs[rng.Intn(len(GuidIDs))]
			switch {
			case r < 35:
				ops = append(ops, Op{Op: "setblob", G: g, V: ValIDs[rng.Intn(len(ValIDs))]})
			case r < 72:
				ops = append(ops, Op{Op: "blob", G: g})
			case r < 90:
				ops = append(ops, Op{Op: "expire", G: g})
			default:
				ops = append(ops, Op{Op: "reopen"})
			}
			continue
		}
		t := 1 + rng.Intn(3)
		g := GuidIDs[rng.Intn(len(GuidIDs))]
		v := ValIDs[rng.Intn(len(ValIDs))]
		f := Fields[rng.Intn(len(Fields))]
		switch {
		case !minted[t] && r < 60:
			minted[t] = true
			ops = append(ops, Op{Op: "newtoken", T: t})
		case !minted[t]:
		case r < 30:
			ops = append(ops, Op{Op: "set", T: t, Cls: classes[rng.Intn(len(classes))], F: f, V: v})
		case r < 60:
			ops = append(ops, Op{Op: "get", T: t, Cls: classes[rng.Intn(len(classes))], F: f})
		case r < 65:
			ops = append(ops, Op{Op: "invalidate", T: t, Cls: classes[rng.Intn(len(classes))]})
		case r < 72:
			ops = append(ops, Op{Op: "addvoucher", G: g, V: v})
		case r < 78:
			ops = append(ops, Op{Op: "voucher", G: g})
		case r < 83:
			g2 := GuidIDs[rng.Intn(len(GuidIDs))]
			if g2 == g {
				continue // replacing a voucher by one with the same GUID is not a replacement (no protocol path does it)
			}
			ops = append(ops, Op{Op: "replacevoucher", G: g, G2: g2, V: v})
		case r < 86:
			ops = append(ops, Op{Op: "removevoucher", G: g})
		case r < 90:
			ops = append(ops, Op{Op: "setblob", G: g, V: v})
		case r < 93:
			ops = append(ops, Op{Op: "blob", G: g})
		case r < 95:
			ops = append(ops, Op{Op: "expire", G: g})
		default:
			ops = append(ops, Op{Op: "reopen"})
		}
	}
	return ops
}
