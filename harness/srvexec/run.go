package srvexec

import (
	"bufio"
	"encoding/json"
	"fmt"
	mrand "math/rand"
	"os"
	"sync"
)

// Behaviour is one action sequence with the world it runs in.
type Behaviour struct {
	Cfg     Config   `json:"cfg"`
	Actions []Action `json:"actions"`
}

// MeterAll turns on allocation metering in every executor (single-world processes only).
var MeterAll bool

// RunBehaviours executes behaviours in parallel and writes all events (grouped per run, each run
// preceded by a reset event carrying its configuration) as NDJSON.
func RunBehaviours(bs []Behaviour, out string, workers int) error {
	type res struct {
		idx int
		evs []Event
		cfg Config
		err error
	}
	results := make([]res, len(bs))
	var wg sync.WaitGroup
	ch := make(chan int)
	for w := 0; w < workers; w++ {
		wg.Add(1)
		go func() {
			defer wg.Done()
			for i := range ch {
				b := bs[i]
				e, err := New(b.Cfg, i+1)
				if err != nil {
					results[i] = res{idx: i, err: err}
					continue
				}
				e.Meter = MeterAll
				for _, a := range b.Actions {
					e.Do(a)
				}
				results[i] = res{idx: i, evs: e.Events, cfg: b.Cfg}
				e.Close()
			}
		}()
	}
	for i := range bs {
		ch <- i
	}
	close(ch)
	wg.Wait()
	f, err := os.Create(out)
	if err != nil {
		return err
	}
	defer f.Close()
	w := bufio.NewWriter(f)
	defer w.Flush()
	enc := json.NewEncoder(w)
	for i, r := range results {
		if r.err != nil {
			return fmt.Errorf("behaviour %d: %w", i, r.err)
		}
		if err := enc.Encode(map[string]any{"kind": "reset", "run": i + 1, "reuse": r.cfg.Reuse, "nmods": r.cfg.NMods, "cfg": r.cfg}); err != nil {
			return err
		}
		for _, ev := range r.evs {
			if err := enc.Encode(ev); err != nil {
				return err
			}
		}
	}
	return nil
}

// RandomBehaviour draws an action sequence without consulting the specification (the code→spec
// direction): mostly protocol progress, interleaved with adversarial requests.
func RandomBehaviour(rng *mrand.Rand, cfg Config, n int, forge map[int][]string, focus int, restartPct int) Behaviour {
	b := Behaviour{Cfg: cfg}
	type st struct{ proto, dev string }
	slots := map[int]*st{}
	protos := []string{"DI", "TO0", "TO1", "TO2", "TO2", "TO2"}
	devs := []string{"dA", "dB"}
	reqTypes := []int{12, 22, 32, 62, 64, 66, 68, 70}
	respTypes := []int{11, 13, 21, 23, 31, 33, 61, 63}
	startTypes := []int{10, 20, 30, 60}
	toks := []string{"own", "own", "own", "none", "bad"}
	bodies := []string{"replay", "replay", "foreign", "garbage", "skip"}
	scenario := func() {
		// a targeted forgery: bring a fresh session to the message of interest, then forge it
		as := forge[focus]
		if len(as) == 0 || len(slots) >= 3 {
			return
		}
		atom := as[rng.Intn(len(as))]
		d := devs[rng.Intn(len(devs))]
		s := len(slots) + 1
		switch focus {
		case 22:
			slots[s] = &st{"TO0", d}
			b.Actions = append(b.Actions, Action{A: "start", S: s, P: "TO0", D: d}, Action{A: "forged", S: s, Atom: atom})
		case 32:
			slots[s] = &st{"TO0", d}
			slots[s+1] = &st{"TO1", d}
			b.Actions = append(b.Actions, Action{A: "start", S: s, P: "TO0", D: d}, Action{A: "honest", S: s},
				Action{A: "start", S: s + 1, P: "TO1", D: d}, Action{A: "forged", S: s + 1, Atom: atom})
		case 64:
			slots[s] = &st{"TO2", d}
			b.Actions = append(b.Actions, Action{A: "start", S: s, P: "TO2", D: d}, Action{A: "honest", S: s}, Action{A: "forged", S: s, Atom: atom})
		}
	}
	for len(b.Actions) < n {
		r := rng.Intn(100)
		if focus != 0 && rng.Intn(6) == 0 {
			scenario()
			continue
		}
		if len(slots) > 0 && rng.Intn(100) < restartPct {
			b.Actions = append(b.Actions, Action{A: "restart"})
			continue
		}
		var used []int
		for s := range slots {
			used = append(used, s)
		}
		pick := func() int {
			// map iteration order is random; make the choice depend on rng only
			min := used[0]
			for _, u := range used {
				if u < min {
					min = u
				}
			}
			k := rng.Intn(len(used))
			_ = min
			// stable order
			for i := 0; i < len(used); i++ {
				for j := i + 1; j < len(used); j++ {
					if used[j] < used[i] {
						used[i], used[j] = used[j], used[i]
					}
				}
			}
			return used[k]
		}
		switch {
		case len(slots) == 0 || (r < 12 && len(slots) < 4):
			s := len(slots) + 1
			p := protos[rng.Intn(len(protos))]
			d := "new"
			if p != "DI" {
				d = devs[rng.Intn(len(devs))]
			}
			slots[s] = &st{p, d}
			b.Actions = append(b.Actions, Action{A: "start", S: s, P: p, D: d})
		case r < 55:
			b.Actions = append(b.Actions, Action{A: "honest", S: pick()})
		case r < 62:
			s := pick()
			var t int
			switch slots[s].proto {
			case "TO0":
				t = 22
			case "TO1":
				t = 32
			case "TO2":
				t = 64
			}
			if as := forge[t]; len(as) > 0 {
				b.Actions = append(b.Actions, Action{A: "forged", S: s, Atom: as[rng.Intn(len(as))]})
			}
		case r < 85:
			a := Action{A: "inject", S: pick(), T: reqTypes[rng.Intn(len(reqTypes))], Tok: toks[rng.Intn(len(toks))], B: bodies[rng.Intn(len(bodies))]}
			if a.B == "skip" {
				a.T = []int{66, 68, 70, 70}[rng.Intn(4)]
			}
			b.Actions = append(b.Actions, a)
		case r < 88:
			b.Actions = append(b.Actions, Action{A: "resptype", S: pick(), T: respTypes[rng.Intn(len(respTypes))], Tok: toks[rng.Intn(len(toks))], B: "garbage"})
		case r < 92:
			b.Actions = append(b.Actions, Action{A: "orphan", S: pick(), T: startTypes[rng.Intn(len(startTypes))], B: []string{"replay", "garbage"}[rng.Intn(2)]})
		case r < 95:
			b.Actions = append(b.Actions, Action{A: "errmsg", S: pick(), Tok: toks[rng.Intn(len(toks))]})
		case r < 98:
			b.Actions = append(b.Actions, Action{A: "expire", D: devs[rng.Intn(len(devs))]})
		default:
			b.Actions = append(b.Actions, Action{A: "restart"})
		}
	}
	return b
}
