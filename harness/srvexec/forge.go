package srvexec

import (
	"crypto"
	"crypto/rand"
	"crypto/rsa"
	"fmt"
	"strings"

	"github.com/fido-device-onboard/go-fdo/cbor"
	"github.com/fido-device-onboard/go-fdo/cose"

	"verifharness/cb"
	"verifharness/world"
)

// SignOpts mirrors the library's choice of signing options for a key kind.
func SignOpts(key crypto.Signer, pss bool) crypto.SignerOpts {
	pub, ok := key.Public().(*rsa.PublicKey)
	if !ok {
		return nil
	}
	var h crypto.Hash = crypto.SHA256
	if pub.Size() == 3072/8 {
		h = crypto.SHA384
	}
	if pss {
		return &rsa.PSSOptions{SaltLength: rsa.PSSSaltLengthEqualsHash, Hash: h}
	}
	return h
}

// RawSign1 is a COSE_Sign1 whose payload is kept as raw CBOR.
type RawSign1 = cose.Sign1Tag[cbor.RawBytes, []byte]

// Resign decodes a tagged COSE_Sign1, lets mutate edit the payload tree and signs the result with
// key (nil key: keep the old signature, i.e. alter without re-signing).
func Resign(body []byte, key crypto.Signer, pss bool, mutate func(payload *cb.Node)) ([]byte, error) {
	var tok RawSign1
	if err := cbor.Unmarshal(body, &tok); err != nil {
		return nil, fmt.Errorf("decode sign1: %w", err)
	}
	if tok.Payload == nil {
		return nil, fmt.Errorf("no payload")
	}
	payload, err := cb.DecodeAll([]byte(tok.Payload.Val))
	if err != nil {
		return nil, fmt.Errorf("decode payload: %w", err)
	}
	if mutate != nil {
		mutate(payload)
	}
	tok.Payload = cbor.NewByteWrap(cbor.RawBytes(payload.Encode()))
	if key != nil {
		if err := tok.Sign(key, nil, nil, SignOpts(key, pss)); err != nil {
			return nil, fmt.Errorf("sign: %w", err)
		}
	}
	return cbor.Marshal(tok)
}

// ResignRaw replaces the payload of a tagged COSE_Sign1 by raw bytes (well-formed or not) and signs.
func ResignRaw(body []byte, key crypto.Signer, pss bool, payload []byte) ([]byte, error) {
	var tok RawSign1
	if err := cbor.Unmarshal(body, &tok); err != nil {
		return nil, fmt.Errorf("decode sign1: %w", err)
	}
	tok.Payload = cbor.NewByteWrap(cbor.RawBytes(payload))
	if err := tok.Sign(key, nil, nil, SignOpts(key, pss)); err != nil {
		return nil, fmt.Errorf("sign: %w", err)
	}
	return cbor.Marshal(tok)
}

// sweepSigned enumerates single-point structural mutants of the authenticated part of a message and
// repairs the authentication around each with harness-owned keys, so that the mutant reaches the code
// behind the integrity check: TO0.OwnerSign (to0d mutated, hash recomputed, to1d re-signed by the
// owner), TO1.ProveToRV / TO2.ProveDevice (token payload mutated, re-signed by the device key).
// It returns the number of cases and a builder for case i.
func (e *Exec) sweepSigned(s *slot, t int, base []byte) (int, func(i int) ([]byte, string, error), error) {
	switch t {
	case 22:
		msg, err := cb.DecodeAll(base)
		if err != nil || len(msg.Kids) != 2 {
			return 0, nil, fmt.Errorf("unexpected OwnerSign shape")
		}
		to0d, err := msg.Kids[0].Inner()
		if err != nil {
			return 0, nil, err
		}
		cases := cb.Sweep(to0d, 2)
		owner := e.W.Owner
		return len(cases), func(i int) ([]byte, string, error) {
			c := cases[i]
			to1d, err := Resign(msg.Kids[1].Encode(), owner.Key, owner.Kind.PSS(), func(p *cb.Node) {
				hn := p.At(1)
				var h crypto.Hash = crypto.SHA256
				if alg := hn.At(0); alg.Major == 1 && alg.Val == 42 {
					h = crypto.SHA384
				}
				hh := h.New()
				hh.Write(c.Body)
				hn.Kids[1] = cb.Bstr(hh.Sum(nil))
			})
			if err != nil {
				return nil, "", err
			}
			t1, err := cb.DecodeAll(to1d)
			if err != nil {
				return nil, "", err
			}
			return cb.Arr(cb.Bstr(c.Body), t1).Encode(), "to0d~" + c.What, nil
		}, nil
	case 32, 64:
		var tok RawSign1
		if err := cbor.Unmarshal(base, &tok); err != nil || tok.Payload == nil {
			return 0, nil, fmt.Errorf("unexpected token shape")
		}
		pt, err := cb.DecodeAll([]byte(tok.Payload.Val))
		if err != nil {
			return 0, nil, err
		}
		cases := cb.Sweep(pt, 2)
		dev := s.dev
		return len(cases), func(i int) ([]byte, string, error) {
			b, err := ResignRaw(base, dev.Key, dev.Kind.PSS(), cases[i].Body)
			return b, "payload~" + cases[i].What, err
		}, nil
	}
	return 0, nil, fmt.Errorf("no signed sweep for message type %d", t)
}

func randBytes(n int) []byte {
	b := make([]byte, n)
	_, _ = rand.Read(b)
	return b
}

// forgeEAT forges the device token of TO2.ProveDevice (64) and TO1.ProveToRV (32).
// EAT payload: map {10: nonce, 256: ueid, -257: [xB]}.
func (e *Exec) forgeEAT(s *slot, atom string, body []byte) ([]byte, error) {
	dev := s.dev
	other := e.otherDev(s.devName)
	pss := dev.Kind.PSS()
	if strings.HasPrefix(atom, "ueid_") && atom != "ueid_other" && atom != "ueid_other_key_other" && len(e.guidOf(s.devName)) == 0 {
		return nil, fmt.Errorf("GUID of %s unknown", s.devName)
	}
	switch atom {
	case "resign_stranger":
		return Resign(body, e.Stranger.Key, pss, nil)
	case "resign_otherdev":
		return Resign(body, other.Key, pss, nil)
	case "resign_owner":
		return Resign(body, e.W.Owner.Key, pss, nil)
	case "nonce_other":
		return Resign(body, dev.Key, pss, func(p *cb.Node) { p.MapSet(10, cb.Bstr(randBytes(16))) })
	case "ueid_other":
		return Resign(body, dev.Key, pss, func(p *cb.Node) {
			g := e.guidOf(map[string]string{"dA": "dB", "dB": "dA"}[s.devName])
			p.MapSet(256, cb.Bstr(append([]byte{1}, g...)))
		})
	case "ueid_other_key_other":
		// the other device's genuine identity, but in this session (nonce of this session)
		return Resign(body, other.Key, pss, func(p *cb.Node) {
			g := e.guidOf(map[string]string{"dA": "dB", "dB": "dA"}[s.devName])
			p.MapSet(256, cb.Bstr(append([]byte{1}, g...)))
		})
	case "ueid_prefix":
		// the right identity, cut short: type byte followed by a proper prefix of the GUID (possibly empty)
		return Resign(body, dev.Key, pss, func(p *cb.Node) {
			g := e.guidOf(s.devName)
			p.MapSet(256, cb.Bstr(append([]byte{1}, g[:e.rng.Intn(len(g))]...)))
		})
	case "ueid_longer":
		return Resign(body, dev.Key, pss, func(p *cb.Node) {
			g := e.guidOf(s.devName)
			p.MapSet(256, cb.Bstr(append(append([]byte{1}, g...), byte(e.rng.Intn(256)))))
		})
	case "ueid_type":
		return Resign(body, dev.Key, pss, func(p *cb.Node) {
			g := e.guidOf(s.devName)
			p.MapSet(256, cb.Bstr(append([]byte{byte(2 + e.rng.Intn(250))}, g...)))
		})
	case "nonce_prefix":
		return Resign(body, dev.Key, pss, func(p *cb.Node) {
			nn := p.MapGet(10)
			if nn != nil && len(nn.Bytes) > 1 {
				nn.Bytes = append([]byte(nil), nn.Bytes[:e.rng.Intn(len(nn.Bytes))]...)
			}
		})
	case "no_nonce":
		return Resign(body, dev.Key, pss, func(p *cb.Node) { p.MapDel(10) })
	case "no_ueid":
		return Resign(body, dev.Key, pss, func(p *cb.Node) { p.MapDel(256) })
	case "sig_flip":
		n, err := cb.DecodeAll(body)
		if err != nil {
			return nil, err
		}
		sig := n.Untag().At(3)
		sig.Bytes = append([]byte(nil), sig.Bytes...)
		sig.Bytes[len(sig.Bytes)/2] ^= 0x04
		return n.Encode(), nil
	case "payload_flip":
		return Resign(body, nil, pss, func(p *cb.Node) {
			nn := p.MapGet(10)
			nn.Bytes = append([]byte(nil), nn.Bytes...)
			nn.Bytes[3] ^= 0x10
		})
	case "xb_empty":
		return Resign(body, dev.Key, pss, func(p *cb.Node) {
			if f := p.MapGet(-257); f != nil && len(f.Kids) == 1 {
				f.Kids[0] = cb.Bstr([]byte{})
			}
		})
	case "old_token":
		if b, ok := e.ref[int(64)]; ok && false {
			return b, nil
		}
		return nil, fmt.Errorf("old_token not available")
	}
	return nil, fmt.Errorf("unknown EAT atom %q", atom)
}

// forge22 forges TO0.OwnerSign: [ bstr .cbor [voucher, wait, nonce], #6.18(to1d) ],
// to1d payload = [ addrs, [hashAlg, hashValue] ].
func (e *Exec) forge22(s *slot, atom string, body []byte) ([]byte, error) {
	msg, err := cb.DecodeAll(body)
	if err != nil {
		return nil, err
	}
	if len(msg.Kids) != 2 {
		return nil, fmt.Errorf("unexpected OwnerSign shape")
	}
	to0dB, to1dN := msg.Kids[0], msg.Kids[1]
	owner := e.W.Owner
	pss := owner.Kind.PSS()
	// rebuild the message from an edited to0d tree, recomputing the hash and re-signing to1d
	rebuild := func(editTo0d func(t *cb.Node), editHash func(h []byte) []byte, signer crypto.Signer) ([]byte, error) {
		to0d := to0dB.MustInner()
		if editTo0d != nil {
			editTo0d(to0d)
		}
		enc := to0d.Encode()
		to1dBytes, err := Resign(to1dN.Encode(), signer, pss, func(p *cb.Node) {
			hn := p.At(1)
			alg := hn.At(0)
			var h crypto.Hash = crypto.SHA256
			if alg.Major == 1 && alg.Val == 42 { // -43 = SHA-384
				h = crypto.SHA384
			}
			hh := h.New()
			hh.Write(enc)
			sum := hh.Sum(nil)
			if editHash != nil {
				sum = editHash(sum)
			}
			hn.Kids[1] = cb.Bstr(sum)
		})
		if err != nil {
			return nil, err
		}
		t1, err := cb.DecodeAll(to1dBytes)
		if err != nil {
			return nil, err
		}
		return cb.Arr(cb.Bstr(enc), t1).Encode(), nil
	}
	switch atom {
	case "to1d_resign_stranger":
		return rebuild(nil, nil, e.Stranger.Key)
	case "to1d_resign_mfg":
		return rebuild(nil, nil, e.W.Mfg.Key)
	case "to0d_wait_changed":
		// alter to0d without touching to1d: hash mismatch
		to0d := to0dB.MustInner()
		to0d.Kids[1] = cb.Uint(to0d.Kids[1].Val + 1)
		return cb.Arr(cb.Bstr(to0d.Encode()), to1dN).Encode(), nil
	case "hash_wrong":
		return rebuild(nil, func(h []byte) []byte { h[0] ^= 1; return h }, owner.Key)
	case "nonce_other":
		return rebuild(func(t *cb.Node) { t.Kids[2] = cb.Bstr(randBytes(16)) }, nil, owner.Key)
	case "entry_sig_flip":
		return rebuild(func(t *cb.Node) {
			ent := t.At(0, 4, 0).Untag()
			sig := ent.At(3)
			sig.Bytes = append([]byte(nil), sig.Bytes...)
			sig.Bytes[1] ^= 0x20
		}, nil, owner.Key)
	case "no_entries":
		return rebuild(func(t *cb.Node) { t.At(0).Kids[4] = cb.Arr() }, nil, owner.Key)
	case "no_entries_mfg_signed":
		// a never-extended voucher names the manufacturer as owner: the manufacturer re-registers a sold device
		return rebuild(func(t *cb.Node) { t.At(0).Kids[4] = cb.Arr() }, nil, e.W.Mfg.Key)
	case "strip_certchain":
		// the genuine owner registers the voucher without its device certificate chain
		return rebuild(func(t *cb.Node) { t.At(0).Kids[3] = cb.Null() }, nil, owner.Key)
	case "entry_resigned_stranger":
		// the chain's only entry re-signed by a stranger (who then also signs to1d as "owner")
		var ferr error
		out, err := rebuild(func(t *cb.Node) {
			entries := t.At(0, 4)
			b, err := Resign(entries.Kids[0].Encode(), e.Stranger.Key, pss, nil)
			if err != nil {
				ferr = err
				return
			}
			n, err := cb.DecodeAll(b)
			if err != nil {
				ferr = err
				return
			}
			entries.Kids[0] = n
		}, nil, owner.Key)
		if ferr != nil {
			return nil, ferr
		}
		return out, err
	}
	return nil, fmt.Errorf("unknown OwnerSign atom %q", atom)
}

var _ = world.P256
