package srvexec

import (
	"bytes"
	"crypto"
	"crypto/rand"
	"encoding/hex"
	"fmt"
	"regexp"

	"github.com/fido-device-onboard/go-fdo/cbor"

	"verifharness/cb"
	"verifharness/world"
)

// Classed mutants (C10, spec/Server_Mutants.tla): Action.Fam names a deterministic mutation family
// (cb.Families: struct, inner, volume), Action.B the level at which it is applied -
//
//	wire    the bytes that travel (for 66..70 the COSE object),
//	plain   the plaintext of a tunnel message, then protected with the device's session keys,
//	signed  the authenticated part of 22 / 32 / 64, the authentication then repaired with the keys
//	        the harness owns (to0d hash recomputed and to1d re-signed by the owner; token re-signed
//	        by the device key)
//
// and Action.Seed the index of the mutant within (message, level, family). The event note ends
// in "n=<cases>" so that a probe run (index 0) tells the caller how many there are.

// TransportLimit is the default content length limit of the HTTP handler and transport.
const TransportLimit = 65535

// signedPart returns the authenticated tree of a message of type t and a function that wraps a
// mutated encoding of it into a message whose authentication is valid again; over is the size of
// the rest of the message.
func (e *Exec) signedPart(s *slot, t int, base []byte) (tree *cb.Node, seal func([]byte) ([]byte, error), over int, err error) {
	switch t {
	case 22:
		msg, err := cb.DecodeAll(base)
		if err != nil || len(msg.Kids) != 2 {
			return nil, nil, 0, fmt.Errorf("unexpected OwnerSign shape")
		}
		to0d, err := msg.Kids[0].Inner()
		if err != nil {
			return nil, nil, 0, err
		}
		owner := e.W.Owner
		to1dEnc := msg.Kids[1].Encode()
		return to0d, func(body []byte) ([]byte, error) {
			to1d, err := Resign(to1dEnc, owner.Key, owner.Kind.PSS(), func(p *cb.Node) {
				hn := p.At(1)
				var h crypto.Hash = crypto.SHA256
				if alg := hn.At(0); alg.Major == 1 && alg.Val == 42 {
					h = crypto.SHA384
				}
				hh := h.New()
				hh.Write(body)
				hn.Kids[1] = cb.Bstr(hh.Sum(nil))
			})
			if err != nil {
				return nil, err
			}
			t1, err := cb.DecodeAll(to1d)
			if err != nil {
				return nil, err
			}
			return cb.Arr(cb.Bstr(body), t1).Encode(), nil
		}, len(to1dEnc) + 8, nil
	case 32, 64:
		var tok RawSign1
		if err := cbor.Unmarshal(base, &tok); err != nil || tok.Payload == nil {
			return nil, nil, 0, fmt.Errorf("unexpected token shape")
		}
		pt, err := cb.DecodeAll([]byte(tok.Payload.Val))
		if err != nil {
			return nil, nil, 0, err
		}
		dev := s.dev
		if dev == nil || dev.Key == nil {
			return nil, nil, 0, fmt.Errorf("no device key")
		}
		return pt, func(body []byte) ([]byte, error) {
			return ResignRaw(base, dev.Key, dev.Kind.PSS(), body)
		}, len(base) - len(tok.Payload.Val) + 8, nil
	}
	return nil, nil, 0, fmt.Errorf("no authenticated part known for message type %d", t)
}

// doMutantFam executes a classed mutant.
func (e *Exec) doMutantFam(a Action, s *slot, base []byte) {
	ev := Event{Kind: "mutant", S: s.id, P: s.proto, D: s.devName, T: a.T, Tok: "own", B: a.B, Fam: a.Fam}
	x := &world.Exchange{ReqType: uint8(a.T), ReqToken: s.token}
	unexec := func(why string) {
		e.emit(Event{Kind: "unexecutable", S: a.S, T: a.T, Note: fmt.Sprintf("mutant %s/%s: %s", a.B, a.Fam, why)})
	}
	var tree *cb.Node
	seal := func(b []byte) ([]byte, error) { return b, nil }
	limit := TransportLimit
	switch a.B {
	case "wire":
		t2, err := cb.DecodeAll(base)
		if err != nil {
			unexec("no well-formed base message")
			return
		}
		tree = t2
	case "plain":
		if s.sess == nil || s.resp[65] == nil || a.T < 66 || a.T > 70 {
			unexec("no session keys for a plaintext mutation")
			return
		}
		tree = e.plainFor(s, a.T)
		if s.pend != nil && int(s.pend.x.ReqType) == a.T {
			if pt, err := s.sess.Decrypt(rand.Reader, bytes.NewReader(s.pend.x.ReqBody)); err == nil {
				if t2, err := cb.DecodeAll(pt); err == nil {
					tree = t2
				}
			}
		}
		limit -= 256 // COSE_Encrypt0 / Mac0 framing, IV, tag, padding
		seal = func(b []byte) ([]byte, error) {
			enc, err := s.sess.Encrypt(rand.Reader, cbor.RawBytes(b))
			if err != nil {
				return nil, err
			}
			return cbor.Marshal(enc)
		}
	case "signed":
		t2, sl, over, err := e.signedPart(s, a.T, base)
		if err != nil {
			unexec(err.Error())
			return
		}
		tree, seal, limit = t2, sl, limit-over
	default:
		unexec("unknown level")
		return
	}
	cases := cb.Family(a.Fam, tree, 3, limit)
	if len(cases) == 0 {
		// the family has nothing to attack in this message (e.g. no byte string): say so
		e.emit(Event{Kind: "unexecutable", S: a.S, T: a.T, Note: fmt.Sprintf("mutant %s/%s: no cases n=0", a.B, a.Fam)})
		return
	}
	c := cases[int(a.Seed%int64(len(cases)))]
	body, err := seal(c.Make())
	if err != nil {
		unexec("seal: " + err.Error())
		return
	}
	x.ReqBody = body
	ev.Note = fmt.Sprintf("%s:%s n=%d", a.Fam, c.What, len(cases))
	ev = e.serve(x, ev, s)
	mutantTTL(&ev)
	if ev.Panic == "" && x.RespCode == 200 && x.RespType == 0 {
		ev.Resp = 0
	}
	if ev.Panic != "" || ev.Resp == -2 || ev.Alloc > 64*int64(len(x.ReqBody))+(24<<20) {
		h := x.ReqBody
		if len(h) > 4096 {
			h = h[:4096]
		}
		ev.Hex = hex.EncodeToString(h)
	}
	e.emit(ev)
}

var setRVBlobTTL = regexp.MustCompile(`^(SetRVBlob:[^:]+):\d+$`)

// mutantTTL: a mutant of TO0.OwnerSign that is accepted may ask for another time-to-live than the
// honest client does (the wait seconds are part of what was mutated), so for mutants the effect is
// reported as "SetRVBlob:<device>:any" (Server_Trace.tla, MatchMutant). Disagreement between the
// stored and the announced value is still reported by fxSinceAt in its own format.
func mutantTTL(ev *Event) {
	if ev.T != 22 {
		return
	}
	for i, f := range ev.Fx {
		if m := setRVBlobTTL.FindStringSubmatch(f); m != nil {
			ev.Fx[i] = m[1] + ":any"
		}
	}
}
