// Package cfgx runs the onboarding chain of spec/Config.tla (C09) under one crypto configuration:
// DI, extension, TO0, TO1 (or rendezvous bypass), TO2 (replacement or reuse), resale, second TO2,
// over the HTTP handler/transport, sniffing the wire for the negotiated suite and for plaintext.
package cfgx

import (
	"bytes"
	"context"
	"fmt"
	"time"

	"github.com/fido-device-onboard/go-fdo/cose"
	"github.com/fido-device-onboard/go-fdo/kex"
	"github.com/fido-device-onboard/go-fdo/protocol"

	"verifharness/cb"
	"verifharness/world"
)

// Tuple is one configuration (names as in Config.tla).
type Tuple struct {
	Dev    string `json:"dev"`
	Owner  string `json:"owner"`
	Enc    string `json:"enc"`
	Kex    string `json:"kex"`
	Cipher string `json:"cipher"`
	Reuse  bool   `json:"reuse"`
	To1    bool   `json:"to1"`
}

// Case pairs a tuple with the specification's label.
type Case struct {
	Cfg   Tuple `json:"cfg"`
	Valid bool  `json:"valid"`
	Hash  int   `json:"hash"`
}

// Result of one chain.
type Result struct {
	Idx       int      `json:"idx"`
	Steps     []string `json:"steps"` // "di:ok", "to2:err", ...
	Completed bool     `json:"completed"`
	FailedAt  string   `json:"failedAt,omitempty"`
	Err       string   `json:"err,omitempty"`
	Resp60    int      `json:"resp60"`  // response type to the first HelloDevice
	Sent64    bool     `json:"sent64"`
	KexOnWire string   `json:"kexOnWire"`
	CipherOnWire int64 `json:"cipherOnWire"`
	Plain     string   `json:"plain,omitempty"`  // evidence of unencrypted tunnel traffic
	HashAlg   int      `json:"hashAlg"`          // strength of the credential's key hash
	Panic     string   `json:"panic,omitempty"`
	Mismatch  string   `json:"mismatch,omitempty"`
}

var encOf = map[string]protocol.KeyEncoding{"X509": protocol.X509KeyEnc, "X5CHAIN": protocol.X5ChainKeyEnc, "COSE": protocol.CoseKeyEnc}
var cipherOf = map[string]kex.CipherSuiteID{
	"A128GCM": kex.A128GcmCipher, "A192GCM": kex.A192GcmCipher, "A256GCM": kex.A256GcmCipher,
	"AES128CBC": kex.CoseAes128CbcCipher, "AES128CTR": kex.CoseAes128CtrCipher,
	"AES256CBC": kex.CoseAes256CbcCipher, "AES256CTR": kex.CoseAes256CtrCipher,
}

// Run executes the chain.
func Run(idx int, c Case) (r Result) {
	r = Result{Idx: idx}
	defer func() {
		if p := recover(); p != nil {
			r.Panic = fmt.Sprintf("%v @ %s", p, world.TopLibFrame())
			r.Mismatch = "panic"
		}
	}()
	t := c.Cfg
	ctx, cancel := context.WithTimeout(context.Background(), 120*time.Second)
	defer cancel()
	w := world.New(world.Options{Kind: world.KeyKind(t.Owner), Enc: encOf[t.Enc], Reuse: t.Reuse, Separate: true})
	defer w.Close()
	dev := w.NewDevice(world.KeyKind(t.Dev))
	step := func(name string, err error) bool {
		if err != nil {
			r.Steps = append(r.Steps, name+":err")
			if r.FailedAt == "" {
				r.FailedAt, r.Err = name, err.Error()
			}
			return false
		}
		r.Steps = append(r.Steps, name+":ok")
		return true
	}
	_, err := w.RunDI(ctx, dev, nil)
	if !step("di", err) {
		return r.judge(c)
	}
	switch dev.Cred.PublicKeyHash.Algorithm {
	case protocol.Sha256Hash:
		r.HashAlg = 256
	case protocol.Sha384Hash:
		r.HashAlg = 384
	}
	_, err = w.Handover(ctx, dev.Cred.GUID)
	if !step("extend", err) {
		return r.judge(c)
	}
	var blob *cose.Sign1[protocol.To1d, []byte]
	if t.To1 {
		_, err = w.RunTO0(ctx, dev.Cred.GUID, 3600, nil)
		if !step("to0", err) {
			return r.judge(c)
		}
		blob, err = w.RunTO1(ctx, dev, nil)
		if !step("to1", err) {
			return r.judge(c)
		}
	}
	first := true
	sniff := &world.Hook{
		Request: func(x *world.Exchange) bool {
			switch {
			case x.ReqType == 60:
				if n, err := cb.DecodeAll(x.ReqBody); err == nil && len(n.Kids) == 6 {
					r.KexOnWire = string(n.Kids[3].Bytes)
					r.CipherOnWire = asInt(n.Kids[4])
				}
			case x.ReqType == 64:
				r.Sent64 = true
			case x.ReqType >= 66 && x.ReqType <= 70:
				r.checkTunnel(x.ReqBody, int(x.ReqType))
			}
			return false
		},
		Response: func(x *world.Exchange) bool {
			if x.ReqType == 60 && first {
				first = false
				r.Resp60 = int(x.RespType)
			}
			if x.RespType >= 65 && x.RespType <= 71 {
				r.checkTunnel(x.RespBody, int(x.RespType))
			}
			return false
		},
	}
	opts := world.TO2Opts{Kex: kex.Suite(t.Kex), Cipher: cipherOf[t.Cipher]}
	_, err = w.RunTO2(ctx, dev, blob, opts, sniff)
	if !step("to2", err) {
		return r.judge(c)
	}
	// resale to a second owner and onboarding there
	next := w.Keys.NewParty("owner2", w.Opt.Kind)
	var pub any = next.Key.Public()
	if w.Opt.Enc == protocol.X5ChainKeyEnc {
		pub = next.Chain
	}
	ov, err := w.TO2.Resell(ctx, dev.Cred.GUID, pub, nil)
	if err == nil {
		err = w.OwnerStore.DB.AddVoucher(ctx, ov)
	}
	if !step("resell", err) {
		return r.judge(c)
	}
	w.Owner = next
	w.OwnerKeys.Set(next)
	_, err = w.RunTO2(ctx, dev, nil, opts, sniff)
	if !step("to2b", err) {
		return r.judge(c)
	}
	r.Completed = true
	return r.judge(c)
}

func asInt(n *cb.Node) int64 {
	if n.Major == 0 {
		return int64(n.Val)
	}
	return -1 - int64(n.Val)
}

var markers = [][]byte{[]byte("verif-device"), []byte("devmod:"), []byte("amd64")}

func (r *Result) checkTunnel(body []byte, typ int) {
	if r.Plain != "" {
		return
	}
	n, err := cb.DecodeAll(body)
	if err != nil || n.Major != 6 || (n.Val != 16 && n.Val != 17) {
		r.Plain = fmt.Sprintf("type %d is not a COSE_Encrypt0/COSE_Mac0 object", typ)
		return
	}
	for _, m := range markers {
		if bytes.Contains(body, m) {
			r.Plain = fmt.Sprintf("type %d carries plaintext %q", typ, m)
			return
		}
	}
}

func (r Result) judge(c Case) Result {
	t := c.Cfg
	switch {
	case c.Valid && !r.Completed:
		r.Mismatch = "valid configuration did not complete: " + r.FailedAt
	case c.Valid && r.Plain != "":
		r.Mismatch = "tunnel not encrypted: " + r.Plain
	case c.Valid && (r.KexOnWire != t.Kex || r.CipherOnWire != int64(cipherOf[t.Cipher])):
		r.Mismatch = fmt.Sprintf("negotiated %s/%d instead of %s/%d", r.KexOnWire, r.CipherOnWire, t.Kex, cipherOf[t.Cipher])
	case c.Valid && r.HashAlg != c.Hash:
		r.Mismatch = fmt.Sprintf("credential key hash strength %d, specification says %d", r.HashAlg, c.Hash)
	case !c.Valid && r.Completed:
		r.Mismatch = "forbidden configuration completed"
	case !c.Valid && r.FailedAt != "to2":
		r.Mismatch = "forbidden configuration failed at " + r.FailedAt + " instead of TO2: " + r.Err
	case !c.Valid && r.Sent64:
		r.Mismatch = "forbidden configuration: device sent ProveDevice"
	case !c.Valid && r.Resp60 != 255:
		r.Mismatch = fmt.Sprintf("forbidden configuration: owner answered HelloDevice with %d instead of an error", r.Resp60)
	case !c.Valid && r.KexOnWire != t.Kex:
		r.Mismatch = "forbidden configuration: another suite was put on the wire: " + r.KexOnWire
	}
	return r
}
