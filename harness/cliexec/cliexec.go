// Package cliexec exercises the client roles (fdo.DI, TO0Client.RegisterBlob, fdo.TO1, fdo.TO2)
// with structure-aware mutations of the responses they receive (C10): at the wire level for every
// response position, and at the plaintext level (inside the tunnel) for TO2 messages 65..71 by
// wrapping the owner's responder. Observed per run: error / success, recovered panic with the top
// library frame, watchdog expiry.
package cliexec

import (
	"context"
	"fmt"
	"io"
	mrand "math/rand"
	"sync/atomic"
	"time"

	"github.com/fido-device-onboard/go-fdo/cbor"
	fdohttp "github.com/fido-device-onboard/go-fdo/http"
	"github.com/fido-device-onboard/go-fdo/kex"
	"github.com/fido-device-onboard/go-fdo/protocol"
	"github.com/fido-device-onboard/go-fdo/serviceinfo"

	"verifharness/cb"
	"verifharness/srvexec"
	"verifharness/world"
)

// Case is one mutated run.
type Case struct {
	Role  string `json:"role"`  // DI TO0 TO1 TO2
	Pos   int    `json:"pos"`   // response type to mutate
	Nth   int    `json:"nth"`   // which occurrence (0-based)
	Level string `json:"level"` // wire | plain
	Seed  int64  `json:"seed"`
	Kind  string `json:"kind"`
	Enc   int    `json:"enc,omitempty"`   // public key encoding in vouchers (0: X509)
	Sweep bool   `json:"sweep,omitempty"` // deterministic single-point mutant number Seed (cb.Sweep) instead of a random one
	// Level "signed" (positions 61 and 65, sweep only): the payload of the owner-signed COSE_Sign1 is
	// mutated and re-signed with the owner key, so the mutant passes the device's signature check.
	// With Fam also position 63: the payload of the voucher entry, re-signed with the manufacturer key.
	Fam string `json:"fam,omitempty"` // classed mutant (spec/Client_Gen.tla): family of cb.Families, Seed is the index within (message, level, family)
	Kex string `json:"kex,omitempty"` // key exchange suite of the TO2 run ("": the default for the key kind)
}

// TransportLimit is the default content length limit of the HTTP transport.
const TransportLimit = 65535

// mutate picks the mutant for a case.
func (c Case) mutate(tree *cb.Node, limit int) ([]byte, string) {
	if c.Fam != "" {
		cases := cb.Family(c.Fam, tree, 3, limit)
		if len(cases) == 0 {
			return tree.Encode(), c.Fam + ":none n=0"
		}
		k := cases[int(c.Seed%int64(len(cases)))]
		return k.Make(), fmt.Sprintf("%s:%s n=%d", c.Fam, k.What, len(cases))
	}
	if !c.Sweep {
		return cb.Mutate(tree, mrand.New(mrand.NewSource(c.Seed)))
	}
	cases := cb.Sweep(tree, 3)
	if len(cases) == 0 {
		return tree.Encode(), "sweep:none n=0"
	}
	k := cases[int(c.Seed%int64(len(cases)))]
	return k.Body, fmt.Sprintf("sweep:%s n=%d", k.What, len(cases))
}

// Event is the outcome.
type Event struct {
	Run     int    `json:"run"`
	Role    string `json:"role"`
	Pos     int    `json:"pos"`
	Level   string `json:"level"`
	What    string `json:"what"`
	Hit     bool   `json:"hit"` // the mutation was applied
	Outcome string `json:"outcome"` // ok | error | crash | hang
	Frame   string `json:"frame,omitempty"`
	Err     string `json:"err,omitempty"`
	Hex     string `json:"hex,omitempty"`
	Seed    int64  `json:"seed"`
	Fam     string `json:"fam,omitempty"`
}

type ownerMod struct{}

func (ownerMod) HandleInfo(_ context.Context, _ string, body io.Reader) error {
	_, _ = io.Copy(io.Discard, body)
	return nil
}
func (ownerMod) ProduceInfo(_ context.Context, p *serviceinfo.Producer) (bool, bool, error) {
	_ = p.WriteChunk("active", []byte{0xf5})
	_ = p.WriteChunk("ping", []byte{0x01})
	return false, true, nil
}

type devMod struct{}

func (devMod) Transition(bool) error { return nil }
func (devMod) Receive(_ context.Context, _ string, body io.Reader, _ func(string) io.Writer, _ func()) error {
	_, _ = io.Copy(io.Discard, body)
	return nil
}
func (devMod) Yield(context.Context, func(string) io.Writer, func()) error { return nil }

// mutResponder mutates the plaintext response of the wrapped responder.
type mutResponder struct {
	inner interface {
		protocol.Responder
		CryptSession(ctx context.Context) (kex.Session, error)
	}
	c     Case
	owner *world.Party
	mfg   *world.Party
	seen  int32
	what  *string
	hit  *bool
	raw  *[]byte
}

func (m *mutResponder) Respond(ctx context.Context, t uint8, msg io.Reader) (uint8, any) {
	rt, resp := m.inner.Respond(ctx, t, msg)
	if int(rt) != m.c.Pos {
		return rt, resp
	}
	if int(atomic.AddInt32(&m.seen, 1))-1 != m.c.Nth {
		return rt, resp
	}
	enc, err := cbor.Marshal(resp)
	if err != nil {
		return rt, resp
	}
	tree, err := cb.DecodeAll(enc)
	if err != nil {
		return rt, resp
	}
	limit := TransportLimit
	if m.c.Pos >= 65 {
		limit -= 256 // COSE_Encrypt0 / Mac0 framing, IV, tag, padding
	}
	if m.c.Level == "signed" && m.c.Pos == 63 {
		// resp is [OVEntryNum, OVEntry]; the entry is a COSE_Sign1 signed by the previous owner (the
		// manufacturer for the first entry): mutate its payload, sign again
		if len(tree.Kids) != 2 {
			return rt, resp
		}
		n := tree.Kids[1].Untag()
		if len(n.Kids) != 4 || n.Kids[2].Major != 2 {
			return rt, resp
		}
		pt, err := n.Kids[2].Inner()
		if err != nil {
			return rt, resp
		}
		pb, what := m.c.mutate(pt, limit-(len(enc)-len(n.Kids[2].Bytes))-8)
		ent, err := srvexec.ResignRaw(tree.Kids[1].Encode(), m.mfg.Key, m.mfg.Kind.PSS(), pb)
		if err != nil {
			return rt, resp
		}
		en, err := cb.DecodeAll(ent)
		if err != nil {
			return rt, resp
		}
		out := cb.Arr(tree.Kids[0], en).Encode()
		*m.what, *m.hit, *m.raw = "signed~"+what, true, out
		return rt, cbor.RawBytes(out)
	}
	if m.c.Level == "signed" {
		// resp is a COSE_Sign1 signed by the owner: mutate its payload, sign again
		n := tree.Untag()
		if len(n.Kids) != 4 || n.Kids[2].Major != 2 {
			return rt, resp
		}
		pt, err := n.Kids[2].Inner()
		if err != nil {
			return rt, resp
		}
		pb, what := m.c.mutate(pt, limit-(len(enc)-len(n.Kids[2].Bytes))-8)
		key := m.owner.Key
		out, err := srvexec.ResignRaw(enc, key, m.owner.Kind.PSS(), pb)
		if err != nil {
			return rt, resp
		}
		*m.what, *m.hit, *m.raw = "signed~"+what, true, out
		return rt, cbor.RawBytes(out)
	}
	b, what := m.c.mutate(tree, limit)
	*m.what, *m.hit, *m.raw = what, true, b
	return rt, cbor.RawBytes(b)
}
func (m *mutResponder) HandleError(ctx context.Context, e protocol.ErrorMessage) { m.inner.HandleError(ctx, e) }
func (m *mutResponder) CryptSession(ctx context.Context) (kex.Session, error) {
	return m.inner.CryptSession(ctx)
}

// Run executes one case in a fresh world.
func Run(run int, c Case) (ev Event) {
	ev = Event{Run: run, Role: c.Role, Pos: c.Pos, Level: c.Level, Seed: c.Seed, Fam: c.Fam, Outcome: "error"}
	kind := world.KeyKind(c.Kind)
	if kind == "" {
		kind = world.P256
	}
	w := world.New(world.Options{Kind: kind, Enc: protocol.KeyEncoding(c.Enc), OwnerModules: func(context.Context, string, serviceinfo.Devmod, []string) []world.NamedOwnerModule {
		return []world.NamedOwnerModule{{Name: "m1", Mod: ownerMod{}}}
	}})
	defer w.Close()
	ctx, cancel := context.WithTimeout(context.Background(), 25*time.Second)
	defer cancel()
	var what string
	var hit bool
	var raw []byte
	var seen int32
	hook := &world.Hook{Response: func(x *world.Exchange) bool {
		if c.Level != "wire" || int(x.RespType) != c.Pos {
			return false
		}
		if int(atomic.AddInt32(&seen, 1))-1 != c.Nth {
			return false
		}
		tree, err := cb.DecodeAll(x.RespBody)
		if err != nil {
			tree = cb.Arr()
		}
		x.RespBody, what = c.mutate(tree, TransportLimit)
		hit, raw = true, x.RespBody
		return false
	}}
	// prerequisites run honestly
	var dev *world.Device
	var err error
	prep := func() error {
		switch c.Role {
		case "DI":
			dev = w.NewDevice("")
			return nil
		default:
			dev, err = w.Onboard0(ctx, "")
			if err != nil {
				return err
			}
			if c.Role == "TO1" {
				_, err = w.RunTO0(ctx, dev.Cred.GUID, 3600, nil)
			}
			return err
		}
	}
	if err := prep(); err != nil {
		ev.Outcome, ev.Err = "setup", err.Error()
		return ev
	}
	if c.Level == "plain" || c.Level == "signed" {
		mr := &mutResponder{inner: w.TO2, c: c, owner: w.Owner, mfg: w.Mfg, what: &what, hit: &hit, raw: &raw}
		h := *(w.OwnerHandler)
		h.TO2Responder = mr
		w.OwnerHandler = &fdohttp.Handler{Tokens: h.Tokens, DIResponder: h.DIResponder, TO0Responder: h.TO0Responder, TO1Responder: h.TO1Responder, TO2Responder: mr}
	}
	done := make(chan struct{})
	go func() {
		defer close(done)
		defer func() {
			if r := recover(); r != nil {
				ev.Outcome = "crash"
				ev.Frame = world.TopLibFrame()
				ev.Err = fmt.Sprint(r)
			}
		}()
		var err error
		switch c.Role {
		case "DI":
			_, err = w.RunDI(ctx, dev, hook)
		case "TO0":
			_, err = w.RunTO0(ctx, dev.Cred.GUID, 3600, hook)
		case "TO1":
			_, err = w.RunTO1(ctx, dev, hook)
		case "TO2":
			_, err = w.RunTO2(ctx, dev, nil, world.TO2Opts{Modules: map[string]serviceinfo.DeviceModule{"m1": devMod{}}, Kex: kex.Suite(c.Kex)}, hook)
		}
		if err == nil {
			ev.Outcome = "ok"
		} else {
			ev.Err = err.Error()
			if len(ev.Err) > 200 {
				ev.Err = ev.Err[:200]
			}
		}
	}()
	select {
	case <-done:
	case <-time.After(40 * time.Second):
		// the context expired 15 s ago; a starved process on an overloaded machine gets more time
		// before the run is declared hung (a deadlocked role never returns)
		select {
		case <-done:
		case <-time.After(60 * time.Second):
			ev.Outcome = "hang"
		}
	}
	ev.What, ev.Hit = what, hit
	if ev.Outcome == "crash" || ev.Outcome == "hang" {
		if len(raw) > 4096 {
			raw = raw[:4096]
		}
		ev.Hex = fmt.Sprintf("%x", raw)
	}
	return ev
}
