// Package chunkx drives the real service-info chunking pipeline of go-fdo
// (serviceinfo.NewChunkOutPipe / NewChunkInPipe) for property C15 and records what it does as
// events for Chunk_Trace.tla.
//
// One run = one writer script (NextServiceInfo / Write / ForceNewMessage / Close through the real
// UnchunkWriter, executed by a producer goroutine), the batch packing loop of
// to2.go exchangeServiceInfoRound replicated statement by statement around the real
// ChunkReader.ReadChunk, and the reassembly side (ChunkWriter.WriteChunk,
// UnchunkReader.NextServiceInfo + body reads).  Value bytes are a running counter over the whole
// written stream (byte g has value g mod 251) so that loss, duplication and reordering are
// visible in every chunk and every reassembled body.
package chunkx

import (
	"encoding/json"
	"errors"
	"fmt"
	"io"
	mrand "math/rand"
	"runtime"
	"strings"
	"sync"
	"sync/atomic"
	"time"

	"github.com/fido-device-onboard/go-fdo/serviceinfo"
)

// Key is the abstract key of Chunk.tla: an identity letter and a length in bytes.
type Key struct {
	ID  string `json:"id"`
	Len int    `json:"len"`
}

// Op is one writer operation: next(key) | write(n) | yield | close.  write(0) is an empty Write
// call.  Operations that follow close are the writer's calls after Close ("late"): each must fail.
type Op struct {
	Op  string `json:"op"`
	Key *Key   `json:"key,omitempty"`
	N   int    `json:"n,omitempty"`
}

// Sched selects how the harness perturbs the goroutine schedule at its own call sites.
type Sched struct {
	Mode string `json:"mode"` // "", "gosched", "sleep", "writerfirst", "readerfirst", "mixed"
	Seed int64  `json:"seed"`
}

// Params is one run.
type Params struct {
	ID      int    `json:"id"`
	MTU     int    `json:"mtu"`
	Buffers int    `json:"buffers"`           // NewChunkOutPipe(buffers)
	InMode  string `json:"in_mode,omitempty"` // "seq" (server style: feed all, then read) | "conc" (unbuffered, reader goroutine) | "conc1"
	Script  []Op   `json:"script"`
	Sched   Sched  `json:"sched"`
	// FeedEmpty: the reassembly side also gets chunks with an empty value: "" (none) | "before"
	// (one before every chunk, with that chunk's key) | "after" (one after every chunk, same key) |
	// "both".  The feed is then logged call by call (feed / feedclose events).
	FeedEmpty string `json:"feed_empty,omitempty"`
	// BodyRead: size of the buffer the consumer of a reassembled value reads with (0 = io.ReadAll)
	BodyRead int `json:"body_read,omitempty"`
}

// ChunkObs is one emitted chunk as the specification sees it.
type ChunkObs struct {
	Key Key `json:"key"`
	N   int `json:"n"`
	KV  int `json:"kv"`
}

// Result of a run.
type Result struct {
	ID      int              `json:"id"`
	Batches [][]ChunkObs     `json:"batches"`
	Asm     []ChunkObs       `json:"asm"` // reassembled (key, n); KV unused
	ReadErr string           `json:"read_err,omitempty"`
	WErrs   []string         `json:"werrs,omitempty"`
	Hang    string           `json:"hang,omitempty"`
	BytesOK bool             `json:"bytes_ok"`
	Events  []map[string]any `json:"-"`
}

// KeyString builds the module and message names whose "module:message" key has the abstract
// identity and length.  Length 1 is ":" for every identity.
func KeyString(k Key) (module, message string) {
	if k.Len < 1 {
		panic("key length must be >= 1")
	}
	c := k.ID
	if c == "" {
		c = "a"
	}
	rest := k.Len - 1
	return strings.Repeat(c, rest/2), strings.Repeat(c, rest-rest/2)
}

// KeyOf maps a key string seen on the reader side back to the abstract key.
func KeyOf(s string) Key {
	id := "a"
	for _, r := range s {
		if r != ':' {
			id = string(r)
			break
		}
	}
	return Key{ID: id, Len: len(s)}
}

func keyJSON(k Key) map[string]any { return map[string]any{"id": k.ID, "len": k.Len} }

// seqInfo returns the first byte and whether the bytes are consecutive counter values.
func seqInfo(b []byte) (int, bool) {
	if len(b) == 0 {
		return 0, true
	}
	for i := range b {
		if int(b[i]) != (int(b[0])+i)%251 {
			return int(b[0]), false
		}
	}
	return int(b[0]), true
}

type perturb struct {
	mode string
	rng  *mrand.Rand
	mu   sync.Mutex
}

func (p *perturb) at(site string) {
	if p == nil || p.mode == "" {
		return
	}
	p.mu.Lock()
	x := p.rng.Intn(100)
	p.mu.Unlock()
	mode := p.mode
	if mode == "mixed" {
		mode = []string{"", "gosched", "sleep"}[x%3]
	}
	switch mode {
	case "gosched":
		for i := 0; i <= x%4; i++ {
			runtime.Gosched()
		}
	case "sleep":
		if x < 60 {
			time.Sleep(time.Duration(x%7) * 10 * time.Microsecond)
		} else {
			runtime.Gosched()
		}
	}
}

// Run executes one run against the real code.  It never panics; a panic of the library is
// recorded as a "crash" event, a watchdog expiry as a "hang" event.
func Run(p Params, watchdog time.Duration) *Result {
	res := &Result{ID: p.ID, BytesOK: true}
	done := make(chan struct{})
	var evs []map[string]any
	var evmu sync.Mutex
	emit := func(e map[string]any) {
		evmu.Lock()
		evs = append(evs, e)
		evmu.Unlock()
	}
	var stage atomic.Value
	stage.Store("start")
	go func() {
		defer close(done)
		defer func() {
			if r := recover(); r != nil {
				emit(map[string]any{"ev": "crash", "msg": fmt.Sprint(r)})
				res.Hang = "crash: " + fmt.Sprint(r)
			}
		}()
		run(p, res, emit, &stage)
	}()
	select {
	case <-done:
	case <-time.After(watchdog):
		evmu.Lock()
		st, _ := stage.Load().(string)
		res.Hang = "watchdog expired in stage " + st
		evs = append(evs, map[string]any{"ev": "hang", "where": st})
		// snapshot: the leaked goroutines may still append
		cp := make([]map[string]any, len(evs))
		copy(cp, evs)
		evmu.Unlock()
		res.Events = cp
		return res
	}
	res.Events = evs
	return res
}

func run(p Params, res *Result, emit func(map[string]any), stage *atomic.Value) {
	pt := &perturb{mode: p.Sched.Mode, rng: mrand.New(mrand.NewSource(p.Sched.Seed))}
	if p.Sched.Mode == "writerfirst" || p.Sched.Mode == "readerfirst" {
		pt.mode = ""
	}
	emit(map[string]any{"ev": "reset", "run": p.ID, "mtu": p.MTU, "buffers": p.Buffers, "feed_empty": p.FeedEmpty, "body_read": p.BodyRead})
	// the writer's script is logged as issued (program order of the producer); errors it sees are
	// logged after the reads (they are consequences of what the reader did)
	ops := make([]map[string]any, 0, len(p.Script))
	for _, op := range p.Script {
		switch op.Op {
		case "next":
			ops = append(ops, map[string]any{"op": "next", "key": keyJSON(*op.Key)})
		case "write":
			ops = append(ops, map[string]any{"op": "write", "n": op.N})
		default:
			ops = append(ops, map[string]any{"op": op.Op})
		}
	}
	emit(map[string]any{"ev": "script", "ops": ops})

	r, w := serviceinfo.NewChunkOutPipe(p.Buffers)

	// ---- producer goroutine: the module side -------------------------------------------------
	var werrs []string
	type lateT struct {
		op     string
		failed bool
	}
	var lates []lateT // outcomes of the calls after Close, in program order
	prodDone := make(chan struct{})
	writerFinished := make(chan struct{})
	readerStarted := make(chan struct{})
	go func() {
		defer close(prodDone)
		defer func() {
			if x := recover(); x != nil {
				werrs = append(werrs, fmt.Sprintf("panic: %v", x))
			}
		}()
		if p.Sched.Mode == "readerfirst" {
			<-readerStarted
			for i := 0; i < 20; i++ {
				runtime.Gosched()
			}
			time.Sleep(50 * time.Microsecond)
		}
		g := 0
		closed := false
		for i, op := range p.Script {
			pt.at("producer")
			var err error
			wasClosed := closed
			switch op.Op {
			case "next":
				mod, msg := KeyString(*op.Key)
				err = w.NextServiceInfo(mod, msg)
			case "write":
				b := make([]byte, op.N)
				for j := range b {
					b[j] = byte((g + j) % 251)
				}
				g += op.N
				var n int
				n, err = w.Write(b)
				if err == nil && n != op.N {
					err = fmt.Errorf("short write %d of %d", n, op.N)
				}
			case "yield":
				err = w.ForceNewMessage()
			case "close":
				err = w.Close()
				closed = true
			}
			if wasClosed {
				lates = append(lates, lateT{op.Op, err != nil})
				continue
			}
			if err != nil {
				werrs = append(werrs, fmt.Sprintf("%d:%s:%v", i, op.Op, err))
			}
		}
		close(writerFinished)
	}()

	// ---- consumer: the send loop of to2.go exchangeServiceInfoRound ------------------------
	stage.Store("read")
	if p.Sched.Mode == "writerfirst" && p.Buffers > 0 && countPipes(p.Script) <= p.Buffers {
		<-writerFinished
	}
	close(readerStarted)
	mtu := uint16(p.MTU)
	var batches [][]*serviceinfo.KV
	eof, failed := false, false
	empties := 0
	for !eof && !failed {
		var batch []*serviceinfo.KV
		maxRead := mtu
		for {
			pt.at("consumer")
			chunk, err := r.ReadChunk(maxRead)
			if errors.Is(err, io.EOF) {
				emit(map[string]any{"ev": "read", "size": int(maxRead), "out": "eof", "nkv": len(batch), "arr": int(serviceinfo.ArraySizeCBOR(batch))})
				eof = true
				break
			}
			if errors.Is(err, serviceinfo.ErrSizeTooSmall) {
				emit(map[string]any{"ev": "read", "size": int(maxRead), "out": "small", "nkv": len(batch), "arr": int(serviceinfo.ArraySizeCBOR(batch))})
				break
			}
			if err != nil {
				emit(map[string]any{"ev": "read", "size": int(maxRead), "out": "err", "msg": err.Error()})
				res.ReadErr = err.Error()
				failed = true
				break
			}
			c0, seq := seqInfo(chunk.Val)
			if !seq {
				res.BytesOK = false
			}
			emit(map[string]any{"ev": "read", "size": int(maxRead), "out": "chunk", "key": keyJSON(KeyOf(chunk.Key)),
				"n": len(chunk.Val), "kv": int(chunk.Size()), "c0": c0, "seq": seq})
			maxRead -= chunk.Size()
			batch = append(batch, chunk)
		}
		if failed {
			break
		}
		batches = append(batches, batch)
		if len(batch) == 0 {
			empties++
			if empties > len(p.Script)+4 {
				emit(map[string]any{"ev": "hang", "where": "livelock: the reader keeps answering ErrSizeTooSmall to a full budget"})
				res.Hang = "livelock"
				failed = true
			}
		}
	}
	// what to2.go does when the exchange ends or fails: close the reader, then the writer
	stage.Store("close")
	_ = r.Close()
	if failed {
		_ = w.Close()
	}
	<-prodDone
	for _, e := range werrs {
		emit(map[string]any{"ev": "werr", "msg": e})
	}
	for _, l := range lates {
		emit(map[string]any{"ev": "late", "op": l.op, "failed": l.failed})
		if !l.failed {
			werrs = append(werrs, "call after Close succeeded: "+l.op)
		}
	}
	res.WErrs = werrs
	for _, b := range batches {
		ob := []ChunkObs{}
		for _, kv := range b {
			ob = append(ob, ChunkObs{Key: KeyOf(kv.Key), N: len(kv.Val), KV: int(kv.Size())})
		}
		res.Batches = append(res.Batches, ob)
	}
	if failed {
		return
	}

	// ---- reassembly: ChunkWriter / UnchunkReader -------------------------------------------
	stage.Store("reassemble")
	total := 0
	for _, b := range batches {
		total += len(b)
	}
	inbuf := total
	conc := false
	switch p.InMode {
	case "conc":
		inbuf, conc = 0, true
	case "conc1":
		inbuf, conc = 1, true
	}
	ur, cw := serviceinfo.NewChunkInPipe(inbuf)
	type asmT struct {
		key  string
		body []byte
		err  error
	}
	var asm []asmT
	readAll := func() {
		for {
			key, body, ok := ur.NextServiceInfo()
			if !ok {
				return
			}
			pt.at("unchunk")
			var b []byte
			var err error
			if p.BodyRead <= 0 {
				b, err = io.ReadAll(body)
			} else {
				// a consumer with a small buffer: every Read may return fewer bytes than asked for,
				// (0, nil) included; only io.EOF ends the value
				buf := make([]byte, p.BodyRead)
				for {
					n, rerr := body.Read(buf)
					b = append(b, buf[:n]...)
					if rerr == io.EOF {
						break
					}
					if rerr != nil {
						err = rerr
						break
					}
				}
			}
			_ = body.Close()
			asm = append(asm, asmT{key, b, err})
		}
	}
	rdDone := make(chan struct{})
	if conc {
		go func() { defer close(rdDone); readAll() }()
	}
	nfed, feedErr := 0, ""
	perCall := p.FeedEmpty != ""
	feedOne := func(kv *serviceinfo.KV) {
		pt.at("feed")
		err := cw.WriteChunk(kv)
		if err != nil && feedErr == "" {
			feedErr = err.Error()
		}
		if perCall {
			e := map[string]any{"ev": "feed", "key": keyJSON(KeyOf(kv.Key)), "n": len(kv.Val)}
			if err != nil {
				e["err"] = err.Error()
			}
			emit(e)
		}
	}
	for _, b := range batches {
		for _, kv := range b {
			if p.FeedEmpty == "before" || p.FeedEmpty == "both" {
				feedOne(&serviceinfo.KV{Key: kv.Key, Val: []byte{}})
			}
			feedOne(kv)
			nfed++
			if p.FeedEmpty == "after" || p.FeedEmpty == "both" {
				feedOne(&serviceinfo.KV{Key: kv.Key, Val: []byte{}})
			}
		}
	}
	cerr := cw.Close()
	if cerr != nil && feedErr == "" {
		feedErr = cerr.Error()
	}
	if perCall {
		e := map[string]any{"ev": "feedclose"}
		if cerr != nil {
			e["err"] = cerr.Error()
		}
		emit(e)
	} else {
		// every chunk, in the order read, was given to WriteChunk, then Close
		fe := map[string]any{"ev": "feeds", "count": nfed}
		if feedErr != "" {
			fe["err"] = feedErr
		}
		emit(fe)
	}
	if conc {
		<-rdDone
	} else {
		readAll()
	}
	for _, a := range asm {
		c0, seq := seqInfo(a.body)
		if !seq {
			res.BytesOK = false
		}
		e := map[string]any{"ev": "unchunk", "key": keyJSON(KeyOf(a.key)), "n": len(a.body), "c0": c0, "seq": seq}
		if a.err != nil {
			e["err"] = a.err.Error()
		}
		emit(e)
		res.Asm = append(res.Asm, ChunkObs{Key: KeyOf(a.key), N: len(a.body)})
	}
	emit(map[string]any{"ev": "end"})
	stage.Store("done")
}

func countPipes(s []Op) int {
	n := 0
	for _, op := range s {
		if op.Op == "next" || op.Op == "yield" {
			n++
		}
	}
	return n
}

// MarshalEvents renders events as NDJSON.
func MarshalEvents(evs []map[string]any) []byte {
	var sb strings.Builder
	for _, e := range evs {
		b, _ := json.Marshal(e)
		sb.Write(b)
		sb.WriteByte('\n')
	}
	return []byte(sb.String())
}
