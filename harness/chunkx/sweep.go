package chunkx

import (
	mrand "math/rand"
	"sort"
)

// KeyLens are the key lengths of the sweep (CBOR text-string head boundary at 24; 255/256 are
// added for large MTUs in the thorough tier).
var KeyLens = []int{1, 4, 22, 23, 24, 40}

func thead(n int) int {
	switch {
	case n < 24:
		return 1
	case n < 256:
		return 2
	default:
		return 3
	}
}

// rawKeyLen is the encoded length of a key of n bytes (the harness' own arithmetic, used only to
// choose inputs; expectations come from the specification).
func rawKeyLen(n int) int { return thead(n) + n }

func kvSize(klen, n int) int { return 1 + rawKeyLen(klen) + thead(n) + n }

// fullChunk is the number of value bytes a chunk at the given budget carries when the message
// does not end (the harness' own arithmetic for choosing inputs only).
func fullChunk(klen, size int) int {
	o := rawKeyLen(klen) + 2
	if size-o >= 24 {
		o++
	}
	if size-o >= 256 {
		o++
	}
	return size - o
}

// lenFor returns a value length n >= 1 whose KV at key length klen has size budget-rem, or 0.
func lenFor(budget, klen, rem int) int {
	for h := 1; h <= 3; h++ {
		n := budget - rem - 1 - rawKeyLen(klen) - h
		if n >= 1 && thead(n) == h {
			return n
		}
	}
	return 0
}

func keyFor(id string, klen int) *Key {
	if klen == 1 {
		id = "a"
	}
	return &Key{ID: id, Len: klen}
}

// split a value of n bytes into at most k writes (k in 1..3), pattern chosen by x.
func split(n, k, x int) []int {
	if k <= 1 || n < 2 {
		return []int{n}
	}
	if k == 2 || n < 3 {
		var a int
		switch x % 3 {
		case 0:
			a = 1
		case 1:
			a = n - 1
		default:
			a = n / 2
		}
		return []int{a, n - a}
	}
	switch x % 3 {
	case 0:
		return []int{1, 1, n - 2}
	case 1:
		return []int{n - 2, 1, 1}
	default:
		a := n / 3
		return []int{a, a, n - 2*a}
	}
}

// zeroMix inserts empty writes into a split: z = 1 one before every part, z = 2 one after every
// part, z = 3 before every part and after the last one (Chunk.tla ZeroMix), z = 4 at one place
// chosen by x (possibly doubled).
func zeroMix(sp []int, z, x int) []int {
	var out []int
	switch z {
	case 1, 2, 3:
		for _, n := range sp {
			if z == 1 || z == 3 {
				out = append(out, 0)
			}
			out = append(out, n)
			if z == 2 {
				out = append(out, 0)
			}
		}
		if z == 3 {
			out = append(out, 0)
		}
	case 4:
		at := x % (len(sp) + 1)
		for i, n := range sp {
			if i == at {
				out = append(out, 0)
				if x%5 == 0 {
					out = append(out, 0)
				}
			}
			out = append(out, n)
		}
		if at == len(sp) {
			out = append(out, 0)
		}
	default:
		return sp
	}
	return out
}

// lateOps are the calls a writer may still make after Close; each must fail and change nothing.
var lateOps = [][]string{{"write"}, {"close"}, {"write", "close", "next", "yield"}, {"next", "write", "close"}, {"yield", "write0"}}

func withLate(s []Op, names []string) []Op {
	for _, n := range names {
		switch n {
		case "next":
			s = append(s, Op{Op: "next", Key: keyFor("a", 4)})
		case "write":
			s = append(s, Op{Op: "write", N: 1})
		case "write0":
			s = append(s, Op{Op: "write", N: 0})
		default:
			s = append(s, Op{Op: n})
		}
	}
	return s
}

var feedEmpties = []string{"", "", "", "before", "after", "both"}
var bodyReads = []int{0, 0, 0, 1, 2, 5, 64}

// Msg is one logical message of a script under construction.
type Msg struct {
	Key    *Key
	Len    int
	Splits []int
}

// BuildScript renders messages and yield placements (yield before message i for i in yields;
// i == len(msgs) means a yield before Close) as writer operations.
func BuildScript(msgs []Msg, yields map[int]bool) []Op {
	var s []Op
	for i, m := range msgs {
		if yields[i] {
			s = append(s, Op{Op: "yield"})
		}
		s = append(s, Op{Op: "next", Key: m.Key})
		sp := m.Splits
		if len(sp) == 0 {
			sp = []int{m.Len}
		}
		for _, n := range sp {
			s = append(s, Op{Op: "write", N: n})
		}
	}
	if yields[len(msgs)] {
		s = append(s, Op{Op: "yield"})
	}
	s = append(s, Op{Op: "close"})
	return s
}

// MTUBands returns the MTUs of the sweep for a script whose longest key is maxKeyLen bytes.
func MTUBands(maxKeyLen int, thorough bool) []int {
	set := map[int]bool{}
	base := 7 + rawKeyLen(maxKeyLen) // smallest budget at which the code reads a key at all (documented minimum overhead)
	for m := base; m <= base+64; m++ {
		set[m] = true
	}
	for m := 251; m <= 260; m++ {
		set[m] = true
	}
	for _, m := range []int{1295, 1300} {
		set[m] = true
	}
	for m := 65527; m <= 65535; m++ {
		set[m] = true
	}
	b24, b256 := BoundaryMTUs(base)
	for _, m := range append(b24, b256...) {
		set[m-1], set[m], set[m+1] = true, true, true
	}
	if thorough {
		for _, m := range []int{100, 128, 300, 512, 4096, 32768} {
			set[m] = true
		}
	}
	var out []int
	for m := range set {
		if m >= base {
			out = append(out, m)
		}
	}
	sort.Ints(out)
	return out
}

// BoundaryMTUs returns the budgets at which a chunk's value is exactly 23/24 resp. 255/256 bytes
// for one of the key lengths (rawkey+2+24 and rawkey+3+256), not below min.
func BoundaryMTUs(min int) (b24, b256 []int) {
	for _, k := range KeyLens {
		if m := rawKeyLen(k) + 26; m >= min {
			b24 = append(b24, m)
		}
		if m := rawKeyLen(k) + 259; m >= min {
			b256 = append(b256, m)
		}
	}
	return
}

var schedModes = []string{"", "gosched", "sleep", "mixed", "writerfirst", "readerfirst"}
var bufferChoices = []int{0, 1, 2, 1000}
var inModes = []string{"seq", "conc", "conc1"}

// SweepParams enumerates the runs of the Go-side sweep.  The core grid (MTU x key1 x remainder x
// key2) is exhaustive for the MTUs taken; message count, spanning, yields, write splits, pipe
// buffering and schedule perturbation vary per run from the seed.
func SweepParams(thorough bool, seed int64, limit int) []Params {
	rng := mrand.New(mrand.NewSource(seed))
	var out []Params
	add := func(p Params) {
		p.ID = len(out) + 1
		p.Sched.Seed = rng.Int63()
		out = append(out, p)
	}
	keyLens := KeyLens
	mtus := MTUBands(40, thorough)
	if !thorough {
		// one MTU per band, chosen by the seed, the fixed landmark, and one budget on each
		// head-size boundary of the overhead computation (value of 23/24 and 255/256 bytes)
		min := 7 + rawKeyLen(40)
		b24, b256 := BoundaryMTUs(min)
		mtus = []int{min + rng.Intn(8), min + 8 + rng.Intn(57), 251 + rng.Intn(10), 1300, 65527 + rng.Intn(9),
			b24[rng.Intn(len(b24))], b256[rng.Intn(len(b256))]}
	}
	for _, mtu := range mtus {
		for _, k1 := range keyLens {
			for rem := 0; rem <= 40; rem++ {
				for _, k2 := range keyLens {
					span := 0
					if rng.Intn(4) == 0 {
						span = 1
					}
					n1 := lenFor(mtu, k1, rem)
					if n1 == 0 {
						continue
					}
					if span == 1 {
						n1 += fullChunk(k1, mtu)
					}
					id2 := "b"
					if rng.Intn(6) == 0 {
						id2 = "a" // equal keys when the lengths agree: reassembly concatenates
					}
					len2 := []int{1, 2, 3, 5, 30, 300}[rng.Intn(6)]
					if rng.Intn(8) == 0 {
						len2 = 1 + rng.Intn(2*mtu)
					}
					msgs := []Msg{{Key: keyFor("a", k1), Len: n1}, {Key: keyFor(id2, k2), Len: len2}}
					if rng.Intn(3) == 0 {
						k3 := keyLens[rng.Intn(len(keyLens))]
						msgs = append(msgs, Msg{Key: keyFor([]string{"a", "b", "c"}[rng.Intn(3)], k3), Len: 1 + rng.Intn(40)})
					}
					yields := map[int]bool{}
					if rng.Intn(5) == 0 {
						yields[rng.Intn(len(msgs)+1)] = true
						if rng.Intn(3) == 0 {
							yields[rng.Intn(len(msgs)+1)] = true
						}
					}
					for i := range msgs {
						if rng.Intn(3) == 0 {
							msgs[i].Splits = split(msgs[i].Len, 2+rng.Intn(2), rng.Intn(3))
						}
						if rng.Intn(4) == 0 { // empty writes before, between and after the parts
							sp := msgs[i].Splits
							if len(sp) == 0 {
								sp = []int{msgs[i].Len}
							}
							msgs[i].Splits = zeroMix(sp, 1+rng.Intn(4), rng.Intn(30))
						}
					}
					script := BuildScript(msgs, yields)
					if rng.Intn(8) == 0 {
						script = withLate(script, lateOps[rng.Intn(len(lateOps))])
					}
					add(Params{MTU: mtu, Buffers: bufferChoices[rng.Intn(len(bufferChoices))], InMode: inModes[rng.Intn(len(inModes))],
						Script: script, Sched: Sched{Mode: schedModes[rng.Intn(len(schedModes))]},
						FeedEmpty: feedEmpties[rng.Intn(len(feedEmpties))], BodyRead: bodyReads[rng.Intn(len(bodyReads))]})
				}
			}
		}
	}
	// single messages and all yield placements / splits at a few budgets
	for _, mtu := range mtus {
		for _, k1 := range keyLens {
			for rem := 0; rem <= 40; rem += 1 {
				n1 := lenFor(mtu, k1, rem)
				if n1 == 0 {
					continue
				}
				for y := 0; y < 4; y++ {
					yields := map[int]bool{}
					if y&1 != 0 {
						yields[0] = true
					}
					if y&2 != 0 {
						yields[1] = true
					}
					msgs := []Msg{{Key: keyFor("a", k1), Len: n1, Splits: split(n1, 1+rng.Intn(3), rng.Intn(3))}}
					if rng.Intn(3) == 0 {
						msgs[0].Splits = zeroMix(msgs[0].Splits, 1+rng.Intn(4), rng.Intn(30))
					}
					add(Params{MTU: mtu, Buffers: bufferChoices[rng.Intn(len(bufferChoices))], InMode: inModes[rng.Intn(len(inModes))],
						Script: BuildScript(msgs, yields), Sched: Sched{Mode: schedModes[rng.Intn(len(schedModes))]},
						FeedEmpty: feedEmpties[rng.Intn(len(feedEmpties))], BodyRead: bodyReads[rng.Intn(len(bodyReads))]})
				}
			}
		}
	}
	// long keys (text-string head of 2 and 3 bytes) at large budgets
	long := []int{255, 256, 300}
	for _, mtu := range []int{1300, 4096, 65535} {
		for _, k1 := range long {
			for _, k2 := range long {
				for rem := 0; rem <= 40; rem++ {
					n1 := lenFor(mtu, k1, rem)
					if n1 == 0 {
						continue
					}
					msgs := []Msg{{Key: keyFor("a", k1), Len: n1}, {Key: keyFor("b", k2), Len: 1 + rng.Intn(600)}}
					add(Params{MTU: mtu, Buffers: bufferChoices[rng.Intn(len(bufferChoices))], InMode: inModes[rng.Intn(len(inModes))],
						Script: BuildScript(msgs, nil), Sched: Sched{Mode: schedModes[rng.Intn(len(schedModes))]}})
				}
			}
		}
	}
	// the longest keys a service info can carry at all (7 + raw key = 65535) at the largest budget
	for _, k1 := range []int{65000, 65524, 65525} {
		for rem := 0; rem <= 40; rem++ {
			n1 := lenFor(65535, k1, rem)
			if n1 == 0 {
				continue
			}
			msgs := []Msg{{Key: keyFor("a", k1), Len: n1}, {Key: keyFor("b", []int{4, 65525}[rng.Intn(2)]), Len: 1 + rng.Intn(20)}}
			if rng.Intn(2) == 0 {
				msgs[0].Splits = zeroMix([]int{n1}, 1+rng.Intn(3), 0)
			}
			add(Params{MTU: 65535, Buffers: bufferChoices[rng.Intn(len(bufferChoices))], InMode: inModes[rng.Intn(len(inModes))],
				Script: BuildScript(msgs, nil), Sched: Sched{Mode: schedModes[rng.Intn(len(schedModes))]}})
		}
	}
	// many short messages queued before anybody reads (what the owner does with a whole
	// DeviceServiceInfo message, and the device with an OwnerServiceInfo message): buffered pipes
	// asked for at least as many buffers as there are messages must take them all
	many := []Params{}
	for _, n := range []int{70, 140} {
		var msgs []Msg
		for i := 0; i < n; i++ {
			msgs = append(msgs, Msg{Key: keyFor([]string{"a", "b", "c"}[i%3], 4), Len: 1 + rng.Intn(3)}) // neighbouring keys differ
		}
		for _, b := range []int{n + 1, 1000} {
			p := Params{MTU: []int{1300, 65535, 256}[rng.Intn(3)], Buffers: b, InMode: inModes[rng.Intn(len(inModes))],
				Script: BuildScript(msgs, nil), Sched: Sched{Mode: "writerfirst"}}
			many = append(many, p)
		}
	}
	if limit > 0 && len(out)+len(many) > limit {
		rng.Shuffle(len(out), func(i, j int) { out[i], out[j] = out[j], out[i] })
		out = out[:limit-len(many)]
	}
	for _, p := range many {
		p.Sched.Seed = rng.Int63()
		out = append(out, p)
	}
	for i := range out {
		out[i].ID = i + 1
	}
	return out
}
