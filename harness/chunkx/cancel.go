package chunkx

import (
	"fmt"
	"runtime"
	"strings"
	"time"

	"github.com/fido-device-onboard/go-fdo/serviceinfo"
)

// CancelOutcome is what one cancellation run observed (Pipeline.tla, Cancel = TRUE): the consumer
// reads `reads` chunks, then does what to2.go does when the exchange ends early
// (ChunkReader.Close, UnchunkWriter.Close) while the producer goes on with its script.
type CancelOutcome struct {
	Buffers   int      `json:"buffers"`
	Reads     int      `json:"reads"`
	StopOnErr bool     `json:"stop_on_err"`
	Delay     int      `json:"delay"`
	Outcome   string   `json:"outcome"` // "clean" | "panic" | "hang"
	Detail    string   `json:"detail,omitempty"`
	Errs      []string `json:"errs,omitempty"`
}

// CancelRun executes one cancellation run.  delay is the number of scheduler yields the producer
// performs between two calls (it decides where the producer is when the writer is closed).
func CancelRun(buffers, reads int, stopOnErr bool, delay int, msgs int) CancelOutcome {
	out := CancelOutcome{Buffers: buffers, Reads: reads, StopOnErr: stopOnErr, Delay: delay, Outcome: "clean"}
	r, w := serviceinfo.NewChunkOutPipe(buffers)
	prod := make(chan string, 1)
	var errs []string
	go func() {
		res := ""
		defer func() {
			if x := recover(); x != nil {
				res = fmt.Sprint("panic: ", x)
			}
			prod <- res
		}()
		for i := 0; i < msgs; i++ {
			for j := 0; j < delay; j++ {
				runtime.Gosched()
			}
			if err := w.NextServiceInfo("m", fmt.Sprintf("k%d", i)); err != nil {
				errs = append(errs, "next: "+err.Error())
				if stopOnErr {
					break
				}
				continue
			}
			if _, err := w.Write([]byte{1, 2, 3}); err != nil {
				errs = append(errs, "write: "+err.Error())
				if stopOnErr {
					break
				}
			}
		}
		if err := w.Close(); err != nil {
			errs = append(errs, "close: "+err.Error())
		}
	}()
	cons := make(chan struct{})
	go func() {
		defer close(cons)
		for i := 0; i < reads; i++ {
			if _, err := r.ReadChunk(1300); err != nil {
				break
			}
		}
		_ = r.Close()
		_ = w.Close()
	}()
	timeout := time.After(5 * time.Second)
	select {
	case <-cons:
	case <-timeout:
		out.Outcome, out.Detail = "hang", "consumer"
		return out
	}
	select {
	case res := <-prod:
		if strings.HasPrefix(res, "panic") {
			out.Outcome, out.Detail = "panic", res
		}
	case <-timeout:
		out.Outcome, out.Detail = "hang", "producer"
	}
	out.Errs = errs
	return out
}
