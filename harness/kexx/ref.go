// Package kexx replays the behaviours of spec/Kex.tla on real go-fdo key exchange sessions
// (property C14) and holds the independent references the numeric part of the property is
// compared with: an SP 800-108 counter-mode KDF written from the NIST text, the RFC 3526 groups
// computed from their defining formula, and an own codec for the ECDH parameter layout.
package kexx

import (
	"crypto/hmac"
	"crypto/sha256"
	"crypto/sha512"
	"encoding/binary"
	"errors"
	"hash"
	"math/big"
	"sync"
)

// RefKDF is NIST SP 800-108r1 section 4.1 "KDF in Counter Mode":
//
//	n := ceil(L/h); result := empty
//	for i = 1..n: K(i) := PRF(K_IN, [i]_2 || Label || 0x00 || Context || [L]_2); result ||= K(i)
//	K_OUT := leftmost L bits of result
//
// with the FDO 1.1 section 3.6.4 parameters: r = 8 (one counter byte), [L]_2 in 16 bits big
// endian, Label = "FIDO-KDF", Context = "AutomaticOnboardTunnel" || ContextRand, PRF = HMAC with
// SHA-256 or SHA-384. lBits must be a multiple of 8.
func RefKDF(prf string, kIn, contextRand []byte, lBits int) ([]byte, error) {
	var newHash func() hash.Hash
	var hBits int
	switch prf {
	case "HMAC-SHA256":
		newHash, hBits = sha256.New, 256
	case "HMAC-SHA384":
		newHash, hBits = sha512.New384, 384
	default:
		return nil, errors.New("kexx: unknown PRF " + prf)
	}
	if lBits <= 0 || lBits%8 != 0 || lBits > 0xffff {
		return nil, errors.New("kexx: unsupported L")
	}
	n := (lBits + hBits - 1) / hBits
	if n > 255 {
		return nil, errors.New("kexx: n > 2^r - 1")
	}
	var fixed []byte // Label || 0x00 || Context || [L]_2
	fixed = append(fixed, "FIDO-KDF"...)
	fixed = append(fixed, 0x00)
	fixed = append(fixed, "AutomaticOnboardTunnel"...)
	fixed = append(fixed, contextRand...)
	var l2 [2]byte
	binary.BigEndian.PutUint16(l2[:], uint16(lBits))
	fixed = append(fixed, l2[:]...)
	var result []byte
	for i := 1; i <= n; i++ {
		m := hmac.New(newHash, kIn)
		m.Write([]byte{byte(i)})
		m.Write(fixed)
		result = m.Sum(result)
	}
	return result[:lBits/8], nil
}

// piFixed returns floor(pi * 2^bits) computed with Machin's formula
// pi = 16 atan(1/5) - 4 atan(1/239) in fixed point with guard bits.
func piFixed(bits uint) *big.Int {
	guard := uint(64)
	one := new(big.Int).Lsh(big.NewInt(1), bits+guard)
	atanInv := func(x int64) *big.Int {
		// atan(1/x) = sum_{k>=0} (-1)^k / ((2k+1) x^(2k+1))
		sum := new(big.Int)
		term := new(big.Int).Div(one, big.NewInt(x))
		x2 := big.NewInt(x * x)
		for k := int64(0); term.Sign() != 0; k++ {
			t := new(big.Int).Div(term, big.NewInt(2*k+1))
			if k%2 == 0 {
				sum.Add(sum, t)
			} else {
				sum.Sub(sum, t)
			}
			term.Div(term, x2)
		}
		return sum
	}
	pi := new(big.Int).Mul(atanInv(5), big.NewInt(16))
	pi.Sub(pi, new(big.Int).Mul(atanInv(239), big.NewInt(4)))
	return pi.Rsh(pi, guard)
}

// modpPrime computes the RFC 3526 MODP prime of the given size:
// p = 2^n - 2^(n-64) - 1 + 2^64 * ( floor(2^(n-130) pi) + c ).
func modpPrime(n uint, c int64) *big.Int {
	p := new(big.Int).Lsh(big.NewInt(1), n)
	p.Sub(p, new(big.Int).Lsh(big.NewInt(1), n-64))
	p.Sub(p, big.NewInt(1))
	t := piFixed(n - 130)
	t.Add(t, big.NewInt(c))
	t.Lsh(t, 64)
	return p.Add(p, t)
}

var (
	groupOnce sync.Once
	group14   *big.Int
	group15   *big.Int
)

// Group returns the RFC 3526 prime for DHKEXid14 (2048 bit, c = 124476) or DHKEXid15
// (3072 bit, c = 1690314); the generator is 2.
func Group(suite string) *big.Int {
	groupOnce.Do(func() {
		group14 = modpPrime(2048, 124476)
		group15 = modpPrime(3072, 1690314)
	})
	switch suite {
	case "DHKEXid14":
		return group14
	case "DHKEXid15":
		return group15
	}
	return nil
}

// EcParam is the FDO ECDH key exchange parameter: bstr[blen(Ax), Ax, blen(Ay), Ay, blen(r), r],
// each length a 16-bit big-endian integer (FDO 1.1 section 3.6.3).
type EcParam struct {
	X, Y, Rand []byte
}

// Encode writes the parameter.
func (p EcParam) Encode() []byte {
	var b []byte
	for _, f := range [][]byte{p.X, p.Y, p.Rand} {
		b = binary.BigEndian.AppendUint16(b, uint16(len(f)))
		b = append(b, f...)
	}
	return b
}

// ParseEcParam reads a well-formed parameter (no trailing bytes).
func ParseEcParam(b []byte) (EcParam, error) {
	var out [3][]byte
	for i := range out {
		if len(b) < 2 {
			return EcParam{}, errors.New("kexx: short ecdh parameter")
		}
		n := int(binary.BigEndian.Uint16(b))
		b = b[2:]
		if len(b) < n {
			return EcParam{}, errors.New("kexx: short ecdh parameter field")
		}
		out[i] = append([]byte(nil), b[:n]...)
		b = b[n:]
	}
	if len(b) != 0 {
		return EcParam{}, errors.New("kexx: trailing bytes in ecdh parameter")
	}
	return EcParam{X: out[0], Y: out[1], Rand: out[2]}, nil
}

// SEC1 returns the uncompressed point encoding 04 || X || Y.
func (p EcParam) SEC1() []byte {
	return append(append([]byte{4}, p.X...), p.Y...)
}
